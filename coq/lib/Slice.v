(* Integer model of pyiga.assemble.slice_indices / boundary_dofs (assemble.py:346-385)
   and of numpy's ravel_multi_index (C order) / itertools.product order.
   Executable definitions only. *)
From Coq Require Import List Arith Bool Lia.
Import ListNotations.

(* itertools.product of the lists ls: last factor varies fastest *)
Fixpoint product (ls : list (list nat)) : list (list nat) :=
  match ls with
  | [] => [[]]
  | l :: rest => flat_map (fun x => map (cons x) (product rest)) l
  end.

(* np.ravel_multi_index(idx, shape), C order *)
Fixpoint ravel_aux (acc : nat) (shape idx : list nat) : nat :=
  match shape, idx with
  | n :: shape', i :: idx' => ravel_aux (acc * n + i) shape' idx'
  | _, _ => acc
  end.
Definition ravel (shape idx : list nat) : nat := ravel_aux 0 shape idx.

(* flip[:ax] + (False,) + flip[ax:] *)
Definition insert_false (ax : nat) (flip : list bool) : list bool :=
  firstn ax flip ++ false :: skipn ax flip.

Fixpoint axdofs_aux (k ax idx : nat) (shape : list nat) (flip : list bool) : list (list nat) :=
  match shape with
  | [] => []
  | n :: shape' =>
      let fl := match flip with [] => false | f :: _ => f end in
      let r := if Nat.eqb k ax then [idx]
               else if fl then rev (seq 0 n) else seq 0 n in
      r :: axdofs_aux (S k) ax idx shape' (tl flip)
  end.

(* slice_indices(ax, idx, shape, ravel=False, flip): idx already wrapped to 0 <= idx.
   flip = None is modelled as the all-false list *)
Definition slice_multi (ax idx : nat) (shape : list nat) (flip : list bool) : list (list nat) :=
  product (axdofs_aux 0 ax idx shape (insert_false ax flip)).

Definition slice_indices (ax idx : nat) (shape : list nat) (flip : list bool) : list nat :=
  map (ravel shape) (slice_multi ax idx shape flip).

(* boundary_dofs(kvs, (ax, side), ravel=True, flip) with shape = numdofs per axis *)
Definition boundary_dofs (shape : list nat) (ax side : nat) (flip : list bool) : list nat :=
  let n := nth ax shape 0 in
  slice_indices ax (if Nat.eqb side 0 then 0 else n - 1) shape flip.
