"""C07 -- Geometry maps evaluate consistently on every route and constructions are exact.

Stages: (1) Coq obligations coq/C07/Props.v; (2) correspondence of the exact model
(coq/C07/Model.v over coq/lib/Bsp.v) with /repo's bspline.py / geometry.py on generated
spline / NURBS functions (every evaluation route, boundaries, operations), floats handed to
Coq as exact rationals and compared within the forward rounding bound derived below;
(3) the property predicate evaluated directly on the implementation with the independent
Fraction oracle of c07_oracle.py (the search for a failing input).

Rounding bounds (never tuned): a computed B-spline quantity  sum_I C_I prod_d N_d  differs from
its exact value by at most  2 * sum_I |C_I| [ prod_d(|N_d| + e_d) - prod_d|N_d| + (nterms+sdim+2) eps prod_d(|N_d|+e_d) ]
with e_d = 8(p+1) 2^k eps p!/(p-k)!/h^k the per-entry bound of the C02 tie; NURBS values, Jacobians
and Hessians are bounded by evaluating the expressions of geometry.py in interval arithmetic on those
enclosures (one relative rounding eps per operation).  Coefficient arrays produced by operations are
compared with 16 eps * (#terms+3) * magnitude.  Bounds are rounded up to a power of two and doubled.
"""
import math
import time
from fractions import Fraction

from harness.core import clist, log, parse_coq_list_of_nat
from harness.props import c07_oracle as O

PROPS = 'C07/Props.v'
EPS = O.EPS
fr = O.fr


def hx(x):
    return float(x).hex()


# ---------------------------------------------------------------------------
# generators

def gen_kv(rng, p, maxspans=3):
    nb = rng.randint(1, maxspans) + 1
    a = Fraction(rng.choice([0, 0, -8, 4, 1]), 8)
    b = [a]
    for _ in range(nb - 1):
        b.append(b[-1] + Fraction(rng.choice([1, 2, 2, 4, 4, 8]), 8))
    mults = [p + 1] + [rng.randint(1, max(p, 1)) for _ in range(nb - 2)] + [p + 1]
    kv = []
    for x, m in zip(b, mults):
        kv += [x] * m
    return kv, b, mults


def gen_coord(rng, b, kind=None):
    kind = kind or rng.choice(['random', 'random', 'random', 'knot', 'end'])
    if kind == 'end':
        return rng.choice([b[0], b[-1]])
    if kind == 'knot':
        return rng.choice(b)
    t = Fraction(rng.randint(1, 63), 64)
    return b[0] + (b[-1] - b[0]) * t


def gen_func(rng, sdim, kind, tail, pmax=3):
    kvs = []
    brk = []
    for _ in range(sdim):
        p = rng.randint(1, pmax)
        kv, b, mults = gen_kv(rng, p, 3 if sdim < 3 else 2)
        kvs.append({'p': p, 'kv': [hx(x) for x in kv], 'mults': mults})
        brk.append(b)
    N = [len(k['kv']) - k['p'] - 1 for k in kvs]
    ntot = 1
    for n in N:
        ntot *= n
    m = 1
    for t in tail:
        m *= t
    C = [Fraction(rng.randint(-32, 32), 8) for _ in range(ntot * m)]
    f = {'kind': kind, 'kvs': kvs, 'tail': list(tail), 'C': [hx(c) for c in C]}
    if kind == 'nurbs':
        f['W'] = [hx(Fraction(rng.randint(4, 24), 8)) for _ in range(ntot)]
    return f, brk


def gen_case(rng, sdim, kind, tail, thorough):
    f, brk = gen_func(rng, sdim, kind, tail, 4 if thorough and sdim < 3 else 3)
    grid = []
    for d in range(sdim):
        npts = 2 if (sdim == 3 or not thorough) else 3
        ax = sorted({gen_coord(rng, brk[d]) for _ in range(npts)})
        while len(ax) < 2:
            ax = sorted(set(ax) | {gen_coord(rng, brk[d], 'random')})
        grid.append([hx(x) for x in ax])
    npts = rng.choice([2, 3, 4])
    # scattered points in xyz order: coordinate j belongs to kvs[sdim-1-j]
    pts = [[hx(gen_coord(rng, brk[sdim - 1 - j])) for j in range(sdim)] for _ in range(npts)]
    shape = [2, 2] if npts == 4 and rng.random() < 0.7 else [npts]
    case = {'f': f, 'grid': grid, 'pts': pts, 'pts_shape': shape, 'brk': [[hx(x) for x in b] for b in brk]}
    case['ops'] = gen_ops(rng, case, thorough)
    return case


BDNAMES = ['left', 'right', 'bottom', 'top', 'front', 'back']


def gen_ops(rng, case, thorough):
    f = case['f']
    sdim = len(f['kvs'])
    tail = f['tail']
    kind = f['kind']
    ops = []
    vec = len(tail) == 1
    m = tail[0] if vec else None
    dy = lambda lo, hi: hx(Fraction(rng.randint(lo, hi), 4))
    # boundaries: every side by pair, names where they exist
    if sdim >= 2:
        specs = [[ax, side] for ax in range(sdim) for side in (0, 1)]
        names = BDNAMES[:2 * sdim]
        for spec in rng.sample(specs, 2 if not thorough else len(specs)) + rng.sample(names, 1 if not thorough else len(names)):
            ax = spec[0] if not isinstance(spec, str) else sdim - 1 - BDNAMES.index(spec) // 2
            g = [a for k, a in enumerate(case['grid']) if k != ax]
            # points of the boundary function in xyz order (coordinate of axis `ax` removed)
            pts = []
            for x in case['pts'][:2]:
                y = list(x)
                del y[sdim - 1 - ax]
                pts.append(y)
            ops.append({'op': 'boundary', 'arg': spec, 'grid': g, 'pts': pts})
            ops.append({'op': 'boundary_function', 'arg': spec, 'grid': g, 'pts': pts})
    for spec in BDNAMES + [[0, 0], [sdim - 1, 1], [sdim, 0], [-1, 1], [0, 2]]:
        ops.append({'op': 'parse_bdspec', 'arg': spec, 'dim': sdim})
    G = {'grid': case['grid'], 'pts': case['pts'][:2]}
    if len(tail) <= 1:
        ops.append(dict(op='translate', arg=[dy(-8, 8) for _ in range(m)] if vec and rng.random() < 0.8 else dy(-8, 8), **G))
        ops.append(dict(op='scale', arg=[dy(-8, 8) for _ in range(m)] if vec and rng.random() < 0.8 else dy(-8, 8), **G))
    if vec:
        rows = rng.randint(1, 3)
        ops.append(dict(op='apply_matrix', arg=[[dy(-8, 8) for _ in range(m)] for _ in range(rows)], **G))
        # documented argument forms: 'an array of matrices, one for each control point. Standard numpy broadcasting
        # rules apply': A.shape = ash + (rows, m) with ash the control-net shape, the control-net shape with axes of
        # size 1, a trailing part of it (leading axes dropped), all ones; and the single matrix as nested lists
        N_ = [len(k_['kv']) - k_['p'] - 1 for k_ in f['kvs']]
        forms = [('full', list(N_)), ('ones', [1] * sdim), ('list', [])]
        if sdim >= 2:
            forms.append(('tail', list(N_[1:])))
            one = list(N_)
            one[rng.randrange(sdim)] = 1
            forms.append(('mixed', one))
        for form, ash in forms:
            rows = rng.randint(1, 3)
            cnt = rows * m
            for a_ in ash:
                cnt *= a_
            ops.append(dict(op='apply_matrix_pc', form=form, ash=ash, rows=rows, arg=[dy(-8, 8) for _ in range(cnt)], **G))
        if m == 2:
            ops.append(dict(op='rotate_2d', arg=hx(rng.choice([0.5, -1.25, 2.0, math.pi / 2, 3.0, -0.1])), **G))
    if len(tail) >= 1:
        # component selection with every index kind (the index acts on the last trailing axis, length n)
        n = tail[-1]
        sl_pool = [[None, None, None], [1, None, None], [None, None, -1], [None, -1, None], [-2, None, None], [None, None, 2],
                   [-1, None, -1], [0, n, None], [-n, None, 2], [None, -n - 1, -1], [n + 2, None, -2]]
        sl_pool = [sl for sl in sl_pool if len(range(*slice(*sl).indices(n))) > 0]
        picks = [{'int': -1}, {'int': rng.randrange(-n, n)}, {'slice': rng.choice([sl for sl in sl_pool if sl[1] is None])},
                 {'slice': rng.choice(sl_pool)},
                 {rng.choice(['list', 'tuple']): [rng.randrange(-n, n) for _ in range(rng.randint(1, 3))] + [-1]}]
        if thorough:
            picks += [{'int': i} for i in range(-n, n)] + [{'slice': sl} for sl in sl_pool] + [{'list': [n - 1, -n]}, {'tuple': [0, -1]}]
        for a in picks:
            ops.append(dict(op='getitem', arg=a, **G))
        ops.append(dict(op='getitem', arg={'int': rng.choice([n, -n - 1, n + 3])}, expect='IndexError'))
    ops.append(dict(op='copy', **G))
    if len(tail) <= 1:
        ops.append(dict(op='as_nurbs', **G))
        ops.append(dict(op='as_vector', **G))
    if sdim >= 2:
        k = f['kvs']
        supp = []
        for d in range(sdim):
            b = [fr(h) for h in case['brk'][d]]
            supp.append([hx(b[0] + (b[-1] - b[0]) / 4), hx(b[-1] - (b[-1] - b[0]) / 4)])
        ops.append(dict(op='restrict_support', arg=supp, bd=rng.choice(BDNAMES[:2 * sdim]), **G))
        # partially restricted supports: every non-empty subset of the axes restricted, the others left at the
        # full knot span; boundaries on sides of restricted AND of untouched axes (thorough: every bdspec)
        import itertools as _it
        for sub in _it.product([False, True], repeat=sdim):
            if not any(sub):
                continue
            psupp = [supp[d] if sub[d] else [case['brk'][d][0], case['brk'][d][-1]] for d in range(sdim)]
            specs = BDNAMES[:2 * sdim] + [[ax_, sd_] for ax_ in range(sdim) for sd_ in (0, 1)]
            if not thorough:
                untouched = [sp for sp in specs if not sub[parse_expected(sp, sdim)[0]]]
                touched = [sp for sp in specs if sub[parse_expected(sp, sdim)[0]]]
                specs = ([rng.choice(untouched)] if untouched else []) + [rng.choice(touched)]
            bds = []
            for sp in specs:
                ax_ = parse_expected(sp, sdim)[0]
                grid_ = []
                for d in range(sdim):
                    if d == ax_:
                        continue
                    lo, hi = fr(psupp[d][0]), fr(psupp[d][1])
                    b_ = [fr(h) for h in case['brk'][d]]
                    pts_ = [lo, hi]                                   # the ends of the (restricted) range
                    if sub[d]:
                        pts_.append((b_[0] + lo) / 2)                 # a point outside the restricted range (inside the knot span)
                    grid_.append([hx(x) for x in pts_])
                bds.append({'bd': sp, 'grid': grid_, 'bbox': len(tail) <= 1})
            ops.append({'op': 'restricted_boundary', 'arg': psupp, 'restricted': list(sub), 'bds': bds})
    if kind == 'bsp' and len(tail) <= 1 and sdim <= 2:
        ops.append({'op': 'cylinderize', 'z0': dy(-4, 4), 'z1': dy(5, 9), 'support': [hx(Fraction(1, 2)), hx(Fraction(3, 2))],
                    'grid': [[hx(Fraction(3, 4)), hx(Fraction(5, 4))]] + case['grid']})
        # documented defaults: z0=0, z1=1, support=(0,1)
        g01 = [[hx(Fraction(1, 4)), hx(Fraction(3, 4)), hx(1)]] + case['grid']
        ops.append({'op': 'cylinderize', 'z0': dy(-4, 4), 'z1': dy(5, 9), 'grid': g01})
        ops.append({'op': 'cylinderize', 'z0': dy(2, 9), 'grid': g01})
        ops.append({'op': 'cylinderize', 'grid': g01})
    if len(tail) <= 1 and sdim <= 2:
        for name in ('outer_sum', 'outer_product', 'tensor_product'):
            osd = rng.randint(1, 3 - sdim)
            okind = rng.choice(['bsp', 'bsp', 'nurbs'])
            otail = list(tail) if name != 'tensor_product' else rng.choice([[], [1], [2]])
            other, obrk = gen_func(rng, osd, okind, otail, 2)
            og = [[hx(gen_coord(rng, obrk[d], 'random')), hx(gen_coord(rng, obrk[d], 'knot'))] for d in range(osd)]
            og = [sorted(set(a), key=float.fromhex) for a in og]
            self_is = rng.choice([1, 2])
            grid = case['grid'] + og if self_is == 1 else og + case['grid']
            ops.append({'op': name, 'other': other, 'self_is': self_is, 'grid': grid, 'ogrid': og})
    if vec and m == 2 and sdim <= 2:
        # geo2 o f: geo2 a single-span B-spline surface on [-4,4]^2 (contains the convex hull of f's coefficients)
        p2 = [rng.randint(1, 3), rng.randint(1, 3)]
        k2 = [{'p': p, 'kv': [hx(-4)] * (p + 1) + [hx(4)] * (p + 1)} for p in p2]
        t2 = rng.choice([[], [2], [3]])
        mm = 1
        for t in t2:
            mm *= t
        C2 = [hx(Fraction(rng.randint(-16, 16), 8)) for _ in range((p2[0] + 1) * (p2[1] + 1) * mm)]
        op = {'op': 'composed', 'other': {'kind': 'bsp', 'kvs': k2, 'tail': t2, 'C': C2}, 'grid': case['grid'], 'pts': case['pts'][:2]}
        if sdim == 2:
            op['bd'] = rng.choice(BDNAMES[:4])
            ax = 1 - BDNAMES.index(op['bd']) // 2
            op['bdgrid'] = [a for k, a in enumerate(case['grid']) if k != ax]
        ops.append(op)
    return ops


def gen_cases(ctx):
    rng = ctx.rng
    thorough = ctx.tier == 'thorough'
    cases = []
    dist = {}
    reps = 6 if thorough else 1
    combos = []
    for sdim in (1, 2, 3):
        combos += [(sdim, 'bsp', []), (sdim, 'bsp', [2]), (sdim, 'bsp', [3]), (sdim, 'bsp', [2, 2]),
                   (sdim, 'nurbs', []), (sdim, 'nurbs', [2]), (sdim, 'nurbs', [3]), (sdim, 'bsp', [1])]
    for _ in range(reps):
        for (sdim, kind, tail) in combos:
            cases.append(gen_case(rng, sdim, kind, tail, thorough))
            key = '%s/sdim%d/tail%s' % (kind, sdim, 'x'.join(map(str, tail)) or '-')
            dist[key] = dist.get(key, 0) + 1
    return cases, dist


# ---------------------------------------------------------------------------
# exact side

def tailclass(tail):
    return 'scalar' if not tail else ('vector' if len(tail) == 1 else 'matrix')


def oracle_func(fs, premult=True):
    """Func of the oracle for a function spec; NURBS: premultiplied numerator + weight (m+1 comps)"""
    kvs = [([fr(h) for h in k['kv']], k['p']) for k in fs['kvs']]
    N = [len(kv) - p - 1 for kv, p in kvs]
    m = 1
    for t in fs['tail']:
        m *= t
    C = [fr(h) for h in fs['C']]
    if fs['kind'] == 'bsp':
        return O.Func(kvs, N, m, C)
    W = [fr(h) for h in fs['W']]
    flat = []
    for i, w in enumerate(W):
        flat += [C[i * m + c] * w for c in range(m)] + [w]
    return O.Func(kvs, N, m + 1, flat)


def exact_at(of, kind, xs):
    """(val[m], jac[m][sdim], hess[m][nh]) exact and (b0,b1,b2) rounding bounds at xs"""
    if kind == 'bsp':
        (v, ve), (J, Je), (Hh, He) = O.bsp_jets(of, xs)
        b = (max(ve), max(max(r) for r in Je), max(max(r) for r in He))
        return (v, J, Hh), b
    val, jac, hess = O.nurbs_jets(of, xs)
    return (val, jac, hess), O.nurbs_bounds(of, xs)


def grid_points(grid):
    """all grid points in C order of the grid index; each as xyz coordinates"""
    import itertools
    axes = [[fr(h) for h in ax] for ax in grid]
    return [list(reversed(us)) for us in itertools.product(*axes)]


def getarr(r, shape_expected=None):
    """values of a guarded result as Fractions or None; shape check"""
    if 'ok' not in r:
        return None
    if shape_expected is not None and list(r['ok']['shape']) != list(shape_expected):
        return 'shape'
    return [fr(h) for h in r['ok']['v']]


class Checker:
    """Evaluates the conjuncts of the property on the implementation's outputs for one case."""

    def __init__(self, case, res):
        self.case = case
        self.res = res
        self.bad = []            # (code, text, detail)
        f = case['f']
        self.kind = f['kind']
        self.sdim = len(f['kvs'])
        self.tail = f['tail']
        self.m = 1
        for t in self.tail:
            self.m *= t
        self.of = oracle_func(f)
        self.nh = self.sdim * (self.sdim + 1) // 2

    def fail(self, code, text, **detail):
        self.bad.append((code, text, detail))

    def cmp(self, code, impl, exact, bound, what, xs=None):
        if impl is None:
            return
        for a, b in zip(impl, exact):
            if abs(a - b) > bound:
                self.fail(code, '%s: implementation %r, exact %r (bound %.3g)' % (what, float(a), float(b), float(bound)),
                          point=[float(x) for x in xs] if xs else None)
                return

    def route(self, r, name, shape):
        """array of a route, or None after recording why it is missing"""
        if 'err' in r:
            self.fail('%s-raises-%s' % (name, r['err']), '%s raised %s: %s' % (name, r['err'], r.get('msg')))
            return None
        if list(r['ok']['shape']) != list(shape):
            self.fail('%s-shape' % name, '%s has shape %s, documented shape %s' % (name, r['ok']['shape'], list(shape)))
            return None
        return [fr(h) for h in r['ok']['v']]

    def run_eval(self):
        case, ev = self.case, self.res['eval']
        sdim, m, nh, tail = self.sdim, self.m, self.nh, self.tail
        G = [len(ax) for ax in case['grid']]
        gp = grid_points(case['grid'])
        sp = [[fr(h) for h in x] for x in case['pts']]
        self.points = []      # per point: dict with xs, exact, bounds, impl route outputs (lists of Fractions or None)
        ge = self.route(ev['grid_eval'], 'grid_eval', G + tail)
        gj = self.route(ev['grid_jac'], 'grid_jacobian', G + tail + [sdim])
        hess_ok = len(tail) <= 1
        if hess_ok:
            htail = ([] if (not tail or (self.kind == 'bsp' and m == 1)) else tail) + [nh]
            gh = self.route(ev['grid_hess'], 'grid_hessian', G + htail)
        else:
            gh = None
            if 'err' not in ev['grid_hess'] or ev['grid_hess']['err'] != 'AssertionError':
                self.fail('grid_hessian-matrix', 'grid_hessian of a matrix-valued function did not refuse (documented: scalar and vector only)')
        g2 = self.route(ev['grid_eval_2d'], 'grid_eval(2-D axes)', G + tail)
        if ge is not None and g2 is not None and ge != g2:
            self.fail('grid_eval-2d-axes', 'grid_eval with (1,n)-shaped axes differs from 1-D axes')
        pshape = case['pts_shape']
        pe = self.route(ev['pw_eval'], 'pointwise_eval', pshape + tail)
        pj = self.route(ev['pw_jac'], 'pointwise_jacobian', pshape + tail + [sdim])
        ca = self.route(ev['call_array_x'], '__call__(array x)', [len(sp)] + tail) if 'call_array_x' in ev else None

        def piece(arr, k, size):
            return None if arr is None else arr[k * size:(k + 1) * size]
        for k, xs in enumerate(gp):
            self.points.append({'xs': xs, 'grid': True, 'vgrid': piece(ge, k, m), 'jgrid': piece(gj, k, m * sdim),
                                'hgrid': piece(gh, k, m * nh), 'vcall': None, 'vpw': None, 'jpw': None})
        for k, xs in enumerate(sp):
            c = ev['call'][k]
            vcall = None
            if 'err' in c:
                self.fail('call-raises-%s' % c['err'], '__call__ raised %s: %s' % (c['err'], c.get('msg')), point=[float(x) for x in xs])
            elif list(c['ok']['shape']) != tail:
                self.fail('call-shape', '__call__ at scalar coordinates returns shape %s, expected %s' % (c['ok']['shape'], tail))
            else:
                vcall = [fr(h) for h in c['ok']['v']]
            j1 = getarr(ev['jac1'][k])
            h1 = getarr(ev['hess1'][k]) if hess_ok else None
            self.points.append({'xs': xs, 'grid': False, 'vgrid': None, 'jgrid': j1, 'hgrid': h1, 'vcall': vcall,
                                'vpw': piece(pe, k, m), 'jpw': piece(pj, k, m * sdim)})
        # exact reference and the comparisons
        for P in self.points:
            xs = P['xs']
            (v, J, Hh), (b0, b1, b2) = exact_at(self.of, self.kind, xs)
            P['exact'] = (v, [x for row in J for x in row], [x for row in Hh for x in row])
            P['bounds'] = tuple(2 * O.pow2_ceil(b) for b in (b0, b1, b2))
            b0, b1, b2 = P['bounds']
            ex = P['exact']
            self.cmp('grid_eval-vs-ref', P['vgrid'], ex[0], b0, 'grid_eval differs from the exact map', xs)
            self.cmp('call-vs-ref', P['vcall'], ex[0], b0, '__call__ differs from the exact map', xs)
            self.cmp('pointwise_eval-vs-ref', P['vpw'], ex[0], b0, 'pointwise_eval differs from the exact map (and from __call__/grid_eval)', xs)
            self.cmp('grid_jacobian-vs-ref', P['jgrid'], ex[1], b1, 'grid_jacobian differs from the exact derivative (dim x sdim, x first)', xs)
            self.cmp('pointwise_jacobian-vs-ref', P['jpw'], ex[1], b1, 'pointwise_jacobian differs from the exact derivative', xs)
            self.cmp('grid_hessian-vs-ref', P['hgrid'], ex[2], b2, 'grid_hessian differs from the exact second derivatives (xx,xy,xz,yy,yz,zz)', xs)
            # route against route (the property's first conjunct), independent of the oracle
            if P['vcall'] is not None and P['vpw'] is not None:
                self.cmp('routes-call-vs-pointwise', P['vpw'], P['vcall'], 2 * b0, 'pointwise_eval differs from __call__', xs)
            if P['jgrid'] is not None and P['jpw'] is not None:
                self.cmp('routes-jac-grid-vs-pointwise', P['jpw'], P['jgrid'], 2 * b1, 'pointwise_jacobian differs from grid_jacobian', xs)
        # scattered points as multi-dimensional arrays in several memory layouts: element [idx] of the result is
        # the value / Jacobian at the point [idx], whatever the strides of the coordinate arrays
        spP = [P for P in self.points if not P['grid']]
        for lay in ev.get('layouts', []):
            shp = lay['shape']
            size = 1
            for t in shp:
                size *= t
            tag = '%dd-%s' % (len(shp), lay['layout'])
            le = self.route(lay['pw_eval'], 'pointwise_eval(%s)' % tag, shp + tail)
            lj = self.route(lay['pw_jac'], 'pointwise_jacobian(%s)' % tag, shp + tail + [sdim])
            for k in range(size):
                P = spP[k % len(spP)]
                b0, b1, _ = P['bounds']
                if le is not None:
                    self.cmp('pointwise_eval-layout-%s' % tag, le[k * m:(k + 1) * m], P['exact'][0], b0,
                             'pointwise_eval with %s coordinate arrays of shape %s: element %d is not the value at its point' % (lay['layout'], shp, k), P['xs'])
                if lj is not None:
                    self.cmp('pointwise_jacobian-layout-%s' % tag, lj[k * m * sdim:(k + 1) * m * sdim], P['exact'][1], b1,
                             'pointwise_jacobian with %s coordinate arrays of shape %s: element %d is not the Jacobian at its point' % (lay['layout'], shp, k), P['xs'])
        if ca is not None:
            # f(X, y0, z0) with an array X: the value at (X[k], y0, z0)
            for k in range(len(sp)):
                xs = [sp[k][0]] + sp[0][1:]
                (v, _, _), (b0, _, _) = exact_at(self.of, self.kind, xs)
                self.cmp('call-array', piece(ca, k, m), v, 2 * O.pow2_ceil(b0), '__call__ with an array coordinate differs from the exact map', xs)
        for gv in ev.get('grid_variants', []):
            if 'err' in gv:
                self.fail('grid-axes-%s-raises-%s' % (gv['kind'], gv['err']), 'grid_eval/grid_jacobian with grid axes given as %s raised %s: %s' % (gv['kind'], gv['err'], gv.get('msg')))
            elif not (gv['same_eval'] and gv['same_jac']):
                self.fail('grid-axes-%s' % gv['kind'], 'grid_eval/grid_jacobian with grid axes given as %s differ from the result for contiguous arrays of the same numbers' % gv['kind'])
        if self.res.get('reeval_same') not in (None, True):
            self.fail('history-reeval', 'grid_eval on the first grid after the other evaluations/operations on the same object does not reproduce the first result (%r)' % (self.res.get('reeval_same'),))
        if not self.res.get('unchanged', True):
            self.fail('mutated', 'evaluating / operating on the function changed its kvs/coeffs/support')


# ---------------------------------------------------------------------------
# Coq case files

HEADER = '''From Coq Require Import QArith Qcanon ZArith List Bool.
From Verif.lib Require Import Bsp.
From Verif.C07 Require Import Model Check ArgForms.
Import ListNotations.
'''


def cqc(x):
    x = Fraction(x)
    return '(q (%d) %d)' % (x.numerator, x.denominator)


def cql(xs):
    return clist(list(xs), cqc)


def coq_kvs(kvs):
    return clist(['(%s, %d%%nat)' % (cql([fr(h) for h in k['kv']]), k['p']) for k in kvs])


def coq_func(fs):
    N = [len(k['kv']) - k['p'] - 1 for k in fs['kvs']]
    m = 1
    for t in fs['tail']:
        m *= t
    Ns = clist(['%d%%nat' % n for n in N])
    C = cql([fr(h) for h in fs['C']])
    if fs['kind'] == 'bsp':
        return '(mk_bsp %s (arr %s %d%%nat %s) %d%%nat)' % (coq_kvs(fs['kvs']), Ns, m, C, m), m
    W = cql([fr(h) for h in fs['W']])
    return '(mk_nurbs %s (arr %s %d%%nat %s) (arr0 %s %s) %d%%nat)' % (coq_kvs(fs['kvs']), Ns, m, C, Ns, W, m), m


def coq_pt(P):
    L = lambda a: cql(a) if a is not None else '[]'
    b0, b1, b2 = P['bounds']
    return '(%s, (%s, %s, %s), (%s, %s, %s), (%s, %s), %s)' % (
        cql(P['xs']), cqc(b0), cqc(b1), cqc(b2), L(P['vcall']), L(P['vgrid']), L(P['vpw']), L(P['jgrid']), L(P['jpw']), L(P['hgrid']))


# ---------------------------------------------------------------------------
# operations: the returned object (class, knot vectors, coefficients) must define the documented map

def res_func(r):
    """oracle Func of a described result object (exact rationals of its float coefficients)"""
    kvs = [([fr(h) for h in k['kv']], k['p']) for k in r['kvs']]
    N = [len(kv) - p - 1 for kv, p in kvs]
    shp = r['coeffs']['shape']
    if shp[:len(N)] != N:
        return None
    m = 1
    for t in shp[len(N):]:
        m *= t
    return O.Func(kvs, N, m, [fr(h) for h in r['coeffs']['v']])


def res_value(rf, cls, xs):
    v = rf.deriv(xs, O.unit(rf.sdim))
    if cls == 'NurbsFunc':
        return [x / v[-1] for x in v[:-1]]
    return v


def value_of(of, kind, xs):
    v = of.deriv(xs, O.unit(of.sdim))
    if kind == 'nurbs':
        return [x / v[-1] for x in v[:-1]]
    return v


def fmax(hs):
    return max([abs(fr(h)) for h in hs] + [Fraction(1)])


def parse_expected(spec, dim):
    """documented meaning of a bdspec: (axis, side) or 'ValueError'"""
    if isinstance(spec, str):
        k = BDNAMES.index(spec)
        ax, side = dim - 1 - k // 2, k % 2      # left/right: x (last axis); bottom/top: y; front/back: z
    else:
        ax, side = spec
        if side not in (0, 1):
            return 'ValueError'
    if ax < 0 or ax >= dim:
        return 'ValueError'
    return [ax, side]


def kvs_equal(a, b):
    return len(a) == len(b) and all(x['p'] == y['p'] and x['kv'] == y['kv'] for x, y in zip(a, b))


def run_ops(ck):
    case, res = ck.case, ck.res
    f = case['f']
    sdim, kind, tail, m = ck.sdim, ck.kind, ck.tail, ck.m
    cls = 'BSplineFunc' if kind == 'bsp' else 'NurbsFunc'
    cmax = fmax(f['C'])
    wr = Fraction(1)
    if kind == 'nurbs':
        ws = [fr(h) for h in f['W']]
        wr = max(ws) / min(ws)
        cmax = cmax * max(ws)
    ck.coq_ops = []      # Coq boolean terms (strings using F for the model function)

    def barr(nterms, argmax, extra=Fraction(1)):
        return 2 * O.pow2_ceil(16 * EPS * (nterms + 3) * (1 + cmax) * (1 + argmax) * wr * wr * extra)

    for op, r in zip(case.get('ops', []), res['ops']):
        name = op['op']
        if name == 'parse_bdspec':
            exp = parse_expected(op['arg'], op['dim'])
            got = r.get('parsed') if r['status'] == 'Ok' else r['status']
            if got != exp:
                ck.fail('parse_bdspec', '_parse_bdspec(%r, %d) gives %r, documented %r' % (op['arg'], op['dim'], got, exp))
            if isinstance(op['arg'], str):
                term = 'parse_bdname %s %d%%nat' % (op['arg'].capitalize(), op['dim'])
            else:
                term = 'parse_bdpair (%d)%%Z (%d)%%Z %d%%nat' % (op['arg'][0], op['arg'][1], op['dim'])
            gt = 'Some (%d%%nat, %d%%nat)' % tuple(got) if isinstance(got, list) else 'None'
            if isinstance(got, list) or got == 'ValueError':
                ck.coq_ops.append('opair_eqb (%s) (%s)' % (term, gt))
            continue
        if op.get('expect'):
            if r['status'] != op['expect']:
                ck.fail('op-%s-no-%s' % (name, op['expect']), '%s(%r) gives %s, expected %s' % (name, op.get('arg'), r['status'], op['expect']))
            if name == 'getitem':
                ck.coq_ops.append('match ix_int %d%%nat (%d)%%Z with None => true | Some _ => false end' % (tail[-1], op['arg']['int']))
            continue
        if r['status'] != 'Ok':
            ck.fail('op-%s-raises-%s' % (name, r['status']), '%s raised %s: %s' % (name, r['status'], r.get('msg')), op=op.get('arg'))
            continue
        if not r.get('self_unchanged', True):
            ck.fail('op-%s-mutates' % name, '%s altered the object it was applied to' % name)
        if r.get('other_unchanged') is False:
            ck.fail('op-%s-mutates-other' % name, '%s altered its second operand' % name)
        pts_res = grid_points(op['grid']) if op.get('grid') else []
        expected = None           # function xs -> list of values of the documented map
        exp_cls = cls
        argmax = Fraction(1)
        nterms = 1
        coq = None
        if name in ('boundary', 'boundary_function'):
            ax, side = parse_expected(op['arg'], sdim)
            b = [fr(h) for h in case['brk'][ax]]
            fixed = b[0] if side == 0 else b[-1]

            def expected(xs, ax=ax, fixed=fixed):
                us = list(reversed(xs))
                us.insert(ax, fixed)
                return value_of(ck.of, kind, list(reversed(us)))
            if name == 'boundary':
                if not kvs_equal(r['kvs'], [k for i, k in enumerate(f['kvs']) if i != ax]):
                    ck.fail('boundary-kvs', 'boundary(%r) does not keep the knot vectors of the other axes in order' % (op['arg'],))
                coq = 'check_arr %s (boundary F %d%%nat %d%%nat) %s' % (cqc(barr(1, 1)), ax, side, cql([fr(h) for h in r['coeffs']['v']]))
                # tangential Jacobian of the extracted boundary
            else:
                exp_cls = '_BoundaryFunction'
                if r['axis'] != ax or fr(r['fixed']) != fixed:
                    ck.fail('boundary_function-axis', '_BoundaryFunction(%r): axis %r fixed %r, expected %r %r' % (op['arg'], r['axis'], float(fr(r['fixed'])), ax, float(fixed)))
                check_boundary_function(ck, op, r, ax, fixed)
        elif name == 'translate' or name == 'scale':
            a = op['arg']
            av = [fr(h) for h in a] if isinstance(a, list) else [fr(a)] * m
            argmax = max(abs(x) for x in av) + 1
            if name == 'translate':
                expected = lambda xs, av=av: [v + o for v, o in zip(value_of(ck.of, kind, xs), av)]
            else:
                expected = lambda xs, av=av: [v * o for v, o in zip(value_of(ck.of, kind, xs), av)]
            coq = 'check_arr %s (%s_%s F (lst %s)) %s' % (cqc(barr(2, argmax)), 'b' if kind == 'bsp' else 'n', name, cql(av),
                                                        cql([fr(h) for h in r['coeffs']['v']]))
        elif name in ('apply_matrix', 'rotate_2d'):
            if name == 'rotate_2d':
                ang = float.fromhex(op['arg'])
                A = [[Fraction(math.cos(ang)), -Fraction(math.sin(ang))], [Fraction(math.sin(ang)), Fraction(math.cos(ang))]]
            else:
                A = [[fr(h) for h in row] for row in op['arg']]
            argmax = max(abs(x) for row in A for x in row) + 1
            nterms = m
            expected = lambda xs, A=A: [sum(a * v for a, v in zip(row, value_of(ck.of, kind, xs))) for row in A]
            if name == 'apply_matrix':
                coq = 'check_arr %s (%s_matrix F (mat %s) %d%%nat) %s' % (
                    cqc(barr(m, argmax)), 'b' if kind == 'bsp' else 'n', clist([cql(row) for row in A]), len(A), cql([fr(h) for h in r['coeffs']['v']]))
        elif name == 'apply_matrix_pc':
            import itertools as _it2
            ash, rows_ = op['ash'], op['rows']
            Af = [fr(h) for h in op['arg']]
            N_ = [len(k_['kv']) - k_['p'] - 1 for k_ in f['kvs']]
            argmax = max(abs(x) for x in Af) + 1
            nterms = m

            def A_at(idx, ash=ash, rows_=rows_, Af=Af):
                # numpy broadcasting: align at the right, axes of size 1 read at 0
                sub = idx[len(idx) - len(ash):] if ash else []
                pos = 0
                for n_, i_ in zip(ash, sub):
                    pos = pos * n_ + (0 if n_ == 1 else i_)
                base = pos * rows_ * m
                return [[Af[base + r_ * m + c_] for c_ in range(m)] for r_ in range(rows_)]
            # exact control net of the documented map: control point idx mapped by its own matrix (weights unchanged)
            Cx = [fr(h) for h in f['C']]
            flat = []
            for k_, idx in enumerate(_it2.product(*[range(n_) for n_ in N_])):
                cp = Cx[k_ * m:(k_ + 1) * m]
                new = [sum(a_ * v_ for a_, v_ in zip(row, cp)) for row in A_at(list(idx))]
                if kind == 'nurbs':
                    w_ = fr(f['W'][k_])
                    new = [x_ * w_ for x_ in new] + [w_]
                flat += new
            exp_shape = N_ + [rows_ + (1 if kind == 'nurbs' else 0)]
            if r['coeffs']['shape'] != exp_shape:
                ck.fail('op-apply_matrix-percp-shape', 'apply_matrix(A) with A.shape = %s (form %s): coefficient array of shape %s, documented %s' % (
                    ash + [rows_, m], op['form'], r['coeffs']['shape'], exp_shape), op={'form': op['form'], 'A_shape': ash + [rows_, m]})
                continue
            if r.get('output_shape') != [rows_]:
                ck.fail('op-apply_matrix-percp-shape', 'apply_matrix(A) with A.shape = %s: output shape %s, documented %s' % (ash + [rows_, m], r.get('output_shape'), [rows_]))
            bnd_ = barr(m, argmax)
            got_ = [fr(h) for h in r['coeffs']['v']]
            badk = [k_ for k_, (a_, b_) in enumerate(zip(got_, flat)) if abs(a_ - b_) > bnd_]
            if badk:
                ck.fail('op-apply_matrix-percp-coeffs', 'apply_matrix(A) with A.shape = %s (form %s): coefficient %d is %r, control point mapped by its own matrix gives %r' % (
                    ash + [rows_, m], op['form'], badk[0], float(got_[badk[0]]), float(flat[badk[0]])), op={'form': op['form'], 'A_shape': ash + [rows_, m], 'A': [float(x) for x in Af]})
            xkvs = [([fr(h) for h in k_['kv']], k_['p']) for k_ in f['kvs']]
            xf = O.Func(xkvs, N_, rows_ + (1 if kind == 'nurbs' else 0), flat)
            expected = lambda xs, xf=xf: res_value(xf, cls, xs)
            coq = 'check_arr %s (%s_matrix_pc F (arrA %s %d%%nat %d%%nat %s) %d%%nat) %s' % (
                cqc(bnd_), 'b' if kind == 'bsp' else 'n', clist(['%d%%nat' % a_ for a_ in ash]), rows_, m, cql(Af), rows_, cql(got_))
            ge = ck.route(r['grid_eval'], 'apply_matrix(per-control-point).grid_eval', [len(ax_) for ax_ in op['grid']] + [rows_])
            if ge is not None:
                vb = barr(m, argmax, 4 * (1 + cmax) * wr * 4)
                for k_, xs in enumerate(pts_res):
                    ex_ = expected(xs)
                    ck.cmp('op-apply_matrix-percp-values', ge[k_ * rows_:(k_ + 1) * rows_], ex_, vb * (1 + max(abs(x_) for x_ in ex_)),
                           'apply_matrix(A.shape=%s): grid_eval of the result differs from the spline of the mapped control points' % (ash + [rows_, m],), xs)
        elif name == 'getitem':
            a = op['arg']
            n = tail[-1]
            lead = m // n
            wrap = lambda i: i + n if i < 0 else i
            if 'int' in a:
                ks, rtail = [wrap(a['int'])], tail[:-1]
                oks = 'ix_int %d%%nat (%d)%%Z' % (n, a['int'])
            elif 'slice' in a:
                ks = list(range(*slice(*a['slice']).indices(n)))
                rtail = tail[:-1] + [len(ks)]
                opt = lambda v: 'None' if v is None else '(Some (%d)%%Z)' % v
                oks = 'Some (py_slice %d%%nat %s %s (%d)%%Z)' % (n, opt(a['slice'][0]), opt(a['slice'][1]), 1 if a['slice'][2] is None else a['slice'][2])
            else:
                l = a.get('list', a.get('tuple'))
                ks = [wrap(i) for i in l]
                rtail = tail[:-1] + [len(ks)]
                oks = 'py_list %d%%nat %s' % (n, clist(['(%d)%%Z' % i for i in l]))
            comps = [r_ * n + k for r_ in range(lead) for k in ks]
            expected = lambda xs, comps=comps: [value_of(ck.of, kind, xs)[c_] for c_ in comps]
            N_ = [len(k['kv']) - k['p'] - 1 for k in f['kvs']]
            exp_shape = N_ + (rtail if kind == 'bsp' else [len(ks) + 1])
            if r['coeffs']['shape'] != exp_shape:
                ck.fail('op-getitem-shape', '__getitem__(%r): coefficient array of shape %s, the selection of the map has components %s (expected %s)' % (
                    a, r['coeffs']['shape'], rtail, exp_shape), op=a)
                continue
            coq = 'check_sel %s %s F %d%%nat %d%%nat (%s) %s' % ('true' if kind == 'nurbs' else 'false', cqc(barr(1, 1)), lead, n, oks,
                                                                cql([fr(h) for h in r['coeffs']['v']]))
            # the implementation's own evaluation of the selected function: values and Jacobians
            Gs = [len(ax) for ax in op['grid']]
            ge = ck.route(r['grid_eval'], '__getitem__(..).grid_eval', Gs + rtail)
            gj = ck.route(r['grid_jac'], '__getitem__(..).grid_jacobian', Gs + rtail + [sdim])
            nsel = len(comps)
            for k_, xs in enumerate(pts_res):
                (v, J, _), (b0, b1, _) = exact_at(ck.of, kind, xs)
                b0, b1 = 2 * O.pow2_ceil(b0), 2 * O.pow2_ceil(b1)
                if ge is not None:
                    ck.cmp('op-getitem-values', ge[k_ * nsel:(k_ + 1) * nsel], [v[c_] for c_ in comps], b0,
                           '__getitem__(%r): values differ from the selected components of the map' % (a,), xs)
                if gj is not None:
                    ck.cmp('op-getitem-jacobian', gj[k_ * nsel * sdim:(k_ + 1) * nsel * sdim], [x for c_ in comps for x in J[c_]], b1,
                           '__getitem__(%r): Jacobian differs from the selected rows of the Jacobian of the map' % (a,), xs)
        elif name in ('copy', 'as_vector'):
            expected = lambda xs: value_of(ck.of, kind, xs)
            if kvs_equal(r['kvs'], f['kvs']) is False:
                ck.fail('op-%s-kvs' % name, '%s changed the knot vectors' % name)
        elif name == 'as_nurbs':
            exp_cls = 'NurbsFunc'
            expected = lambda xs: value_of(ck.of, kind, xs)
            if kind == 'bsp':
                coq = 'check_arr %s (b_as_nurbs F) %s' % (cqc(barr(1, 1)), cql([fr(h) for h in r['coeffs']['v']]))
        elif name == 'restrict_support':
            supp = [[fr(h) for h in s] for s in op['arg']]
            got = [[fr(h) for h in s] for s in r['support']] if isinstance(r['support'], list) else r['support']
            if got != supp:
                ck.fail('support-setter', 'support after restriction is %r' % (r['support'],))
            if r['boundary_cls'] != '_BoundaryFunction':
                ck.fail('support-boundary-class', 'boundary() of a function with restricted support is a %s (coefficient slicing is not interpolatory there)' % r['boundary_cls'])
            else:
                ax, side = parse_expected(op['bd'], sdim)
                if fr(r['boundary_fixed']) != supp[ax][side]:
                    ck.fail('support-boundary-coordinate', 'boundary(%r) of the restricted function fixes %r, expected the end %r of the restricted support' % (
                        op['bd'], float(fr(r['boundary_fixed'])), float(supp[ax][side])))
            expected = lambda xs: value_of(ck.of, kind, xs)
        elif name == 'restricted_boundary':
            check_restricted_boundary(ck, op, r)
            continue
        elif name == 'cylinderize':
            z0 = fr(op['z0']) if 'z0' in op else Fraction(0)          # documented defaults
            z1 = fr(op['z1']) if 'z1' in op else Fraction(1)
            s0, s1 = [fr(h) for h in op['support']] if 'support' in op else (Fraction(0), Fraction(1))
            argmax = max(abs(z0), abs(z1)) + 1
            if isinstance(r.get('support'), list) and [fr(h) for h in r['support'][0]] != [s0, s1]:
                ck.fail('op-cylinderize-support', 'cylinderize(%s): the new axis has support %r, documented %r' % (
                    ', '.join(k_ for k_ in ('z0', 'z1', 'support') if k_ in op) or 'defaults', [float(fr(h)) for h in r['support'][0]], [float(s0), float(s1)]))

            def expected(xs, z0=z0, z1=z1, s0=s0, s1=s1):
                return value_of(ck.of, kind, xs[:-1]) + [z0 + (z1 - z0) * (xs[-1] - s0) / (s1 - s0)]
            if 'coeffs' in r:
                coq = 'check_arr %s (b_cylinderize F %s %s %s %s) %s' % (cqc(barr(2, argmax)), cqc(z0), cqc(z1), cqc(s0), cqc(s1),
                                                                       cql([fr(h) for h in r['coeffs']['v']]))
        elif name in ('outer_sum', 'outer_product', 'tensor_product'):
            oo = oracle_func(op['other'])
            okind = op['other']['kind']
            exp_cls = 'NurbsFunc' if 'nurbs' in (kind, okind) else 'BSplineFunc'
            osd = len(op['other']['kvs'])
            argmax = fmax(op['other']['C']) + 1
            if okind == 'nurbs':
                ows = [fr(h) for h in op['other']['W']]
                argmax = argmax * max(ows) * (max(ows) / min(ows)) ** 2
            s1 = sdim if op['self_is'] == 1 else osd       # G1 = first argument owns the first kvs = the LAST xyz coordinates

            def expected(xs, name=name, op=op, oo=oo, okind=okind, s1=s1):
                us = list(reversed(xs))
                us1, us2 = us[:s1], us[s1:]
                a1 = (ck.of, kind) if op['self_is'] == 1 else (oo, okind)
                a2 = (oo, okind) if op['self_is'] == 1 else (ck.of, kind)
                v1 = value_of(a1[0], a1[1], list(reversed(us1)))
                v2 = value_of(a2[0], a2[1], list(reversed(us2)))
                if name == 'outer_sum':
                    return [a + b for a, b in zip(v1, v2)]
                if name == 'outer_product':
                    return [a * b for a, b in zip(v1, v2)]
                return v2 + v1
            T, _ = coq_func(op['other'])
            A1, A2 = ('F', T) if op['self_is'] == 1 else (T, 'F')
            k1, k2 = (kind, okind) if op['self_is'] == 1 else (okind, kind)
            if exp_cls == 'NurbsFunc':
                if k1 == 'bsp':
                    A1 = '(b_as_nurbs %s)' % A1
                if k2 == 'bsp':
                    A2 = '(b_as_nurbs %s)' % A2
                fn = 'n_' + name
            else:
                fn = 'b_' + name
            coq = 'check_arr %s (%s %s %s) %s' % (cqc(barr(2, argmax)), fn, A1, A2, cql([fr(h) for h in r['coeffs']['v']]))
        if name == 'composed':
            check_composed(ck, op, r)
            continue
        if name in ('copy', 'translate', 'scale', 'boundary', 'restrict_support') and r.get('output_shape') != tail:
            ck.fail('op-output-shape', '%s of a function with output shape %s returns a function with output shape %s' % (name, tail, r.get('output_shape')),
                    op=name)
        if r.get('cls') != exp_cls:
            ck.fail('op-%s-class' % name, '%s returns a %s, documented %s' % (name, r.get('cls'), exp_cls))
            continue
        if coq:
            ck.coq_ops.append(coq)
        if expected is not None and 'coeffs' in r:
            rf = res_func(r)
            if rf is None:
                ck.fail('op-%s-shape' % name, '%s: coefficient array shape %s does not match the knot vectors' % (name, r['coeffs']['shape']))
                continue
            extra = Fraction(1)
            if r['cls'] == 'NurbsFunc':
                extra = 4 * (1 + cmax) * wr
            bnd = barr(nterms, argmax, extra)
            for xs in pts_res[:6]:
                got = res_value(rf, r['cls'], xs)
                exp = expected(xs)
                if len(got) != len(exp) or any(abs(a - b) > bnd * (1 + abs(b)) for a, b in zip(got, exp)):
                    ck.fail('op-%s-map' % name, '%s: the returned function takes %r at %r, the documented map %r' % (
                        name, [float(x) for x in got], [float(x) for x in xs], [float(x) for x in exp]), op={k: v for k, v in op.items() if k != 'other'})
                    break


def check_boundary_function(ck, op, r, ax, fixed):
    """_BoundaryFunction: grid_eval, __call__, grid_jacobian (tangential / with normal) against the exact trace"""
    sdim, m, kind = ck.sdim, ck.m, ck.kind
    G = [len(a) for a in op['grid']]
    pts = grid_points(op['grid'])

    def full(xs):
        us = list(reversed(xs))
        us.insert(ax, fixed)
        return list(reversed(us))
    ge = ck.route(r['grid_eval'], '_BoundaryFunction.grid_eval', G + ck.tail)
    gj = ck.route(r['grid_jac'], '_BoundaryFunction.grid_jacobian', G + ck.tail + [sdim - 1])
    gk = ck.route(r['grid_jac_keep'], '_BoundaryFunction.grid_jacobian(keep_normal)', G + ck.tail + [sdim])
    col = sdim - 1 - ax          # xyz direction of the fixed coordinate
    for k, xs in enumerate(pts):
        (v, J, _), (b0, b1, _) = exact_at(ck.of, kind, full(xs))
        b0, b1 = 2 * O.pow2_ceil(b0), 2 * O.pow2_ceil(b1)
        if ge is not None:
            ck.cmp('boundary_function-grid_eval', ge[k * m:(k + 1) * m], v, b0, '_BoundaryFunction.grid_eval differs from the trace', xs)
        if gk is not None:
            ck.cmp('boundary_function-jac-keep', gk[k * m * sdim:(k + 1) * m * sdim], [x for row in J for x in row], b1,
                   '_BoundaryFunction.grid_jacobian(keep_normal=True) differs from the Jacobian at the boundary', xs)
        if gj is not None:
            Jt = [x for row in J for a, x in enumerate(row) if a != col]
            ck.cmp('boundary_function-jac', gj[k * m * (sdim - 1):(k + 1) * m * (sdim - 1)], Jt, b1,
                   '_BoundaryFunction.grid_jacobian does not drop the derivative in the normal direction', xs)
    for x, c in zip(op.get('pts', []), r.get('call', [])):
        xs = [fr(h) for h in x]
        (v, _, _), (b0, _, _) = exact_at(ck.of, kind, full(xs))
        if 'err' in c:
            ck.fail('boundary_function-call-raises-' + c['err'], '_BoundaryFunction.__call__ raised %s' % c.get('msg'))
        else:
            ck.cmp('boundary_function-call', [fr(h) for h in c['ok']['v']], v, 2 * O.pow2_ceil(b0),
                   '_BoundaryFunction.__call__ differs from the trace (coordinate inserted at the wrong position)', xs)


def check_restricted_boundary(ck, op, r):
    """boundary() of a function whose support is restricted along a subset of the axes, against the model
    support_restriction_spec / boundary_support_spec: the result is f restricted to the coordinate
    support[axis][side]; its support is the (restricted) support of the remaining axes; bounding_box() is the
    box of its corner values; evaluation does not depend on the support (also outside the restricted range)."""
    sdim, m, kind = ck.sdim, ck.m, ck.kind
    tail = r.get('output_shape', ck.tail)       # shapes of the restricted copy itself (op-output-shape checks copy())
    supp = [[fr(h) for h in s_] for s_ in op['arg']]
    sub = ''.join('r' if x else '-' for x in op['restricted'])
    if [[fr(h) for h in s_] for s_ in r['support']] != supp:
        ck.fail('support-setter', 'support after restriction %s is %r' % (sub, r['support']))
    ck.coq_sides = getattr(ck, 'coq_sides', [])
    for sd, e in zip(op['bds'], r['sides']):
        ax, side = parse_expected(sd['bd'], sdim)
        where = 'restricted=%s boundary(%r) [%s axis]' % (sub, sd['bd'], 'restricted' if op['restricted'][ax] else 'untouched')
        tag = 'own' if op['restricted'][ax] else 'other'
        if e['status'] != 'Ok':
            ck.fail('restricted-boundary-raises-%s:%s' % (e['status'], tag), '%s raised %s: %s' % (where, e['status'], e.get('msg')), op=sd['bd'])
            continue
        exp_supp = [s_ for d_, s_ in enumerate(supp) if d_ != ax]
        got_supp = [[fr(h) for h in s_] for s_ in e['support']]
        opt = 'Some %s' % clist(['(%s, %s)' % (cqc(a), cqc(b)) for a, b in supp])
        ck.coq_ops.append('supp_eqb (r_boundary_support (%s) F %d%%nat %d%%nat) %s' % (
            opt, ax, side, clist(['(%s, %s)' % (cqc(a), cqc(b)) for a, b in got_supp])))
        if got_supp != exp_supp or e['sdim'] != sdim - 1:
            ck.fail('restricted-boundary-support:%s' % tag, '%s has support %r, the side of the restricted patch has %r' % (
                where, [[float(x) for x in s_] for s_ in got_supp], [[float(x) for x in s_] for s_ in exp_supp]),
                op={'support': [[float(x) for x in s_] for s_ in supp], 'bd': sd['bd']})
            continue
        fixed = supp[ax][side]
        if e.get('fixed') is not None and fr(e['fixed']) != fixed:
            ck.fail('restricted-boundary-coordinate:%s' % tag, '%s fixes %r, expected the end %r of the support' % (where, float(fr(e['fixed'])), float(fixed)))

        def full(xs, ax=ax, fixed=fixed):
            us = list(reversed(xs))
            us.insert(ax, fixed)
            return list(reversed(us))
        G = [len(a) for a in sd['grid']]
        ge = ck.route(e['grid_eval'], 'restricted boundary.grid_eval', G + tail)
        if ge is not None:
            for k_, xs in enumerate(grid_points(sd['grid'])):
                (v, _, _), (b0, _, _) = exact_at(ck.of, kind, full(xs))
                ck.cmp('restricted-boundary-values:%s' % tag, ge[k_ * m:(k_ + 1) * m], v, 2 * O.pow2_ceil(b0),
                       '%s: values differ from f on that side (ends of the restricted range / outside it)' % where, xs)
        if sd.get('bbox') and e.get('bounding_box') is not None:
            bb = ck.route(e['bounding_box'], 'restricted boundary.bounding_box', [m, 2])
            if bb is not None:
                import itertools as _it
                corners = [list(reversed(us)) for us in _it.product(*[[s_[0], s_[1]] for s_ in exp_supp])]
                vals = []
                bmax = Fraction(0)
                for xs in corners:
                    (v, _, _), (b0, _, _) = exact_at(ck.of, kind, full(xs))
                    vals.append(v)
                    bmax = max(bmax, b0)
                expbb = [x for c_ in range(m) for x in (min(v[c_] for v in vals), max(v[c_] for v in vals))]
                ck.cmp('restricted-boundary-bounding_box:%s' % tag, bb, expbb, 2 * O.pow2_ceil(bmax),
                       '%s: bounding_box() is not the box of the corner values of the side of the restricted patch' % where)


def check_composed(ck, op, r):
    """ComposedFunction(geo2, f): value geo2(f(x)), Jacobian J2(f(x)) J1(x) (chain rule), boundary.
    Bound: geo2 is a single-span polynomial patch; |geo2(g~) - geo2(g)| <= L |g~ - g| with the Lipschitz
    bound L = 2 p Cmax / h per direction, second derivatives bounded by 4 p (p-1) Cmax / h^2."""
    f = ck.case['f']
    o2 = oracle_func(op['other'])
    m2 = o2.m
    pmax = max(k['p'] for k in op['other']['kvs'])
    c2 = fmax(op['other']['C'])
    L = 2 * pmax * c2 / 8 * 2
    H2 = 4 * pmax * max(pmax - 1, 1) * c2 / 64 * 4
    sdim = ck.sdim

    def exact(xs):
        (g, J1, _), (b0, b1, _) = exact_at(ck.of, ck.kind, xs)
        (v, ve), (J2, J2e), _ = O.bsp_jets(o2, g, order=1)
        J = [[sum(J2[c][a] * J1[a][j] for a in range(2)) for j in range(sdim)] for c in range(m2)]
        j1max = max([abs(x) for row in J1 for x in row] + [Fraction(1)])
        j2max = max([abs(x) for row in J2 for x in row] + [Fraction(1)])
        bv = 4 * (max(ve) + 2 * L * b0)
        bj = 4 * (2 * max(max(r_) for r_ in J2e) * j1max + 2 * j2max * b1 + 4 * H2 * b0 * j1max)
        return v, [x for row in J for x in row], O.pow2_ceil(bv) * 2, O.pow2_ceil(bj) * 2
    if r.get('cls') != 'ComposedFunction' or r.get('sdim') != sdim:
        ck.fail('composed-type', 'ComposedFunction has class %r sdim %r' % (r.get('cls'), r.get('sdim')))
    if r.get('other_unchanged') is False:
        ck.fail('composed-mutates', 'ComposedFunction evaluation altered geo2')
    G = [len(a) for a in op['grid']]
    t2 = op['other']['tail']
    ge = ck.route(r['grid_eval'], 'ComposedFunction.grid_eval', G + t2)
    gj = ck.route(r['grid_jac'], 'ComposedFunction(scalar geo2).grid_jacobian' if not t2 else 'ComposedFunction.grid_jacobian',
                  G + t2 + [sdim]) if len(t2) <= 1 else None
    for k, xs in enumerate(grid_points(op['grid'])):
        v, J, bv, bj = exact(xs)
        if ge is not None:
            ck.cmp('composed-grid_eval', ge[k * m2:(k + 1) * m2], v, bv, 'ComposedFunction.grid_eval differs from geo2(geo1(x))', xs)
        if gj is not None:
            ck.cmp('ComposedFunction(scalar geo2).grid_jacobian-vs-ref' if not t2 else 'composed-grid_jacobian', gj[k * m2 * sdim:(k + 1) * m2 * sdim], J, bj,
                   'ComposedFunction.grid_jacobian differs from the chain rule J2(geo1(x)) J1(x)', xs)
    for x, c in zip(op.get('pts', []), r.get('call', [])):
        xs = [fr(h) for h in x]
        v, _, bv, _ = exact(xs)
        if 'err' in c:
            ck.fail('composed-call-raises-' + c['err'], 'ComposedFunction.__call__ raised %s' % c.get('msg'))
        else:
            ck.cmp('composed-call', [fr(h) for h in c['ok']['v']], v, bv, 'ComposedFunction.__call__ differs from geo2(geo1(x))', xs)
    if op.get('bd') and 'bd' in r:
        ax, side = parse_expected(op['bd'], sdim)
        b = [fr(h) for h in ck.case['brk'][ax]]
        fixed = b[0] if side == 0 else b[-1]
        if r.get('bd_cls') != 'ComposedFunction':
            ck.fail('composed-boundary-class', 'boundary of a ComposedFunction is a %s' % r.get('bd_cls'))
        be = r['bd'].get('grid_eval', {})
        Gb = [len(a) for a in op['bdgrid']]
        bev = ck.route(be, 'ComposedFunction.boundary.grid_eval', Gb + t2)
        for k, xs in enumerate(grid_points(op['bdgrid'])):
            us = list(reversed(xs))
            us.insert(ax, fixed)
            v, _, bv, _ = exact(list(reversed(us)))
            if bev is not None:
                ck.cmp('composed-boundary', bev[k * m2:(k + 1) * m2], v, bv, 'boundary(%s) of a ComposedFunction is not its trace' % op['bd'], xs)


# ---------------------------------------------------------------------------
# user-defined functions (polynomial callables, exact oracle)

USERF = {
    'poly2': (2, lambda x, y: [x * y + 2, x - y * y], lambda x, y: [[y, x], [1, -2 * y]]),
    'xonly': (2, lambda x, y: [x * x - Fraction(1, 2)], None),
    'poly3': (3, lambda x, y, z: [x + 2 * y * z, y - x * z, z * z + x], None),
}


def gen_users(ctx):
    rng = ctx.rng
    cs = []
    for name, (d, fn, jac) in USERF.items():
        supp = []
        for _ in range(d):
            a = Fraction(rng.randint(-4, 4), 2)
            supp.append([hx(a), hx(a + Fraction(rng.randint(1, 6), 2))])
        # support is given per source dimension in the order of the grid axes (zyx), like BSplineFunc.support
        grid = []
        for k in range(d):
            a, b = fr(supp[k][0]), fr(supp[k][1])
            grid.append([hx(a), hx(a + (b - a) * Fraction(rng.randint(1, 15), 16)), hx(b)][:rng.choice([2, 3])])
        pts = [[hx(fr(supp[d - 1 - j][0]) + (fr(supp[d - 1 - j][1]) - fr(supp[d - 1 - j][0])) * Fraction(rng.randint(0, 8), 8)) for j in range(d)]
               for _ in range(3)]
        bd = rng.choice(BDNAMES[:2 * d])
        ax = d - 1 - BDNAMES.index(bd) // 2
        bdpts = []
        for x in pts[:2]:
            y = list(x)
            del y[d - 1 - ax]
            bdpts.append(y)
        cs.append({'user': name, 'support': supp, 'grid': grid, 'pts': pts, 'bd': bd,
                   'bdgrid': [a for k, a in enumerate(grid) if k != ax], 'bdpts': bdpts})
    return cs


def check_user(c, r):
    bad = []
    d, fn, jac = USERF[c['user']]
    name = c['user']
    if r['status'] != 'Ok':
        return [('user-%s-raises-%s' % (name, r['status']), 'UserFunction raised %s: %s' % (r['status'], r.get('msg')))]
    m = len(fn(*([Fraction(0)] * d)))
    tail = [] if m == 1 else [m]
    if r['sdim'] != d or r['output_shape'] != tail:
        bad.append(('user-%s-shape' % name, 'UserFunction reports sdim %r output_shape %r' % (r['sdim'], r['output_shape'])))

    def tol(xs):
        return 256 * EPS * (1 + max(abs(x) for x in xs)) ** 3

    def cmp(code, guarded_r, shape, pts_list, f, what):
        if guarded_r is None:
            return
        if 'err' in guarded_r:
            bad.append(('user-%s-%s-raises-%s' % (name, code, guarded_r['err']), '%s raised %s' % (what, guarded_r.get('msg'))))
            return
        if list(guarded_r['ok']['shape']) != list(shape):
            bad.append(('user-%s-%s-shape' % (name, code), '%s has shape %s, expected %s' % (what, guarded_r['ok']['shape'], list(shape))))
            return
        v = [fr(h) for h in guarded_r['ok']['v']]
        size = len(v) // max(len(pts_list), 1)
        for k, xs in enumerate(pts_list):
            ex = f(xs)
            if any(abs(a - b) > tol(xs) for a, b in zip(v[k * size:(k + 1) * size], ex)):
                bad.append(('user-%s-%s' % (name, code), '%s differs from the callable at %r' % (what, [float(x) for x in xs])))
                return
    gp = grid_points(c['grid'])
    G = [len(a) for a in c['grid']]
    val = lambda xs: fn(*xs)
    cmp('grid_eval', r['grid_eval'], G + tail, gp, val, 'UserFunction.grid_eval')
    if jac is not None:
        cmp('grid_jacobian', r['grid_jac'], G + [m, d], gp, lambda xs: [x for row in jac(*xs) for x in row], 'UserFunction.grid_jacobian')
    sp = [[fr(h) for h in x] for x in c['pts']]
    for xs, cr in zip(sp, r['call']):
        cmp('call', cr, tail, [xs], val, 'UserFunction.__call__')
    if 'ok' in r['pw_eval']:
        # a tuple-valued callable returns a tuple of arrays: component-major
        v = [fr(h) for h in r['pw_eval']['ok']['v']]
        n = len(sp)
        for k, xs in enumerate(sp):
            ex = val(xs)
            got = [v[cidx * n + k] for cidx in range(m)] if len(v) == m * n else None
            if got is None or any(abs(a - b) > tol(xs) for a, b in zip(got, ex)):
                bad.append(('user-%s-pointwise_eval' % name, 'UserFunction.pointwise_eval differs from the callable at %r' % ([float(x) for x in xs],)))
                break
    else:
        bad.append(('user-%s-pointwise_eval-raises' % name, 'UserFunction.pointwise_eval raised %s' % r['pw_eval'].get('msg')))
    # boundary restriction
    ax, side = parse_expected(c['bd'], d)
    fixed = fr(c['support'][ax][side])
    if r['bd_cls'] != '_BoundaryFunction' or r['bd_sdim'] != d - 1:
        bad.append(('user-%s-boundary-type' % name, 'boundary() is a %s with sdim %r' % (r['bd_cls'], r['bd_sdim'])))
    exp_supp = [s for k, s in enumerate(c['support']) if k != ax]
    if r['bd_support'] != exp_supp:
        bad.append(('user-%s-boundary-support' % name, 'boundary support %r, expected %r' % (r['bd_support'], exp_supp)))

    def full(xs):
        us = list(reversed(xs))
        us.insert(ax, fixed)
        return list(reversed(us))
    bgp = grid_points(c['bdgrid'])
    cmp('boundary-grid_eval', r['bd_grid_eval'], [len(a) for a in c['bdgrid']] + tail, bgp, lambda xs: val(full(xs)), '_BoundaryFunction(UserFunction).grid_eval')
    for x, cr in zip(c['bdpts'], r['bd_call']):
        xs = [fr(h) for h in x]
        cmp('boundary-call', cr, tail, [xs], lambda xs_: val(full(xs_)), '_BoundaryFunction(UserFunction).__call__')
    if jac is not None:
        col = d - 1 - ax
        cmp('boundary-jacobian', r['bd_grid_jac'], [len(a) for a in c['bdgrid']] + [m, d - 1], bgp,
            lambda xs: [x for row in jac(*full(xs)) for a, x in enumerate(row) if a != col], '_BoundaryFunction(UserFunction).grid_jacobian')
    return bad


# ---------------------------------------------------------------------------
# constructors

def gen_ctors(ctx):
    rng = ctx.rng
    thorough = ctx.tier == 'thorough'
    T = [hx(Fraction(k, 16)) for k in range(17)]
    cs = []
    n = 6 if thorough else 2
    for _ in range(n):
        r = hx(Fraction(rng.randint(1, 40), 8))
        cs.append({'ctor': 'circular_arc_3pt', 'args': {'alpha': hx(rng.uniform(0.05, 0.9 * math.pi)), 'r': r}, 'grid': [T]})
        cs.append({'ctor': 'circular_arc_5pt', 'args': {'alpha': hx(rng.uniform(0.05, 1.8 * math.pi)), 'r': r}, 'grid': [T]})
        cs.append({'ctor': 'circular_arc_7pt', 'args': {'alpha': hx(rng.uniform(0.05, 2 * math.pi)), 'r': r}, 'grid': [T]})
        cs.append({'ctor': 'circular_arc', 'args': {'alpha': hx(rng.choice([rng.uniform(0.05, 3.1), math.pi, rng.uniform(3.2, 6.2), 2 * math.pi])), 'r': r}, 'grid': [T]})
        cs.append({'ctor': 'semicircle', 'args': {'r': r}, 'grid': [T]})
        cs.append({'ctor': 'circle', 'args': {'r': r}, 'grid': [T]})
        r1 = Fraction(rng.randint(1, 16), 8)
        T5 = T[::4]
        bdg = {s: [T] for s in ('left', 'right', 'bottom', 'top')}
        cs.append({'ctor': 'quarter_annulus', 'args': {'r1': hx(r1), 'r2': hx(r1 + Fraction(rng.randint(1, 16), 8))}, 'grid': [T, T5],
                   'bd': ['left', 'right', 'bottom', 'top'], 'bdgrid': bdg})
        cs.append({'ctor': 'disk', 'args': {'r': r}, 'grid': [T5, T5], 'bd': ['left', 'right', 'bottom', 'top'], 'bdgrid': bdg})
        d = rng.randint(1, 3)
        x0 = [hx(Fraction(rng.randint(-16, 16), 4)) for _ in range(d)]
        x1 = [hx(Fraction(rng.randint(-16, 16), 4)) for _ in range(d)]
        s0 = Fraction(rng.randint(-4, 4), 2)
        s1 = s0 + Fraction(rng.randint(1, 6), 2)
        cs.append({'ctor': 'line_segment', 'args': {'x0': x0, 'x1': x1, 'support': [hx(s0), hx(s1)], 'intervals': rng.randint(1, 4)},
                   'grid': [[hx(s0 + (s1 - s0) * Fraction(k, 8)) for k in range(9)]]})
        dd = rng.randint(1, 3)
        ext = []
        for _ in range(dd):
            a = Fraction(rng.randint(-8, 8), 4)
            ext.append([hx(a), hx(a + Fraction(rng.randint(1, 8), 4))])
        cs.append({'ctor': 'identity', 'args': {'extents': ext},
                   'grid': [[e[0], hx((fr(e[0]) + 3 * fr(e[1])) / 4), e[1]] for e in ext]})
        cs.append({'ctor': 'unit_cube', 'args': {'dim': rng.randint(1, 3), 'num_intervals': rng.randint(1, 3)}})
    # every constructor also with its DEFAULT arguments (r=1, r1=1, r2=2, support=(0,1), intervals=1, dim=3, num_intervals=1)
    T5 = T[::4]
    bdg = {s_: [T] for s_ in ('left', 'right', 'bottom', 'top')}
    al = hx(rng.uniform(0.3, 2.8))
    cs += [{'ctor': 'circular_arc_3pt', 'args': {'alpha': al}, 'grid': [T]},
           {'ctor': 'circular_arc_5pt', 'args': {'alpha': hx(rng.uniform(0.3, 5.0))}, 'grid': [T]},
           {'ctor': 'circular_arc_7pt', 'args': {'alpha': hx(rng.uniform(0.3, 6.2))}, 'grid': [T]},
           {'ctor': 'circular_arc', 'args': {'alpha': hx(rng.uniform(0.3, 6.2))}, 'grid': [T]},
           {'ctor': 'semicircle', 'args': {}, 'grid': [T]}, {'ctor': 'circle', 'args': {}, 'grid': [T]},
           {'ctor': 'quarter_annulus', 'args': {}, 'grid': [T, T5], 'bd': ['left', 'right', 'bottom', 'top'], 'bdgrid': bdg},
           {'ctor': 'quarter_annulus', 'args': {'r1': hx(Fraction(3, 8))}, 'grid': [T, T5], 'bd': ['left', 'right', 'bottom', 'top'], 'bdgrid': bdg},
           {'ctor': 'disk', 'args': {}, 'grid': [T5, T5], 'bd': ['left', 'right', 'bottom', 'top'], 'bdgrid': bdg},
           {'ctor': 'line_segment', 'args': {'x0': [hx(Fraction(rng.randint(-16, 16), 4)) for _ in range(2)],
                                             'x1': [hx(Fraction(rng.randint(-16, 16), 4)) for _ in range(2)]}, 'grid': [T5]},
           {'ctor': 'line_segment', 'args': {'x0': [hx(Fraction(5, 2))], 'x1': [hx(Fraction(-3, 4))], 'scalar_ends': True, 'intervals': 3}, 'grid': [T5]},
           {'ctor': 'line_segment', 'args': {'x0': [hx(2)], 'x1': [hx(7)], 'support': [hx(2), hx(7)]}, 'grid': [[hx(2), hx(Fraction(13, 4)), hx(7)]]},
           {'ctor': 'unit_cube', 'args': {}}, {'ctor': 'unit_cube', 'args': {'dim': 2}}, {'ctor': 'unit_cube', 'args': {'num_intervals': 2}},
           {'ctor': 'unit_square', 'args': {}}, {'ctor': 'unit_square', 'args': {'num_intervals': 3}}]
    for c in cs:
        if c['ctor'] == 'unit_square':
            c['grid'] = [[hx(0), hx(Fraction(3, 8)), hx(1)]] * 2
    for c in cs:
        if c['ctor'] == 'unit_cube':
            c['grid'] = [[hx(0), hx(Fraction(3, 8)), hx(1)]] * c['args'].get('dim', 3)
    cs.append({'ctor': 'twisted_box', 'grid': [[hx(Fraction(1, 4)), hx(1)], [hx(0), hx(Fraction(5, 8))], [hx(Fraction(1, 2))]]})
    return cs


def check_ctor(c, r):
    """returns list of (code, text)"""
    bad = []
    name = c['ctor']
    # arguments not passed take their documented defaults
    one = hx(1)
    defaults = {'circular_arc': {'r': one}, 'circular_arc_3pt': {'r': one}, 'circular_arc_5pt': {'r': one}, 'circular_arc_7pt': {'r': one},
                'semicircle': {'r': one}, 'circle': {'r': one}, 'disk': {'r': one}, 'quarter_annulus': {'r1': one, 'r2': hx(2)},
                'line_segment': {'support': [hx(0), one], 'intervals': 1}, 'unit_cube': {'dim': 3, 'num_intervals': 1},
                'unit_square': {'num_intervals': 1}}
    a = dict(defaults.get(name, {}), **c.get('args', {}))
    passed = ', '.join(sorted(c.get('args', {}))) or 'defaults only'
    if r['status'] != 'Ok':
        return [('ctor-%s-raises-%s' % (name, r['status']), '%s raised %s: %s' % (name, r['status'], r.get('msg')))]
    rf = res_func(r)
    if rf is None:
        return [('ctor-%s-shape' % name, 'coefficient shape does not match the knot vectors')]
    pts = grid_points(c['grid'])
    ex = [res_value(rf, r['cls'], xs) for xs in pts]          # the represented map, exactly
    # the implementation's own evaluation of the object against the map its coefficients define
    ge = r.get('grid_eval', {})
    if 'ok' in ge:
        m = len(ex[0])
        iv = [fr(h) for h in ge['ok']['v']]
        cm = max(abs(x) for x in rf.flat) + 1
        wmin = min(rf.flat[i * rf.m + rf.m - 1] for i in range(len(rf.flat) // rf.m)) if r['cls'] == 'NurbsFunc' else Fraction(1)
        tol = 4096 * EPS * cm * cm / (wmin * wmin)
        for k, e in enumerate(ex):
            if any(abs(x - y) > tol for x, y in zip(iv[k * m:(k + 1) * m], e)):
                bad.append(('ctor-%s-eval' % name, 'grid_eval of the constructed object differs from the map its coefficients define at %r' % ([float(x) for x in pts[k]],)))
                break
    else:
        bad.append(('ctor-%s-eval-raises' % name, 'grid_eval raised %s' % ge.get('err')))

    def on_circle(points, rad, what, wmin=Fraction(1, 4)):
        tol = 64 * EPS / (wmin * wmin)
        for p in points:
            rr = p[0] * p[0] + p[1] * p[1]
            if abs(rr - rad * rad) > 2 * tol * rad * rad:
                bad.append(('ctor-%s-radius' % name, '%s: point %r has radius %r, requested %r' % (what, [float(x) for x in p], math.sqrt(float(rr)), float(rad))))
                return False
        return True
    if name in ('circular_arc', 'circular_arc_3pt', 'circular_arc_5pt', 'circular_arc_7pt', 'semicircle', 'circle'):
        rad = fr(a['r'])
        alpha = float.fromhex(a['alpha']) if 'alpha' in a else (math.pi if name == 'semicircle' else 2 * math.pi)
        if r['cls'] != 'NurbsFunc' or r['sdim'] != 1 or r['dim'] != 2:
            bad.append(('ctor-%s-type' % name, 'not a NURBS curve in the plane'))
        W = [rf.flat[i * 3 + 2] for i in range(len(rf.flat) // 3)]
        # the documented control net: n points r (cos a_k, sin a_k), a_k = k alpha/(n-1), weights 1, cos(alpha/(n-1)), 1, ...
        n = {'circular_arc_3pt': 3, 'circular_arc_5pt': 5, 'circular_arc_7pt': 7, 'semicircle': 5, 'circle': 7}.get(
            name, 3 if alpha < math.pi else 7)
        knots = {3: [0, 0, 0, 1, 1, 1], 5: [0, 0, 0, 0.5, 0.5, 1, 1, 1], 7: [0, 0, 0, 1 / 3, 1 / 3, 2 / 3, 2 / 3, 1, 1, 1]}[n]
        got_kv = [float.fromhex(h) for h in r['kvs'][0]['kv']]
        if r['kvs'][0]['p'] != 2 or len(got_kv) != len(knots) or any(abs(a - b) > 4e-16 for a, b in zip(got_kv, knots)):
            bad.append(('ctor-%s-knots' % name, 'knot vector %r, documented %r' % (got_kv, knots)))
            return bad
        wexp = math.cos(alpha / (n - 1))
        for k in range(n):
            a_k = k * alpha / (n - 1)
            exp = [float(rad) * math.cos(a_k), float(rad) * math.sin(a_k), 1.0 if k % 2 == 0 else wexp]
            gotk = [float(rf.flat[k * 3 + c]) for c in range(3)]
            if any(abs(x - y) > 16 * float(EPS) * (1 + float(rad)) * (1 + alpha) for x, y in zip(gotk, exp)):
                bad.append(('ctor-%s-control-net' % name, 'control point/weight %d is %r, documented %r' % (k, gotk, exp)))
                return bad
        if min(W) <= 0:
            bad.append(('ctor-%s-weights' % name, 'non-positive weight %r' % float(min(W))))
            return bad
        on_circle(ex, rad, 'arc', min(min(W), Fraction(1)))
        tolp = 64 * float(EPS) * float(rad) / float(min(min(W), 1)) ** 2
        p0, p1 = ex[0], ex[-1]
        if abs(float(p0[0]) - float(rad)) > tolp or abs(float(p0[1])) > tolp:
            bad.append(('ctor-%s-start' % name, 'arc does not start at (r, 0): %r' % ([float(x) for x in p0],)))
        if abs(float(p1[0]) - float(rad) * math.cos(alpha)) > tolp or abs(float(p1[1]) - float(rad) * math.sin(alpha)) > tolp:
            bad.append(('ctor-%s-end' % name, 'arc does not end at angle alpha=%r: %r' % (alpha, [float(x) for x in p1])))
        # counterclockwise, total angle alpha
        tot = 0.0
        for p, qq in zip(ex, ex[1:]):
            dth = math.atan2(float(p[0] * qq[1] - p[1] * qq[0]), float(p[0] * qq[0] + p[1] * qq[1]))
            if dth <= 0:
                bad.append(('ctor-%s-direction' % name, 'arc does not travel counterclockwise'))
                break
            tot += dth
        else:
            if abs(tot - alpha) > 1e-12 * (1 + alpha) / float(min(min(W), 1)) ** 2:
                bad.append(('ctor-%s-angle' % name, 'arc covers angle %r, requested %r' % (tot, alpha)))
    elif name == 'quarter_annulus':
        r1, r2 = fr(a['r1']), fr(a['r2'])
        for xs, p in zip(pts, ex):
            rho = r1 + xs[0] * (r2 - r1)
            if not on_circle([p], rho, 'quarter annulus at x=%r' % float(xs[0])):
                break
            if p[0] < -64 * EPS * r2 or p[1] < -64 * EPS * r2:
                bad.append(('ctor-quarter_annulus-quadrant', 'point outside the first quadrant'))
                break
    if name in ('quarter_annulus', 'disk') and 'bd' in r:
        for spec, rb in r['bd'].items():
            bf = res_func(rb)
            bp = [res_value(bf, rb['cls'], xs) for xs in grid_points(c['bdgrid'][spec])]
            if name == 'disk':
                on_circle(bp, fr(a['r']), 'disk boundary %s' % spec)
            elif spec in ('left', 'right'):
                on_circle(bp, fr(a['r1']) if spec == 'left' else fr(a['r2']), 'annulus boundary %s' % spec)
            else:
                k = 1 if spec == 'bottom' else 0        # bottom lies on the x axis, top on the y axis
                if any(abs(p[k]) > 64 * EPS * fr(a['r2']) for p in bp):
                    bad.append(('ctor-quarter_annulus-%s' % spec, 'boundary %s does not lie on the documented coordinate axis' % spec))
    if name == 'disk':
        rad = fr(a['r'])
        if any(p[0] * p[0] + p[1] * p[1] > rad * rad * (1 + 4096 * EPS) for p in ex):
            bad.append(('ctor-disk-inside', 'disk maps a parameter point outside the circle'))
    if name == 'line_segment':
        x0, x1 = [fr(h) for h in a['x0']], [fr(h) for h in a['x1']]
        s0, s1 = [fr(h) for h in a['support']]
        mag = max(abs(x) for x in x0 + x1) + 1
        if [fr(h) for h in r['support'][0]] != [s0, s1]:
            bad.append(('ctor-line_segment-support', 'support is %r' % (r['support'],)))
        if len(r['kvs'][0]['kv']) != a['intervals'] + 3:
            bad.append(('ctor-line_segment-intervals', 'wrong number of intervals'))
        for xs, p in zip(pts, ex):
            t = (xs[0] - s0) / (s1 - s0)
            if any(abs(v - (u0 + (u1 - u0) * t)) > 32 * EPS * mag for v, u0, u1 in zip(p, x0, x1)):
                bad.append(('ctor-line_segment-map', 'line_segment is not the affine map between x0 and x1 at t=%r' % float(xs[0])))
                break
    if name in ('identity', 'unit_cube', 'unit_square'):
        for xs, p in zip(pts, ex):
            if any(abs(u - v) > 32 * EPS * (1 + abs(u)) for u, v in zip(xs, p)) or len(xs) != len(p):
                bad.append(('ctor-%s-map' % name, '%s maps %r to %r (documented: the identity, xyz order)' % (name, [float(x) for x in xs], [float(x) for x in p])))
                break
        if name in ('unit_cube', 'unit_square') and any(len(k['kv']) != a['num_intervals'] + 3 for k in r['kvs']):
            bad.append(('ctor-%s-intervals' % name, '%s(%s): wrong number of intervals' % (name, passed)))
        if name in ('unit_cube', 'unit_square') and r['sdim'] != (a['dim'] if name == 'unit_cube' else 2):
            bad.append(('ctor-%s-dim' % name, '%s(%s) has sdim %r' % (name, passed, r['sdim'])))
    return bad


# ---------------------------------------------------------------------------

def classify(code, ck):
    """signature of a finding: the evaluation routes share three call sites in bspline.py; findings
    that come from the same site and input class get one signature"""
    tc = tailclass(ck.tail)
    codes = {b[0] for b in ck.bad}
    base_pw_ok = not any(c in codes for c in ('pointwise_eval-vs-ref', 'routes-call-vs-pointwise', 'pointwise_jacobian-vs-ref'))
    if base_pw_ok and code.startswith(('pointwise_eval-layout', 'pointwise_eval(', 'pointwise_jacobian-layout', 'pointwise_jacobian(')):
        # scattered evaluation is right for 1-D C arrays but not for multi-dimensional / non-C-contiguous coordinate arrays
        return 'pointwise-array-layout:%s' % ('eval' if code.startswith('pointwise_eval') else 'jacobian')
    pw = code.startswith(('pointwise_eval', 'pointwise_jacobian', 'routes-'))
    if pw and ck.sdim != 2 and any(c.startswith(('pointwise_eval', 'routes-call')) for c in codes):
        return 'pointwise-axis-order:sdim%d' % ck.sdim           # tp_bsp_*_pointwise: XY[1-d]
    if code.startswith(('pointwise_jacobian', 'routes-jac')) and ck.kind == 'bsp' and tc in ('scalar', 'matrix'):
        return 'pointwise-jacobian-slot:%s' % tc                 # tp_bsp_jac_pointwise: result[k, :, slot]
    if code.startswith('grid_hessian-raises') and ck.kind == 'bsp' and ck.tail == [1]:
        return 'hessian-dim1-vector'                             # grid_hessian of a (..., 1) coefficient array
    if code == 'op-output-shape' and ck.kind == 'nurbs' and ck.tail == []:
        return 'nurbs-scalar-shape-lost'                         # NurbsFunc copy/boundary/translate/scale of a scalar function
    if code.startswith('ComposedFunction(scalar geo2)'):
        return 'composed-jacobian-scalar-geo2'                   # ComposedFunction.grid_jacobian: matmul of a gradient array
    return '%s:%s:sdim%d:%s' % (code, ck.kind, ck.sdim, tc)


def run(ctx):
    ctx.obligations_stage(PROPS, extra_targets=['C07/Examples.vo', 'C07/Check.vo'], gate_dirs=['C02'])
    ctx.obligations_stage('C07/Props3.v', extra_targets=['C07/Examples3.vo', 'C07/ArgForms.vo'])
    ctx.assumptions += [
        'model: hand transcription of BSplineFunc/NurbsFunc evaluation routes, boundary extraction and the coefficient-level '
        'operations of bspline.py/geometry.py into Gallina over Qc (coq/C07/Model.v) on top of the kernels of coq/lib/Bsp.v',
        'apply_tprod / np.einsum are modelled by their documented contract sum_J prod_k A_k[i_k,j_k] X[J] (tp_eval), not by their loops',
        'scattered-point evaluators modelled with the REPAIRED indexing XY[sdim-1-d] and Jacobian slot [..., sdim-i-1] '
        '(fixes/C07-pointwise-axis-order.patch, fixes/C07-pointwise-jacobian-slot.patch); the indexing as written is refuted in Props.v',
        'UserFunction, ComposedFunction, _BoundaryFunction of callables, support restriction, cylinderize and the constructors are not in the Coq model: '
        'they are checked on the implementation against the exact Fraction oracle only (chain rule J2(g(x)) J1(x) with a Lipschitz bound for the inner rounding)',
        'float tie: forward rounding bound per point from the per-entry bound of the C02 tie and interval evaluation of the NURBS '
        'quotient-rule expressions (module docstring); integers/shapes/knot vectors/classes exactly',
        'immutability is monitored on the implementation (snapshot of kvs/coeffs/support around every call), it is not a theorem',
        'not covered: find_inverse (scipy optimiser), perturb (random), np.cos/np.sin rounding in constructors beyond the stated bounds',
    ]
    cases, dist = gen_cases(ctx)
    ctors = gen_ctors(ctx)
    log('[C07] %d function cases, %d constructor cases' % (len(cases), len(ctors)))
    users = gen_users(ctx)
    # one interpreter start per 60 function cases (the quick tier is a single driver run)
    results = []
    B = 60
    allc = cases + ctors + users
    allr = []
    for i in range(0, len(allc), B):
        allr += ctx.impl.run('harness/impl/c07_driver.py', {'cases': allc[i:i + B]})['results']
    results = allr[:len(cases)]
    cres = allr[len(cases):len(cases) + len(ctors)]
    ures = allr[len(cases) + len(ctors):]
    log('[C07] implementation runs done at %.1fs' % (time.time() - ctx.t0))
    nfail = 0
    npts = 0
    checkers = []
    for ci, (c, r) in enumerate(zip(cases, results)):
        f = c['f']
        key = '%s:sdim%d:%s' % (f['kind'], len(f['kvs']), tailclass(f['tail']))
        if r['status'] != 'Ok':
            ctx.report('impl:raises-%s:%s' % (r['status'], key), 'constructing/evaluating a valid function raised %s: %s' % (r['status'], r.get('msg')),
                       {'case': c})
            checkers.append(None)
            nfail += 1
            continue
        ck = Checker(c, r)
        ck.run_eval()
        run_ops(ck)
        checkers.append(ck)
        for P in ck.points:
            ctx.count((ci, tuple(P['xs'])), nontrivial=True)
            npts += 1
        ctx.count(('ops', ci), nontrivial=True, n=len(c.get('ops', [])))
        seen = set()
        for (code, text, detail) in ck.bad:
            cls_ = classify(code, ck)
            if cls_ in seen:
                continue
            seen.add(cls_)
            nfail += 1
            ctx.report('impl:%s' % cls_, text,
                       {'function': {k: v for k, v in f.items()}, 'kvs': [[float.fromhex(h) for h in k['kv']] for k in f['kvs']],
                        'degrees': [k['p'] for k in f['kvs']], 'detail': detail, 'grid': [[float.fromhex(h) for h in ax] for ax in c['grid']],
                        'points_xyz': [[float.fromhex(h) for h in x] for x in c['pts']],
                        'how': 'build BSplineFunc/NurbsFunc(kvs, C.reshape(N+tail)[, W]) from the hex floats; compare f(*x), f.grid_eval, '
                               'f.pointwise_eval/jacobian, f.grid_jacobian/hessian, operations'})
    for c, r in zip(users, ures):
        ctx.count(('user', c['user'], str(c['support'])), nontrivial=True)
        for (code, text) in check_user(c, r)[:2]:
            nfail += 1
            ctx.report('impl:%s' % code, text, {'user': c['user'], 'callable': {'poly2': '(x*y+2, x-y*y)', 'xonly': 'x*x-0.5', 'poly3': '(x+2yz, y-xz, z*z+x)'}[c['user']],
                                                'support': [[float.fromhex(h) for h in s_] for s_ in c['support']], 'bd': c['bd'],
                                                'grid': [[float.fromhex(h) for h in a] for a in c['grid']]})
    for c, r in zip(ctors, cres):
        ctx.count(('ctor', c['ctor'], str(c.get('args'))), nontrivial=True)
        for (code, text) in check_ctor(c, r)[:2]:
            nfail += 1
            ctx.report('impl:%s' % code, text, {'ctor': c['ctor'], 'args': {k: (float.fromhex(v) if isinstance(v, str) else v) for k, v in c.get('args', {}).items()},
                                                'args_hex': c.get('args')})
    log('[C07] oracle checks done at %.1fs' % (time.time() - ctx.t0))
    ctx.cov['traces_validated_against_impl'] = npts
    ctx.cov['property_failures_on_impl'] = nfail
    # ---- correspondence with the exact Coq model
    files = []
    index = []
    PER = 2
    cur, curidx = [], []
    for ci, (c, ck) in enumerate(zip(cases, checkers)):
        if ck is None:
            continue
        F, m = coq_func(c['f'])
        pts = ck.points
        if ctx.tier == 'thorough':
            gp = [P for P in pts if P['grid']]
            sp = [P for P in pts if not P['grid']]
            pts = gp[:2] + gp[-1:] + sp[:3]       # <= 6 points per function in Coq; all points in the oracle stage
        if ctx.tier != 'thorough':
            gp = [P for P in pts if P['grid']]
            sp = [P for P in pts if not P['grid']]
            # quick tier: the exact Coq comparison on 2-3 points per function (every route at each);
            # all points are still checked against the Fraction oracle above
            pts = (gp[:1] + gp[-1:] + sp[:1]) if len(c['f']['kvs']) < 3 else (gp[-1:] + sp[:1])
        impl_coeffs = cql([fr(h) for h in results[ci]['eval']['coeffs']['v']])
        terms = ['check_fn %s F %d%%nat %s' % ('true' if c['f']['kind'] == 'nurbs' else 'false', m, clist([coq_pt(P) for P in pts])),
                 'check_arr %s F %s' % (cqc(16 * EPS * (fmax(c['f']['C']) * (fmax(c['f'].get('W', [])))) ), impl_coeffs)] + ck.coq_ops
        cur.append('(let F := %s in\n  %s)' % (F, '\n  && '.join(terms)))
        curidx.append(ci)
        if len(cur) == PER:
            files.append(cur); index.append(curidx); cur, curidx = [], []
    if cur:
        files.append(cur); index.append(curidx)
    texts = []
    for n, cs in enumerate(files):
        body = HEADER + 'Definition results := [\n' + ';\n'.join(cs) + '].\nEval vm_compute in bad_cases 0 results.\n'
        texts.append(('C07_cases_%03d' % n, body))
    # self-test of the differ: a copy of the first case file in which one coefficient of the MODEL is
    # perturbed (+3) must be reported as a disagreement of its first case
    selftest = None
    if texts:
        import re as _re
        t0 = texts[0][1]
        mm = _re.search(r'\(arr \[[^\]]*\] \d+%nat \[\(q \((-?\d+)\) (\d+)\)', t0)
        if mm:
            n0, d0 = int(mm.group(1)), int(mm.group(2))
            repl = mm.group(0)[:mm.start(1) - mm.start(0)] + str(n0 + 3 * d0) + mm.group(0)[mm.end(1) - mm.start(0):]
            selftest = ('C07_selftest', t0[:mm.start(0)] + repl + t0[mm.end(0):])
            texts.append(selftest)
            index.append(None)
    dis = []
    for (name, ok, out), idx in zip(ctx.coq_eval_many(texts, timeout=1500), index):
        ctx.obligations += 1
        badidx = parse_coq_list_of_nat(out) if ok else None
        if idx is None:
            if badidx is None or 0 not in badidx:
                ctx.broken.append('differ self-test: a perturbed model coefficient was not reported (%s)' % (out[-300:],))
            else:
                ctx.discharged += 1
            ctx.cov['differ_selftest'] = 'perturbed model reported' if badidx and 0 in badidx else 'NOT reported'
            continue
        if badidx is None:
            ctx.broken.append('case file %s did not evaluate: %s' % (name, out[-500:]))
            continue
        ctx.discharged += 1
        dis += [idx[b] for b in badidx]
    log('[C07] Coq case files done at %.1fs' % (time.time() - ctx.t0))
    ctx.cov['disagreements_checked'] = len(dis)
    for ci in dis[:4]:
        c = cases[ci]
        f = c['f']
        key = '%s:sdim%d:%s' % (f['kind'], len(f['kvs']), tailclass(f['tail']))
        ctx.broken.append('correspondence C07 model<->impl differs for function case #%d (%s)' % (ci, key))
        ctx.report('tie:exact-model:%s' % (classify(checkers[ci].bad[0][0], checkers[ci]) if checkers[ci].bad else key),
                   'implementation differs from the exact Coq model beyond the rounding bound (evaluation route, boundary or operation coefficients)',
                   {'function': f, 'kvs': [[float.fromhex(h) for h in k['kv']] for k in f['kvs']], 'grid': c['grid'], 'pts': c['pts'],
                    'ops': [{k: v for k, v in op.items() if k not in ('other',)} for op in c.get('ops', [])],
                    'python_oracle_findings': [b[0] for b in checkers[ci].bad],
                    'how': 'coq/gen/C07_cases_*.v: check_fn / check_arr of coq/C07/Check.v on this case'},
                   found_input=bool(checkers[ci].bad))
    ctx.cov['rule'] = ('random tensor-product B-spline/NURBS functions (sdim 1..3, degrees 1..3(4), 1..3 spans on a dyadic grid, interior '
                       'multiplicities 1..p, scalar/vector/matrix coefficients k/8, weights in [1/2,3]) x points (tensor grid + scattered, incl. knots '
                       'and end points) x routes (__call__, grid_eval, pointwise_eval, grid/pointwise Jacobian, Hessian) x operations (boundary by '
                       'name/pair, _BoundaryFunction, translate, scale, matrix, rotate, getitem, copy, as_nurbs, support restriction, cylinderize, '
                       'outer_sum/product, tensor_product) + constructors; one evaluation = one (function, point) or one operation')
    ctx.cov['input_distribution'] = dist
    if cases:
        c = cases[0]
        ctx.sample({'kind': c['f']['kind'], 'degrees': [k['p'] for k in c['f']['kvs']], 'kvs': [[float.fromhex(h) for h in k['kv']] for k in c['f']['kvs']],
                    'tail': c['f']['tail'], 'points_xyz': [[float.fromhex(h) for h in x] for x in c['pts']],
                    'impl_call': [r_.get('ok', {}).get('v') for r_ in results[0].get('eval', {}).get('call', [])][:2]})
    ctx.cov['exhaustive'] = False
    return ctx.finish(extra={'partial': [
        'perturb, find_inverse, tensor_product with more than two operands have no theorem; UserFunction routes are a theorem for any callable (user_routes_agree) '
        'and are checked on the implementation against the exact oracle; see the NOT PROVED account at the end of coq/C07/Props.v',
        'ComposedFunction / cylinderize / support restriction / copy / disk sides: theorems on the model (composed_routes, composed_chain_rule, cylinderize_spec, '
        'support_restriction_spec, copy_spec, disk_boundary_on_circle); their tie to the implementation is the Fraction oracle, not a Coq case file',
        'immutability: monitored by snapshots around every call on the implementation, not a theorem',
        'float rounding of the compiled kernels / numpy only bounded by the tie']})

META = {
    'technique': 'Rocq proofs over exact rationals / an abstract field (route agreement by induction over the axes, quotient and Leibniz '
                 'identities by field, circle identities by ring) + correspondence of bspline.py/geometry.py with the exact model within derived rounding bounds',
    'level_text': 'Theorems (Coq, 67, unbounded over axes, degrees, open knot vectors, coefficients, trailing shapes): single-point, grid and scattered-point '
                  'evaluation agree for B-spline and NURBS functions (routes_agree_*; the old XY[1-d] indexing is refuted for sdim 1 and 3), Jacobian slot order and '
                  'Hessian (triu) order, values/Jacobians/Hessians are sums over the Cox-de Boor reference and its derivative recursion (C02), NURBS = quotient with the '
                  'first- and second-order quotient rules, translate/scale/apply_matrix/getitem (full Python index semantics)/as_nurbs/outer_sum/outer_product/'
                  'tensor_product/cylinderize(+defaults)/copy/support restriction specs for BSplineFunc AND for the NURBS branches (apply_matrix, rotate_2d, outer sum/product, tensor product, mixed operands), UserFunction routes, boundary extraction is the trace (no hypothesis about the basis left open) and keeps '
                  'the support of the remaining axes, ComposedFunction chain rule, circular arcs / annulus / disk boundary lie on exact circles over any field with c^2+s^2=1, and circular_arc_3pt/5pt/7pt as model functions lie on the circle for every parameter value (their B-splines are the Bernstein polynomials of each span, from the Cox-de Boor recursion). '
                  'Tie on every run: every evaluation route, boundary extraction and coefficient operation of generated spline/NURBS functions (sdim 1-3, scalar/vector/matrix '
                  'coefficients, repeated knots, all bdspecs, partially restricted supports, point arrays in C/F/transposed/strided layouts, default arguments of every '
                  'constructor) against the exact Qc model (coq/C07/Model.v) within per-point derived bounds and against an independent Fraction oracle; snapshots around '
                  'every call check that no operation alters its operand.',
    'level_note': 'Trusted: Coq kernel + vm_compute; transcription (coq/C07/Model.v, coq/lib/Bsp.v) validated on every run; apply_tprod/einsum by contract; no hypothesis about the B-spline basis is left open (C02 + coq/C07/Ends.v); '
                  'float rounding bounded by the tie only (partial).',
}
