(* C02 -- correctness of _bspline_single_ev_single (Bsp.single_ev) against the Cox-de Boor
   reference.  For every degree, open knot vector, function index and u. *)
From Coq Require Import QArith Qcanon ZArith List Bool Arith Lia Lqa.
From Verif.lib Require Import Bsp.
From Verif.C02 Require Import Proofs Proofs_ref Proofs_ndu.
Import ListNotations.
Open Scope Qc_scope.

(* ------------------------------------------------------------------ *)
(* end-point values of the reference *)

(* u = t_i = ... = t_{i+p} < t_{i+p+1}  ==>  N_{i,p}(u) = 1 *)
Lemma N_left_end kv u : forall p i,
  (forall m, (m <= p)%nat -> kn kv (i + m) = u) -> u < kn kv (i + p + 1) -> Nref kv p i u = 1.
Proof.
  induction p as [|q IH]; intros i Heq Hlt.
  - cbn [Nref]. rewrite in_span_intro; [reflexivity|]. left.
    replace (S i) with (i + 0 + 1)%nat by lia. split; [|exact Hlt].
    rewrite <- (Heq 0%nat) by lia. replace (i + 0)%nat with i by lia. apply Qcle_refl.
  - rewrite Nref_S. rewrite (IH (i + 1)%nat).
    + pose proof (Heq 0%nat ltac:(lia)) as E0. replace (i + 0)%nat with i in E0 by lia.
      pose proof (Heq 1%nat ltac:(lia)) as E1.
      replace (i + S q + 1)%nat with (i + q + 2)%nat in Hlt by lia.
      rewrite E0, E1. replace (u - u) with 0 by ring. rewrite Qcdiv_0_l.
      field. qc2q. lra.
    + intros m Hm. replace (i + 1 + m)%nat with (i + S m)%nat by lia. apply Heq. lia.
    + replace (i + 1 + q + 1)%nat with (i + S q + 1)%nat by lia. exact Hlt.
Qed.

(* t_i < t_{i+1} = ... = t_{i+p+1} = last knot = u  ==>  N_{i,p}(u) = 1 *)
Lemma N_right_end kv i : kn kv i < lastk kv -> forall p,
  (forall m, (1 <= m <= p + 1)%nat -> kn kv (i + m) = lastk kv) -> Nref kv p i (lastk kv) = 1.
Proof.
  intros Hlt. induction p as [|q IH]; intros Heq.
  - cbn [Nref]. rewrite in_span_intro; [reflexivity|]. right.
    pose proof (Heq 1%nat ltac:(lia)) as E1. replace (i + 1)%nat with (S i) in E1 by lia.
    split; [reflexivity|]. split; [rewrite E1; exact Hlt|exact E1].
  - rewrite Nref_S. rewrite IH by (intros m Hm; apply Heq; lia).
    pose proof (Heq (q + 1)%nat ltac:(lia)) as Ea. replace (i + (q + 1))%nat with (i + q + 1)%nat in Ea by lia.
    pose proof (Heq (q + 2)%nat ltac:(lia)) as Eb. replace (i + (q + 2))%nat with (i + q + 2)%nat in Eb by lia.
    rewrite Ea, Eb.
    replace (lastk kv - lastk kv) with 0 by ring. rewrite Qcdiv_0_l.
    field. qc2q. lra.
Qed.

(* at the right end point only a function whose first span is the last non-empty one is non-zero *)
Lemma N_at_last kv : sorted kv -> forall p i, (i + p + 1 < length kv)%nat ->
  Nref kv p i (lastk kv) <> 0 -> kn kv i < lastk kv /\ kn kv (i + 1) = lastk kv.
Proof.
  intros Hs. induction p as [|q IH]; intros i Hi Hn.
  - cbn [Nref] in Hn. destruct (in_span kv i (lastk kv)) eqn:E; [|congruence].
    apply in_span_true in E. unfold supp in E. replace (i + 0 + 1)%nat with (i + 1)%nat in E by lia.
    destruct E as [[A B]|[_ [B C]]]; [|split; assumption].
    exfalso. assert (kn kv (i + 1) <= lastk kv) by (apply Hs; lia). qc2q. lra.
  - rewrite Nref_S in Hn.
    destruct (Qc_eq_dec (Nref kv q i (lastk kv)) 0) as [Z1|N1]; [|apply IH; [lia|exact N1]].
    exfalso. apply Hn. rewrite Z1.
    destruct (Qc_eq_dec (Nref kv q (i + 1) (lastk kv)) 0) as [Z2|N2]; [rewrite Z2; ring|].
    apply IH in N2; [|lia]. destruct N2 as [_ E].
    assert (A : kn kv (i + 1 + 1) <= kn kv (i + q + 2)) by (apply Hs; lia).
    assert (B : kn kv (i + q + 2) <= lastk kv) by (apply Hs; lia).
    assert (C : kn kv (i + q + 2) = lastk kv) by (apply Qcle_antisym; [exact B|rewrite <- E; exact A]).
    rewrite C. replace (lastk kv - lastk kv) with 0 by ring. rewrite Qcdiv_0_l. ring.
Qed.

(* ------------------------------------------------------------------ *)
(* the triangular loop *)

Section SINGLE.
Variable kv : list Qc.
Variable p i : nat.
Variable u : Qc.

Definition asav (k j : nat) : Qc :=
  (u - kn kv (i + j)) / (kn kv (i + j + k) - kn kv (i + j)) * Nref kv (k - 1) (i + j) u.

Definition sin_inv (k : nat) (j : nat) (st : list Qc * Qc) : Prop :=
  length (fst st) = S p /\
  (forall j', (j' < j)%nat -> nth j' (fst st) 0 = Nref kv k (i + j') u) /\
  (forall j', (j <= j' <= p - k + 1)%nat -> nth j' (fst st) 0 = Nref kv (k - 1) (i + j') u) /\
  snd st = asav k j.

Lemma sin_step k : (1 <= k <= p)%nat ->
  forall j st, (0 <= j < 0 + (p - k + 1))%nat -> sin_inv k j st -> sin_inv k (S j) (single_ev_inner kv i k u st j).
Proof.
  intros Hk j [N saved] Hj [HL [Hlo [Hhi Hsv]]]. cbn [fst snd] in *.
  unfold single_ev_inner.
  assert (E1 : nth (j + 1) N 0 = Nref kv (k - 1) (i + j + 1) u).
  { rewrite Hhi by lia. f_equal. lia. }
  assert (Enew : forall v, v = Nref kv k (i + j) u ->
     forall j', (j' < S j)%nat -> nth j' (upd N j v) 0 = Nref kv k (i + j') u).
  { intros v Hv j' Hj'. rewrite nth_upd by lia. destruct (Nat.eqb_spec j' j) as [->|Ne].
    - exact Hv.
    - apply Hlo. lia. }
  assert (Eold : forall v j', (S j <= j' <= p - k + 1)%nat -> nth j' (upd N j v) 0 = Nref kv (k - 1) (i + j') u).
  { intros v j' Hj'. rewrite nth_upd by lia. destruct (Nat.eqb_spec j' j) as [->|Ne]; [lia|].
    apply Hhi. lia. }
  assert (ES : Nref kv k (i + j) u =
     asav k j + (kn kv (i + j + k + 1) - u) / (kn kv (i + j + k + 1) - kn kv (i + j + 1)) * Nref kv (k - 1) (i + j + 1) u).
  { unfold asav. destruct k as [|q]; [lia|]. rewrite Nref_S.
    replace (S q - 1)%nat with q by lia.
    replace (i + j + q + 1)%nat with (i + j + S q)%nat by lia.
    replace (i + j + q + 2)%nat with (i + j + S q + 1)%nat by lia. reflexivity. }
  destruct (qeqb (nth (j + 1) N 0) 0) eqn:EZ.
  - apply qeqb_iff in EZ. rewrite E1 in EZ.
    split; [|split; [|split]]; cbn [fst snd].
    + rewrite length_upd; lia.
    + apply Enew. rewrite ES, EZ, Hsv. ring.
    + apply Eold.
    + unfold asav. replace (i + S j)%nat with (i + j + 1)%nat by lia. rewrite EZ. ring.
  - split; [|split; [|split]]; cbn [fst snd].
    + rewrite length_upd; lia.
    + apply Enew. rewrite ES, E1, Hsv. unfold Qcdiv. ring.
    + apply Eold.
    + unfold asav. rewrite E1. replace (i + S j)%nat with (i + j + 1)%nat by lia.
      replace (i + j + 1 + k)%nat with (i + j + k + 1)%nat by lia.
      unfold Qcdiv. ring.
Qed.

Definition sout_inv (k : nat) (N : list Qc) : Prop :=
  length N = S p /\ forall j, (j + k <= p + 1)%nat -> nth j N 0 = Nref kv (k - 1) (i + j) u.

Lemma sout_step : forall k N, (1 <= k < 1 + p)%nat -> sout_inv k N -> sout_inv (S k) (single_ev_outer kv p i u N k).
Proof.
  intros k N Hk [HL Hent]. unfold single_ev_outer.
  set (saved := if qeqb (nth 0 N 0) 0 then 0 else (u - kn kv i) * nth 0 N 0 / (kn kv (i + k) - kn kv i)).
  pose proof (fold_left_seq_inv (single_ev_inner kv i k u) (sin_inv k) (p - k + 1) 0 (N, saved)) as F.
  cbn [Nat.add] in F.
  destruct (fold_left (single_ev_inner kv i k u) (seq 0 (p - k + 1)) (N, saved)) as [N' saved'] eqn:EF.
  assert (I : sin_inv k (p - k + 1) (N', saved')).
  { apply F.
    - split; [exact HL|]. cbn [fst snd]. split; [intros j' Hj'; lia|].
      split; [intros j' Hj'; apply Hent; lia|].
      unfold saved, asav. rewrite (Hent 0%nat) by lia.
      replace (i + 0)%nat with i by lia.
      destruct (qeqb (Nref kv (k - 1) i u) 0) eqn:EZ.
      + apply qeqb_iff in EZ. rewrite EZ. ring.
      + unfold Qcdiv. ring.
    - intros j st Hj. apply sin_step; lia. }
  destruct I as [HL' [Hlo _]]. cbn [fst snd] in *.
  split; [exact HL'|]. intros j Hj. replace (S k - 1)%nat with k by lia. apply Hlo. lia.
Qed.

End SINGLE.

Lemma single_ev_loop kv p i u : u < lastk kv ->
  nth 0 (fold_left (single_ev_outer kv p i u) (seq 1 p)
           (map (fun j => if qleb (kn kv (i + j)) u && qltb u (kn kv (i + j + 1)) then 1 else 0) (seq 0 (S p)))) 0
  = Nref kv p i u.
Proof.
  intros Hu.
  set (N0 := map (fun j => if qleb (kn kv (i + j)) u && qltb u (kn kv (i + j + 1)) then 1 else 0) (seq 0 (S p))).
  pose proof (fold_left_seq_inv (single_ev_outer kv p i u) (sout_inv kv p i u) p 1 N0) as F.
  assert (I : sout_inv kv p i u (1 + p) (fold_left (single_ev_outer kv p i u) (seq 1 p) N0)).
  { apply F.
    - split; [unfold N0; rewrite map_length, seq_length; reflexivity|].
      intros j Hj. unfold N0. rewrite nth_map_seq by lia. cbn [Nat.add Nat.sub Nref].
      unfold in_span. fold (lastk kv).
      replace (S (i + j)) with (i + j + 1)%nat by lia.
      assert (EQ : qeqb u (lastk kv) = false).
      { destruct (qeqb u (lastk kv)) eqn:E; [|reflexivity]. apply qeqb_iff in E.
        exfalso. rewrite E in Hu. revert Hu. apply Qcle_not_lt, Qcle_refl. }
      rewrite EQ. cbn [andb]. rewrite orb_false_r. reflexivity.
    - intros k N Hk. apply sout_step. exact Hk. }
  destruct I as [_ H]. rewrite (H 0%nat) by lia.
  replace (1 + p - 1)%nat with p by lia. replace (i + 0)%nat with i by lia. reflexivity.
Qed.

(* ------------------------------------------------------------------ *)

Lemma single_ev_eq_spec_l kv p i u :
  open_kv kv p = true -> (i + p + 1 < length kv)%nat -> single_ev kv p i u = Nref kv p i u.
Proof.
  intros Hopen Hi.
  destruct (open_kv_parts kv p Hopen) as [Hlen [Hs [Hfirst [Hlast [Hfs [Hls _]]]]]].
  unfold single_ev. fold (lastk kv).
  destruct ((i =? 0)%nat && qeqb u (kn kv 0)) eqn:C1.
  { apply andb_true_iff in C1. destruct C1 as [Ei Eu]. apply Nat.eqb_eq in Ei. apply qeqb_iff in Eu.
    subst i. cbn [orb]. symmetry. apply N_left_end.
    - intros m Hm. cbn [Nat.add]. rewrite Hfirst by exact Hm. symmetry. exact Eu.
    - cbn [Nat.add]. replace (p + 1)%nat with (S p) by lia. rewrite Eu. rewrite <- (Hfirst p) by lia. exact Hfs. }
  cbn [orb].
  destruct ((i =? length kv - p - 2)%nat && qeqb u (lastk kv)) eqn:C2.
  { apply andb_true_iff in C2. destruct C2 as [Ei Eu]. apply Nat.eqb_eq in Ei. apply qeqb_iff in Eu.
    subst u. symmetry. apply N_right_end.
    - subst i. unfold lastk. rewrite <- (Hlast p) by lia.
      replace (length kv - 1 - p)%nat with (length kv - p - 1)%nat by lia. exact Hls.
    - intros m Hm. subst i. unfold lastk.
      replace (length kv - p - 2 + m)%nat with (length kv - 1 - (p + 1 - m))%nat by lia.
      apply Hlast. lia. }
  destruct (qltb u (kn kv i) || qleb (kn kv (i + p + 1)) u) eqn:C3.
  { (* outside the half-open support *)
    symmetry. destruct (Qc_eq_dec (Nref kv p i u) 0) as [Z|N]; [exact Z|exfalso].
    pose proof (N_support kv Hs p i u Hi N) as S.
    apply orb_true_iff in C3.
    destruct S as [[A B]|[A [B C]]].
    - destruct C3 as [C3|C3]; [apply qltb_iff in C3|apply qleb_iff in C3]; qc2q; lra.
    - subst u. apply N_at_last in N; [|exact Hs|exact Hi]. destruct N as [_ E].
      assert (Ei : i = (length kv - p - 2)%nat).
      { destruct (Nat.eq_dec i (length kv - p - 2)) as [e|ne]; [exact e|exfalso].
        assert (X : kn kv (i + 1) <= kn kv (length kv - p - 2)) by (apply Hs; lia).
        assert (Y : kn kv (length kv - p - 1) = lastk kv).
        { unfold lastk. rewrite <- (Hlast p) by lia. f_equal. lia. }
        qc2q. lra. }
      rewrite <- Ei, Nat.eqb_refl in C2. cbn [andb] in C2.
      assert (qeqb (lastk kv) (lastk kv) = true) by (apply qeqb_iff; reflexivity). congruence. }
  apply orb_false_iff in C3. destruct C3 as [C3 C4].
  apply qleb_false_iff in C4.
  apply single_ev_loop. eapply Qclt_le_trans; [exact C4|]. apply Hs; lia.
Qed.

(* the single-function route and the collocation-row route agree entry for entry *)
Lemma routes_agree_l kv p u j :
  open_kv kv p = true -> kn kv 0 <= u -> u <= kn kv (length kv - 1) -> (j < numdofs kv p)%nat ->
  single_ev kv p j u = nth j (colloc_row kv p 0 u) 0.
Proof.
  intros Hopen H0 H1 Hj. pose proof (open_kv_ok_l kv p Hopen) as Hok.
  rewrite colloc_row_values_l by assumption.
  apply single_ev_eq_spec_l; [exact Hopen|]. unfold numdofs in Hj. pose proof (ok_len _ _ Hok). lia.
Qed.
