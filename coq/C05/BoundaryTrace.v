(* C05 -- HSpace.boundary (hierarchical.py:540-580): the boundary space keeps, per level, the functions whose
   multi-index has the first resp. last index on the boundary axis (assemble.boundary_dofs) and drops that
   component (_drop_index_in_tuples).  On the tensor-product model TPN of C05/Hier.v: the trace of the
   tensor-product B-spline with multi-index (i1, j, i2) on the face  x_axis = end of the knot vector  is
   [j = end index] * the tensor-product B-spline (i1, i2) of the remaining axes.
   The end-point values of the Cox-de Boor reference are those proved in coq/C07/Ends.v. *)
From Coq Require Import QArith Qcanon List Arith Lia.
From Verif.lib Require Import Bsp.
From Verif.C02 Require Import Proofs.
From Verif.C05 Require Import Model Proofs Hier.
Require Verif.C07.Ends.
Import ListNotations.
Open Scope Qc_scope.

Definition open_ends (kv : list Qc) (p : nat) : Prop := kv_ok kv p /\ kn kv p < kn kv (S p).
Definition end_idx (kv : list Qc) (p side : nat) : nat := if Nat.eqb side 0 then 0%nat else (numdofs kv p - 1)%nat.
Definition end_pt (kv : list Qc) (side : nat) : Qc := if Nat.eqb side 0 then kn kv 0 else kn kv (length kv - 1).

Lemma N_at_end kv p side j : open_ends kv p -> (j < numdofs kv p)%nat ->
  Nref kv p j (end_pt kv side) = if Nat.eqb j (end_idx kv p side) then 1 else 0.
Proof.
  intros [Hok Hlt] Hj. unfold end_pt, end_idx. destruct (Nat.eqb side 0).
  - apply Verif.C07.Ends.N_at_left_end; assumption.
  - apply (Verif.C07.Ends.N_at_right_end kv p j Hok Hj).
Qed.

Lemma ravel_divmod a b c : (c < b)%nat -> ((a * b + c) / b = a)%nat /\ ((a * b + c) mod b = c)%nat.
Proof.
  intros H. split.
  - symmetry. apply (Nat.div_unique _ b a c); lia.
  - symmetry. apply (Nat.mod_unique _ b a c); lia.
Qed.

Lemma tp_dofs_app k1 r : tp_dofs (k1 ++ r) = (tp_dofs k1 * tp_dofs r)%nat.
Proof. induction k1 as [|[kv p] k1 IH]; cbn [app tp_dofs]; [lia|]. rewrite IH. lia. Qed.

(* C-order raveling splits along a concatenation of axes *)
Lemma TPN_app : forall k1 r a b xs1 xs2,
  length xs1 = length k1 -> (a < tp_dofs k1)%nat -> (b < tp_dofs r)%nat ->
  TPN (k1 ++ r) (a * tp_dofs r + b) (xs1 ++ xs2) = TPN k1 a xs1 * TPN r b xs2.
Proof.
  induction k1 as [|[kv p] k1 IH]; intros r a b xs1 xs2 Hl Ha Hb.
  - destruct xs1; [|discriminate]. cbn [tp_dofs] in Ha. assert (a = 0)%nat by lia. subst a.
    cbn [app TPN Nat.mul Nat.add]. ring.
  - destruct xs1 as [|x xs1]; [discriminate|]. cbn [length] in Hl.
    cbn [app TPN tp_dofs hd tl] in *. rewrite tp_dofs_app.
    set (d1 := tp_dofs k1) in *. set (dr := tp_dofs r) in *.
    assert (Hd1 : (0 < d1)%nat) by (destruct d1; lia).
    pose proof (Nat.div_mod a d1 ltac:(lia)) as Ea.
    pose proof (Nat.mod_upper_bound a d1 ltac:(lia)) as Hs.
    set (q := (a / d1)%nat) in *. set (s := (a mod d1)%nat) in *.
    assert (Hsb : (s * dr + b < d1 * dr)%nat) by nia.
    assert (Eidx : (a * dr + b = q * (d1 * dr) + (s * dr + b))%nat) by nia.
    rewrite Eidx. destruct (ravel_divmod q (d1 * dr) (s * dr + b) Hsb) as [-> ->].
    subst dr. rewrite (IH r s b xs1 xs2) by lia. ring.
Qed.

(* trace of a tensor-product B-spline on a face *)
Lemma tp_trace_l k1 kv p k2 u1 u2 side i1 j i2 :
  length u1 = length k1 -> open_ends kv p ->
  (i1 < tp_dofs k1)%nat -> (j < numdofs kv p)%nat -> (i2 < tp_dofs k2)%nat ->
  TPN (k1 ++ (kv, p) :: k2) ((i1 * numdofs kv p + j) * tp_dofs k2 + i2) (u1 ++ end_pt kv side :: u2)
  = (if Nat.eqb j (end_idx kv p side) then 1 else 0) * TPN (k1 ++ k2) (i1 * tp_dofs k2 + i2) (u1 ++ u2).
Proof.
  intros Hl Ho H1 Hj H2.
  replace ((i1 * numdofs kv p + j) * tp_dofs k2 + i2)%nat
    with (i1 * tp_dofs ((kv, p) :: k2) + (j * tp_dofs k2 + i2))%nat by (cbn [tp_dofs]; lia).
  assert (Hb : (j * tp_dofs k2 + i2 < tp_dofs ((kv, p) :: k2))%nat) by (cbn [tp_dofs]; nia).
  rewrite (TPN_app k1 ((kv, p) :: k2) i1 _ u1 (end_pt kv side :: u2) Hl H1 Hb).
  rewrite (TPN_app k1 k2 i1 i2 u1 u2 Hl H1 H2).
  cbn [TPN hd tl]. destruct (ravel_divmod j (tp_dofs k2) i2 H2) as [-> ->].
  rewrite (N_at_end kv p side j Ho Hj). ring.
Qed.

(* boundary_restriction: function k = (i1, i2) of the boundary space is the trace of function
   map[k] = (i1, end index, i2) of the space *)
Lemma boundary_restriction_l k1 kv p k2 u1 u2 side i1 i2 :
  length u1 = length k1 -> open_ends kv p -> (i1 < tp_dofs k1)%nat -> (i2 < tp_dofs k2)%nat ->
  TPN (k1 ++ k2) (i1 * tp_dofs k2 + i2) (u1 ++ u2)
  = TPN (k1 ++ (kv, p) :: k2) ((i1 * numdofs kv p + end_idx kv p side) * tp_dofs k2 + i2)
        (u1 ++ end_pt kv side :: u2).
Proof.
  intros Hl Ho H1 H2.
  assert (Hj : (end_idx kv p side < numdofs kv p)%nat).
  { destruct Ho as [Hok _]. pose proof (ok_len _ _ Hok). unfold end_idx, numdofs. destruct (Nat.eqb side 0); lia. }
  rewrite (tp_trace_l k1 kv p k2 u1 u2 side i1 _ i2 Hl Ho H1 Hj H2). rewrite Nat.eqb_refl. ring.
Qed.

(* ... and every function that is not kept vanishes on the face *)
Lemma boundary_others_vanish_l k1 kv p k2 u1 u2 side i1 j i2 :
  length u1 = length k1 -> open_ends kv p ->
  (i1 < tp_dofs k1)%nat -> (j < numdofs kv p)%nat -> (i2 < tp_dofs k2)%nat -> j <> end_idx kv p side ->
  TPN (k1 ++ (kv, p) :: k2) ((i1 * numdofs kv p + j) * tp_dofs k2 + i2) (u1 ++ end_pt kv side :: u2) = 0.
Proof.
  intros Hl Ho H1 Hj H2 Hne. rewrite (tp_trace_l k1 kv p k2 u1 u2 side i1 j i2 Hl Ho H1 Hj H2).
  destruct (Nat.eqb_spec j (end_idx kv p side)); [contradiction|ring].
Qed.
