import json,sys,os,subprocess
pid=sys.argv[1]
base=subprocess.run(['/venv/bin/python','/verif/tools/mutant_prompt.py',pid],capture_output=True,text=True).stdout
base=base.replace('/tmp/mut-%s'%pid,'/tmp/mut2-%s'%pid).replace('/tmp/mut-out/%s-k'%pid,'/tmp/mut-out/%s-k'%pid)
prev=[]
for k in (1,2):
    m='/verif/seeded/%s-%d/meta.json'%(pid,k)
    if os.path.exists(m):
        j=json.load(open(m)); prev.append('- '+str(j.get('summary',''))[:400].replace('\n',' '))
base=base.replace('DELIVER, for change k = 1, 2,','DELIVER, for change k = 3, 4,')
extra='\nALREADY TAKEN (another engineer seeded these before; yours must be DIFFERENT mechanisms in different functions, and should target other conjuncts of the property where possible):\n'+'\n'.join(prev)+'\nNote: the repository HEAD contains many recent commits whose messages start with "fix:" — those are genuine repairs; do not simply revert one of them (a revert is not an independent seed).\n'
print(base.replace('\nRULES\n',extra+'\nRULES\n'))
