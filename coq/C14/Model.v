(* C14 -- executable model of pyiga.assemble.Multipatch (assemble.py, class Multipatch):
   join_dofs / join_boundaries / finalize / numdofs / patch_to_global_idx.
   Definitions only; proofs are in Proofs.v. *)
From Coq Require Import List Arith Bool Lia.
From Verif.lib Require Import Slice.
Import ListNotations.

Definition dof := (nat * nat)%type.   (* (patch, local tensor-product index) *)

Definition dof_eqb (a b : dof) : bool := (fst a =? fst b) && (snd a =? snd b).

(* shared_per_patch, all patches in one association list: (patch, local) -> shared dof.
   The first binding of a key is the current one (dict assignment = cons). *)
Definition smap := list (dof * nat).

Fixpoint lookup (m : smap) (k : dof) : option nat :=
  match m with
  | [] => None
  | (k', s) :: m' => if dof_eqb k k' then Some s else lookup m' k
  end.

Record state := mk_state { sm : smap; nsd : nat }.

Definition init : state := mk_state [] 0.

(* merging shared dof s2 into s1: every member of s2 is re-bound to s1 *)
Definition relabel (s2 s1 : nat) (m : smap) : smap :=
  map (fun e => (fst e, if snd e =? s2 then s1 else snd e)) m.

(* one iteration of the loop in join_dofs *)
Definition join1 (st : state) (ab : dof * dof) : state :=
  let (a, b) := ab in
  match lookup (sm st) a, lookup (sm st) b with
  | Some s1, Some s2 =>
      if s1 =? s2 then st else mk_state (relabel s2 s1 (sm st)) (nsd st)
  | Some s1, None => mk_state ((b, s1) :: sm st) (nsd st)
  | None, Some s2 => mk_state ((a, s2) :: sm st) (nsd st)
  | None, None => mk_state ((a, nsd st) :: (b, nsd st) :: sm st) (S (nsd st))
  end.

Definition join_dofs (st : state) (p1 : nat) (I1 : list nat) (p2 : nat) (I2 : list nat) : state :=
  fold_left join1 (combine (map (pair p1) I1) (map (pair p2) I2)) st.

(* a join_boundaries call: patches with their per-axis numdofs, (axis, side) per patch, flip *)
Record bjoin := mk_bjoin {
  bj_p1 : nat; bj_ax1 : nat; bj_side1 : nat;
  bj_p2 : nat; bj_ax2 : nat; bj_side2 : nat;
  bj_flip : list bool }.

Definition bjoin_pairs (shapes : list (list nat)) (j : bjoin) : list (dof * dof) :=
  let d1 := boundary_dofs (nth (bj_p1 j) shapes []) (bj_ax1 j) (bj_side1 j) [] in
  let d2 := boundary_dofs (nth (bj_p2 j) shapes []) (bj_ax2 j) (bj_side2 j) (bj_flip j) in
  combine (map (pair (bj_p1 j)) d1) (map (pair (bj_p2 j)) d2).

Definition join_boundaries (shapes : list (list nat)) (st : state) (j : bjoin) : state :=
  fold_left join1 (bjoin_pairs shapes j) st.

Definition all_pairs (shapes : list (list nat)) (js : list bjoin) : list (dof * dof) :=
  flat_map (bjoin_pairs shapes) js.

Definition run (shapes : list (list nat)) (js : list bjoin) : state :=
  fold_left (join_boundaries shapes) js init.

(* ---- finalize: compaction of the shared dofs emptied by merging, offsets ---- *)

Definition used (m : smap) (s : nat) : bool := existsb (fun e => snd e =? s) m.

(* join1 only ever binds keys that are not yet bound (Proofs.keys_nodup), so every
   binding in the list is a current one. *)
(* number of k < n with f k *)
Definition cnt (f : nat -> bool) (n : nat) : nat := length (filter f (seq 0 n)).

Definition rank (m : smap) (s : nat) : nat := cnt (used m) s.

Definition shared_in (m : smap) (p i : nat) : bool :=
  match lookup m (p, i) with Some _ => true | None => false end.

(* number of non-shared dofs of patch p among local indices < i *)
Definition pos (m : smap) (p i : nat) : nat :=
  cnt (fun k => negb (shared_in m p k)) i.

Definition Mloc (m : smap) (Ns : list nat) (p : nat) : nat := pos m p (nth p Ns 0).

Fixpoint M_ofs (m : smap) (Ns : list nat) (p : nat) : nat :=
  match p with
  | 0 => 0
  | S q => M_ofs m Ns q + Mloc m Ns q
  end.

Definition Mtot (m : smap) (Ns : list nat) : nat := M_ofs m Ns (length Ns).

Definition numdofs (st : state) (Ns : list nat) : nat :=
  Mtot (sm st) Ns + rank (sm st) (nsd st).

Definition glob (st : state) (Ns : list nat) (a : dof) : nat :=
  match lookup (sm st) a with
  | Some s => Mtot (sm st) Ns + rank (sm st) s
  | None => M_ofs (sm st) Ns (fst a) + pos (sm st) (fst a) (snd a)
  end.

Definition patch_to_global_idx (st : state) (Ns : list nat) (p : nat) : list nat :=
  map (fun i => glob st Ns (p, i)) (seq 0 (nth p Ns 0)).

Definition prod_list (l : list nat) : nat := fold_left Nat.mul l 1.

(* everything the correspondence run compares, for one history *)
Definition observe (shapes : list (list nat)) (js : list bjoin) : nat * list (list nat) :=
  let st := run shapes js in
  let Ns := map prod_list shapes in
  (numdofs st Ns, map (patch_to_global_idx st Ns) (seq 0 (length Ns))).
