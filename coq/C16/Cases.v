(* C16 -- the model instantiated at R := Z, decoders for the correspondence case
   files (coq/gen/C16_cases_NNN.v) and the comparison with the implementation's
   outputs.  Executable definitions only. *)
From Coq Require Import List Arith Bool ZArith.
From Verif.C16 Require Import Model.
Import ListNotations.

Definition zmat (r c : nat) (d : list Z) : mat Z := mkmat Z r c (fun i j => nth (i * c + j) d 0%Z).
Definition zarr (shp : list nat) (d : list Z) : arr Z :=
  mkarr Z shp (fun idx => nth (ravel shp idx) d 0%Z).
Definition zvec (d : list Z) : nat -> Z := fun i => nth i d 0%Z.

(* all multi-indices of a shape in C order *)
Fixpoint all_idx (shp : list nat) : list (list nat) :=
  match shp with
  | [] => [[]]
  | s :: shp' => flat_map (fun i => map (cons i) (all_idx shp')) (seq 0 s)
  end.

Definition to_list (A : arr Z) : list Z := map (aat Z A) (all_idx (ashape Z A)).

Fixpoint leqb {T} (e : T -> T -> bool) (a b : list T) : bool :=
  match a, b with [], [] => true | x :: a', y :: b' => e x y && leqb e a' b' | _, _ => false end.

Definition arr_is (A : arr Z) (shp : list nat) (d : list Z) : bool :=
  leqb Nat.eqb (ashape Z A) shp && leqb Z.eqb (to_list A) d.

(* a column-wise operator  y_col = F x_col  applied to an (n x ncol) C-ordered block of
   numbers, result (m x ncol) C-ordered *)
Definition cols_apply (F : (nat -> Z) -> nat -> Z) (m ncol : nat) (xd : list Z) : list Z :=
  flat_map (fun r => map (fun c => F (fun j => nth (j * ncol + c) xd 0%Z) r) (seq 0 ncol)) (seq 0 m).

Definition zO := 0%Z.
Definition zsum (l : list nat) : nat := fold_right Nat.add 0 l.

Inductive case :=
| CTprod (ops : list (option (operand Z))) (xs : list nat) (xd : list Z) (ys : list nat) (yd : list Z)
| CModek (B : operand Z) (k : nat) (xs : list nat) (xd : list Z) (ys : list nat) (yd : list Z)
| CKronOp (tr : bool) (ops : list (operand Z)) (xs : list nat) (xd : list Z) (ys : list nat) (yd : list Z)
| CApplyKron (ops : list (operand Z)) (xs : list nat) (xd : list Z) (ys : list nat) (yd : list Z)
| CBlock (tr : bool) (grid : list (list (option (mat Z)))) (heights widths : list nat)
         (ncol : nat) (xd yd : list Z)
| CBlockDiag (tr : bool) (ops : list (mat Z)) (ncol : nat) (xd yd : list Z)
| CDiag (d : list Z) (ncol : nat) (xd yd : list Z)
| CIdent (n ncol : nat) (xd yd : list Z)
| CNull (r c ncol : nat) (xd yd : list Z)
| CSubspace (tr : bool) (n : nat) (PB : list (mat Z * mat Z)) (ncol : nat) (xd yd : list Z)
| CRowSlice (A : csr Z) (r0 r1 ncol : nat) (xd yd : list Z)
| CRowSubset (A : csr Z) (rows : list nat) (xd yd : list Z).

Definition D (r c : nat) (d : list Z) : operand Z := mkop Z Dense (zmat r c d).
Definition A (r c : nat) (d : list Z) : operand Z := mkop Z Abstract (zmat r c d).
Definition M := zmat.

Definition agrees (c : case) : bool :=
  match c with
  | CTprod ops xs xd ys yd => arr_is (apply_tprod Z zO Z.add Z.mul ops (zarr xs xd)) ys yd
  | CModek B k xs xd ys yd => arr_is (modek_tprod Z zO Z.add Z.mul B k (zarr xs xd)) ys yd
  | CKronOp tr ops xs xd ys yd =>
      arr_is ((if tr then kronecker_operator_T else kronecker_operator) Z zO Z.add Z.mul ops (zarr xs xd)) ys yd
  | CApplyKron ops xs xd ys yd => arr_is (apply_kronecker Z zO Z.add Z.mul ops (zarr xs xd)) ys yd
  | CBlock tr grid hs ws ncol xd yd =>
      let bl := block_operator Z grid hs ws in
      let bl' := if tr then map (placed_T Z) bl else bl in
      leqb Z.eqb (cols_apply (base_block_matvec Z zO Z.add Z.mul bl') (zsum (if tr then ws else hs)) ncol xd) yd
  | CBlockDiag tr ops ncol xd yd =>
      let bl := block_diagonal Z ops in
      let bl' := if tr then map (placed_T Z) bl else bl in
      let m := zsum (map (if tr then mcols Z else mrows Z) ops) in
      leqb Z.eqb (cols_apply (base_block_matvec Z zO Z.add Z.mul bl') m ncol xd) yd
  | CDiag d ncol xd yd => leqb Z.eqb (cols_apply (diagonal_matvec Z Z.mul (zvec d)) (length d) ncol xd) yd
  | CIdent n ncol xd yd => leqb Z.eqb (cols_apply (identity_matvec Z) n ncol xd) yd
  | CNull r c ncol xd yd => leqb Z.eqb (cols_apply (null_matvec Z zO) r ncol xd) yd
  | CSubspace tr n PB ncol xd yd =>
      leqb Z.eqb (cols_apply (subspace_matvec Z zO Z.add Z.mul tr PB) n ncol xd) yd
  | CRowSlice A r0 r1 ncol xd yd =>
      leqb Z.eqb (cols_apply (csr_rowslice Z zO Z.add Z.mul A r0 r1) (r1 - r0) ncol xd) yd
  | CRowSubset A rows xd yd =>
      leqb Z.eqb (cols_apply (csr_rowsubset Z zO Z.add Z.mul A rows) (length rows) 1 xd) yd
  end.

Fixpoint bad (k : nat) (cs : list case) : list nat :=
  match cs with [] => [] | c :: cs' => if agrees c then bad (S k) cs' else k :: bad (S k) cs' end.
