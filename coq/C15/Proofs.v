(* C15 -- lemmas about the model of multi-level structured matrices. *)
From Coq Require Import ZArith List Bool Lia Arith.
From Verif.C15 Require Import Model Spec.
Import ListNotations.
Open Scope Z_scope.

(* ------------------------------------------------------------------------ *)
(* generic list facts                                                        *)
(* ------------------------------------------------------------------------ *)
Lemma map_flat_map : forall {A B C : Type} (f : B -> C) (g : A -> list B) (l : list A),
  map f (flat_map g l) = flat_map (fun x => map f (g x)) l.
Proof. induction l; simpl; auto. rewrite map_app, IHl; auto. Qed.

Lemma flat_map_ext' : forall {A B : Type} (f g : A -> list B) (l : list A),
  (forall x, In x l -> f x = g x) -> flat_map f l = flat_map g l.
Proof. induction l; simpl; intros; auto. rewrite H, IHl; auto. Qed.

Lemma filter_true : forall {A : Type} (f : A -> bool) (l : list A),
  (forall x, f x = true) -> filter f l = l.
Proof. induction l; simpl; intros; auto. rewrite H, IHl; auto. Qed.

Lemma keep_false : forall l, filter (keep false) l = l.
Proof. intros; apply filter_true; reflexivity. Qed.

Lemma keep_true_lower : forall e, keep true e = lower e.
Proof. reflexivity. Qed.

(* ------------------------------------------------------------------------ *)
(* to_seq / from_seq : mixed-radix bijection                                 *)
(* ------------------------------------------------------------------------ *)
Lemma to_seq_acc_shift : forall dims I acc, length I = length dims ->
  to_seq_acc acc I dims = acc * prodZ dims + to_seq_acc 0 I dims.
Proof.
  induction dims as [|m dims IH]; intros I acc Hl; destruct I as [|i I]; simpl in Hl; try lia.
  - simpl. lia.
  - cbn [to_seq_acc prodZ fold_right].
    rewrite (IH I (acc * m + i)) by lia. rewrite (IH I (0 * m + i)) by lia.
    fold (prodZ dims). ring.
Qed.

Lemma to_seq_cons : forall i I m dims, length I = length dims ->
  to_seq (i :: I) (m :: dims) = i * prodZ dims + to_seq I dims.
Proof.
  intros. unfold to_seq. simpl. rewrite to_seq_acc_shift by auto. ring.
Qed.

Lemma to_seq_nil : to_seq [] [] = 0.
Proof. reflexivity. Qed.

Lemma prodZ_pos : forall dims, dims_pos dims -> 0 < prodZ dims.
Proof. induction 1; simpl; lia. Qed.

Lemma valid_mi_length : forall I dims, valid_mi I dims -> length I = length dims.
Proof. induction 1; simpl; auto. Qed.

Lemma to_seq_range_l : forall I dims, valid_mi I dims -> 0 <= to_seq I dims < prodZ dims.
Proof.
  induction 1 as [|i m I dims Him HF IH]; simpl.
  - unfold to_seq; simpl; lia.
  - rewrite to_seq_cons by (eapply valid_mi_length; eauto).
    change (prodZ (m :: dims)) with (m * prodZ dims). nia.
Qed.

(* snoc view of from_seq_rev / to_seq *)
Lemma to_seq_acc_app : forall I1 d1 I2 d2 acc, length I1 = length d1 ->
  to_seq_acc acc (I1 ++ I2) (d1 ++ d2) = to_seq_acc (to_seq_acc acc I1 d1) I2 d2.
Proof.
  induction I1; destruct d1; simpl; intros; try discriminate; auto.
Qed.

Lemma to_seq_snoc : forall I dims i m, length I = length dims ->
  to_seq (I ++ [i]) (dims ++ [m]) = to_seq I dims * m + i.
Proof. intros. unfold to_seq. rewrite to_seq_acc_app by auto. reflexivity. Qed.

Lemma from_seq_rev_length : forall r i, length (from_seq_rev i r) = length r.
Proof. induction r; simpl; auto. Qed.

Lemma from_seq_length : forall i dims, length (from_seq i dims) = length dims.
Proof. intros. unfold from_seq. rewrite rev_length, from_seq_rev_length, rev_length. auto. Qed.

Lemma from_seq_snoc : forall i dims m,
  from_seq i (dims ++ [m]) = from_seq (i / m) dims ++ [i mod m].
Proof. intros. unfold from_seq. rewrite rev_app_distr. simpl. reflexivity. Qed.

Lemma prodZ_app : forall a b, prodZ (a ++ b) = prodZ a * prodZ b.
Proof.
  induction a as [|x a IH]; intros.
  - change (prodZ ([] ++ b)) with (prodZ b). change (prodZ []) with 1. ring.
  - change (prodZ ((x :: a) ++ b)) with (x * prodZ (a ++ b)).
    change (prodZ (x :: a)) with (x * prodZ a). rewrite IH. ring.
Qed.

Lemma dims_pos_app : forall a b, dims_pos (a ++ b) <-> dims_pos a /\ dims_pos b.
Proof. intros. unfold dims_pos. rewrite Forall_app. tauto. Qed.

(* to_seq (from_seq i dims) dims = i on range(prod dims) *)
Lemma to_seq_from_seq_l : forall dims i, dims_pos dims -> 0 <= i < prodZ dims ->
  to_seq (from_seq i dims) dims = i.
Proof.
  intros dims. induction dims as [|m dims IH] using rev_ind; intros i Hp Hi.
  - simpl in Hi. unfold from_seq, to_seq. simpl. lia.
  - apply dims_pos_app in Hp. destruct Hp as [Hp Hm]. inversion Hm; subst.
    rewrite prodZ_app in Hi. simpl in Hi. rewrite Z.mul_1_r in Hi.
    rewrite from_seq_snoc. rewrite to_seq_snoc by apply from_seq_length.
    rewrite IH; auto.
    + rewrite Z.mul_comm. symmetry. apply Z.div_mod. lia.
    + split. apply Z.div_pos; lia. apply Z.div_lt_upper_bound; lia.
Qed.

Lemma valid_mi_snoc_inv : forall I dims m, valid_mi I (dims ++ [m]) ->
  exists I' i, I = I' ++ [i] /\ valid_mi I' dims /\ 0 <= i < m.
Proof.
  intros I dims m H. apply Forall2_app_inv_r in H.
  destruct H as (I1 & I2 & H1 & H2 & ->). inversion H2; subst. inversion H5; subst.
  eauto.
Qed.

(* from_seq (to_seq I dims) dims = I for valid multi-indices *)
Lemma from_seq_to_seq_l : forall dims I, valid_mi I dims -> from_seq (to_seq I dims) dims = I.
Proof.
  intros dims. induction dims as [|m dims IH] using rev_ind; intros I HI.
  - inversion HI; subst. reflexivity.
  - apply valid_mi_snoc_inv in HI. destruct HI as (I' & i & -> & HI' & Hi).
    rewrite to_seq_snoc by (eapply valid_mi_length; eauto).
    rewrite from_seq_snoc.
    replace ((to_seq I' dims * m + i) / m) with (to_seq I' dims).
    2:{ rewrite Z.div_add_l by lia. rewrite Z.div_small by lia. lia. }
    replace ((to_seq I' dims * m + i) mod m) with i.
    2:{ rewrite Z.add_comm, Z.mod_add by lia. rewrite Z.mod_small; lia. }
    rewrite IH; auto.
Qed.

Lemma from_seq_valid_l : forall dims i, dims_pos dims -> 0 <= i < prodZ dims ->
  valid_mi (from_seq i dims) dims.
Proof.
  intros dims. induction dims as [|m dims IH] using rev_ind; intros i Hp Hi.
  - constructor.
  - apply dims_pos_app in Hp. destruct Hp as [Hp Hm]. inversion Hm; subst.
    rewrite prodZ_app in Hi. simpl in Hi. rewrite Z.mul_1_r in Hi.
    rewrite from_seq_snoc. apply Forall2_app.
    + apply IH; auto. split. apply Z.div_pos; lia. apply Z.div_lt_upper_bound; lia.
    + constructor; [|constructor]. apply Z.mod_pos_bound; lia.
Qed.

(* ------------------------------------------------------------------------ *)
(* nonzero for two and three levels                                          *)
(* ------------------------------------------------------------------------ *)
Lemma nonzero_2d_l : forall b1 b2 m1 n1 m2 n2 lt,
  ml_nonzero_2d b1 b2 [(m1, n1); (m2, n2)] lt
  = filter (keep lt) (kron_pattern [(m1, n1); (m2, n2)] [b1; b2]).
Proof.
  intros. unfold ml_nonzero_2d, kron_pattern, nz2. simpl nth. apply f_equal.
  simpl product. rewrite map_flat_map. apply flat_map_ext'. intros x _.
  rewrite map_map.
  induction b2; simpl; auto. rewrite IHb2. reflexivity.
Qed.

Lemma nonzero_3d_l : forall b1 b2 b3 m1 n1 m2 n2 m3 n3 lt,
  ml_nonzero_3d b1 b2 b3 [(m1, n1); (m2, n2); (m3, n3)] lt
  = filter (keep lt) (kron_pattern [(m1, n1); (m2, n2); (m3, n3)] [b1; b2; b3]).
Proof.
  intros. unfold ml_nonzero_3d, kron_pattern, nz3. simpl nth. apply f_equal.
  simpl product. rewrite map_flat_map. apply flat_map_ext'. intros x _.
  rewrite map_map, map_flat_map. apply flat_map_ext'. intros y _.
  rewrite map_map, map_flat_map.
  induction b3 as [|z b3 IH]; [reflexivity|].
  cbn [map flat_map app]. rewrite IH. reflexivity.
Qed.

(* ------------------------------------------------------------------------ *)
(* the odometer enumerates the Cartesian product in lexicographic order      *)
(* ------------------------------------------------------------------------ *)
Section Odometer.
Context {A : Type} (d : A).

(* counters only: the successor of a counter vector, with the overflow flag *)
Fixpoint succ (ls : list (list A)) (cs : list nat) : bool * list nat :=
  match ls, cs with
  | l :: ls', c :: cs' =>
      let (carry, cs'') := succ ls' cs' in
      if carry then
        if Nat.ltb (S c) (length l) then (false, S c :: cs'') else (true, O :: cs'')
      else (false, c :: cs'')
  | _, _ => (true, [])
  end.

Fixpoint state (ls : list (list A)) (cs : list nat) : list (nat * A) :=
  match ls, cs with
  | l :: ls', c :: cs' => (c, nth c l d) :: state ls' cs'
  | _, _ => []
  end.

Definition zeros_of (ls : list (list A)) : list nat := map (fun _ => O) ls.

Fixpoint cvalid (ls : list (list A)) (cs : list nat) : Prop :=
  match ls, cs with
  | [], [] => True
  | l :: ls', c :: cs' => (c < length l)%nat /\ cvalid ls' cs'
  | _, _ => False
  end.

(* what remains to be enumerated from counter vector cs (inclusive) *)
Fixpoint suffix (ls : list (list A)) (cs : list nat) : list (list A) :=
  match ls, cs with
  | l :: ls', c :: cs' =>
      map (cons (nth c l d)) (suffix ls' cs')
      ++ flat_map (fun x => map (cons x) (product ls')) (skipn (S c) l)
  | _, _ => [[]]
  end.

Lemma suffix_cons : forall l ls c cs,
  suffix (l :: ls) (c :: cs) =
  map (cons (nth c l d)) (suffix ls cs)
  ++ flat_map (fun x => map (cons x) (product ls)) (skipn (S c) l).
Proof. reflexivity. Qed.

Lemma state_init : forall ls, state ls (zeros_of ls) = odo_init d ls.
Proof. induction ls; simpl; auto. rewrite IHls. reflexivity. Qed.

Lemma odo_incr_state : forall ls cs, length cs = length ls ->
  odo_incr d ls (state ls cs) = (fst (succ ls cs), state ls (snd (succ ls cs))).
Proof.
  induction ls as [|l ls IH]; intros cs Hl; destruct cs as [|c cs]; simpl in *; try discriminate; auto.
  rewrite IH by lia. destruct (succ ls cs) as [carry cs'']. simpl.
  destruct carry; auto. destruct (Nat.ltb (S c) (length l)); reflexivity.
Qed.

Lemma succ_length : forall ls cs, length cs = length ls -> length (snd (succ ls cs)) = length ls.
Proof.
  induction ls as [|l ls IH]; intros cs Hl; destruct cs as [|c cs]; simpl in *; try discriminate; auto.
  specialize (IH cs ltac:(lia)). destruct (succ ls cs) as [carry cs'']. simpl in *.
  destruct carry; [destruct (Nat.ltb (S c) (length l))|]; simpl; lia.
Qed.

Lemma cvalid_length : forall ls cs, cvalid ls cs -> length cs = length ls.
Proof.
  induction ls; destruct cs; simpl; intros; try tauto. destruct H. f_equal. auto.
Qed.

Lemma skipn_nth_cons : forall (l : list A) n, (n < length l)%nat ->
  skipn n l = nth n l d :: skipn (S n) l.
Proof.
  induction l; intros n Hn; simpl in Hn; [lia|]. destruct n; [reflexivity|].
  simpl. apply IHl. lia.
Qed.

Lemma suffix_zeros : forall ls, cvalid ls (zeros_of ls) -> suffix ls (zeros_of ls) = product ls.
Proof.
  induction ls as [|l ls IH]; simpl; intros H; auto. destruct H as [Hl H].
  rewrite IH by auto. destruct l as [|a l]; [simpl in Hl; lia|]. reflexivity.
Qed.

(* one step: the head of the remaining enumeration is the current selection, the
   rest is the enumeration from the successor; on overflow nothing remains *)
Lemma suffix_step : forall ls cs, cvalid ls cs ->
  let r := succ ls cs in
  suffix ls cs = map snd (state ls cs) :: (if fst r then [] else suffix ls (snd r))
  /\ (fst r = true -> snd r = zeros_of ls)
  /\ cvalid ls (snd r).
Proof.
  induction ls as [|l ls IH]; intros cs Hv; destruct cs as [|c cs]; simpl in Hv; try tauto.
  - simpl. auto.
  - destruct Hv as [Hc Hv]. specialize (IH cs Hv). cbv zeta in IH.
    destruct IH as (IH1 & IH2 & IH3).
    cbv zeta. rewrite suffix_cons. cbn [succ state map snd fst zeros_of cvalid].
    destruct (succ ls cs) as [carry cs''] eqn:E. cbn [fst snd] in *.
    destruct carry.
    + specialize (IH2 eq_refl). subst cs''.
      destruct (Nat.ltb (S c) (length l)) eqn:Hlt; cbn [fst snd].
      * apply Nat.ltb_lt in Hlt. split; [|split; [discriminate|split; auto]].
        rewrite IH1. rewrite suffix_cons.
        rewrite (skipn_nth_cons l (S c)) by lia.
        rewrite suffix_zeros by auto. reflexivity.
      * apply Nat.ltb_ge in Hlt. split; [|split; [reflexivity|split; [lia|auto]]].
        rewrite IH1. rewrite skipn_all2 by lia. reflexivity.
    + cbn [fst snd]. split; [|split; [discriminate|split; auto]].
      rewrite IH1. rewrite suffix_cons. reflexivity.
Qed.

Lemma suffix_nonempty : forall ls cs, cvalid ls cs -> (1 <= length (suffix ls cs))%nat.
Proof.
  intros. destruct (suffix_step ls cs H) as (E & _). rewrite E. simpl. lia.
Qed.

Lemma odo_loop_suffix : forall ls fuel cs, cvalid ls cs ->
  (length (suffix ls cs) <= fuel)%nat ->
  odo_loop d ls fuel (state ls cs) = suffix ls cs.
Proof.
  induction fuel as [|f IH]; intros cs Hv Hf.
  - pose proof (suffix_nonempty ls cs Hv). lia.
  - simpl. rewrite odo_incr_state by (apply cvalid_length; auto).
    destruct (suffix_step ls cs Hv) as (E & Hz & Hv').
    rewrite E in Hf |- *. simpl in Hf. f_equal.
    destruct (fst (succ ls cs)); auto.
    apply IH; auto. lia.
Qed.

Lemma product_length : forall ls : list (list A), length (product ls) = total_len ls.
Proof.
  induction ls as [|l ls IH]; simpl; auto.
  unfold total_len in *. simpl. rewrite <- IH. clear IH.
  induction l; simpl; auto. rewrite app_length, map_length, IHl. reflexivity.
Qed.

Lemma zeros_valid_or_empty : forall ls : list (list A),
  cvalid ls (zeros_of ls) \/ total_len ls = O.
Proof.
  induction ls as [|l ls IH]; simpl; auto.
  destruct IH as [IH|IH].
  - destruct l as [|a l]; [right; reflexivity|]. left. split; auto. simpl. lia.
  - right. unfold total_len in *. simpl. rewrite IH. lia.
Qed.

Lemma odo_enum_product_l : forall ls : list (list A), odo_enum d ls = product ls.
Proof.
  intros ls. unfold odo_enum. destruct (zeros_valid_or_empty ls) as [Hv|He].
  - rewrite <- state_init. rewrite odo_loop_suffix; auto.
    + apply suffix_zeros; auto.
    + rewrite suffix_zeros by auto. rewrite product_length. lia.
  - rewrite He. simpl. pose proof (product_length ls) as Hp. rewrite He in Hp.
    destruct (product ls); [reflexivity|discriminate].
Qed.
End Odometer.

(* ml_nonzero_nd = the Kronecker pattern in data-layout order, any number of levels *)
Lemma nonzero_nd_l : forall bidx bs lt,
  ml_nonzero_nd bidx bs lt = filter (keep lt) (kron_pattern bs bidx).
Proof. intros. unfold ml_nonzero_nd, kron_pattern. rewrite odo_enum_product_l. reflexivity. Qed.

Lemma kron_pattern_1 : forall m n b, kron_pattern [(m, n)] [b] = b.
Proof.
  intros. unfold kron_pattern. simpl product.
  induction b as [|[i j] b IH]; [reflexivity|]. simpl. rewrite IH. reflexivity.
Qed.

(* MLStructure.nonzero for every number of levels *)
Lemma nonzero_spec_l : forall bs bidx lt, length bs = length bidx ->
  (lt = true -> length bidx <> 1%nat) ->
  nonzero bs bidx lt = Some (filter (keep lt) (kron_pattern bs bidx)).
Proof.
  intros bs bidx lt Hl H1.
  destruct bidx as [|b1 [|b2 [|b3 [|b4 rest]]]]; simpl in Hl.
  - unfold nonzero. rewrite nonzero_nd_l. reflexivity.
  - destruct bs as [|[m n] [|? ?]]; try discriminate. unfold nonzero.
    destruct lt. + exfalso. apply H1; auto. + rewrite kron_pattern_1, keep_false. reflexivity.
  - destruct bs as [|[m1 n1] [|[m2 n2] [|? ?]]]; try discriminate. unfold nonzero.
    rewrite nonzero_2d_l. reflexivity.
  - destruct bs as [|[m1 n1] [|[m2 n2] [|[m3 n3] [|? ?]]]]; try discriminate. unfold nonzero.
    rewrite nonzero_3d_l. reflexivity.
  - unfold nonzero. rewrite nonzero_nd_l. reflexivity.
Qed.
