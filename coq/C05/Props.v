(* C05 -- property theorems only.  Nref is the Cox-de Boor reference of coq/lib/Bsp.v
   (x / 0 = 0, half-open spans, last non-empty span closed at the right end);
   knot_insertion / prolongation_spec are the transcriptions in C05/Model.v. *)
From Coq Require Import QArith Qcanon List Arith.
From Verif.lib Require Import Bsp.
From Verif.C02 Require Import Proofs.
From Verif.C05 Require Import Model Proofs Hier HierEx HierThb HierReach.
Import ListNotations.
Open Scope Qc_scope.

(* Boehm knot insertion (bspline.knot_insertion): for every well-formed open knot vector
   (any degree p >= 0, non-uniform, repeated interior knots), every u in its domain
   (also u equal to an existing knot, and the end points), every old basis function i
   and EVERY point x, the old function is the combination of the new basis functions
   with the entries of column i of the returned matrix. *)
Theorem knot_insertion_preserves : forall kv p u i x,
  kv_ok kv p -> kn kv 0 <= u -> u <= kn kv (length kv - 1) -> (i < numdofs kv p)%nat ->
  Nref kv p i x =
    bigsum (S (numdofs kv p))
           (fun j => lookup (knot_insertion kv p u) j i * Nref (insert_knot kv p u) p j x).
Proof. exact knot_insertion_preserves_l. Qed.
Print Assumptions knot_insertion_preserves.

(* the same identity in its local form (Boehm's identity for one B-spline, any sorted
   knots s_0..s_{p+2}, removed knot s_m interior), on which the theorem above rests *)
Theorem boehm_identity : forall last x p s m,
  (forall j, (j <= S p)%nat -> s j <= s (S j)) ->
  (forall j, (j <= S (S p))%nat -> s j <= last) ->
  (1 <= m <= S p)%nat ->
  NF (remove_at s m) last p 0 x =
    (s m - s 0%nat) / (s (S p) - s 0%nat) * NF s last p 0 x
    + (s (S (S p)) - s m) / (s (S (S p)) - s 1%nat) * NF s last p 1 x.
Proof. exact boehm_local. Qed.
Print Assumptions boehm_identity.

Theorem knot_insertion_rows_sum_one : forall kv p u j,
  kv_ok kv p -> kn kv 0 <= u -> u <= kn kv (length kv - 1) -> (j < S (numdofs kv p))%nat ->
  bigsum (numdofs kv p) (fun i => lookup (knot_insertion kv p u) j i) = 1.
Proof. exact knot_insertion_rows_sum_one_l. Qed.
Print Assumptions knot_insertion_rows_sum_one.

Theorem knot_insertion_nonneg : forall kv p u j i,
  kv_ok kv p -> kn kv 0 <= u -> u <= kn kv (length kv - 1) ->
  (j < S (numdofs kv p))%nat -> (i < numdofs kv p)%nat ->
  0 <= lookup (knot_insertion kv p u) j i.
Proof. exact knot_insertion_nonneg_l. Qed.
Print Assumptions knot_insertion_nonneg.

(* the entries the three loops of knot_insertion assign are the closed form ki_entry *)
Theorem knot_insertion_entries : forall kv p k u j i,
  (p <= k)%nat -> (k < numdofs kv p)%nat -> (i < numdofs kv p)%nat -> (j < S (numdofs kv p))%nat ->
  lookup (knot_insertion_at kv p k u) j i = ki_entry kv p k u j i.
Proof. exact ki_lookup. Qed.
Print Assumptions knot_insertion_entries.

(* inserting a knot of the domain keeps the knot vector well-formed (so insertions can be iterated) *)
Theorem refinement_wellformed : forall us kv p,
  kv_ok kv p -> Forall (in_dom kv) us -> kv_ok (refine_kv kv p us) p.
Proof. exact refine_kv_ok. Qed.
Print Assumptions refinement_wellformed.

(* arbitrary knot refinement kv1 c kv2 (prolongation(kv1, kv2) specified as the product of the
   single insertions of the knots us = kv2 \ kv1, any number, any order, repetitions allowed):
   every coarse basis function is, at every point, the combination of the fine basis
   functions with the entries of its column. *)
Theorem prolongation_preserves : forall us kv p,
  kv_ok kv p -> Forall (in_dom kv) us ->
  forall i x, (i < numdofs kv p)%nat ->
    Nref kv p i x =
      bigsum (numdofs (refine_kv kv p us) p)
             (fun j => get2 (prolongation_spec kv p us) j i * Nref (refine_kv kv p us) p j x).
Proof. exact prolongation_preserves_l. Qed.
Print Assumptions prolongation_preserves.

Theorem prolongation_rows_sum_one : forall us kv p j,
  kv_ok kv p -> Forall (in_dom kv) us -> (j < numdofs (refine_kv kv p us) p)%nat ->
  bigsum (numdofs kv p) (fun i => get2 (prolongation_spec kv p us) j i) = 1.
Proof. exact prolongation_rows_sum_one_l. Qed.
Print Assumptions prolongation_rows_sum_one.

Theorem prolongation_nonneg : forall us kv p j i,
  kv_ok kv p -> Forall (in_dom kv) us ->
  (j < numdofs (refine_kv kv p us) p)%nat -> (i < numdofs kv p)%nat ->
  0 <= get2 (prolongation_spec kv p us) j i.
Proof. exact prolongation_nonneg_l. Qed.
Print Assumptions prolongation_nonneg.

(* transfers compose (successive levels), and a transfer maps every coefficient vector to the
   coefficients of the pointwise identical function *)
Theorem transfer_compose : forall kv1 kv2 kv3 p P Q,
  preserves kv1 kv2 p P -> preserves kv2 kv3 p Q ->
  preserves kv1 kv3 p (mmul Q P (numdofs kv3 p) (numdofs kv2 p) (numdofs kv1 p)).
Proof. exact preserves_compose. Qed.
Print Assumptions transfer_compose.

Theorem transfer_coefficients : forall kv1 kv2 p P (c : nat -> Qc) x,
  preserves kv1 kv2 p P ->
  bigsum (numdofs kv1 p) (fun i => c i * Nref kv1 p i x)
  = bigsum (numdofs kv2 p)
           (fun j => bigsum (numdofs kv1 p) (fun i => get2 P j i * c i) * Nref kv2 p j x).
Proof. exact preserves_coeffs. Qed.
Print Assumptions transfer_coefficients.

(* the boolean test used in the case files implies the hypothesis kv_ok *)
Theorem open_kv_wellformed : forall kv p, open_kv kv p = true -> kv_ok kv p.
Proof. exact open_kv_ok. Qed.
Print Assumptions open_kv_wellformed.

(* ======================= hierarchical conjuncts (coq/C05/Hier.v) =======================
   Setting: levels k = 0..Lmax; n k = number of tensor-product functions of level k, B k i = the
   i-th of them (raveled C-order index), P k = tp_prolongation(k, kron=True).
   two_scale_hyp n B P Lmax : B k i = sum_j P k j i * B (k+1) j for k < Lmax.
   index_hyp n P act deact  : act k ++ deact k duplicate-free, in range, and the children of a
                              deactivated function lie in act (k+1) ++ deact (k+1) (consequence of the
                              C04 invariant funcs_inv + locality of the two-scale relation; explicit
                              hypothesis here). *)

(* Kronecker lifting, any number of axes: if every 1-D matrix preserves its basis functions, the
   Kronecker product preserves the tensor-product functions at every point *)
Theorem tp_prolongation_preserves : forall Ms coarse fine,
  axes_preserve Ms coarse fine ->
  forall I xs, (I < tp_dofs coarse)%nat ->
    TPN coarse I xs = bigsum (tp_dofs fine) (fun J => kron Ms fine coarse J I * TPN fine J xs).
Proof. exact tp_preserves_l. Qed.
Print Assumptions tp_prolongation_preserves.

(* ... and the hypothesis of that lifting is discharged axis by axis by prolongation_preserves *)
Theorem tp_axes_from_prolongation : forall kv p us Ms rc rf,
  kv_ok kv p -> Forall (in_dom kv) us -> axes_preserve Ms rc rf ->
  axes_preserve (get2 (prolongation_spec kv p us) :: Ms) ((kv, p) :: rc) ((refine_kv kv p us, p) :: rf).
Proof. exact axes_preserve_prolongation. Qed.
Print Assumptions tp_axes_from_prolongation.

(* hence the tensor-product B-spline bases of the levels of a hierarchical space satisfy the
   two-scale relation with the Kronecker products of the 1-D prolongations (any dimension) *)
Theorem tp_two_scale : forall (axes : nat -> list axisQ) (Ms : nat -> list (nat -> nat -> Qc)) Lmax,
  (forall k, (k < Lmax)%nat -> axes_preserve (Ms k) (axes k) (axes (S k))) ->
  two_scale_hyp (fun k => tp_dofs (axes k)) (fun k i xs => TPN (axes k) i xs)
                (fun k => kron (Ms k) (axes (S k)) (axes k)) Lmax.
Proof. exact tp_two_scale_l. Qed.
Print Assumptions tp_two_scale.

(* represent_fine (HB), any number of refinement steps: column i of the accumulated product
   (RF = the loop of hierarchical.py:1102-1143) represents function i of level T-m on level T *)
Theorem represent_fine_hb : forall (X : Type) n (B : nat -> nat -> X -> Qc) P Lmax,
  two_scale_hyp n B P Lmax ->
  forall T m i x, (T <= Lmax)%nat -> (m <= T)%nat -> (i < n (T - m))%nat ->
    B (T - m)%nat i x = bigsum (n T) (fun J => RF n P noZ T m J i * B T J x).
Proof. exact @represent_fine_hb_l. Qed.
Print Assumptions represent_fine_hb.

(* level-wise evaluation = evaluation of the finest-level tensor-product representation (HB, any
   number of levels, any coefficient arrays): sum_l sum_i u_l[i] B_l,i(x) = sum_J (represent_fine u)_J B_T,J(x).
   Gradients and Hessians: B is arbitrary, so the statement applies verbatim to any family of
   derivatives that satisfies the same two-scale relation (differentiation is linear). *)
Theorem levelwise_eval_eq_fine : forall (X : Type) n (B : nat -> nat -> X -> Qc) P Lmax,
  two_scale_hyp n B P Lmax ->
  forall T u x, (T <= Lmax)%nat ->
    levelwise X n B T u x = bigsum (n T) (fun J => fine_coeff n P noZ T u J * B T J x).
Proof. exact @levelwise_l. Qed.
Print Assumptions levelwise_eval_eq_fine.

(* THB, one refinement step (two levels carrying coefficients), any dimension: converting THB
   coefficients with thb_to_hb = truncate_one_level and evaluating level-wise gives the finest-level
   function whose coefficients are represent_fine(truncate=True) * u (rows act(T) of the prolongator
   zeroed) *)
Theorem levelwise_eval_eq_fine_thb_partial : forall (X : Type) n (B : nat -> nat -> X -> Qc) P Lmax,
  two_scale_hyp n B P Lmax ->
  forall T actT u x, (1 <= T <= Lmax)%nat ->
    (forall l i, (l < T - 1)%nat -> u l i = 0) -> (forall j, actT j = false -> u T j = 0) ->
    levelwise X n B T (thb_to_hb2 n P T actT u) x
    = bigsum (n T) (fun J => fine_coeff n P (fun lv j => Nat.eqb lv T && actT j) T u J * B T J x).
Proof. exact @levelwise_thb2_l. Qed.
Print Assumptions levelwise_eval_eq_fine_thb_partial.
(* THB, ANY number of levels, any dimension.  t2h = thb_to_hb applied to the coefficient arrays
   (truncate_one_level(T-1) @ ... @ truncate_one_level(0), each I - A changing only level k+1);
   actb k j = function j of level k is active.  First the matrix identity
   represent_fine(truncate=False) * thb_to_hb = represent_fine(truncate=True), then the evaluation:
   level-wise evaluation of THB coefficients (coeffs_to_levelwise_funcs with truncate=True) equals the
   finest-level function with coefficients represent_fine(truncate=True) * u. *)
Theorem thb_to_hb_represent_fine : forall n P (actb : nat -> nat -> bool) T u J, (J < n T)%nat ->
  fine_coeff n P noZ T (t2h n P actb T u) J = fine_coeff n P actb T u J.
Proof. exact thb_coeffs_l. Qed.
Print Assumptions thb_to_hb_represent_fine.

Theorem levelwise_eval_eq_fine_thb : forall (X : Type) n (B : nat -> nat -> X -> Qc) P Lmax (actb : nat -> nat -> bool),
  two_scale_hyp n B P Lmax ->
  forall T u x, (T <= Lmax)%nat ->
    levelwise X n B T (t2h n P actb T u) x = bigsum (n T) (fun J => fine_coeff n P actb T u J * B T J x).
Proof. exact @levelwise_thb_l. Qed.
Print Assumptions levelwise_eval_eq_fine_thb.

(* virtual_hierarchy_prolongators, HB: every function of virtual level k (the active functions of
   levels <= k and the deactivated ones of level k) is reproduced on virtual level k+1 by its column *)
Theorem vh_prolongators_hb : forall (X : Type) n (B : nat -> nat -> X -> Qc) P Lmax act deact,
  two_scale_hyp n B P Lmax -> index_hyp n P act deact ->
  forall k, (k < Lmax)%nat ->
    lpres dof X (dofsV act deact k) (dofsV act deact (S k)) (fnHB X B) (fnHB X B) (Phb P act deact k).
Proof. exact @vh_hb_l. Qed.
Print Assumptions vh_prolongators_hb.

(* ... and composed from any level k over m levels (k = 0, k + m = last level: level-0 tensor-product
   coefficients to HB coefficients of the identical function) *)
Theorem vh_prolongators_hb_composed : forall (X : Type) n (B : nat -> nat -> X -> Qc) P Lmax act deact,
  two_scale_hyp n B P Lmax -> index_hyp n P act deact ->
  forall m k, (k + m <= Lmax)%nat ->
    lpres dof X (dofsV act deact k) (dofsV act deact (k + m)) (fnHB X B) (fnHB X B) (Phb_chain P act deact k m).
Proof. exact @vh_hb_chain_l. Qed.
Print Assumptions vh_prolongators_hb_composed.

(* ---- on REACHABLE HSpace states (coq/C04): for every valid initial mesh and every history of valid
   refine calls, st = run (hs_init axes disp) ops, with act_of/deact_of = the raveled active/deactivated
   function sets of st.  `pattern`: the non-zero entries of a prolongator column of a deactivated function
   lie inside the children pattern function_children of the C04 model (which C04's check ties to the
   sparsity pattern of the implementation's prolongation matrices on every run).  The children-closed
   part of index_hyp is then a THEOREM (C04.children_closed), no longer a hypothesis. *)
Theorem children_closed_reachable : forall axes disp ops,
  Forall Verif.C04.ProofsMesh.axis_ok axes -> (forall d, disp = Some d -> (1 <= d)%nat) ->
  P4.ops_valid (M4.hs_init axes disp) ops ->
  forall (rav : nat -> FinSet.mi -> nat) (n : nat -> nat) (P : nat -> nat -> nat -> Qc),
  (forall k f j, In f (P4.DF (M4.run (M4.hs_init axes disp) ops) k) -> (j < n (S k))%nat ->
     P k j (rav k f) <> 0 ->
     exists g, In g (C4.function_children (M4.run (M4.hs_init axes disp) ops) k [f]) /\ j = rav (S k) g) ->
  forall k i j, In i (deact_of axes disp ops rav k) -> (j < n (S k))%nat -> P k j i <> 0 ->
    In j (act_of axes disp ops rav (S k) ++ deact_of axes disp ops rav (S k)).
Proof. exact children_closed_reachable_l. Qed.
Print Assumptions children_closed_reachable.

Theorem vh_prolongators_hb_reachable : forall axes disp ops,
  Forall Verif.C04.ProofsMesh.axis_ok axes -> (forall d, disp = Some d -> (1 <= d)%nat) ->
  P4.ops_valid (M4.hs_init axes disp) ops ->
  forall (rav : nat -> FinSet.mi -> nat) (n : nat -> nat) (P : nat -> nat -> nat -> Qc),
  (forall k f j, In f (P4.DF (M4.run (M4.hs_init axes disp) ops) k) -> (j < n (S k))%nat ->
     P k j (rav k f) <> 0 ->
     exists g, In g (C4.function_children (M4.run (M4.hs_init axes disp) ops) k [f]) /\ j = rav (S k) g) ->
  forall (X : Type) (B : nat -> nat -> X -> Qc) Lmax,
  two_scale_hyp n B P Lmax ->
  (forall k, NoDup (act_of axes disp ops rav k ++ deact_of axes disp ops rav k)) ->
  (forall k j, In j (act_of axes disp ops rav k ++ deact_of axes disp ops rav k) -> (j < n k)%nat) ->
  forall m k, (k + m <= Lmax)%nat ->
    lpres dof X (dofsV (act_of axes disp ops rav) (deact_of axes disp ops rav) k)
          (dofsV (act_of axes disp ops rav) (deact_of axes disp ops rav) (k + m)) (fnHB X B) (fnHB X B)
          (Phb_chain P (act_of axes disp ops rav) (deact_of axes disp ops rav) k m).
Proof. exact vh_hb_reachable_l. Qed.
Print Assumptions vh_prolongators_hb_reachable.

Theorem prolongate_to_replaced_reachable : forall axes disp ops,
  Forall Verif.C04.ProofsMesh.axis_ok axes -> (forall d, disp = Some d -> (1 <= d)%nat) ->
  P4.ops_valid (M4.hs_init axes disp) ops ->
  forall (rav : nat -> FinSet.mi -> nat) (n : nat -> nat) (P : nat -> nat -> nat -> Qc),
  (forall k f j, In f (P4.DF (M4.run (M4.hs_init axes disp) ops) k) -> (j < n (S k))%nat ->
     P k j (rav k f) <> 0 ->
     exists g, In g (C4.function_children (M4.run (M4.hs_init axes disp) ops) k [f]) /\ j = rav (S k) g) ->
  forall (X : Type) (B : nat -> nat -> X -> Qc) Lmax,
  two_scale_hyp n B P Lmax ->
  (forall k, NoDup (act_of axes disp ops rav k ++ deact_of axes disp ops rav k)) ->
  (forall k j, In j (act_of axes disp ops rav k ++ deact_of axes disp ops rav k) -> (j < n k)%nat) ->
  forall l i m x, (l + m <= Lmax)%nat -> In i (deact_of axes disp ops rav l) ->
    deact_of axes disp ops rav (l + m)%nat = [] ->
    B l i x = expand_act X B P (act_of axes disp ops rav) (deact_of axes disp ops rav) m l
                         (fun s => if Nat.eqb s i then 1 else 0) x.
Proof. exact prolongate_to_replaced_reachable_l. Qed.
Print Assumptions prolongate_to_replaced_reachable.
(* NOT PROVED in the reachable versions: `pattern` itself for the Kronecker products of prolongation_spec
   (the link between a Qc knot vector and the integer axis of C04: non-zero entries of the 1-D knot
   insertion product lie in children_1d), and that the raveling is injective and in range on the
   active/deactivated sets (the two remaining hypotheses). *)

(* THB, REPAIRED composition (fixes/C05-thb-virtual-hierarchy.patch): H2T(k+1) * P_hb[k] * T2H(k)
   transfers the THB functions, where a THB function is the HB functions combined with a column of
   thb_to_hb and H2 undoes T2 on virtual level k+1 *)
Theorem vh_prolongators_thb_repaired : forall (X : Type) n (B : nat -> nat -> X -> Qc) P Lmax,
  (forall k i x, (k < Lmax)%nat -> (i < n k)%nat ->
     B k i x = bigsum (n (S k)) (fun j => P k j i * B (S k) j x)) ->
  forall act deact,
  (forall k, NoDup (act k ++ deact k)) ->
  (forall k j, In j (act k ++ deact k) -> (j < n k)%nat) ->
  (forall k i j, In i (deact k) -> (j < n (S k))%nat -> P k j i <> 0 -> In j (act (S k) ++ deact (S k))) ->
  forall k (T1 T2 H2 : dof -> dof -> Qc),
  (k < Lmax)%nat ->
  (forall r (W : dof -> Qc), In r (dofsV act deact (S k)) ->
      lsum (dofsV act deact (S k)) (fun a => W a * lsum (dofsV act deact (S k)) (fun r' => T2 r r' * H2 r' a)) = W r) ->
  lpres dof X (dofsV act deact k) (dofsV act deact (S k))
        (fun c x => lsum (dofsV act deact k) (fun b => T1 b c * fnHB X B b x))
        (fun c x => lsum (dofsV act deact (S k)) (fun r => T2 r c * fnHB X B r x))
        (fun r' c => lsum (dofsV act deact (S k))
                          (fun a => H2 r' a * lsum (dofsV act deact k) (fun b => Phb P act deact k a b * T1 b c))).
Proof. exact vh_thb_repaired_l. Qed.
Print Assumptions vh_prolongators_thb_repaired.
(* NOT PROVED for the repaired variant: that the product of truncate_one_level(j, inverse=True,
   virtual=(j = k)) matrices is the inverse of the product of the truncate_one_level(j, virtual=...)
   matrices (each factor is I -+ A with A*A = 0), i.e. the hypothesis on T2/H2 above, and that the
   functions so defined are the truncated functions of represent_fine(truncate=True) ON THE VIRTUAL
   levels (for the space itself this is now thb_to_hb_represent_fine, any number of levels). *)

(* THB, the code as it is (truncate_one_level(k, inverse=True) @ P_hb[k]): refuted on three levels.
   1-D, p = 2, knots 0,0,0,1,2,3,4,4,4, cells [0,2) refined, then [0,1): the truncated level-0
   function 2 of virtual level 1 vanishes at x = 1/8, its image under prolongator 1 is 1/128 there. *)
Theorem vh_prolongators_thb_old_refuted :
  exists c x, In c (dofsV exact exdeact 1) /\
    fnTHB Qc exn exB exP exact exdeact 1 c x
    <> lsum (dofsV exact exdeact 2)
            (fun r => Pthb_old exn exP exact exdeact 1 r c * fnTHB Qc exn exB exP exact exdeact 2 r x).
Proof. exact thb_old_refuted_l. Qed.
Print Assumptions vh_prolongators_thb_old_refuted.

(* prolongate_to, repaired (uncapped) propagation, any disparity: a coarse function that is
   deactivated in the fine space equals the combination of ACTIVE fine functions produced by pushing
   its coefficient through the deactivated functions level by level (P_act / P_deact of
   hierarchical.py:1033-1056), as soon as a level without deactivated functions is reached -- no cap
   on the number of levels.  act/deact are those of the fine space. *)
Theorem prolongate_to_replaced_partial : forall (X : Type) n (B : nat -> nat -> X -> Qc) P Lmax,
  (forall k i x, (k < Lmax)%nat -> (i < n k)%nat ->
     B k i x = bigsum (n (S k)) (fun j => P k j i * B (S k) j x)) ->
  forall act deact,
  (forall k, NoDup (act k ++ deact k)) ->
  (forall k j, In j (act k ++ deact k) -> (j < n k)%nat) ->
  (forall k i j, In i (deact k) -> (j < n (S k))%nat -> P k j i <> 0 -> In j (act (S k) ++ deact (S k))) ->
  forall l i m x, (l + m <= Lmax)%nat -> In i (deact l) -> deact (l + m)%nat = [] ->
    B l i x = expand_act X B P act deact m l (fun s => if Nat.eqb s i then 1 else 0) x.
Proof. exact prolongate_to_replaced_l. Qed.
Print Assumptions prolongate_to_replaced_partial.
(* NOT PROVED: prolongate_to_preserves at the level of the returned matrix: the canonical-index
   bookkeeping (np.ix_, _levelwise_to_canonical, the identity block of the common functions) around
   the propagation proved above; and the link `coarse-active and not fine-active => fine-deactivated`
   (is_subspace_of + C04 invariant).
   NOT PROVED: boundary_restriction (function k of the boundary space is the trace of function map[k]);
   missing: N_{0,p}(a) = 1 and N_{i,p}(a) = 0 (i > 0) at the ends of an open knot vector for the
   Cox-de Boor reference (right end: closure convention), then the product structure of TPN.
   Both remain covered by the exact oracle on the implementation (harness/props/c05.py).
   The hypotheses two_scale_hyp / index_hyp are met by a concrete three-level hierarchy:
   HierEx.ex_two_scale, ex_idx_ok, ex_children_closed. *)
