(* C08 -- lemmas about the model of the assembly drivers. *)
From Coq Require Import ZArith List Bool Arith Lia.
From Verif.C08 Require Import Model.
Import ListNotations.

(* ------------------------------------------------------------------------- *)
(** * chunk_tasks *)

Lemma chunks_fuel_concat : forall (A : Type) fuel n (l : list A),
  (1 <= n)%nat -> (length l <= fuel)%nat -> concat (chunks_fuel fuel n l) = l.
Proof.
  induction fuel as [|f IH]; intros n l Hn Hl.
  - destruct l; simpl in *; [reflexivity | lia].
  - destruct l as [|a l']; [reflexivity|].
    cbn [chunks_fuel concat]. rewrite IH; [apply firstn_skipn | exact Hn |].
    rewrite skipn_length. lia.
Qed.

Lemma chunks_fuel_nonempty : forall (A : Type) fuel n (l : list A),
  (1 <= n)%nat -> Forall (fun c => c <> [] /\ (length c <= n)%nat) (chunks_fuel fuel n l).
Proof.
  induction fuel as [|f IH]; intros n l Hn; [constructor|].
  destruct l as [|a l']; [constructor|].
  cbn [chunks_fuel]. constructor; [|apply IH; exact Hn].
  split.
  - destruct n; [lia|]. simpl. discriminate.
  - rewrite firstn_length. lia.
Qed.

Lemma chunks_fuel_count : forall (A : Type) fuel n (l : list A),
  (1 <= n)%nat -> (length l <= fuel)%nat -> l <> [] ->
  ((length (chunks_fuel fuel n l) - 1) * n < length l)%nat.
Proof.
  induction fuel as [|f IH]; intros n l Hn Hl Hne.
  - destruct l; [congruence | simpl in Hl; lia].
  - destruct l as [|a l']; [congruence|].
    cbn [chunks_fuel length].
    remember (skipn n (a :: l')) as r eqn:Hr.
    destruct r as [|b r'].
    + replace (chunks_fuel f n []) with (@nil (list A)) by (destruct f; reflexivity).
      cbn [length]. rewrite Nat.sub_diag. lia.
    + assert (Hlen : length (b :: r') = (length (a :: l') - n)%nat).
      { rewrite Hr. apply skipn_length. }
      assert (Hle : (length (b :: r') <= f)%nat) by (rewrite Hlen; lia).
      specialize (IH n (b :: r') Hn Hle ltac:(discriminate)).
      assert (Hpos : (1 <= length (chunks_fuel f n (b :: r')))%nat).
      { destruct f; [simpl in Hle; lia|]. simpl. lia. }
      rewrite Hlen in IH.
      replace (S (length (chunks_fuel f n (b :: r'))) - 1)%nat
        with ((length (chunks_fuel f n (b :: r')) - 1) + 1)%nat by lia.
      simpl length in *. nia.
Qed.

Lemma chunks_fuel_cons : forall (A : Type) fuel n (x : A) l,
  chunks_fuel (S fuel) n (x :: l) = firstn n (x :: l) :: chunks_fuel fuel n (skipn n (x :: l)).
Proof. reflexivity. Qed.

Lemma chunks_fuel_map : forall (A B : Type) (f : A -> B) fuel n (l : list A),
  chunks_fuel fuel n (map f l) = map (map f) (chunks_fuel fuel n l).
Proof.
  induction fuel as [|fu IH]; intros n l; [reflexivity|].
  destruct l as [|a l']; [reflexivity|].
  change (map f (a :: l')) with (f a :: map f l').
  rewrite !chunks_fuel_cons.
  change (f a :: map f l') with (map f (a :: l')).
  rewrite firstn_map, skipn_map, IH. reflexivity.
Qed.

Lemma chunk_size_pos : forall len k, (1 <= chunk_size len k)%nat.
Proof. intros. unfold chunk_size. lia. Qed.

Lemma chunks_concat_l : forall (A : Type) (l : list A) k, concat (chunk_tasks l k) = l.
Proof. intros. unfold chunk_tasks. apply chunks_fuel_concat; [apply chunk_size_pos | lia]. Qed.

Lemma chunks_shape_l : forall (A : Type) (l : list A) k,
  Forall (fun c => c <> [] /\ (length c <= chunk_size (length l) k)%nat) (chunk_tasks l k).
Proof. intros. unfold chunk_tasks. apply chunks_fuel_nonempty, chunk_size_pos. Qed.

Lemma chunks_count_l : forall (A : Type) (l : list A) k,
  (1 <= k)%nat -> (length (chunk_tasks l k) <= k)%nat.
Proof.
  intros A l k Hk. unfold chunk_tasks.
  destruct l as [|a l'].
  - simpl. lia.
  - pose proof (chunks_fuel_count A (length (a :: l')) (chunk_size (length (a :: l')) k) (a :: l')
                  (chunk_size_pos _ _) (le_n _) ltac:(discriminate)) as H.
    unfold chunk_size in *.
    set (len := length (a :: l')) in *. set (c := length (chunks_fuel len (len / k + 1) (a :: l'))) in *.
    pose proof (Nat.div_mod len k ltac:(lia)) as Hdm.
    pose proof (Nat.mod_upper_bound len k ltac:(lia)) as Hmod.
    destruct (le_lt_dec c k) as [Hc|Hc]; [exact Hc|exfalso].
    assert (k * (len / k + 1) <= (c - 1) * (len / k + 1))%nat by (apply Nat.mul_le_mono_r; lia).
    nia.
Qed.

Lemma chunks_map_l : forall (A B : Type) (f : A -> B) (l : list A) k,
  chunk_tasks (map f l) k = map (map f) (chunk_tasks l k).
Proof. intros. unfold chunk_tasks. rewrite map_length. apply chunks_fuel_map. Qed.

Lemma chunks_partition_l : forall (A : Type) (l : list A) (k : nat),
  (1 <= k)%nat ->
  concat (chunk_tasks l k) = l /\
  Forall (fun c => c <> [] /\ (length c <= chunk_size (length l) k)%nat) (chunk_tasks l k) /\
  (length (chunk_tasks l k) <= k)%nat.
Proof.
  intros A l k Hk. split; [apply chunks_concat_l | split; [apply chunks_shape_l | apply chunks_count_l, Hk]].
Qed.

(* ------------------------------------------------------------------------- *)
(** * schedule independence *)

Section Sched.
  Variable L V : Type.
  Variable L_eqb : L -> L -> bool.
  Hypothesis L_eqb_spec : forall a b, L_eqb a b = true <-> a = b.

  Notation op := (op L V).
  Notation exec := (exec L_eqb).
  Notation step := (step L_eqb).
  Notation upd := (upd L_eqb).

  Lemma L_eqb_refl : forall a, L_eqb a a = true.
  Proof. intro a. apply L_eqb_spec. reflexivity. Qed.

  Lemma L_eqb_neq : forall a b, a <> b -> L_eqb a b = false.
  Proof.
    intros a b H. destruct (L_eqb a b) eqn:E; [|reflexivity].
    apply L_eqb_spec in E. contradiction.
  Qed.

  Lemma upd_same : forall (m : L -> V) l v, upd m l v l = v.
  Proof. intros. unfold Model.upd. rewrite L_eqb_refl. reflexivity. Qed.

  Lemma upd_other : forall (m : L -> V) l v l', l <> l' -> upd m l v l' = m l'.
  Proof. intros. unfold Model.upd. rewrite L_eqb_neq by assumption. reflexivity. Qed.

  Lemma exec_cons : forall (o : op) (s : list op) (m : L -> V), exec (o :: s) m = exec s (step m o).
  Proof. reflexivity. Qed.

  Lemma exec_app : forall (s1 s2 : list op) (m : L -> V), exec (s1 ++ s2) m = exec s2 (exec s1 m).
  Proof. intros. unfold Model.exec. apply fold_left_app. Qed.

  (* an operation whose footprint avoids l leaves l alone *)
  Lemma step_untouched : forall (o : op) (m : L -> V) l, ~ In l (fp o) -> step m o l = m l.
  Proof.
    intros [l0 v|d s] m l H; simpl in *.
    - apply upd_other. intro; subst; tauto.
    - apply upd_other. intro; subst; tauto.
  Qed.

  Lemma exec_untouched : forall (s : list op) (m : L -> V) l, (forall o, In o s -> ~ In l (fp o)) -> exec s m l = m l.
  Proof.
    induction s as [|o s IH]; intros m l H; [reflexivity|].
    rewrite exec_cons, IH.
    - apply step_untouched, H. left; reflexivity.
    - intros o' Ho'. apply H. right; exact Ho'.
  Qed.

  (* memories that agree on a set S closed under the footprints of the operations
     still agree on S afterwards *)
  Lemma step_agree : forall (S : L -> Prop) (o : op) (m1 m2 : L -> V),
    (forall l, In l (fp o) -> S l) -> (forall l, S l -> m1 l = m2 l) ->
    forall l, S l -> step m1 o l = step m2 o l.
  Proof.
    intros S [l0 v|d s] m1 m2 Hfp Hag l Hl; simpl.
    - unfold Model.upd. destruct (L_eqb l0 l); [reflexivity | apply Hag, Hl].
    - unfold Model.upd. destruct (L_eqb d l); [|apply Hag, Hl].
      apply Hag, Hfp. simpl. auto.
  Qed.

  Lemma exec_agree : forall (S : L -> Prop) (s : list op) (m1 m2 : L -> V),
    (forall o, In o s -> forall l, In l (fp o) -> S l) -> (forall l, S l -> m1 l = m2 l) ->
    forall l, S l -> exec s m1 l = exec s m2 l.
  Proof.
    induction s as [|o s IH]; intros m1 m2 Hfp Hag l Hl; [apply Hag, Hl|].
    rewrite !exec_cons. apply IH; [| |exact Hl].
    - intros o' Ho'. apply Hfp. right; exact Ho'.
    - intros l' Hl'. apply (step_agree S); auto. intros l'' H''. apply (Hfp o); [left; reflexivity|exact H''].
  Qed.

  (* ownership: every location touched (read or written) by task number i is owned by i *)
  Definition owned (own : L -> nat) (ts : list (list op)) : Prop :=
    forall i t, nth_error ts i = Some t -> forall o, In o t -> forall l, In l (fp o) -> own l = i.

  Lemma nth_error_mid : forall (A : Type) (ts1 : list A) x ts2,
    nth_error (ts1 ++ x :: ts2) (length ts1) = Some x.
  Proof. intros. rewrite nth_error_app2 by lia. rewrite Nat.sub_diag. reflexivity. Qed.

  Lemma nth_error_mid_other : forall (A : Type) (ts1 : list A) x y ts2 i,
    i <> length ts1 -> nth_error (ts1 ++ x :: ts2) i = nth_error (ts1 ++ y :: ts2) i.
  Proof.
    intros A ts1 x y ts2 i Hi.
    destruct (lt_dec i (length ts1)).
    - rewrite !nth_error_app1 by lia. reflexivity.
    - rewrite !nth_error_app2 by lia.
      destruct (i - length ts1)%nat eqn:E; [lia|]. reflexivity.
  Qed.

  Lemma owned_tail : forall own ts1 x t ts2,
    owned own (ts1 ++ (x :: t) :: ts2) -> owned own (ts1 ++ t :: ts2).
  Proof.
    intros own ts1 x t ts2 H i u Hu o Ho l Hl.
    destruct (Nat.eq_dec i (length ts1)) as [->|Hne].
    - rewrite nth_error_mid in Hu. injection Hu as <-.
      exact (H _ (x :: t) (nth_error_mid _ ts1 (x :: t) ts2) o (or_intror Ho) l Hl).
    - refine (H i u _ o Ho l Hl).
      rewrite (nth_error_mid_other _ ts1 (x :: t) t ts2 i Hne). exact Hu.
  Qed.

  (* the memory at l after any schedule is what l's owner alone computes *)
  Lemma sched_owner : forall own ts s,
    interleave ts s -> owned own ts ->
    forall m l, exec s m l = exec (nth (own l) ts []) m l.
  Proof.
    intros own ts s Hil. induction Hil as [ts Hall | ts1 x t ts2 s Hil IH]; intros Hown m l.
    - assert (E : nth (own l) ts [] = []).
      { destruct (nth_in_or_default (own l) ts []) as [Hin|Hd]; [|exact Hd].
        rewrite Forall_forall in Hall. apply Hall, Hin. }
      rewrite E. reflexivity.
    - rewrite exec_cons. rewrite (IH (owned_tail _ _ _ _ _ Hown)).
      destruct (Nat.eq_dec (own l) (length ts1)) as [E|Hne].
      + rewrite E. rewrite !app_nth2 by lia. rewrite Nat.sub_diag. simpl nth.
        rewrite exec_cons. reflexivity.
      + assert (Enth : nth (own l) (ts1 ++ t :: ts2) [] = nth (own l) (ts1 ++ (x :: t) :: ts2) []).
        { destruct (lt_dec (own l) (length ts1)).
          - rewrite !app_nth1 by lia. reflexivity.
          - rewrite !app_nth2 by lia. destruct (own l - length ts1)%nat eqn:E'; [lia|]. reflexivity. }
        rewrite Enth. set (u := nth (own l) (ts1 ++ (x :: t) :: ts2) []).
        apply (exec_agree (fun l' => own l' = own l)); [| |reflexivity].
        * intros o Ho l' Hl'.
          destruct (nth_in_or_default (own l) (ts1 ++ (x :: t) :: ts2) []) as [Hin|Hd].
          -- destruct (lt_dec (own l) (length (ts1 ++ (x :: t) :: ts2))) as [Hlt|Hge].
             ++ refine (Hown (own l) u _ o Ho l' Hl').
                unfold u. apply nth_error_nth'. exact Hlt.
             ++ unfold u in Ho. rewrite nth_overflow in Ho by lia. destruct Ho.
          -- unfold u in Ho. rewrite Hd in Ho. destruct Ho.
        * intros l' Hl'. apply step_untouched. intro Hin.
          assert (own l' = length ts1).
          { exact (Hown _ (x :: t) (nth_error_mid _ ts1 (x :: t) ts2) x (or_introl eq_refl) l' Hin). }
          lia.
  Qed.

  Theorem sched_own_independent : forall own ts s1 s2,
    owned own ts -> interleave ts s1 -> interleave ts s2 ->
    forall m l, exec s1 m l = exec s2 m l.
  Proof.
    intros own ts s1 s2 Hown H1 H2 m l.
    rewrite (sched_owner own ts s1 H1 Hown), (sched_owner own ts s2 H2 Hown). reflexivity.
  Qed.

  (* the sequential order (task 0, then task 1, ...) is one of the schedules *)
  Lemma interleave_nil_tasks : forall (A : Type) (ts : list (list A)) s,
    interleave ts s -> interleave ([] :: ts) s.
  Proof.
    intros A ts s H. induction H as [ts Hall | ts1 x t ts2 s H IH].
    - constructor. constructor; [reflexivity | exact Hall].
    - apply (il_step ([] :: ts1) x t ts2 s). exact IH.
  Qed.

  Lemma interleave_concat : forall (A : Type) (ts : list (list A)), interleave ts (concat ts).
  Proof.
    induction ts as [|t ts IH]; [constructor; constructor|].
    induction t as [|x t IHt].
    - simpl. apply interleave_nil_tasks, IH.
    - simpl. apply (il_step [] x t ts). exact IHt.
  Qed.

  (* pairwise disjoint footprints give an ownership function *)
  Definition locs (t : list op) : list L := flat_map (@fp L V) t.

  Fixpoint find_owner (Ls : list (list L)) (l : L) : nat :=
    match Ls with
    | [] => 0
    | t :: rest => if existsb (L_eqb l) t then 0 else S (find_owner rest l)
    end.

  Lemma existsb_In : forall l t, existsb (L_eqb l) t = true <-> In l t.
  Proof.
    intros l t. rewrite existsb_exists. split.
    - intros [x [Hx E]]. apply L_eqb_spec in E. subst. exact Hx.
    - intro H. exists l. split; [exact H | apply L_eqb_refl].
  Qed.

  Lemma NoDup_app_disj : forall (a b : list L), NoDup (a ++ b) ->
    NoDup b /\ forall x, In x a -> ~ In x b.
  Proof.
    induction a as [|x a IH]; intros b H; simpl in *.
    - split; [exact H | tauto].
    - inversion H as [|? ? Hnin Hnd]; subst. destruct (IH b Hnd) as [Hb Hdis].
      split; [exact Hb|]. intros y [<-|Hy] Hyb.
      + apply Hnin. apply in_or_app. right; exact Hyb.
      + apply (Hdis y Hy Hyb).
  Qed.

  Lemma find_owner_nodup : forall Ls, NoDup (concat Ls) ->
    forall i t l, nth_error Ls i = Some t -> In l t -> find_owner Ls l = i.
  Proof.
    induction Ls as [|t0 rest IH]; intros Hnd i t l Hi Hl.
    - destruct i; discriminate.
    - simpl in Hnd. destruct (NoDup_app_disj _ _ Hnd) as [Hrest Hdis].
      destruct i as [|i']; simpl in Hi.
      + injection Hi as ->. simpl. apply existsb_In in Hl. rewrite Hl. reflexivity.
      + simpl. assert (Hin : In l (concat rest)).
        { apply in_concat. exists t. split; [eapply nth_error_In; exact Hi | exact Hl]. }
        destruct (existsb (L_eqb l) t0) eqn:E.
        * apply existsb_In in E. exfalso. exact (Hdis l E Hin).
        * f_equal. exact (IH Hrest i' t l Hi Hl).
  Qed.

  Theorem sched_nodup_independent : forall ts s1 s2,
    NoDup (concat (map locs ts)) -> interleave ts s1 -> interleave ts s2 ->
    forall m l, exec s1 m l = exec s2 m l.
  Proof.
    intros ts s1 s2 Hnd. apply (sched_own_independent (find_owner (map locs ts))).
    intros i t Hi o Ho l Hl.
    apply (find_owner_nodup _ Hnd i (locs t)).
    - rewrite nth_error_map, Hi. reflexivity.
    - unfold locs. apply in_flat_map. exists o. split; assumption.
  Qed.

  (* a list of stores to pairwise different locations *)
  Lemma exec_writes_nodup : forall (lvs : list (L * V)) m l v,
    NoDup (map fst lvs) -> In (l, v) lvs ->
    exec (map (fun lv => Wr (fst lv) (snd lv)) lvs) m l = v.
  Proof.
    induction lvs as [|[l0 v0] lvs IH]; intros m l v Hnd Hin; [destruct Hin|].
    simpl map. rewrite exec_cons. simpl in Hnd. inversion Hnd as [|? ? Hnin Hnd']; subst.
    destruct Hin as [E|Hin].
    - injection E as -> ->. rewrite exec_untouched.
      + simpl. apply upd_same.
      + intros o Ho. apply in_map_iff in Ho. destruct Ho as [[l1 v1] [<- H1]]. simpl.
        intros [E|[]]. subst. apply Hnin. apply in_map_iff. exists (l, v1). split; [reflexivity|exact H1].
    - apply IH; assumption.
  Qed.
End Sched.

(* ------------------------------------------------------------------------- *)
(** * the thread pool of multi_entries / multi_blocks *)

Lemma nat_eqb_spec : forall a b : nat, Nat.eqb a b = true <-> a = b.
Proof. intros. apply Nat.eqb_eq. Qed.

Lemma map_fst_combine : forall (A B : Type) (l1 : list A) (l2 : list B),
  length l1 = length l2 -> map fst (combine l1 l2) = l1.
Proof.
  induction l1 as [|a l1 IH]; intros [|b l2] H; simpl in *; try reflexivity; try discriminate.
  f_equal. apply IH. lia.
Qed.

Lemma map_snd_combine : forall (A B : Type) (l1 : list A) (l2 : list B),
  length l1 = length l2 -> map snd (combine l1 l2) = l2.
Proof.
  induction l1 as [|a l1 IH]; intros [|b l2] H; simpl in *; try reflexivity; try discriminate.
  f_equal. apply IH. lia.
Qed.

Section PoolProofs.
  Variable I V : Type.
  Variable entry : I -> V.

  Let wr (pi : nat * I) : op nat V := Wr (fst pi) (entry (snd pi)).

  Lemma pool_concat : forall idx T, concat (pool_tasks entry idx T) = serial_task entry idx.
  Proof.
    intros. unfold pool_tasks, serial_task. rewrite <- concat_map, chunks_concat_l. reflexivity.
  Qed.

  Lemma locs_wr : forall ch : list (nat * I), locs nat V (map wr ch) = map fst ch.
  Proof.
    induction ch as [|c ch IH]; [reflexivity|]. unfold locs in *. simpl. rewrite IH. reflexivity.
  Qed.

  Lemma pool_locs : forall idx T,
    concat (map (locs nat V) (pool_tasks entry idx T)) = seq 0 (length idx).
  Proof.
    intros idx T. unfold pool_tasks. fold wr.
    rewrite map_map. rewrite (map_ext _ (map fst) locs_wr).
    rewrite <- chunks_map_l, chunks_concat_l.
    apply map_fst_combine. rewrite seq_length. reflexivity.
  Qed.

  (* every schedule of the pool's chunk tasks leaves map entry idx in the result array *)
  Lemma pool_result_l : forall idx T s m0,
    interleave (pool_tasks entry idx T) s ->
    read_back (length idx) (exec Nat.eqb s m0) = map entry idx.
  Proof.
    intros idx T s m0 Hil.
    set (pis := combine (seq 0 (length idx)) idx).
    assert (Hlen : length (seq 0 (length idx)) = length idx) by apply seq_length.
    assert (E1 : map fst pis = seq 0 (length idx)) by (apply map_fst_combine; exact Hlen).
    assert (E2 : map snd pis = idx) by (apply map_snd_combine; exact Hlen).
    unfold read_back. rewrite <- E1.
    transitivity (map entry (map snd pis)); [|rewrite E2; reflexivity].
    rewrite !map_map. apply map_ext_in. intros [p ix] Hin. simpl.
    rewrite (sched_nodup_independent nat V Nat.eqb nat_eqb_spec (pool_tasks entry idx T) s
               (concat (pool_tasks entry idx T))).
    - rewrite pool_concat. unfold serial_task. fold pis.
      set (lvs := map (fun pi : nat * I => (fst pi, entry (snd pi))) pis).
      replace (map (fun pi : nat * I => Wr (fst pi) (entry (snd pi))) pis)
        with (map (fun lv : nat * V => Wr (fst lv) (snd lv)) lvs)
        by (unfold lvs; rewrite map_map; reflexivity).
      apply (exec_writes_nodup nat V Nat.eqb nat_eqb_spec).
      + unfold lvs. rewrite map_map. simpl.
        change (map (fun x : nat * I => fst x) pis) with (map fst pis).
        unfold pis. rewrite map_fst_combine by exact Hlen. apply seq_NoDup.
      + unfold lvs. apply in_map_iff. exists (p, ix). split; [reflexivity | exact Hin].
    - rewrite pool_locs. apply seq_NoDup.
    - exact Hil.
    - apply interleave_concat.
  Qed.

  (* the pool's tasks write pairwise different positions *)
  Lemma pool_writes_disjoint_l : forall idx T,
    NoDup (concat (map (locs nat V) (pool_tasks entry idx T))).
  Proof. intros. rewrite pool_locs. apply seq_NoDup. Qed.

  Lemma serial_result_l : forall idx m0,
    read_back (length idx) (exec Nat.eqb (serial_task entry idx) m0) = map entry idx.
  Proof.
    intros idx m0.
    pose proof (interleave_concat _ (pool_tasks entry idx 1)) as H.
    rewrite pool_concat in H.
    exact (pool_result_l idx 1 _ m0 H).
  Qed.
End PoolProofs.

(* ------------------------------------------------------------------------- *)
(** * symmetric assembly = full assembly (assemble_entries and the bsr path) *)

Lemma pair_eqb_spec : forall p q, pair_eqb p q = true <-> p = q.
Proof.
  intros [a b] [c d]. unfold pair_eqb. simpl. rewrite andb_true_iff, !Z.eqb_eq.
  split; [intros [-> ->]; reflexivity | intros E; injection E; auto].
Qed.

Lemma pair_eqb_neq : forall p q, p <> q -> pair_eqb p q = false.
Proof.
  intros p q H. destruct (pair_eqb p q) eqn:E; [|reflexivity].
  apply pair_eqb_spec in E. contradiction.
Qed.

Lemma swap_swap : forall p, swap (swap p) = p.
Proof. intros [a b]. reflexivity. Qed.

Lemma swap_inj : forall p q, swap p = swap q -> p = q.
Proof. intros p q H. rewrite <- (swap_swap p), <- (swap_swap q), H. reflexivity. Qed.

Lemma pair_eq_dec : forall p q : Z * Z, {p = q} + {p <> q}.
Proof. decide equality; apply Z.eq_dec. Qed.

Section EntriesProofs.
  Variable V : Type.
  Variable vzero : V.
  Variable vadd : V -> V -> V.
  Variable tr : V -> V.

  Notation den := (den vzero vadd).

  Lemma den_app_notin_l : forall (A B : list ((Z * Z) * V)) q,
    (forall t, In t A -> fst t <> q) -> den (A ++ B) q = den B q.
  Proof.
    induction A as [|t A IH]; intros B q H; [reflexivity|].
    simpl. rewrite pair_eqb_neq by (apply H; left; reflexivity).
    apply IH. intros t' Ht'. apply H. right; exact Ht'.
  Qed.

  Lemma den_notin : forall (A : list ((Z * Z) * V)) q,
    (forall t, In t A -> fst t <> q) -> den A q = vzero.
  Proof.
    intros A q H. rewrite <- (app_nil_r A). rewrite den_app_notin_l by exact H. reflexivity.
  Qed.

  Lemma den_app_notin_r : forall (A B : list ((Z * Z) * V)) q,
    (forall t, In t B -> fst t <> q) -> den (A ++ B) q = den A q.
  Proof.
    induction A as [|t A IH]; intros B q H.
    - simpl. apply den_notin, H.
    - simpl. rewrite IH by exact H. reflexivity.
  Qed.

  Lemma den_unique : forall (k : Z * Z -> Z * Z) (f : Z * Z -> V) (Ps : list (Z * Z)) p,
    NoDup (map k Ps) -> In p Ps ->
    den (map (fun x => (k x, f x)) Ps) (k p) = vadd (f p) vzero.
  Proof.
    induction Ps as [|x Ps IH]; intros p Hnd Hin; [destruct Hin|].
    simpl in Hnd. inversion Hnd as [|? ? Hnin Hnd']; subst.
    simpl. destruct Hin as [->|Hin].
    - rewrite (proj2 (pair_eqb_spec _ _) eq_refl). f_equal.
      apply den_notin. intros t Ht. apply in_map_iff in Ht. destruct Ht as [y [<- Hy]]. simpl.
      intro E. apply Hnin. rewrite <- E. apply in_map. exact Hy.
    - rewrite pair_eqb_neq; [apply IH; assumption|].
      intro E. apply Hnin. rewrite E. apply in_map. exact Hin.
  Qed.

  Lemma den_unique_id : forall (f : Z * Z -> V) (Ps : list (Z * Z)) p,
    NoDup Ps -> In p Ps -> den (map (fun x => (x, f x)) Ps) p = vadd (f p) vzero.
  Proof.
    intros f Ps p Hnd Hin.
    apply (den_unique (fun x => x) f Ps p); [rewrite map_id; exact Hnd | exact Hin].
  Qed.

  Lemma nonzero_lt_false : forall P, nonzero_lt false P = P.
  Proof.
    intro P. unfold nonzero_lt. simpl. induction P as [|p P IH]; [reflexivity|]. simpl. rewrite IH. reflexivity.
  Qed.

  Lemma NoDup_filter : forall (A : Type) (f : A -> bool) (l : list A), NoDup l -> NoDup (filter f l).
  Proof.
    induction l as [|a l IH]; intro H; [constructor|]. inversion H; subst. simpl.
    destruct (f a); [constructor|]; auto. intro Hin. apply filter_In in Hin. tauto.
  Qed.

  Lemma NoDup_map_inj : forall (A B : Type) (f : A -> B) (l : list A),
    (forall x y, f x = f y -> x = y) -> NoDup l -> NoDup (map f l).
  Proof.
    induction l as [|a l IH]; intros Hinj H; [constructor|]. inversion H; subst. simpl.
    constructor; [|apply IH; assumption].
    intro Hin. apply in_map_iff in Hin. destruct Hin as [y [E Hy]]. apply Hinj in E. subst. contradiction.
  Qed.

  Theorem symmetric_equals_full_l : forall (P : list (Z * Z)) (e : Z * Z -> V),
    NoDup P -> (forall p, In p P -> In (swap p) P) ->
    (forall p, In p P -> e (swap p) = tr (e p)) ->
    forall q, den (assemble_entries tr true P e) q = den (assemble_entries tr false P e) q.
  Proof.
    intros P e Hnd Hsym He q. unfold assemble_entries.
    rewrite nonzero_lt_false.
    set (IJ := nonzero_lt true P). set (IJ' := filter offdiag IJ).
    assert (HIJ : forall p, In p IJ <-> In p P /\ lower p = true).
    { intro p. unfold IJ, nonzero_lt. rewrite filter_In. simpl. tauto. }
    assert (HIJ' : forall p, In p IJ' <-> In p P /\ lower p = true /\ offdiag p = true).
    { intro p. unfold IJ'. rewrite filter_In, HIJ. tauto. }
    assert (HndIJ : NoDup IJ) by (apply NoDup_filter, Hnd).
    assert (HndIJ' : NoDup (map swap IJ')).
    { apply NoDup_map_inj; [exact swap_inj | apply NoDup_filter, HndIJ]. }
    destruct (in_dec pair_eq_dec q P) as [HqP|HqP].
    - (* q in the pattern *)
      rewrite (den_unique_id e P q Hnd HqP).
      destruct (lower q) eqn:Hlow.
      + (* on or below the diagonal: computed directly, nothing mirrored onto it *)
        rewrite den_app_notin_r.
        * apply (den_unique_id e IJ q HndIJ). apply HIJ. split; assumption.
        * intros t Ht. apply in_map_iff in Ht. destruct Ht as [p [<- Hp]]. simpl.
          apply HIJ' in Hp. destruct Hp as [_ [Hl Ho]]. intro E. subst q.
          destruct p as [a b]. unfold lower, offdiag, swap in *. simpl in *.
          apply Z.leb_le in Hl, Hlow. apply negb_true_iff, Z.eqb_neq in Ho. lia.
      + (* strictly above: the mirror image of (swap q) *)
        rewrite den_app_notin_l.
        * rewrite <- (swap_swap q) at 1.
          rewrite (den_unique swap (fun p => tr (e p)) IJ' (swap q) HndIJ').
          -- f_equal. rewrite <- (He (swap q)) by (apply Hsym, HqP). rewrite swap_swap. reflexivity.
          -- apply HIJ'. split; [apply Hsym, HqP|].
             destruct q as [a b]. unfold lower, offdiag, swap in *. simpl in *.
             apply Z.leb_gt in Hlow. split; [apply Z.leb_le; lia | apply negb_true_iff, Z.eqb_neq; lia].
        * intros t Ht. apply in_map_iff in Ht. destruct Ht as [p [<- Hp]]. simpl.
          apply HIJ in Hp. intro E. subst p. destruct Hp as [_ Hl]. congruence.
    - (* q outside the pattern: zero in both *)
      rewrite (den_notin (map (fun p => (p, e p)) P)).
      + apply den_notin. intros t Ht. apply in_app_or in Ht. destruct Ht as [Ht|Ht].
        * apply in_map_iff in Ht. destruct Ht as [p [<- Hp]]. simpl. apply HIJ in Hp.
          intro E. subst p. tauto.
        * apply in_map_iff in Ht. destruct Ht as [p [<- Hp]]. simpl. apply HIJ' in Hp.
          intro E. apply HqP. rewrite <- E. apply Hsym. tauto.
      + intros t Ht. apply in_map_iff in Ht. destruct Ht as [p [<- Hp]]. simpl.
        intro E. subst p. contradiction.
  Qed.
End EntriesProofs.

(* ------------------------------------------------------------------------- *)
(** * packed <-> blocked layout: the index permutation *)

Open Scope Z_scope.

Lemma to_seq_acc_shift : forall I ms acc, length I = length ms ->
  to_seq_acc acc I ms = acc * prodZ ms + to_seq_acc 0 I ms.
Proof.
  induction I as [|i I IH]; intros [|m ms] acc H; simpl in *; try discriminate; [lia|].
  rewrite (IH ms (acc * m + i)) by lia. rewrite (IH ms i) by lia. ring.
Qed.

Lemma to_seq_acc_snoc : forall I ms acc r k, length I = length ms ->
  to_seq_acc acc (I ++ [r]) (ms ++ [k]) = to_seq_acc acc I ms * k + r.
Proof.
  induction I as [|i I IH]; intros [|m ms] acc r k H; simpl in *; try discriminate; [reflexivity|].
  apply IH. lia.
Qed.

Definition in_ranges (I ms : list Z) : Prop := Forall2 (fun i m => 0 <= i < m) I ms.

Lemma Forall2_length : forall (A B : Type) (R : A -> B -> Prop) l1 l2,
  Forall2 R l1 l2 -> length l1 = length l2.
Proof. intros A B R l1 l2 H. induction H; simpl; congruence. Qed.

Lemma to_seq_range : forall I ms, in_ranges I ms -> 0 <= to_seq I ms < prodZ ms.
Proof.
  unfold to_seq. intros I ms H. induction H as [|i m I ms Him H IH]; simpl; [lia|].
  pose proof (Forall2_length _ _ _ _ _ H) as Hlen.
  rewrite to_seq_acc_shift by exact Hlen. nia.
Qed.

Lemma perm_of_packed : forall M k X r, 0 <= r < k -> perm M k (X * k + r) = r * M + X.
Proof.
  intros M k X r Hr. unfold perm.
  rewrite (Z.add_comm (X * k) r), Z.mod_add, Z.div_add by lia.
  rewrite Z.mod_small, Z.div_small by lia. ring.
Qed.

Lemma perm_bijective_l : forall M k p, 0 < M -> 0 < k -> 0 <= p < M * k ->
  0 <= perm M k p < M * k /\ perm k M (perm M k p) = p.
Proof.
  intros M k p HM Hk Hp.
  pose proof (Z.div_mod p k ltac:(lia)) as Hdm.
  pose proof (Z.mod_pos_bound p k Hk) as Hr.
  assert (Ha : 0 <= p / k < M).
  { split; [apply Z.div_pos; lia | apply Z.div_lt_upper_bound; lia]. }
  assert (E : p mod k * M + p / k = p / k + p mod k * M) by ring.
  split.
  - unfold perm. nia.
  - unfold perm. rewrite E. rewrite Z.mod_add, Z.div_add by lia.
    rewrite (Z.mod_small (p / k) M), (Z.div_small (p / k) M) by lia. rewrite Hdm at 3. ring.
Qed.

Lemma packed_blocked_l : forall (bs : list (Z * Z)) (nc : Z * Z) (sel : list (Z * Z)) (rc : Z * Z),
  in_ranges (map fst sel) (map fst bs) -> in_ranges (map snd sel) (map snd bs) ->
  0 <= fst rc < fst nc -> 0 <= snd rc < snd nc ->
  key_blocked bs nc sel rc =
    (perm (prodZ (map fst bs)) (fst nc) (fst (key_packed bs nc sel rc)),
     perm (prodZ (map snd bs)) (snd nc) (snd (key_packed bs nc sel rc))).
Proof.
  intros bs nc sel rc HI HJ Hr Hc.
  unfold key_blocked, key_packed, ml_key, to_seq. simpl fst; simpl snd.
  rewrite !map_app. simpl map.
  pose proof (Forall2_length _ _ _ _ _ HI) as HlI. pose proof (Forall2_length _ _ _ _ _ HJ) as HlJ.
  rewrite !to_seq_acc_snoc by assumption.
  rewrite !perm_of_packed by assumption.
  simpl to_seq_acc.
  rewrite (to_seq_acc_shift (map fst sel) (map fst bs) (fst rc)) by assumption.
  rewrite (to_seq_acc_shift (map snd sel) (map snd bs) (snd rc)) by assumption.
  reflexivity.
Qed.

(* ------------------------------------------------------------------------- *)
(** * the prange over mu0 of generic_assemble_core_vec (incl. mirrored writes) *)

Close Scope Z_scope.

Lemma list_nat_eqb_spec : forall a b, list_nat_eqb a b = true <-> a = b.
Proof.
  induction a as [|x a IH]; intros [|y b]; simpl; split; intro H; try reflexivity; try discriminate.
  - apply andb_true_iff in H. destruct H as [H1 H2]. apply Nat.eqb_eq in H1. apply IH in H2. subst. reflexivity.
  - injection H as -> ->. rewrite Nat.eqb_refl. simpl. apply IH. reflexivity.
Qed.

Lemma eloc_eqb_spec : forall a b, eloc_eqb a b = true <-> a = b.
Proof.
  intros [a1 a2] [b1 b2]. unfold eloc_eqb. simpl. rewrite andb_true_iff, list_nat_eqb_spec, Nat.eqb_eq.
  split; [intros [-> ->]; reflexivity | intro E; injection E; auto].
Qed.

Lemma hd_app_nonempty : forall (mu : list nat) m, mu <> [] -> hd 0 (mu ++ [m]) = hd 0 mu.
Proof. intros [|x mu] m H; [congruence | reflexivity]. Qed.

Section CoreProofs.
  Variable V : Type.
  Variable nc0 nc1 : nat.
  Variable B : list Z -> list Z -> nat -> V.

  (* which rows of `entries` (first index) the operations of the kernel loops touch *)
  Definition heads_ok (sym : bool) (mu tmu : list nat) (o : op eloc V) : Prop :=
    match o with
    | Wr l _ => hd 0 (fst l) = hd 0 mu
    | Cp d s => sym = true /\ hd 0 (fst d) = hd 0 tmu /\ hd 0 (fst s) = hd 0 mu
    end.

  Lemma kern_heads : forall sym rest allz mu tmu i j o,
    mu <> [] -> tmu <> [] -> In o (kern nc0 nc1 B sym rest allz mu tmu i j) -> heads_ok sym mu tmu o.
  Proof.
    intros sym rest. induction rest as [|[b t] rest IH]; intros allz mu tmu i j o Hmu Htmu Hin.
    - simpl in Hin. apply in_app_or in Hin. destruct Hin as [Hin|Hin].
      + unfold blk_ops in Hin. apply in_map_iff in Hin. destruct Hin as [c [<- _]]. reflexivity.
      + destruct (sym && negb allz) eqn:E; [|destruct Hin].
        apply andb_true_iff in E. destruct E as [Es _].
        unfold mirror_ops in Hin. apply in_flat_map in Hin. destruct Hin as [row [_ Hin]].
        apply in_map_iff in Hin. destruct Hin as [col [<- _]]. simpl. auto.
    - simpl in Hin. apply in_flat_map in Hin. destruct Hin as [m [_ Hin]].
      destruct (sym && allz && (snd (nth m b (0%Z, 0%Z)) - fst (nth m b (0%Z, 0%Z)) >? 0)%Z); [destruct Hin|].
      apply IH in Hin.
      + destruct o as [l v|d s]; simpl in *.
        * rewrite Hin. apply hd_app_nonempty, Hmu.
        * destruct Hin as [Hs [Hd Hsrc]]. rewrite Hd, Hsrc.
          rewrite !hd_app_nonempty by assumption. auto.
      + intro E. apply app_eq_nil in E. destruct E; discriminate.
      + intro E. apply app_eq_nil in E. destruct E; discriminate.
  Qed.

  Definition diag0 (b0 : list (Z * Z)) (m : nat) : Z := (snd (nth m b0 (0, 0)) - fst (nth m b0 (0, 0)))%Z.

  (* the iteration mu0 that owns row r of `entries` *)
  Definition core_own (sym : bool) (lv0 : level) (l : eloc) : nat :=
    let r := hd 0 (fst l) in
    if sym && (diag0 (fst lv0) r >? 0)%Z then nth r (snd lv0) 0 else r.

  (* transp0 really is the index of the transposed pattern entry *)
  Definition transp_ok (lv0 : level) : Prop :=
    forall m, m < length (fst lv0) ->
      nth m (snd lv0) 0 < length (fst lv0) /\
      nth (nth m (snd lv0) 0) (fst lv0) (0%Z, 0%Z) = swap (nth m (fst lv0) (0%Z, 0%Z)).

  Lemma core_owned : forall sym lv0 rest,
    NoDup (fst lv0) -> transp_ok lv0 ->
    owned eloc V (core_own sym lv0) (core_tasks nc0 nc1 B sym (lv0 :: rest)).
  Proof.
    intros sym [b0 t0] rest Hnd Htr i t Hi o Ho l Hl. simpl in *.
    rewrite nth_error_map in Hi.
    destruct (nth_error (seq 0 (length b0)) i) as [m|] eqn:Em; [|discriminate].
    simpl in Hi. injection Hi as <-.
    assert (Hlt : i < length b0).
    { rewrite <- (seq_length (length b0) 0). apply nth_error_Some. rewrite Em. discriminate. }
    assert (m = i).
    { apply nth_error_nth with (d := 0) in Em. rewrite seq_nth in Em by exact Hlt. lia. }
    subst m. unfold core_task in Ho. simpl fst in Ho; simpl snd in Ho.
    set (d := (snd (nth i b0 (0%Z, 0%Z)) - fst (nth i b0 (0%Z, 0%Z)))%Z) in *.
    destruct (sym && (d >? 0)%Z) eqn:Eskip; [destruct Ho|].
    apply kern_heads in Ho; [|discriminate|discriminate].
    destruct (Htr i Hlt) as [Hti Hswap]. simpl in Hti, Hswap.
    assert (Hrow_i : forall l' : eloc, hd 0 (fst l') = i -> core_own sym (b0, t0) l' = i).
    { intros l' E. unfold core_own, diag0. simpl fst; simpl snd. rewrite E. fold d. rewrite Eskip. reflexivity. }
    destruct o as [l0 v|dst src]; simpl in Ho, Hl.
    - destruct Hl as [<-|[]]. apply Hrow_i. exact Ho.
    - destruct Ho as [Hs [Hd Hsrc]]. subst sym. simpl in Eskip.
      destruct Hl as [<-|[<-|[]]]; [|apply Hrow_i; exact Hsrc].
      unfold core_own, diag0. simpl fst; simpl snd.
      rewrite Hd. simpl hd. simpl andb. rewrite Hswap. unfold swap. simpl fst; simpl snd.
      rewrite Z.gtb_ltb in Eskip. apply Z.ltb_ge in Eskip.
      destruct (Z.eq_dec d 0) as [Ez|Enz].
      + (* on the block diagonal: transp0[i] = i *)
        assert (Eti : nth i t0 0 = i).
        { apply (proj1 (NoDup_nth b0 (0%Z, 0%Z)) Hnd); [exact Hti | exact Hlt |].
          rewrite Hswap. destruct (nth i b0 (0%Z, 0%Z)) as [a c]. unfold swap, d in *. simpl in *.
          f_equal; lia. }
        replace (fst (nth i b0 (0%Z, 0%Z)) - snd (nth i b0 (0%Z, 0%Z)) >? 0)%Z with false
          by (symmetry; rewrite Z.gtb_ltb; apply Z.ltb_ge; unfold d in Ez; lia).
        exact Eti.
      + (* strictly below: the mirror row is skipped by its own iteration and transp0 is an involution *)
        replace (fst (nth i b0 (0%Z, 0%Z)) - snd (nth i b0 (0%Z, 0%Z)) >? 0)%Z with true
          by (symmetry; rewrite Z.gtb_ltb; apply Z.ltb_lt; unfold d in *; lia).
        destruct (Htr (nth i t0 0) Hti) as [Htti Hswap2]. simpl in Htti, Hswap2.
        apply (proj1 (NoDup_nth b0 (0%Z, 0%Z)) Hnd); [exact Htti | exact Hlt |].
        rewrite Hswap2, Hswap. apply swap_swap.
  Qed.

  Theorem prange_schedule_independent_l : forall sym lv0 rest s1 s2,
    NoDup (fst lv0) -> transp_ok lv0 ->
    interleave (core_tasks nc0 nc1 B sym (lv0 :: rest)) s1 ->
    interleave (core_tasks nc0 nc1 B sym (lv0 :: rest)) s2 ->
    forall m l, exec eloc_eqb s1 m l = exec eloc_eqb s2 m l.
  Proof.
    intros sym lv0 rest s1 s2 Hnd Htr H1 H2.
    apply (sched_own_independent eloc V eloc_eqb eloc_eqb_spec (core_own sym lv0) _ s1 s2
             (core_owned sym lv0 rest Hnd Htr) H1 H2).
  Qed.

End CoreProofs.
