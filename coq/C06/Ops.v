(* C06 -- operator expansions of the model (det, inv, cross, sums), vector component
   substitution.  Over an arbitrary field. *)
From Coq Require Import List String Bool Arith Lia Field Ring.
From Verif.C06 Require Import Model.
Import ListNotations.

Section Ops.
Variable F : Type.
Variables (f0 f1 : F) (fadd fmul fsub fdiv : F -> F -> F) (fopp finv : F -> F).
Hypothesis Fth : field_theory f0 f1 fadd fmul fsub fopp fdiv finv (@eq F).
Add Field Ffield2 : Fth.
Infix "+" := fadd. Infix "*" := fmul. Infix "-" := fsub. Infix "/" := fdiv.
Notation "- x" := (fopp x).
Notation eval := (eval F fadd fmul fsub fdiv fopp).
Notation expr := (expr F).
Notation env := (env F).
Notation e_det := (e_det F f1 fopp).
Notation e_inv := (e_inv F f1 fopp).
Notation inv_entry := (inv_entry F f0 f1 fopp).

(* ---- sums ------------------------------------------------------------------------------------ *)
Lemma fold_add_eval : forall (en : env) r x,
  eval en (fold_left (fun acc t => Op OAdd acc t) r x) = fold_left fadd (map (eval en) r) (eval en x).
Proof. intros en r. induction r; intros x; simpl; [reflexivity|]. rewrite IHr. reflexivity. Qed.

(* reduce(operator.add, terms) has the value of the sum of the terms, for any number of terms *)
Lemma reduce_add_sound_l : forall (en : env) l e,
  reduce_add F l = Some e ->
  exists x r, l = x :: r /\ eval en e = fold_left fadd (map (eval en) r) (eval en x).
Proof.
  intros en l e H. destruct l as [|x r]; simpl in H; [discriminate|].
  inversion H; subst. exists x, r. split; [reflexivity|]. apply fold_add_eval.
Qed.

(* ---- det: Laplace expansion = Leibniz formula, n <= 3 ------------------------------------------ *)
Lemma det_spec_1_l : forall (en : env) a, exists d, e_det 2 [[a]] = Some d /\ eval en d = eval en a.
Proof. intros. eexists. split; [reflexivity|]. reflexivity. Qed.

Lemma det_spec_2_l : forall (en : env) a00 a01 a10 a11,
  exists d, e_det 3 [[a00; a01]; [a10; a11]] = Some d /\
  eval en d = eval en a00 * eval en a11 - eval en a01 * eval en a10.
Proof. intros. eexists. split; [reflexivity|]. simpl. ring. Qed.

Lemma det_spec_3_l : forall (en : env) a00 a01 a02 a10 a11 a12 a20 a21 a22,
  exists d, e_det 4 [[a00; a01; a02]; [a10; a11; a12]; [a20; a21; a22]] = Some d /\
  eval en d =
    eval en a00 * eval en a11 * eval en a22 + eval en a01 * eval en a12 * eval en a20
    + eval en a02 * eval en a10 * eval en a21 - eval en a02 * eval en a11 * eval en a20
    - eval en a01 * eval en a10 * eval en a22 - eval en a00 * eval en a12 * eval en a21.
Proof. intros. eexists. split; [reflexivity|]. simpl. ring. Qed.

(* ---- inv: A * inv A = inv A * A = I, n <= 3 ----------------------------------------------------- *)
Definition entry (en : env) (A : list (list expr)) (i j : nat) : F :=
  eval en (nth j (nth i A []) (Const f0)).
Definition ientry (en : env) (A : list (list expr)) (i j : nat) : F := eval en (inv_entry A i j).
Definition fsum (n : nat) (f : nat -> F) : F := fold_right (fun k acc => f k + acc) f0 (seq 0 n).
Definition delta (i j : nat) : F := if i =? j then f1 else f0.
Definition detv (en : env) (A : list (list expr)) : F :=
  match e_det (S (List.length A)) A with Some d => eval en d | None => f0 end.

Ltac small i := destruct i as [|[|[|i]]]; try lia.

Lemma inv_spec_1_l : forall (en : env) a, let A := [[a]] in
  detv en A <> f0 ->
  forall i j, i < 1 -> j < 1 ->
  fsum 1 (fun k => ientry en A i k * entry en A k j) = delta i j /\
  fsum 1 (fun k => entry en A i k * ientry en A k j) = delta i j.
Proof.
  intros en a A Hd i j Hi Hj. small i. small j. cbv in Hd |- *.
  split; field; exact Hd.
Qed.

Lemma inv_spec_2_l : forall (en : env) a00 a01 a10 a11, let A := [[a00; a01]; [a10; a11]] in
  detv en A <> f0 ->
  forall i j, i < 2 -> j < 2 ->
  fsum 2 (fun k => ientry en A i k * entry en A k j) = delta i j /\
  fsum 2 (fun k => entry en A i k * ientry en A k j) = delta i j.
Proof.
  intros en a00 a01 a10 a11 A Hd i j Hi Hj. cbv in Hd.
  small i; small j; cbv; split; field; intro H; apply Hd; rewrite <- H; ring.
Qed.

Lemma inv_spec_3_l : forall (en : env) a00 a01 a02 a10 a11 a12 a20 a21 a22,
  let A := [[a00; a01; a02]; [a10; a11; a12]; [a20; a21; a22]] in
  detv en A <> f0 ->
  forall i j, i < 3 -> j < 3 ->
  fsum 3 (fun k => ientry en A i k * entry en A k j) = delta i j /\
  fsum 3 (fun k => entry en A i k * ientry en A k j) = delta i j.
Proof.
  intros en a00 a01 a02 a10 a11 a12 a20 a21 a22 A Hd i j Hi Hj. cbv in Hd.
  set (x00 := eval en a00) in *. set (x01 := eval en a01) in *. set (x02 := eval en a02) in *.
  set (x10 := eval en a10) in *. set (x11 := eval en a11) in *. set (x12 := eval en a12) in *.
  set (x20 := eval en a20) in *. set (x21 := eval en a21) in *. set (x22 := eval en a22) in *.
  small i; small j; cbv -[x00 x01 x02 x10 x11 x12 x20 x21 x22];
    split; field; intro H; apply Hd; rewrite <- H; ring.
Qed.

(* ---- cross product -------------------------------------------------------------------------------- *)
Lemma cross_spec_l : forall (en : env) x0 x1 x2 y0 y1 y2,
  let t := TCross (TLV [x0; x1; x2]) (TLV [y0; y1; y2]) in
  exists c0 c1 c2, tat F t [0] = Some c0 /\ tat F t [1] = Some c1 /\ tat F t [2] = Some c2 /\
  eval en c0 = eval en x1 * eval en y2 - eval en x2 * eval en y1 /\
  eval en c1 = eval en x2 * eval en y0 - eval en x0 * eval en y2 /\
  eval en c2 = eval en x0 * eval en y1 - eval en x1 * eval en y0.
Proof. intros. do 3 eexists. repeat split; reflexivity. Qed.

(* ---- vector component substitution ------------------------------------------------------------------ *)
Lemma subst_bf_sound_l : forall (en : env) name keep e,
  eval en (subst_bf F f0 name keep e) = eval (env_unit F f0 en name keep) e.
Proof.
  intros en name keep e. induction e; simpl; try reflexivity.
  - destruct comp as [c|]; [|reflexivity].
    destruct (String.eqb name0 name); [|reflexivity].
    destruct (c =? keep); reflexivity.
  - rewrite IHe. reflexivity.
  - rewrite IHe. reflexivity.
  - rewrite IHe1, IHe2. reflexivity.
Qed.

(* entry (i, j) of the component matrix is the form with u = phi e_j, v = psi e_i *)
Lemma subst_vec2_sound_l : forall (en : env) bu bv i j e,
  eval en (subst_vec2 F f0 bu bv i j e) =
  eval (env_unit F f0 (env_unit F f0 en bu j) bv i) e.
Proof.
  intros. unfold subst_vec2. rewrite subst_bf_sound_l. rewrite subst_bf_sound_l. reflexivity.
Qed.

End Ops.
