(* C06 -- the tolerance window of ConstExpr.is_constant (vform.py:941-942) made explicit.

   [Model.fold1]/[fold_all] take the predicate [near] as a parameter; QcInst.qnear fixes the
   window 1e-15.  Here the window is a PARAMETER [tol] of the executable model (the check
   instantiates it, on every run, with the literal translated from pyiga/vform.py by
   translate/c06_isconstant.py), and the soundness statement says exactly what it needs:
   folding preserves the value whenever the window made no difference to the outcome, i.e.
   whenever folding with [near] and folding with the exact-guarded predicate
   [near c v && (c =? v)] return the same tree.  [window_free] is that (decidable) condition;
   the tie evaluates it on every expression of the near-constant stream.
   Inside the window the code folds BY DESIGN and the value does change
   ([fold_inside_window_changes_value]). *)
From Coq Require Import List String Bool Arith ZArith QArith Qcanon Field.
From Verif.C06 Require Import Model Proofs.
Import ListNotations.

Section Guard.
Variable F : Type.
Variables (f0 f1 : F) (fadd fmul fsub fdiv : F -> F -> F) (fopp finv : F -> F).
Hypothesis Fth : field_theory f0 f1 fadd fmul fsub fopp fdiv finv (@eq F).
Variable near : F -> F -> bool.
Variable feqb : F -> F -> bool.
Variable fzerob : F -> bool.
Hypothesis feqb_sound : forall a b, feqb a b = true -> a = b.

Definition near_guarded (c v : F) : bool := near c v && feqb c v.

Definition oexpr_eqb (a b : option (expr F)) : bool :=
  match a, b with
  | Some x, Some y => expr_eqb F feqb x y
  | None, None => true
  | _, _ => false
  end.

(* the window made no difference on this tree *)
Definition window_free (e : expr F) : bool :=
  oexpr_eqb (fold_all F f0 f1 fadd fmul fsub fdiv fopp near fzerob e)
            (fold_all F f0 f1 fadd fmul fsub fdiv fopp near_guarded fzerob e).
Definition window_free1 (e : expr F) : bool :=
  oexpr_eqb (fold1 F f0 f1 fadd fmul fsub fdiv fopp near fzerob e)
            (fold1 F f0 f1 fadd fmul fsub fdiv fopp near_guarded fzerob e).

Lemma near_guarded_exact : forall c v, near_guarded c v = true -> c = v.
Proof.
  intros c v H. unfold near_guarded in H. apply andb_true_iff in H. destruct H as [_ H].
  apply feqb_sound. exact H.
Qed.

Lemma oexpr_eqb_some : forall a e', oexpr_eqb (Some e') a = true -> a = Some e'.
Proof.
  intros [y|] e' H; simpl in H; [|discriminate].
  f_equal. symmetry. apply (expr_eqb_eq F feqb feqb_sound). exact H.
Qed.

Lemma fold_all_window_free_l : forall en e e',
  window_free e = true ->
  fold_all F f0 f1 fadd fmul fsub fdiv fopp near fzerob e = Some e' ->
  eval F fadd fmul fsub fdiv fopp en e' = eval F fadd fmul fsub fdiv fopp en e.
Proof.
  intros en e e' W H. unfold window_free in W. rewrite H in W.
  apply oexpr_eqb_some in W.
  exact (fold_all_sound_l F f0 f1 fadd fmul fsub fdiv fopp finv Fth near_guarded fzerob
           near_guarded_exact en e e' W).
Qed.

Lemma fold1_window_free_l : forall en e e',
  window_free1 e = true ->
  fold1 F f0 f1 fadd fmul fsub fdiv fopp near fzerob e = Some e' ->
  eval F fadd fmul fsub fdiv fopp en e' = eval F fadd fmul fsub fdiv fopp en e.
Proof.
  intros en e e' W H. unfold window_free1 in W. rewrite H in W.
  apply oexpr_eqb_some in W.
  exact (fold1_sound_l F f0 f1 fadd fmul fsub fdiv fopp finv Fth near_guarded fzerob
           near_guarded_exact en e e' W).
Qed.
End Guard.

(* ---- the Qc instance with the window as a parameter -------------------------------------- *)
Module QcTol.
  Import QcInst.
  Open Scope Qc_scope.
  (* |c - v| < tol, exactly (ConstExpr.is_constant with the literal [tol]) *)
  Definition qnear_t (tol c v : Qc) : bool := negb (Qle_bool tol (qabs (c - v))).
  Definition qfold1_t (tol : Qc) : qexpr -> option qexpr :=
    fold1 Qc 0 1 Qcplus Qcmult Qcminus Qcdiv Qcopp (qnear_t tol) qzerob.
  Definition qfold_all_t (tol : Qc) : qexpr -> option qexpr :=
    fold_all Qc 0 1 Qcplus Qcmult Qcminus Qcdiv Qcopp (qnear_t tol) qzerob.
  Definition qwindow_free (tol : Qc) : qexpr -> bool :=
    window_free Qc 0 1 Qcplus Qcmult Qcminus Qcdiv Qcopp (qnear_t tol) qeqb qzerob.
  Definition qwindow_free1 (tol : Qc) : qexpr -> bool :=
    window_free1 Qc 0 1 Qcplus Qcmult Qcminus Qcdiv Qcopp (qnear_t tol) qeqb qzerob.

  Lemma qeqb_sound : forall a b : Qc, qeqb a b = true -> a = b.
  Proof. intros a b H. unfold qeqb in H. apply Qc_is_canon. apply Qeq_bool_eq. exact H. Qed.

  (* the model with the window 1e-15 of Model.QcInst is the instance tol = 1/10^15 *)
  Lemma qfold_all_is_instance_l : forall e, qfold_all e = qfold_all_t (Q2Qc (1 # 1000000000000000)) e.
  Proof. reflexivity. Qed.

  Lemma qfold_all_window_free_l : forall tol en e e',
    qwindow_free tol e = true -> qfold_all_t tol e = Some e' -> qeval en e' = qeval en e.
  Proof.
    intros tol en e e'.
    exact (fold_all_window_free_l Qc 0 1 Qcplus Qcmult Qcminus Qcdiv Qcopp Qcinv Qcft
             (qnear_t tol) qeqb qzerob qeqb_sound en e e').
  Qed.

  (* inside the window the code folds by design, and the value changes:
     (1/10^16) * u  -->  0  although  u = 1  gives 1/10^16 *)
  Definition tiny : Qc := Q2Qc (1 # 10000000000000000).
  Definition ex_inside : qexpr := Op OMul (Const tiny) (GW 0).
  Definition en_one : qenv :=
    @mkEnv Qc (fun _ _ _ _ => 1) (fun _ _ _ _ => 1) (fun _ => 1) 1 1 (fun _ x => x).
  Lemma fold_inside_window_changes_value_l :
    exists e e' en, qfold_all e = Some e' /\ qeval en e' <> qeval en e.
  Proof.
    exists ex_inside, (Const 0), en_one. split.
    - vm_compute. reflexivity.
    - vm_compute. intro H. discriminate H.
  Qed.
End QcTol.
