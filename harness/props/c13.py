"""C13 -- Form-compilation caching never substitutes a different assembler.

Stages (DESIGN.md section 4, C13):
  1. obligations: coq/C13/Props.v (key_separates, form_key_separates, cache_returns_requested,
     disk_*, reorder_sound, ...) + the tables regenerated from vform.py/compile.py by
     translate/exprclasses.py with `covers current_table = true` and the record layouts.
  2. tie: (a) the model's form_key (with the regenerated table) induces exactly the same
     equality relation on serialised forms as the implementation's vf.hash(); (b) the memo
     model's hit/miss trace equals compile_vform's; (c) CPython's numeric hash as modelled;
     (d) freshness certificate: shipped assemblers.pyx/genericasm.pxi against what the
     generator produces today, runs of statements checked by the Coq-verified reorder_ok.
  3. search / property on the implementation: equal vf.hash() => identical generated source
     (all pairs of the run, mutation neighbourhoods in particular); every request of every
     compile order returns the source of the requested form; module names are the digest.
"""
import hashlib
import json
import os
import re
import struct
from concurrent.futures import ThreadPoolExecutor

from harness import core
from harness.core import log, parse_coq_list_of_nat
from harness.props import c13_forms as F

PROPS = 'C13/Props.v'
DRIVER = 'harness/impl/c13_driver.py'


# ---------------------------------------------------------------------------
# Coq text for serialised forms
# ---------------------------------------------------------------------------

def cstr(s):
    return '"%s"' % s.replace('"', '""')


def cz(n):
    n = int(n)
    return '(%d)' % n if n < 0 else '%d' % n


def clist(xs):
    return '[' + '; '.join(xs) + ']'


def c_atom(a):
    if 'i' in a:
        return '(AInt %s)' % cz(a['i'])
    if 'f' in a:
        return '(AFloat %d)' % a['f']
    if 's' in a:
        return '(AStr %s)' % cstr(a['s'])
    if 'n' in a:
        return 'ANone'
    if 't' in a:
        return '(ATup %s)' % clist(c_atom(x) for x in a['t'])
    return 'ANone'      # an object the model has no value for; flagged through well_typed if it is code-relevant


class Emitter:
    """Coq text for forms with shared subtrees emitted once (mutation neighbours share almost
    everything): `defs` are Definitions to put in front."""

    def __init__(self):
        self.memo = {}
        self.defs = []

    def name(self, txt, prefix='n'):
        nm = self.memo.get(txt)
        if nm is None:
            nm = '%s%d' % (prefix, len(self.memo))
            self.memo[txt] = nm
            self.defs.append('Definition %s := %s.' % (nm, txt))
        return nm

    def node(self, n):
        attrs = clist('(%s, %s)' % (cstr(k), c_atom(v)) for k, v in sorted(n['a'].items()))
        if n['a']:
            attrs = self.name(attrs, 'a')
        txt = 'Node %s (ATup %s) %s %s' % (cstr(n['c']), clist('(AInt %d)' % s for s in n['sh']), attrs,
                                        clist(self.node(c) for c in n['ch']))
        return self.name(txt)

    def text(self):
        return '\n'.join(self.defs) + '\n'


_EM = [Emitter()]


def c_node(n):
    return _EM[0].node(n)


def new_emitter():
    _EM[0] = Emitter()
    return _EM[0]


def c_opt(x):
    return 'None' if x is None else '(Some %s)' % cz(x)


def c_bool(b):
    return 'true' if b else 'false'


def c_form(t):
    bfs = clist('(mk_bfun %s %s %s %s)' % (cstr(b['name']), c_opt(b['numcomp']), c_opt(b['component']), cz(b['space']))
                for b in t['bfs'])

    def inp(i):
        return '(mk_inputf %s %s %s %s)' % (cstr(i['name']), clist(cz(s) for s in i['shape']), c_bool(i['physical']), c_bool(i['updatable']))
    vs = []
    for v in t['vars']:
        s = v['src']
        if 'expr' in s:
            src = '(SExpr %s)' % c_node(s['expr'])
        elif 'input' in s:
            src = '(SInput %s)' % inp(s['input'])
        elif 'param' in s:
            src = '(SParam (mk_param %s %s))' % (cstr(s['param']['name']), clist(cz(x) for x in s['param']['shape']))
        else:
            raise ValueError('variable source not modelled: %r' % (s,))
        vs.append('(mk_avar %s %s %s %s %s)' % (cstr(v['name']), src, clist(cz(x) for x in v['shape']), c_bool(v['symmetric']), c_opt(v['deriv'])))
    return '(mk_form %s %s %s %s %s %s %s %s %s)' % (
        cz(t['dim']), cz(t['arity']), cz(t['vec']), c_bool(t['spacetime']), c_bool(t['is_boundary']),
        bfs, clist(inp(i) for i in t['inputs']), clist(vs), clist(c_node(e) for e in t['exprs']))


CASE_HEADER = '''From Coq Require Import String.
From Coq Require Import List ZArith Bool.
From Verif.C13 Require Import Model.
From @GENLIB@ Require Import C13_ExprKeys.
Import ListNotations.
Open Scope string_scope.
Open Scope Z_scope.
'''

PAIRS_TAIL = '''
Definition keys : list hval := map (form_key current_table) forms.
Definition N : nat := length forms.
Fixpoint enum {A} (k : nat) (l : list A) : list (nat * A) :=
  match l with [] => [] | x :: l' => (k, x) :: enum (S k) l' end.
Definition items := enum 0%nat (combine keys classes).
Definition bad_pairs : list nat :=
  flat_map (fun a => flat_map (fun b =>
     if Nat.ltb (fst a) (fst b) then
       if Bool.eqb (hval_eqb (fst (snd a)) (fst (snd b))) (Nat.eqb (snd (snd a)) (snd (snd b))) then []
       else [(fst a * N + fst b)%nat]
     else []) items) items.
Definition bad_wf : list nat :=
  flat_map (fun kf => if wf_form current_table (snd kf) then [] else [(N * N + fst kf)%nat]) (enum 0%nat forms).
Eval vm_compute in (app bad_wf bad_pairs).
'''


# ---------------------------------------------------------------------------
# what differs between two serialised forms (for signatures)
# ---------------------------------------------------------------------------

def first_difference(a, b):
    if a is None or b is None:
        return 'unknown'
    for k in ('dim', 'arity', 'vec', 'spacetime', 'is_boundary', 'geo_dim'):
        if a[k] != b[k]:
            return 'VForm.' + k
    for k, cls in (('bfs', 'BasisFun'), ('inputs', 'InputField')):
        if len(a[k]) != len(b[k]):
            return 'VForm.' + k
        for x, y in zip(a[k], b[k]):
            for f in x:
                if x[f] != y[f]:
                    return '%s.%s' % (cls, f)

    def nd(x, y):
        if x['c'] != y['c']:
            return 'class'
        if x['sh'] != y['sh']:
            return x['c'] + '.shape'
        for f in sorted(set(x['a']) | set(y['a'])):
            if x['a'].get(f) != y['a'].get(f):
                return '%s.%s' % (x['c'], f)
        if len(x['ch']) != len(y['ch']):
            return x['c'] + '.children'
        for p, q in zip(x['ch'], y['ch']):
            d = nd(p, q)
            if d:
                return d
        return None
    if len(a['vars']) != len(b['vars']):
        return 'VForm.vars'
    for x, y in zip(a['vars'], b['vars']):
        for f in ('name', 'shape', 'symmetric', 'deriv'):
            if x[f] != y[f]:
                return 'AsmVar.' + f
        if sorted(x['src']) != sorted(y['src']):
            return 'AsmVar.src'
        if 'expr' in x['src']:
            d = nd(x['src']['expr'], y['src']['expr'])
            if d:
                return d
        elif x['src'] != y['src']:
            return 'AsmVar.src'
    if len(a['exprs']) != len(b['exprs']):
        return 'VForm.exprs'
    for x, y in zip(a['exprs'], b['exprs']):
        d = nd(x, y)
        if d:
            return d
    return 'none'


# ---------------------------------------------------------------------------
# freshness: splitting generated Cython text into skeleton lines and runs of statements
# ---------------------------------------------------------------------------

ASSIGN = re.compile(r'^(\s*)([A-Za-z_][\w\.]*(?:\[[^\]=]*\])?)\s*(\+=|=)\s*(\S.*)$')
CDEF = re.compile(r'^(\s*)cdef\s+(?:double\*|double|size_t|int|long)\s+([A-Za-z_]\w*)(\[\d+\])?(?:\s*=\s*(.+))?$')
IDENT = re.compile(r'([A-Za-z_][\w\.]*)\s*(\[\s*(\d+)\s*\]|\[)?')
KEYWORDS = ('def ', 'cdef class', 'class ', 'for ', 'if ', 'elif ', 'else', 'while ', 'with ', 'return', 'assert ', 'import ',
            'from ', 'cimport ', '@', 'raise ', 'pass', 'break', 'continue', 'try', 'except', 'cpdef ', 'print')


def balanced(s):
    return s.count('(') == s.count(')') and s.count('[') == s.count(']') and s.count('{') == s.count('}')


def refs(text):
    """variables referenced in a piece of code: 'a', 'a[3]' (literal index) or 'a[*]'"""
    out = []
    text = re.sub(r"'[^']*'|\"[^\"]*\"", '', text)
    for m in IDENT.finditer(text):
        name = m.group(1)
        if re.match(r'^\d', name):
            continue
        if m.group(3) is not None:
            out.append('%s[%s]' % (name, m.group(3)))
        elif m.group(2):
            out.append(name + '[*]')
        else:
            out.append(name)
    return out


def classify(line):
    """-> ('stmt', indent, defs, uses) or ('skel',)"""
    st = line.strip()
    if not st:
        return ('skel',)
    if st.startswith('#'):
        return ('stmt', len(line) - len(line.lstrip()), [], [])
    if st.startswith(KEYWORDS) and not st.startswith('cdef '):
        return ('skel',)
    if st.endswith((':', '(', ',', '\\')) or not balanced(st):
        return ('skel',)
    m = CDEF.match(line)
    if m:
        name = m.group(2)
        d = [name] if not m.group(3) else [name + '[*]']
        return ('stmt', len(m.group(1)), d, refs(m.group(4)) if m.group(4) else [])
    if st.startswith('cdef '):
        return ('skel',)
    m = ASSIGN.match(line)
    if m and not m.group(4).startswith('='):
        lhs = refs(m.group(2))
        if not lhs:
            return ('skel',)
        d = [lhs[0]]
        u = lhs[1:] + refs(m.group(4))
        if m.group(3) == '+=':
            u = [lhs[0]] + u
        return ('stmt', len(m.group(1)), d, u)
    return ('skel',)


def split_items(text):
    """list of ('skel', line) | ('run', [(line, defs, uses), ...])"""
    items = []
    cur = None
    cur_ind = None
    for line in text.split('\n'):
        c = classify(line)
        if c[0] == 'stmt' and (cur is None or c[1] == cur_ind):
            if cur is None:
                cur, cur_ind = [], c[1]
                items.append(('run', cur))
            cur.append((line, c[2], c[3]))
        elif c[0] == 'stmt':
            cur, cur_ind = [(line, c[2], c[3])], c[1]
            items.append(('run', cur))
        else:
            cur = None
            items.append(('skel', line))
    return items


def expand(names, universe):
    """ids of the variables a reference touches: an element touches itself; a whole-array
    or bare reference touches every element of that array that occurs"""
    out = set()
    for n in names:
        base = n.split('[')[0]
        if n.endswith('[*]') or '[' not in n:
            out |= universe.get(base, set())
            out.add(base)
            out.add(base + '[*]')
        else:
            out.add(n)
            out.add(base + '[*]')       # conflicts with any non-literal access
    return out


def coq_runs(pairs):
    """pairs: list of (run_a, run_b).  Returns the Coq text evaluating reorder_ok on each."""
    rows = []
    for ra, rb in pairs:
        # statement and variable numbers are local to a pair of runs (nat literals are unary in Coq)
        sid = {}
        vid = {}

        def v(n, vid=vid):
            return vid.setdefault(n, len(vid))
        universe = {}
        for (line, d, u) in ra + rb:
            for n in d + u:
                universe.setdefault(n.split('[')[0], set()).add(n)

        def stmts(run):
            out = []
            for (line, d, u) in run:
                s = sid.setdefault(line.strip(), len(sid))
                # a write through a non-literal index / a bare name is also a read (partial update)
                dd = expand(d, universe)
                uu = expand(u, universe)
                if any(n.endswith('[*]') for n in d):
                    uu |= dd
                # literal-element writes do not read the wildcard marker they carry
                out.append('mk_stmt %d %s %s' % (s, clist(str(v(x)) for x in sorted(dd)), clist(str(v(x)) for x in sorted(uu))))
            return clist(out)
        rows.append('(%s, %s)' % (stmts(ra), stmts(rb)))
    txt = ('From Coq Require Import List Arith Bool.\nFrom Verif.C13 Require Import Model.\nImport ListNotations.\n'
           'Open Scope nat_scope.\nDefinition runs : list (list stmt * list stmt) := [\n' + ';\n'.join(rows) + '].\n'
           'Fixpoint bad (k : nat) (l : list (list stmt * list stmt)) : list nat :=\n'
           '  match l with [] => [] | (a, b) :: l\' => if reorder_ok a b then bad (S k) l\' else k :: bad (S k) l\' end.\n'
           'Eval vm_compute in bad 0 runs.\n')
    return txt


def freshness_compare(ship, regen):
    """-> (problem or None, list of run pairs to certify, stats)"""
    a, b = split_items(ship), split_items(regen)
    if len(a) != len(b):
        # find the first differing line for the report
        la, lb = ship.split('\n'), regen.split('\n')
        k = next((i for i, (x, y) in enumerate(zip(la, lb)) if x != y), min(len(la), len(lb)))
        return ('structure differs at line %d: shipped %r / generated %r' % (k + 1, la[k] if k < len(la) else None,
                                                                               lb[k] if k < len(lb) else None), [], {})
    pairs = []
    nid = 0
    for k, (x, y) in enumerate(zip(a, b)):
        if x[0] != y[0]:
            return ('structure differs at item %d: %r / %r' % (k, x, y), [], {})
        if x[0] == 'skel':
            if x[1] != y[1]:
                return ('line differs: shipped %r / generated %r' % (x[1], y[1]), [], {})
        else:
            if [l for l, _, _ in x[1]] == [l for l, _, _ in y[1]]:
                nid += 1
            pairs.append((x[1], y[1]))
    return (None, pairs, {'runs': len(pairs), 'runs_textually_identical': nid,
                          'statements': sum(len(p[0]) for p in pairs)})


# ---------------------------------------------------------------------------

def genlib(ctx):
    """logical path of this run's directory of generated files (core.Ctx.genrel, e.g. gen/r1234)"""
    rel = getattr(ctx, 'genrel', 'gen')
    return 'Verif.' + rel.replace(os.sep, '.').replace('/', '.')


def eval_many(ctx, files, timeout=900):
    return ctx.coq_eval_many([(n, t.replace('@GENLIB@', genlib(ctx))) for n, t in files], timeout=timeout)


def run_chunks(ctx, mode, specs, nproc=4, extra=None, timeout=1500):
    chunks = [specs[i::nproc] for i in range(nproc)]
    chunks = [c for c in chunks if c]

    def one(c):
        p = {'mode': mode, 'specs': c}
        if extra:
            p.update(extra)
        return ctx.impl.run(DRIVER, p, timeout=timeout)
    with ThreadPoolExecutor(max_workers=nproc) as ex:
        return list(ex.map(one, chunks))


def gen_table(ctx):
    """Translate the current source and compile tables + obligations.  Returns (tr, ok)."""
    from translate import exprclasses as T
    try:
        tr = T.translate(ctx.impl.dir)
    except T.TranslateError as e:
        ctx.obligations += 1
        ctx.broken.append('translator (fail-closed): %s' % e)
        log('[C13] translator refused: %s' % e)
        return None, False
    txt, obl, unknown = T.to_coq(tr)
    ok, out = ctx.gen_obligation('C13_ExprKeys', txt)
    if not ok:
        ctx.broken.append('generated table does not compile: ' + out[-500:])
        return tr, False
    allok = True
    head = 'From Coq Require Import String.\nFrom Coq Require Import List ZArith Bool.\nFrom Verif.C13 Require Import Model Spec.\nFrom @GENLIB@ Require Import C13_ExprKeys.\n'
    files = [('C13_obl_' + name, head + T.obligation_text(name, stmt)) for name, stmt in obl]
    # fast path: all obligations in one file; only when that fails are they compiled one by one to name the failing ones
    allfile = ('C13_obl_all', head + ''.join(T.obligation_text(name, stmt) for name, stmt in obl))
    ra = eval_many(ctx, [allfile], timeout=300)[0]
    if ra[1]:
        res = [(f[0], True, '') for f in files]
    else:
        res = eval_many(ctx, files, timeout=300)
    for (name, stmt), (fname, ok, out) in zip(obl, res):
        ctx.obligations += 1
        ctx.checker_cmds.append('cd coq && coqc -R . Verif gen/%s.v' % fname)
        if ok:
            ctx.discharged += 1
        else:
            allok = False
            detail = ''
            if name == 'covers_current':
                bad = []
                for cn, c in sorted(tr['expr_classes'].items()):
                    k = dict(c['key'])
                    for a, t in c['attrs']:
                        if a not in k:
                            bad.append('%s.%s is not in hash_key' % (cn, a))
                        elif k[a] == 'EOther':
                            bad.append('%s.%s is keyed through a rendering that is not known to be injective (neither the value nor repr()/hex())' % (cn, a))
                        elif t in ('TFloat', 'UNKNOWN') and k[a] != 'ERepr':
                            bad.append('%s.%s (%s) is keyed by its hash, which is not injective' % (cn, a, 'float' if t == 'TFloat' else 'unknown domain'))
                detail = '; '.join(bad)
            elif name.startswith('form_'):
                detail = 'VForm.hash scalars %s, code-relevant constructor attributes %s' % (tr['records']['VForm']['scalars'], tr['records']['VForm']['sem'])
            ctx.broken.append('generated obligation %s fails on the current source: %s [%s]' % (name, stmt, detail))
            log('[C13] obligation %s FAILS: %s' % (name, detail))
    if unknown:
        log('[C13] attributes of unknown domain (treated as not hash-safe): %s' % unknown)
    return tr, allok


def gen_readsets(ctx, tr):
    """Second translator: what codegen/cython.py + vform.py READ of each class; obligations reads <= keyed/derived/late."""
    from translate import c13_readsets as RS
    from translate import exprclasses as T
    if tr is None:
        return False
    try:
        rs = RS.analyse(ctx.impl.dir)
    except T.TranslateError as e:
        ctx.obligations += 1
        ctx.broken.append('read-set translator (fail-closed): %s' % e)
        log('[C13] read-set translator refused: %s' % e)
        return False
    txt, obl = RS.to_coq(rs, tr)
    txt = txt.replace('From Verif.C13 Require Import Model Spec ReadSets.',
                      'From Verif.C13 Require Import Model Spec ReadSets.\nFrom %s Require Import C13_ExprKeys.' % genlib(ctx))
    ok, out = ctx.gen_obligation('C13_ReadSets', txt)
    if not ok:
        ctx.broken.append('generated read-set table does not compile: ' + out[-500:])
        return False
    head = ('From Coq Require Import String.\nFrom Coq Require Import List ZArith Bool.\nFrom Verif.C13 Require Import Model Spec ReadSets.\n'
            'From @GENLIB@ Require Import C13_ExprKeys C13_ReadSets.\n')
    files = [('C13_rd_' + name, head + T.obligation_text(name, stmt)) for name, stmt in obl]
    ra = eval_many(ctx, [('C13_rd_all', head + ''.join(T.obligation_text(name, stmt) for name, stmt in obl))], timeout=300)[0]
    res = [(f[0], True, '') for f in files] if ra[1] else eval_many(ctx, files, timeout=300)
    allok = True
    for (name, stmt), (fname, ok_, out) in zip(obl, res):
        ctx.obligations += 1
        ctx.checker_cmds.append('cd coq && coqc -R . Verif gen/%s.v' % fname)
        if ok_:
            ctx.discharged += 1
        else:
            allok = False
            ctx.broken.append('generated obligation %s fails on the current source: %s [read sets %s; unresolved %s]'
                              % (name, stmt, {n: c['reads'] for n, c in rs['classes'].items()}, rs['unresolved'][:10]))
            log('[C13] read-set obligation %s FAILS' % name)
    ctx.cov['generator_attribute_reads_classified'] = rs['attribute_reads_seen']
    ctx.cov['generator_read_sets'] = {n: c['reads'] for n, c in rs['classes'].items()}
    for n in rs['classes']:
        ctx.count(('readset', n), nontrivial=bool(rs['classes'][n]['reads']))
    return allok


def already_reported(ctx, sig):
    return any(v[0] == sig for v in ctx.violations) or sig in ctx.known_hits


def confirm_different(ctx, s1, s2, od, observed=None):
    """True iff the canonical sources of 10 independent generations of s1 and of s2 (or the
    observed canonical sha) have nothing in common."""
    a, b = dict(s1, id=0), dict(s2, id=1)
    o = ctx.impl.run(DRIVER, {'mode': 'confirm', 'specs': [a, b], 'n': 10})['sets']
    sa, sb = set(o['0:%d' % od]), set(o['1:%d' % od])
    if observed is not None:
        return observed not in sa
    return not (sa & sb)


def check_forms_property(ctx, specs, results):
    """The property itself on the implementation: equal vf.hash() => identical generated code,
    for all pairs of forms of the run.  Independent oracle: the generated text."""
    byh = {}
    for s, r in zip(specs, results):
        if r['status'] == 'Ok':
            byh.setdefault(r['hash'], []).append((s, r))
    ncoll = 0
    for h, l in byh.items():
        for od in ('0', '1'):
            codes = {}
            for s, r in l:
                # a form whose generation is rejected (ValueError/AssertionError/...) is not compared:
                # rejections are not failures
                if not r['code'][od].startswith('ERR'):
                    codes.setdefault(r['code'][od], (s, r))
            if len(codes) > 1:
                (s1, r1), (s2, r2) = list(codes.values())[:2]
                diff = first_difference(r1.get('tree'), r2.get('tree'))
                ncoll += 1
                if already_reported(ctx, 'impl:hash-collision:%s' % diff):
                    continue
                # generate() is not deterministic text-wise; the canonical form removed the variation in every
                # case seen, but confirm with independent generations before calling it a collision
                if not confirm_different(ctx, s1, s2, od == '1'):
                    ctx.cov['unstable_pairs_not_counted'] = ctx.cov.get('unstable_pairs_not_counted', 0) + 1
                    ncoll -= 1
                    continue
                ctx.report('impl:hash-collision:%s' % diff,
                           'two forms with the same vf.hash() generate different code (on_demand=%s); they differ in %s: '
                           '%s  ///  %s' % (od == '1', diff, s1['code'], s2['code']),
                           {'specs': [s1, s2], 'on_demand': od == '1', 'hash': h,
                            'code_sha': [r1['code'][od], r2['code'][od]],
                            'how': 'exec spec.code with pyiga.vform names, kvs = dim x make_knots(2,0,1,3); compare V.hash() and compile.generate(V, on_demand)'})
        for s, r in l:
            if r['code'].get('hash_unstable'):
                ctx.report('impl:hash-changes-after-generate', 'vf.hash() changed after generate(): %s' % s['code'], {'specs': [s]})
    return ncoll


COARSE = set()


def tie_keys(ctx, specs, results):
    """Model form_key equality <-> implementation hash equality, pairwise inside each file."""
    ok = [(s, r) for s, r in zip(specs, results) if r['status'] == 'Ok' and r.get('tree') is not None]
    for s, r in ok:
        if r['tree']['derived_bad']:
            ctx.broken.append('derived-attribute assumption violated: %s for %s' % (r['tree']['derived_bad'], s['code']))
            ctx.report('tie:derived-attribute', 'an attribute listed as derived in translate/exprclasses_derived.json is not: %s' % r['tree']['derived_bad'],
                       {'specs': [s]}, found_input=False)
    ok = [(s, r) for s, r in ok if not r['tree']['derived_bad']]
    ok.sort(key=lambda sr: (sr[1]['chunk'], sr[0]['group'], sr[0]['id']))
    files, chunks = [], []
    cur, nodes = [], 0
    for s, r in ok:
        if cur and (len(cur) >= 60 or nodes + r['tree']['nodes'] > 9000 or cur[-1][1]['chunk'] != r['chunk']):
            chunks.append(cur)
            cur, nodes = [], 0
        cur.append((s, r))
        nodes += r['tree']['nodes']
    if cur:
        chunks.append(cur)

    def text(chunk, perturb=False):
        cls = {}
        ids = [cls.setdefault(r['hash'], len(cls)) for _, r in chunk]
        if perturb:
            ids = list(ids)
            ids[0] = len(cls) + 7 if ids.count(ids[0]) > 1 else ids[1 % len(ids)]
        em = new_emitter()
        try:
            forms = [c_form(r['tree']) for _, r in chunk]
        except ValueError:
            return None
        return (CASE_HEADER + em.text() + 'Definition forms : list form := [\n' + ';\n'.join(forms) + '].\n'
                + 'Definition classes : list nat := %s.\n' % clist('%d%%nat' % i for i in ids) + PAIRS_TAIL)
    for n, ch in enumerate(chunks):
        t = text(ch)
        if t is None:
            ctx.broken.append('a form has a variable source the model does not represent')
            continue
        files.append(('C13_cases_%03d' % n, t, ch))
    # self-test of the differ: a perturbed copy of the first file must be reported
    selftest = None
    if chunks and len(chunks[0]) >= 2:
        selftest = ('C13_selftest', text(chunks[0], perturb=True))
    res = eval_many(ctx, [(f[0], f[1]) for f in files] + ([selftest] if selftest else []), timeout=900)
    npairs = 0
    dis = []
    for (name, ok_, out), f in zip(res, files):
        ctx.obligations += 1
        ctx.checker_cmds.append('cd coq && coqc -R . Verif gen/%s.v' % name)
        bad = parse_coq_list_of_nat(out) if ok_ else None
        if bad is None:
            ctx.broken.append('case file %s did not evaluate: %s' % (name, out[-400:]))
            continue
        ctx.discharged += 1
        ch = f[2]
        n = len(ch)
        npairs += n * (n - 1) // 2
        for code in bad:
            if code >= n * n:
                dis.append(('wf', ch[code - n * n], None))
            else:
                dis.append(('pair', ch[code // n], ch[code % n]))
    if selftest:
        name, ok_, out = res[-1]
        bad = parse_coq_list_of_nat(out) if ok_ else None
        if not bad:
            ctx.broken.append('self-test: a perturbed case file was not reported as a disagreement')
        else:
            ctx.cov['selftest_mutant_detected'] = True
    ctx.cov['traces_validated_against_impl'] += len(ok)
    ctx.cov['key_pairs_compared'] = npairs
    ctx.cov['disagreements_checked'] += len(dis)
    seen = set()
    for kind, x, y in dis:
        if kind == 'wf':
            s, r = x
            sig = 'tie:not-well-typed'
            if sig in seen:
                continue
            seen.add(sig)
            ctx.broken.append('a form built through the public API has an attribute outside the domain the model assumes: %s' % s['code'])
            ctx.report(sig, 'attribute outside the modelled domain (tuple of non-negative ints / float / str / bool): %s' % s['code'],
                       {'specs': [s]}, found_input=False)
        else:
            (s1, r1), (s2, r2) = x, y
            diff = first_difference(r1['tree'], r2['tree'])
            sig = 'tie:key-relation:%s' % diff
            same_impl = r1['hash'] == r2['hash']
            if diff in COARSE and not same_impl:
                continue    # the model knowingly identifies values of an attribute keyed through an unknown rendering
            if sig in seen:
                continue
            seen.add(sig)
            ctx.broken.append('model key and vf.hash() disagree on a pair differing in %s' % diff)
            # is it a failing input of the property?  only if the implementation says equal and the code differs
            viol = same_impl and (r1['code']['0'] != r2['code']['0'] or r1['code']['1'] != r2['code']['1'])
            ctx.report(sig, 'the model (Model.form_key with the regenerated table) says the keys are %s, the implementation says %s; forms differ in %s: %s /// %s'
                       % ('different' if same_impl else 'equal', 'equal' if same_impl else 'different', diff, s1['code'], s2['code']),
                       {'specs': [s1, s2], 'impl_hash': [r1['hash'], r2['hash']]}, found_input=viol)
    return len(files)


def cache_sequences(ctx, specs, results, tr_ok):
    rng = ctx.rng
    thorough = ctx.tier == 'thorough'
    good = {s['id']: (s, r) for s, r in zip(specs, results)
            if r['status'] == 'Ok' and not r['code']['0'].startswith('ERR') and not r['code']['1'].startswith('ERR')}
    groups = {}
    for sid, (s, r) in good.items():
        groups.setdefault(s['group'], []).append(sid)
    seqs = []
    predef = [s['id'] for s in specs if s.get('shipped') and s['id'] in good]
    for p in predef:
        seqs += [[(p, 0)], [(p, 1), (p, 0), (p, 1)]]
    mass_like = [sid for sid, (s, r) in good.items() if s['code'] == "V = parse_vf('u * v * dx', kvs, args={})"]
    for m in mass_like:
        seqs += [[(m, 0), (m, 1)], [(m, 1), (m, 0)]]
    gl = sorted(groups)
    rng.shuffle(gl)
    for g in gl[:(len(gl) if thorough else 22)]:
        ids = groups[g]
        base = ids[0]
        for other in rng.sample(ids[1:], min(len(ids) - 1, 6 if thorough else 2)):
            a, b = base, other
            seqs += [[(a, 0), (b, 0)], [(b, 0), (a, 0)], [(a, 0), (b, 0), (a, 0), (b, 0)],
                     [(a, 1), (b, 0), (b, 1), (a, 0)], [(b, 1), (a, 1), (b, 1)]]
    allids = sorted(good)
    for _ in range(200 if thorough else 30):
        seqs.append([(rng.choice(allids), rng.randint(0, 1)) for _ in range(rng.randint(2, 6))])
    used = sorted({sid for q in seqs for sid, _ in q})
    sub = [good[i][0] for i in used]
    nproc = 4
    parts = [seqs[i::nproc] for i in range(nproc)]
    parts = [p for p in parts if p]

    def one(p):
        ids = {sid for q in p for sid, _ in q}
        return ctx.impl.run(DRIVER, {'mode': 'cache', 'specs': [s for s in sub if s['id'] in ids], 'sequences': p}, timeout=1500)
    with ThreadPoolExecutor(max_workers=nproc) as ex:
        outs = list(ex.map(one, parts))
    shipped_code = {}
    for s in specs:
        if s.get('shipped') and s['id'] in good:
            shipped_code[s['shipped']] = good[s['id']][1]['code']['0']
    nreq = 0
    cases = []
    for p, o in zip(parts, outs):
        if o.get('seed_size') != 14:
            ctx.report('impl:preseed-size', 'the in-process cache is pre-seeded with %s entries instead of 14' % o.get('seed_size'),
                       {'seed_size': o.get('seed_size')})
        for q, obs in zip(p, o['observed']):
            cases.append((q, obs))
            for k, ((sid, od), ob) in enumerate(zip(q, obs)):
                nreq += 1
                s, r = good[sid]
                want = r['code'][str(od)]
                if 'src' in ob:
                    got = ob['src']
                elif 'shipped' in ob:
                    got = shipped_code.get(ob['shipped']) if od == 0 else 'shipped-class-for-on-demand-request'
                else:
                    got = 'ERR/' + str(ob)
                ctx.count(('cache', tuple(q[:k + 1])), nontrivial=k > 0)
                sig = 'impl:cache-returns-other-form:%s' % (good[q[0][0]][0]['mut'] if k else 'first')
                if got != want and already_reported(ctx, sig):
                    continue
                if got != want and 'src' in ob and not want.startswith('ERR') and not confirm_different(ctx, s, s, bool(od), observed=got):
                    ctx.cov['unstable_pairs_not_counted'] = ctx.cov.get('unstable_pairs_not_counted', 0) + 1
                    continue
                if got != want:
                    ctx.report(sig,
                               'request %d of the sequence returned an assembler generated from different source than the requested form generates '
                               '(requested %s on_demand=%s, got %s)' % (k, s['code'], bool(od), ob),
                               {'sequence': [[good[i][0]['code'], o_] for i, o_ in q], 'specs': [good[i][0] for i, _ in q],
                                'request_index': k, 'expected_code_sha': want, 'observed': ob,
                                'how': 'fresh process, compile.compile_cython_module stubbed to carry the source; compile_vform(V, on_demand) per request'})
    ctx.cov['cache_requests'] = nreq
    ctx.cov['cache_sequences'] = len(cases)
    # model trace (hit/miss) against the implementation's
    if tr_ok is None:
        return
    seeds = [s for s in specs if s.get('shipped')]
    if any(s['id'] not in good for s in seeds):
        ctx.broken.append('a predefined form does not build/generate')
        return
    files = []
    per = 60
    if not thorough:
        cases = cases[:300]
    for n in range(0, len(cases), per):
        chunk = cases[n:n + per]
        ids = sorted({sid for q, _ in chunk for sid, _ in q} | {s['id'] for s in seeds})
        ids = [i for i in ids if good[i][1].get('tree') is not None]
        pos = {sid: k for k, sid in enumerate(ids)}
        chunk = [(q, obs) for q, obs in chunk if all(sid in pos for sid, _ in q)]
        em = new_emitter()
        try:
            forms = [c_form(good[i][1]['tree']) for i in ids]
        except ValueError:
            continue
        body = CASE_HEADER + em.text() + 'Definition forms : list form := [\n' + ';\n'.join(forms) + '].\n'
        body += 'Definition dflt : form := mk_form 0 0 0 false false [] [] [] [].\n'
        body += 'Definition F (k : nat) : form := nth k forms dflt.\n'
        body += ('Definition seed : list ((form * bool) * unit) := %s.\n'
                 % clist('((F %d%%nat, false), tt)' % pos[s['id']] for s in seeds))
        body += ('Definition st0 := preseed _ _ _ (keyof1 current_table) seed.\n'
                 'Definition keq (a b : hval * bool) : bool := hval_eqb (fst a) (fst b) && Bool.eqb (snd a) (snd b).\n'
                 'Definition tr (rs : list (form * bool)) : list bool := trace _ _ _ keq (keyof1 current_table) (fun _ => tt) st0 rs.\n'
                 'Fixpoint beq (a b : list bool) : bool := match a, b with [], [] => true | x :: a\', y :: b\' => Bool.eqb x y && beq a\' b\' | _, _ => false end.\n')
        rows = []
        for q, obs in chunk:
            reqs = clist('(F %d%%nat, %s)' % (pos[sid], c_bool(od)) for sid, od in q)
            hits = clist(c_bool(not ob.get('miss', True)) for ob in obs)
            rows.append('(%s, %s)' % (reqs, hits))
        body += 'Definition cases : list (list (form * bool) * list bool) := [\n' + ';\n'.join(rows) + '].\n'
        body += ('Fixpoint bad (k : nat) (l : list (list (form * bool) * list bool)) : list nat :=\n'
                 '  match l with [] => [] | (rs, h) :: l\' => if beq (tr rs) h then bad (S k) l\' else k :: bad (S k) l\' end.\n'
                 'Eval vm_compute in bad 0%nat cases.\n')
        files.append(('C13_cache_%03d' % (n // per), body, chunk))
    res = eval_many(ctx, [(f[0], f[1]) for f in files], timeout=900)
    for (name, ok_, out), f in zip(res, files):
        ctx.obligations += 1
        ctx.checker_cmds.append('cd coq && coqc -R . Verif gen/%s.v' % name)
        bad = parse_coq_list_of_nat(out) if ok_ else None
        if bad is None:
            ctx.broken.append('case file %s did not evaluate: %s' % (name, out[-400:]))
            continue
        ctx.discharged += 1
        ctx.cov['traces_validated_against_impl'] += len(f[2])
        if COARSE and bad:
            # the table contains an attribute keyed through an unknown rendering: the model identifies its values
            # on purpose (covers fails), so its hit/miss trace is not expected to match
            ctx.cov['trace_tie_skipped_coarse_model'] = ctx.cov.get('trace_tie_skipped_coarse_model', 0) + len(bad)
            bad = []
        for b in bad[:2]:
            q, obs = f[2][b]
            ctx.cov['disagreements_checked'] += 1
            ctx.broken.append('memo model and compile_vform disagree on the hit/miss trace of a request sequence')
            ctx.report('tie:cache-trace', 'model trace differs from the implementation (misses %s) on %s'
                       % ([ob.get('miss') for ob in obs], [[good[i][0]['code'], o_] for i, o_ in q]),
                       {'sequence': [[good[i][0]['code'], o_] for i, o_ in q], 'observed': obs}, found_input=False)


def attribute_neighbours(ctx, specs, results, tr):
    """Generated from the translated table: for every expression class and every constructor attribute of
    it, pairs of forms that differ in exactly that attribute of one node (kernel expressions and let-bound
    variables).  Equal vf.hash() with different generated code is the failing pair."""
    if tr is None:
        return
    table = {cn: [a for a, _ in c['attrs']] for cn, c in tr['expr_classes'].items() if c['attrs']}
    # observed string values per Class.attr (operators, function names, ...) as replacement pool
    pool = {}

    def walk(n):
        for a, v in n['a'].items():
            if 's' in v and 'var' not in v:
                pool.setdefault('%s.%s' % (n['c'], a), set()).add(v['s'])
        for c in n['ch']:
            walk(c)
    for r in results:
        t = r.get('tree')
        if r['status'] == 'Ok' and t:
            for e in t['exprs']:
                walk(e)
            for v in t['vars']:
                if 'expr' in v['src']:
                    walk(v['src']['expr'])
    for k in ('ScalarOperExpr.oper', 'TensorOperExpr.oper'):
        pool.setdefault(k, set()).update(['+', '-', '*', '/'])
    pool = {k: sorted(v) for k, v in pool.items()}
    bases = [s for s, r in zip(specs, results) if s['mut'] == 'base' and r['status'] == 'Ok' and not r['code']['0'].startswith('ERR')]
    if ctx.tier != 'thorough':
        keep = [s for s in bases if not s['group'].startswith('rand')]
        bases = keep + [s for s in bases if s['group'].startswith('rand')][:8]
    nproc = 4
    parts = [bases[i::nproc] for i in range(nproc)]
    with ThreadPoolExecutor(max_workers=nproc) as ex:
        outs = list(ex.map(lambda p: ctx.impl.run(DRIVER, {'mode': 'attrmut', 'specs': p, 'table': table, 'pool': pool}, timeout=1500), parts))
    byid = {s['id']: s for s in specs}
    reach = {}
    n = 0
    for o in outs:
        for m in o['mutations']:
            n += 1
            key = '%s.%s' % (m['cls'], m['attr'])
            st = reach.setdefault(key, {'pairs': 0, 'both_generate': 0, 'hash_equal': 0})
            if 'err' in m:
                continue
            st['pairs'] += 1
            ctx.count(('attrmut', m['id'], m['cls'], m['attr'], m['node'], m['new'][1]), nontrivial=True)
            ok = not m['code'].startswith('ERR') and not m['base_code'].startswith('ERR')
            st['both_generate'] += ok
            st['hash_equal'] += bool(m['hash_eq'])
            if m['hash_eq'] and ok and m['code'] != m['base_code'] and m.get('confirmed'):
                s = byid[m['id']]
                ctx.report('impl:hash-collision:%s' % key,
                           'two forms that differ only in %s of one node (%s -> %s) have the same vf.hash() and generate different code; base form: %s'
                           % (key, m['old'], m['new'][1], s['code']),
                           {'specs': [s], 'mutation': {'class': m['cls'], 'attribute': m['attr'], 'node_index': m['node'], 'old': m['old'], 'new': m['new']},
                            'code_sha': [m['base_code'], m['code']],
                            'how': 'build the form twice with spec.code; on the second one set the attribute on node number node_index of the enumeration '
                                   '(kernel expressions depth-first, then the expressions of let-bound variables; c13_driver.enum_nodes) BEFORE the first '
                                   'vf.hash(); compare vf.hash() and compile.generate(vf)'})
    ctx.cov['attribute_neighbour_pairs'] = n
    ctx.cov['attribute_neighbours'] = reach
    for cn, attrs in table.items():
        for a in attrs:
            if reach.get('%s.%s' % (cn, a), {}).get('pairs', 0) == 0:
                ctx.broken.append('the generators contain no pair of forms differing only in %s.%s (a class/attribute of the translated table that the '
                                  'mutation-neighbourhood search does not reach)' % (cn, a))


def histories(ctx, specs, results, tr):
    """add()/hash()/compile_vform() histories on form objects: the memoised hash must never be stale."""
    thorough = ctx.tier == 'thorough'
    hs = F.history_specs(ctx.rng, thorough)
    good = {s['id']: (s, r) for s, r in zip(specs, results) if r['status'] == 'Ok'}
    seeds = [s for s in specs if s.get('shipped') and s['id'] in good]
    shipped_code = {s['shipped']: good[s['id']][1]['code']['0'] for s in seeds}
    nproc = 4
    parts = [hs[i::nproc] for i in range(nproc)]
    with ThreadPoolExecutor(max_workers=nproc) as ex:
        outs = list(ex.map(lambda p: ctx.impl.run(DRIVER, {'mode': 'history', 'histories': p}, timeout=1500), parts))
    cases = []
    for p, o in zip(parts, outs):
        for h, r in zip(p, o['histories']):
            cases.append((h, r))
    dist = {}
    for h, r in cases:
        dist[h['kind']] = dist.get(h['kind'], 0) + 1
        ctx.count(('history', json.dumps(h['ops']), h['dim'], len(h['objects'])), nontrivial=True)
        hashed = set()
        for k, (op, ob) in enumerate(zip(h['ops'], r['observed'])):
            bad = None
            if ob['res'].startswith('err'):
                bad = ('impl:history-error', 'a step of a valid history failed with %s (%s)' % (ob['res'], ob.get('msg')))
            elif op[0] == 'hash' and ob['hash'] != ob['fresh']:
                bad = ('impl:stale-hash-after-add', 'vf.hash() returns a value memoised before the form was extended: it differs from the hash of a '
                       'form built from scratch with the same add() calls')
            elif op[0] == 'compile' and ob['res'] == 'class':
                got = ob.get('src') or (shipped_code.get(ob.get('shipped')) if not op[2] else 'shipped-class-for-on-demand-request') or str(ob)
                if got != ob['want'] and not (got != ob['want'] and 'src' in ob and False):
                    bad = ('impl:stale-hash-after-add' if len(ob['adds']) > 1 else 'impl:history-returns-other-form',
                           'compile_vform returned %s for an object whose content is %s (on_demand=%s): not the source a form built from '
                           'scratch with the same add() calls generates' % (ob.get('shipped') or ('source ' + str(ob.get('src'))), ob['adds'], bool(op[2])))
            elif op[0] == 'compile' and ob['res'] == 'raise' and not ob['want'].startswith('ERR') and 'finalized' not in ob.get('msg', ''):
                bad = ('impl:history-compile-raises', 'compile_vform raised %s for a valid form' % ob.get('msg'))
            if bad and not already_reported(ctx, bad[0]):
                ctx.report(bad[0], bad[1] + '; history: ' + '; '.join('%s(%s)' % (o_[0], ', '.join(str(x) for x in o_[1:])) for o_ in h['ops'][:k + 1]),
                           {'history': h, 'step': k, 'observed': [{kk: vv for kk, vv in x.items() if kk != 'node'} for x in r['observed']],
                            'how': 'fresh process, compile_cython_module stubbed; per object exec `objects[i]`, then the ops in order on V; '
                                   'oracle = a form built from scratch with the accepted add() calls'})
    ctx.cov['histories'] = len(cases)
    ctx.cov['history_kinds'] = dist
    if tr is None or any(s['id'] not in good or good[s['id']][1].get('tree') is None for s in specs if s.get('shipped')):
        return
    # model trace against the implementation's
    code = {'ok': 0, 'raise': 1, 'hashed': 2}
    files = []
    per = 40
    for n in range(0, len(cases), per):
        chunk = [c for c in cases[n:n + per] if not any(ob['res'].startswith('err') for ob in c[1]['observed'])]
        em = new_emitter()
        try:
            seedforms = [c_form(good[s['id']][1]['tree']) for s in seeds]
            rows = []
            for h, r in chunk:
                objs = clist('mk_obj %s None false' % c_form(b) for b in r['bases'])
                ops, exp = [], []
                for op, ob in zip(h['ops'], r['observed']):
                    if op[0] == 'add':
                        ops.append('OAdd %d%%nat %s' % (op[1], c_node(ob['node'])))
                        exp.append(code[ob['res']])
                    elif op[0] == 'hash':
                        ops.append('OHash %d%%nat' % op[1])
                        exp.append(2)
                    else:
                        ops.append('OCompile %d%%nat %s' % (op[1], c_bool(op[2])))
                        exp.append(1 if ob['res'] == 'raise' else (4 if ob['miss'] else 3))
                rows.append('(%s, %s, %s)' % (objs, clist(ops), clist('%d%%nat' % x for x in exp)))
        except ValueError:
            continue
        body = CASE_HEADER + em.text()
        body += 'Definition seed : list ((form * bool) * unit) := %s.\n' % clist('((%s, false), tt)' % f for f in seedforms)
        body += ('Definition st0 := preseed _ _ _ (keyof1 current_table) seed.\n'
                 'Definition oc (r : outcome unit) : nat := match r with RAdded => 0 | RRaised => 1 | RHashed _ => 2 | RClass true _ => 3 | RClass false _ => 4 end%nat.\n'
                 'Definition model (objs : list obj) (ops : list op) : list nat :=\n'
                 '  map oc (hrun gen_add_guard current_table unit (fun _ _ => tt) (st0, objs) ops).\n'
                 'Fixpoint neqb (a b : list nat) : bool := match a, b with [], [] => true | x :: a\', y :: b\' => Nat.eqb x y && neqb a\' b\' | _, _ => false end.\n')
        body += 'Definition cases : list (list obj * list op * list nat) := [\n' + ';\n'.join(rows) + '].\n'
        body += ('Fixpoint bad (k : nat) (l : list (list obj * list op * list nat)) : list nat :=\n'
                 '  match l with [] => [] | (objs, ops, e) :: l\' => if neqb (model objs ops) e then bad (S k) l\' else k :: bad (S k) l\' end.\n'
                 'Eval vm_compute in bad 0%nat cases.\n')
        files.append(('C13_hist_%03d' % (n // per), body, chunk))
    res = eval_many(ctx, [(f[0], f[1]) for f in files], timeout=900)
    for (name, ok_, out), f in zip(res, files):
        ctx.obligations += 1
        ctx.checker_cmds.append('cd coq && coqc -R . Verif gen/%s.v' % name)
        bad = parse_coq_list_of_nat(out) if ok_ else None
        if bad is None:
            ctx.broken.append('case file %s did not evaluate: %s' % (name, out[-400:]))
            continue
        ctx.discharged += 1
        ctx.cov['traces_validated_against_impl'] += len(f[2])
        if COARSE and bad:
            ctx.cov['trace_tie_skipped_coarse_model'] = ctx.cov.get('trace_tie_skipped_coarse_model', 0) + len(bad)
            bad = []
        for b in bad[:2]:
            h, r = f[2][b]
            ctx.cov['disagreements_checked'] += 1
            ctx.broken.append('history model and implementation disagree on the outcomes of an add/hash/compile history')
            ctx.report('tie:history-trace', 'model outcomes differ from the implementation (%s) on %s'
                       % ([(ob['res'], ob.get('miss')) for ob in r['observed']], h['ops']),
                       {'history': h, 'observed': [{kk: vv for kk, vv in x.items() if kk != 'node'} for x in r['observed']]}, found_input=False)


def freshness(ctx):
    rng = ctx.rng
    thorough = ctx.tier == 'thorough'
    seeds = ['0', '1', '2', '3', '4'] if thorough else ['0', '1', '2']
    ints = [0, 1, -1, -2, 2, 3, 7, 2 ** 61 - 2, 2 ** 61 - 1, 2 ** 61, -(2 ** 61 - 1), 2 ** 63, 12345678901234567890, -98765432109876543210] \
        + [rng.randint(-2 ** 70, 2 ** 70) for _ in range(60)] + [rng.randint(-100, 100) for _ in range(40)]
    fl = [0.0, -0.0, 1.0, -1.0, -2.0, 0.5, 2.0 ** 60, 2.0 ** 61, 1e-3, 1e300, 5e-324, 2.2250738585072014e-308, 0.1, 1 / 3, float('inf'), float('-inf')] \
        + [rng.uniform(-10, 10) for _ in range(60)] + [rng.uniform(-1, 1) * 10.0 ** rng.randint(-300, 300) for _ in range(60)] \
        + [float(rng.randint(-1000, 1000)) for _ in range(30)] + [rng.randint(-64, 64) / 64.0 for _ in range(30)]
    bits = [struct.unpack('<Q', struct.pack('<d', x))[0] for x in fl]
    sources = ['', 'x', 'cdef class A: pass\n', 'import numpy as np\n' * 3] + \
              [''.join(rng.choice('abcdefghijklmnopqrstuvwxyz (),:=\n') for _ in range(rng.randint(1, 400))) for _ in range(20)]
    payload = {'mode': 'fresh', 'sources': sources, 'hash_ints': [str(i) for i in ints], 'hash_float_bits': [str(b) for b in bits]}

    def one(seed):
        return ctx.impl.run(DRIVER, payload, hashseed=seed, timeout=900)
    with ThreadPoolExecutor(max_workers=min(4, len(seeds))) as ex:
        outs = list(ex.map(one, seeds))
    ctx.cov['hashseeds'] = seeds
    # --- module names: functional in the source, digest as specified, independent of the hash seed
    expect = ['mod' + hashlib.shake_128(s.encode()).hexdigest(8) for s in sources]
    for seed, o in zip(seeds, outs):
        for src, e, got in zip(sources, expect, o['modnames']):
            ctx.count(('modname', seed, src), nontrivial=len(src) > 0)
            if not (got[0] == got[1] == got[2] == e):
                ctx.report('impl:modname', 'compile_cython_module derives module names %s for a source whose SHAKE-128/8 name is %s (PYTHONHASHSEED=%s)' % (got, e, seed),
                           {'source': src, 'observed': got, 'expected': e, 'hashseed': seed})
    # --- numeric hash model
    o0 = outs[0]
    if o0['hash_info'] != [2 ** 61 - 1, 64]:
        ctx.broken.append('sys.hash_info is %s: the numeric hash model (P = 2^61-1, 64 bit) does not apply' % o0['hash_info'])
    else:
        body = ('From Coq Require Import List ZArith Bool.\nFrom Verif.C13 Require Import Model.\nImport ListNotations.\nOpen Scope Z_scope.\n'
                'Definition ints : list (Z * Z) := %s.\nDefinition floats : list (Z * Z) := %s.\n'
                % (clist('(%s, %s)' % (cz(i), cz(h)) for i, h in zip(ints, o0['int_hashes'])),
                   clist('(%s, %s)' % (cz(b), cz(h)) for b, h in zip(bits, o0['float_hashes'])))
                + 'Fixpoint bad (f : Z -> Z) (k : nat) (l : list (Z * Z)) : list nat :=\n'
                  '  match l with [] => [] | (x, h) :: l\' => if f x =? h then bad f (S k) l\' else k :: bad f (S k) l\' end.\n'
                  'Eval vm_compute in (app (bad inthash 0%nat ints) (bad floathash 1000%nat floats)).\n')
        ok_, out = ctx.coq_eval('C13_numhash', body)
        ctx.obligations += 1
        bad = parse_coq_list_of_nat(out) if ok_ else None
        if bad is None:
            ctx.broken.append('C13_numhash did not evaluate: ' + out[-300:])
        else:
            ctx.discharged += 1
            ctx.cov['numeric_hash_values_compared'] = len(ints) + len(bits)
            ctx.cov['traces_validated_against_impl'] += len(ints) + len(bits)
            for b in bad[:3]:
                x = ints[b] if b < 1000 else fl[b - 1000]
                ctx.broken.append('CPython numeric hash differs from the model for %r' % (x,))
            if bad:
                ctx.report('tie:numeric-hash', 'hash() of %r in the implementation interpreter differs from Model.inthash/floathash'
                           % [(ints[b] if b < 1000 else fl[b - 1000]) for b in bad[:5]], {'values': bad[:20]}, found_input=False)
    # --- the 14 predefined pairs
    for seed, o in zip(seeds[:1], outs[:1]):
        if len(o['pairs']) != 14:
            ctx.broken.append('expected 14 predefined pairs')
        for p in o['pairs']:
            ctx.count(('pair', p['expected']))
            if not p['is_shipped_class'] or p['returned'] != p['expected']:
                ctx.report('impl:predefined-pair:%s' % p['expected'],
                           'compile_vform(%s(%d)) returns %s instead of the shipped class %s' % (p['form'], p['dim'], p['returned'], p['expected']),
                           {'pair': {k: v for k, v in p.items() if k != 'class_text'}})
    # --- shipped text against the generator's output today
    certs = []
    done = set()
    for seed, o in zip(seeds, outs):
        for which, ship, regen in (('assemblers.pyx', o['ship_asm'], o['regen_asm']), ('genericasm.pxi', o['ship_gen'], o['regen_gen'])):
            key = (which, hashlib.sha256(regen.encode()).hexdigest())
            ctx.count(('fresh', which, seed), nontrivial=True)
            if key in done:
                continue
            done.add(key)
            prob, pairs, stats = freshness_compare(ship, regen)
            if prob:
                # the generator's numbering of temporaries may differ from run to run: retry on the canonical text
                from harness.props.c13_canon import canon_code
                prob2, pairs, stats = freshness_compare(canon_code(ship, sort_runs=False), canon_code(regen, sort_runs=False))
                if not prob2:
                    prob = None
                    stats['needed_canonical_renaming'] = True
            if prob:
                ctx.report('impl:stale-shipped-code:%s' % which,
                           'pyiga/%s is not what the generator produces today (PYTHONHASHSEED=%s): %s' % (which, seed, prob),
                           {'file': which, 'hashseed': seed, 'how': 'scripts/generate-assemblers.py logic run on the scratch copy'})
                continue
            ctx.cov.setdefault('freshness', {})[which] = dict(stats, textually_identical=(ship == regen))
            if which == 'assemblers.pyx':
                for p in o['pairs']:
                    if p['class_text'] not in regen:
                        ctx.report('impl:predefined-pair-text:%s' % p['expected'],
                                   'the class generated today for %s(%d) is not the block of the regenerated assemblers.pyx' % (p['form'], p['dim']),
                                   {'pair': p['expected']})
            certs.append((which, seed, pairs))
    files = []
    for which, seed, pairs in certs:
        for n in range(0, len(pairs), 150):
            files.append(('C13_fresh_%s_%s_%02d' % (which.split('.')[0], seed, n // 150), coq_runs(pairs[n:n + 150]), which, seed, pairs[n:n + 150]))
    # self-test: a run with two dependent statements exchanged must be rejected
    dep = [('a = 1', ['a'], []), ('b = a', ['b'], ['a'])]
    files.append(('C13_fresh_selftest', coq_runs([(dep, dep[::-1]), (dep, dep)]), 'selftest', '-', []))
    res = eval_many(ctx, [(f[0], f[1]) for f in files], timeout=900)
    for (name, ok_, out), f in zip(res, files):
        bad = parse_coq_list_of_nat(out) if ok_ else None
        if f[2] == 'selftest':
            if bad != [0]:
                ctx.broken.append('self-test: the reordering checker did not reject exchanged dependent statements (%s)' % (bad,))
            continue
        ctx.obligations += 1
        ctx.checker_cmds.append('cd coq && coqc -R . Verif gen/%s.v' % name)
        if bad is None:
            ctx.broken.append('certificate file %s did not evaluate: %s' % (name, out[-400:]))
            continue
        ctx.discharged += 1
        for b in bad[:1]:
            ra, rb = f[4][b]
            la, lb = [l for l, _, _ in ra], [l for l, _, _ in rb]
            k = next((i for i, (x, y) in enumerate(zip(la, lb)) if x != y), 0)
            ctx.report('impl:stale-shipped-code:%s' % f[2],
                       'pyiga/%s differs from the generator\'s output by more than the order of independent statements (PYTHONHASHSEED=%s): '
                       'shipped %r / generated %r' % (f[2], f[3], la[k] if k < len(la) else None, lb[k] if k < len(lb) else None),
                       {'file': f[2], 'hashseed': f[3], 'shipped_run': la[:40], 'generated_run': lb[:40]})


def real_builds(ctx):
    """Thorough tier: neighbour pairs really compiled, both orders in one process each."""
    pairs = [
        # (sqrt/abs rather than sin/cos: with -O3 -ffast-math -march=native gcc vectorises sin/cos/exp into libmvec
        #  calls (_ZGVdN4v_sin) that the extension is not linked against here -- an import failure that belongs to C01)
        ("V = parse_vf('sqrt(1 + x[0]) * u * v * dx', kvs, args={})", "V = parse_vf('abs(1 + x[0]) * u * v * dx', kvs, args={})"),
        ("V = parse_vf('-1 * x[0] * u * v * dx', kvs, args={})", "V = parse_vf('-2 * x[0] * u * v * dx', kvs, args={})"),
        ("V = parse_vf('2 * u * v * dx', kvs, args={})", "V = parse_vf('u * v * dx', kvs, args={})"),
    ]
    for n, (a, b) in enumerate(pairs):
        specs = [{'id': 0, 'dim': 2, 'code': a}, {'id': 1, 'dim': 2, 'code': b}]
        runs = {}
        for order in ([0, 1], [1, 0], [0], [1]):
            o = ctx.impl.run(DRIVER, {'mode': 'build', 'specs': specs, 'sequence': [(i, 0) for i in order]}, timeout=1500)
            runs[tuple(order)] = {r['id']: r for r in o['results']}
            ctx.count(('build', n, tuple(order)))
        for order in ((0, 1), (1, 0)):
            for i in order:
                alone, got = runs[(i,)][i], runs[order][i]
                if alone['status'] != 'Ok' or got['status'] != 'Ok':
                    ctx.report('impl:build-fails:%d' % n, 'a valid form does not build/assemble: %s %s' % (alone.get('msg'), got.get('msg')),
                               {'specs': specs, 'order': order})
                elif alone['entries'] != got['entries']:
                    ctx.report('impl:compiled-cache-returns-other-form:%d' % n,
                               'compiled in the order %s, form %d assembles to a different matrix than when compiled alone (sum %r vs %r)'
                               % (list(order), i, got['sum'], alone['sum']), {'specs': specs, 'order': list(order), 'alone': alone, 'in_sequence': got})
        if runs[(0,)][0].get('entries') == runs[(1,)][1].get('entries'):
            ctx.broken.append('real build: the two neighbour forms of pair %d assemble to the same matrix (pair not discriminating)' % n)
    ctx.cov['real_build_pairs'] = len(pairs)


def tick(ctx, what):
    import time
    log('[C13] %-28s t=%.1fs' % (what, time.time() - ctx.t0))


def run(ctx):
    thorough = ctx.tier == 'thorough'
    ok1 = ctx.obligations_stage(PROPS, extra_targets=['C13/Examples.vo', 'C13/ExamplesSep.vo', 'C13/Spec.vo'])
    ctx.assumptions += [
        'model: hand transcription of Expr.hash, AsmVar/BasisFun/InputField/Parameter/VForm.hash, compile_vform, compile_cython_module (coq/C13/Model.v); '
        'per-class attribute/key tables regenerated from pyiga/vform.py on every run (translate/exprclasses.py -> coq/gen/C13_ExprKeys.v)',
        'idealisation: CPython str/type/tuple hashing and repr()+str hashing are injective; the 64-bit SHAKE-128 prefix is injective on the sources that occur',
        'code-relevant attributes are taken conservatively as every constructor attribute except those listed (with reasons) in translate/exprclasses_derived.json; '
        'the driver re-checks the derivations (geo_dim, params, by-name variable references) on every generated form',
        'the generated source is taken to be a function of the code-relevant content of the form and the on_demand flag (no other state): '
        'exercised by comparing generate() texts of equal-key forms and across PYTHONHASHSEED values',
        'freshness: comparison of shipped and regenerated text; skeleton lines exactly, runs of assignment statements by the Coq-verified checker reorder_ok '
        '(statement interning and def/use extraction in harness/props/c13.py are trusted)',
        'not covered: accidental 64-bit collisions; cythonize/gcc/dlopen (thorough tier builds 3 neighbour pairs for real)',
    ]
    ok1b = ctx.obligations_stage('C13/Props3.v', extra_targets=['C13/Examples3.vo'])
    ctx.assumptions.append('read sets: every attribute read (x.a, getattr/hasattr with a literal name) in pyiga/codegen/cython.py and pyiga/vform.py is '
                           'collected by translate/c13_readsets.py (fail-closed on reflective access) and attributed by name to every modelled class having '
                           'that attribute; Coq checks reads <= code-relevant (Expr classes) resp. key ++ derived ++ late (records) on every run; that Python '
                           'reads attributes only through these syntactic forms is trusted; parse_vf/_check_input_field (form construction from text) are outside')
    tick(ctx, 'obligations done')
    ctx.impl.build()
    tr, tr_ok = gen_table(ctx)
    gen_readsets(ctx, tr)
    tick(ctx, 'tables translated')
    specs, dist = F.gen_specs(ctx.rng, thorough)
    log('[C13] %d form specs: %s' % (len(specs), dist))
    # vf.hash() contains hash(type) = address of the class object: hashes are comparable only
    # inside one process.  Groups (a base form with its mutants) stay together; the predefined
    # forms are part of every chunk.
    nproc = 4
    order = []
    for s in specs:
        if not s.get('shipped') and s['group'] not in order:
            order.append(s['group'])
    home = {g: k % nproc for k, g in enumerate(order)}
    chunks = [[s for s in specs if s.get('shipped') or home[s['group']] == k] for k in range(nproc)]
    with ThreadPoolExecutor(max_workers=nproc) as ex:
        outs = list(ex.map(lambda c: ctx.impl.run(DRIVER, {'mode': 'forms', 'specs': c}, timeout=1500), chunks))
    recs = []           # (spec, result) with process-tagged hashes, predefined forms once per chunk
    byid = {}
    for k, (c, o) in enumerate(zip(chunks, outs)):
        rb = {r['id']: r for r in o['results']}
        for s in c:
            r = rb[s['id']]
            if 'hash' in r:
                r['hash'] = 'p%d:%s' % (k, r['hash'])
            r['chunk'] = k
            recs.append((s, r))
            byid.setdefault(s['id'], r)
    results = [byid[s['id']] for s in specs]
    tick(ctx, 'forms generated')
    nrej = 0
    for s, r in zip(specs, results):
        ctx.count(('form', s['code']), nontrivial=r['status'] == 'Ok')
        if r['status'] != 'Ok':
            nrej += 1
    bases_bad = [(s, r) for s, r in zip(specs, results) if s.get('shipped') and r['status'] != 'Ok']
    for s, r in bases_bad:
        ctx.report('impl:predefined-form-fails', 'a predefined form does not build: %s (%s)' % (s['code'], r.get('msg')), {'specs': [s]})
    ncoll = check_forms_property(ctx, [x[0] for x in recs], [x[1] for x in recs])
    ctx.cov['forms'] = len(specs)
    ctx.cov['forms_rejected'] = nrej
    ctx.cov['distinct_hashes'] = len({r['hash'] for r in results if r['status'] == 'Ok'})
    ctx.cov['hash_collisions_with_different_code'] = ncoll
    for s, r in zip(specs, results):
        if r['status'] == 'Ok' and s['mut'] != 'base':
            ctx.sample({'spec': s['code'], 'mutated': s['mut'], 'hash': r['hash'], 'code_sha': r['code']}, limit=3)
    if tr is not None:
        COARSE.clear()
        COARSE.update('%s.%s' % (cn, a) for cn, c in tr['expr_classes'].items() for a, e in c['key'] if e == 'EOther')
        tie_keys(ctx, [x[0] for x in recs], [x[1] for x in recs])
    tick(ctx, 'key tie done')
    attribute_neighbours(ctx, specs, results, tr)
    tick(ctx, 'attribute neighbours done')
    cache_sequences(ctx, specs, results, tr)
    tick(ctx, 'cache sequences done')
    histories(ctx, specs, results, tr)
    tick(ctx, 'histories done')
    freshness(ctx)
    tick(ctx, 'freshness done')
    if thorough:
        real_builds(ctx)
    ctx.cov['rule'] = ('forms = snippets over the public vform API (templates, shape-directed random expressions, VForm-API snippets, the 14 predefined forms) '
                       'with all one-token / one-argument mutants; non-trivial = the form builds; distinct by snippet text. '
                       'All pairs of forms of the run are compared (equal hash => equal generated source for on_demand False and True); '
                       'model/implementation key relation compared pairwise inside each case file (neighbourhoods kept together)')
    ctx.cov['input_distribution'] = dist
    ctx.cov['exhaustive'] = False
    return ctx.finish()


def replay(ctx, data):
    """Re-run the forms of a replay file and re-evaluate the property on them."""
    rp = data.get('replay', {})
    specs = rp.get('specs') or []
    for k, s in enumerate(specs):
        s['id'] = k
        s.setdefault('group', 'replay')
        s.setdefault('mut', 'replay')
    if not specs:
        log('[C13] replay file has no form specs; running the full check')
        return run(ctx)
    ctx.impl.build()
    o = ctx.impl.run(DRIVER, {'mode': 'forms', 'specs': specs})
    results = o['results']
    for s, r in zip(specs, results):
        log('[C13] replay %s -> %s hash=%s code=%s' % (s['code'], r['status'], r.get('hash'), r.get('code')))
        ctx.count(('form', s['code']))
    check_forms_property(ctx, specs, results)
    if 'sequence' in rp:
        seq = [(k, int(od)) for k, (_, od) in enumerate(rp['sequence'])]
        oc = ctx.impl.run(DRIVER, {'mode': 'cache', 'specs': specs, 'sequences': [seq]})
        for (sid, od), ob in zip(seq, oc['observed'][0]):
            want = results[sid]['code'][str(od)] if results[sid]['status'] == 'Ok' else None
            log('[C13] replay request %s on_demand=%s -> %s (expected source %s)' % (specs[sid]['code'], od, ob, want))
            if 'src' in ob and ob['src'] != want:
                ctx.report('impl:cache-returns-other-form:replay', 'request returned an assembler of a different form', {'specs': specs, 'sequence': rp['sequence']})
    return ctx.finish()


META = {
    'technique': 'Rocq proof (nested induction over expression trees; invariant of the memo tables over arbitrary request sequences; '
                 'commutation of independent statements) + tables translated from vform.py on every run + exact correspondence of the key relation, '
                 'hit/miss traces and CPython numeric hashes with the implementation',
    'level_text': 'Theorems (Coq, unbounded): for every table of expression classes in which every code-relevant attribute is keyed (floats via repr), '
                  'equal Expr.hash implies equal class/shape/attributes/children for trees of any size (key_separates), the flat VForm.hash tuple determines '
                  'dimension, arity, component count, spacetime/boundary flags, every basis function, input, variable and expression (form_key_separates), and for '
                  'every sequence of (form, on_demand) requests from a cache pre-seeded with fresh pairs compile_vform returns what compiling the requested form '
                  'from scratch gives (cache_returns_requested); equal source gives equal module name and the disk level returns the requested module '
                  '(disk_name_functional, disk_cache_returns_requested under digest injectivity); every listed difference separates the keys at any depth of the form (token_difference_separates, expr_token_separates, let_token_separates, var_field_separates, form_field_difference_separates, on_demand_separates); the two cache levels composed return, for every request sequence, the class loaded from the module compiled from the source generated for the requested form (two_level_returns_requested, disk_name_injective); histories of add()/hash()/compile on form objects never use a stale memoised hash (hist_returns_requested); a shipped run of statements accepted by reorder_ok computes the same '
                  'values as the regenerated run for every meaning of the statements (reorder_sound). The table is regenerated from /repo\'s vform.py on every run and '
                  '`covers` re-checked; the model key relation is compared exactly with vf.hash() on all pairs inside ~20 case files (~27000 pairs, quick tier), the memo model\'s hit/miss trace '
                  'with compile_vform on ~280 request sequences, Model.inthash/floathash with the interpreter\'s hash() on 310 numbers; the property (equal hash => '
                  'identical generated source, every request returns the requested form\'s source, shipped code = generator output up to reorder_ok, module name = digest) '
                  'is evaluated directly on the implementation over ~900 forms (quick; ~4000 thorough) incl. their one-token mutants; thorough tier also really compiles 3 neighbour pairs in both orders.',
    'level_note': 'Partial: "generated source is a function of the code-relevant attributes" is not proved (the generator is not modelled); it is covered by the '
                  'conservative attribute table + the all-pairs comparison of generate() texts. Idealised: str/type/tuple hash and SHAKE-128/8 injective. '
                  'Trusted: translator (fail-closed ast walk), derived-attribute table, statement interner of the freshness certificate, harness generators.',
}
