(* C07 -- the boundary curves of geometry.disk lie on the circle (over any field). *)
From Coq Require Import Field Ring.
From Verif.C07 Require Import Algebra.

(* ---- the four boundary curves of geometry.disk (geometry.py:502-527) ------------------ *)
Section Disk.
Variable F : Type.
Variables (f0 f1 : F) (fadd fmul fsub : F -> F -> F) (fopp : F -> F) (fdiv : F -> F -> F) (finv : F -> F).
Hypothesis Fth : field_theory f0 f1 fadd fmul fsub fopp fdiv finv (@eq F).
Add Field Ffield2 : Fth.
Notation "0" := f0.
Notation "1" := f1.
Infix "+" := fadd.
Infix "*" := fmul.
Infix "-" := fsub.
Notation "- x" := (fopp x).
Local Notation tw := (two F f1 fadd).
Local Notation b0 := (B0 F f1 fmul fsub).
Local Notation b1 := (B1 F f1 fadd fmul fsub).
Local Notation b2 := (B2 F fmul).

(* a control net: three rows (x, y, w) of premultiplied coefficients; the curve is bez x / bez w, bez y / bez w *)
Definition row3 := (F * F * F)%type.
Definition net := (row3 * row3 * row3)%type.
Definition bez (p0 p1 p2 t : F) : F := b0 t * p0 + b1 t * p1 + b2 t * p2.
Definition nx (n : net) t := let '((x0, _, _), (x1, _, _), (x2, _, _)) := n in bez x0 x1 x2 t.
Definition ny (n : net) t := let '((_, y0, _), (_, y1, _), (_, y2, _)) := n in bez y0 y1 y2 t.
Definition nw (n : net) t := let '((_, _, w0), (_, _, w1), (_, _, w2)) := n in bez w0 w1 w2 t.

(* gR = circular_arc(pi/2): rows (cos a_k, sin a_k, w_k), half-angle (c, s) *)
Definition net_R (c s : F) : net := ((1, 0, 1), (c, s, c), (c * c - s * s, tw * s * c, 1)).
(* gL.coeffs = flipud(gL.coeffs): control points in reverse order *)
Definition flipud (n : net) : net := let '(r0, r1, r2) := n in (r2, r1, r0).
(* scale(-1): divide by the weights, negate, premultiply again = negate the x, y columns *)
Definition neg (n : net) : net :=
  let f := fun r : row3 => let '(x, y, w) := r in (- x, - y, w) in let '(r0, r1, r2) := n in (f r0, f r1, f r2).
(* rotate_2d(angle) with (cr, sr) = (cos angle, sin angle): R = [[cr, -sr], [sr, cr]] on the control points *)
Definition rot (cr sr : F) (n : net) : net :=
  let f := fun r : row3 => let '(x, y, w) := r in (cr * x - sr * y, sr * x + cr * y, w) in
  let '(r0, r1, r2) := n in (f r0, f r1, f r2).
(* coeffs[:, :, :2] *= r *)
Definition scl (r : F) (n : net) : net :=
  let f := fun q : row3 => let '(x, y, w) := q in (r * x, r * y, w) in let '(r0, r1, r2) := n in (f r0, f r1, f r2).

Definition on_circle (r : F) (n : net) : Prop :=
  forall t, nx n t * nx n t + ny n t * ny n t = (r * nw n t) * (r * nw n t).

Lemma net_R_on_circle : forall c s, c * c + s * s = 1 -> on_circle 1 (net_R c s).
Proof.
  intros c s H t. pose proof (arc3_norm F f0 f1 fadd fmul fsub fopp fdiv finv Fth c s 1 t H) as A.
  unfold seg_x, seg_y, seg_w in A. unfold net_R, nx, ny, nw, bez.
  transitivity (1 * (b0 t * 1 + b1 t * (1 * c - 0 * s) + b2 t * (1 * (c * c - s * s) - 0 * (tw * s * c))) *
                (1 * (b0 t * 1 + b1 t * (1 * c - 0 * s) + b2 t * (1 * (c * c - s * s) - 0 * (tw * s * c)))) +
                1 * (b0 t * 0 + b1 t * (0 * c + 1 * s) + b2 t * (0 * (c * c - s * s) + 1 * (tw * s * c))) *
                (1 * (b0 t * 0 + b1 t * (0 * c + 1 * s) + b2 t * (0 * (c * c - s * s) + 1 * (tw * s * c))))).
  - ring.
  - rewrite A. ring.
Qed.

Lemma bez_flip : forall p0 p1 p2 t, bez p2 p1 p0 t = bez p0 p1 p2 (1 - t).
Proof. intros. unfold bez, B0, B1, B2, two. ring. Qed.

Lemma flipud_on_circle : forall r n, on_circle r n -> on_circle r (flipud n).
Proof.
  intros r [[[[x0 y0] w0] [[x1 y1] w1]] [[x2 y2] w2]] H t. specialize (H (1 - t)).
  unfold flipud, nx, ny, nw in *.
  rewrite (bez_flip x0 x1 x2 t), (bez_flip y0 y1 y2 t), (bez_flip w0 w1 w2 t). exact H.
Qed.

Lemma neg_on_circle : forall r n, on_circle r n -> on_circle r (neg n).
Proof.
  intros r [[[[x0 y0] w0] [[x1 y1] w1]] [[x2 y2] w2]] H t. specialize (H t).
  unfold neg, nx, ny, nw, bez in *. rewrite <- H. ring.
Qed.

Lemma rot_on_circle : forall cr sr r n, cr * cr + sr * sr = 1 -> on_circle r n -> on_circle r (rot cr sr n).
Proof.
  intros cr sr r [[[[x0 y0] w0] [[x1 y1] w1]] [[x2 y2] w2]] Hr H t. specialize (H t).
  unfold rot, nx, ny, nw, bez in *.
  transitivity ((cr * cr + sr * sr) *
    ((b0 t * x0 + b1 t * x1 + b2 t * x2) * (b0 t * x0 + b1 t * x1 + b2 t * x2) +
     (b0 t * y0 + b1 t * y1 + b2 t * y2) * (b0 t * y0 + b1 t * y1 + b2 t * y2))).
  - ring.
  - rewrite Hr, H. ring.
Qed.

Lemma scl_on_circle : forall r n, on_circle 1 n -> on_circle r (scl r n).
Proof.
  intros r [[[[x0 y0] w0] [[x1 y1] w1]] [[x2 y2] w2]] H t. specialize (H t).
  unfold scl, nx, ny, nw, bez in *.
  transitivity (r * r * ((b0 t * x0 + b1 t * x1 + b2 t * x2) * (b0 t * x0 + b1 t * x1 + b2 t * x2) +
                         (b0 t * y0 + b1 t * y1 + b2 t * y2) * (b0 t * y0 + b1 t * y1 + b2 t * y2))).
  - ring.
  - rewrite H. ring.
Qed.

(* disk(r): gR; gL = scale(-1) of the flipped gR; gB = gR.rotate_2d(-pi/2); gT = gL.rotate_2d(-pi/2); all times r.
   (cr, sr) stands for (cos(-pi/2), sin(-pi/2)), (c, s) for (cos pi/4, sin pi/4); only the unit constraints are used *)
Definition disk_R (c s r : F) := scl r (net_R c s).
Definition disk_L (c s r : F) := scl r (neg (flipud (net_R c s))).
Definition disk_B (c s cr sr r : F) := scl r (rot cr sr (net_R c s)).
Definition disk_T (c s cr sr r : F) := scl r (rot cr sr (neg (flipud (net_R c s)))).

Lemma disk_sides_on_circle : forall c s cr sr r, c * c + s * s = 1 -> cr * cr + sr * sr = 1 ->
  on_circle r (disk_R c s r) /\ on_circle r (disk_L c s r)
  /\ on_circle r (disk_B c s cr sr r) /\ on_circle r (disk_T c s cr sr r).
Proof.
  intros c s cr sr r H Hr. pose proof (net_R_on_circle c s H) as A.
  repeat split; apply scl_on_circle; repeat (first [exact A | apply rot_on_circle; [exact Hr|] | apply neg_on_circle | apply flipud_on_circle]).
Qed.
End Disk.

