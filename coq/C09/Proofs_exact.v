(* C09 -- the Cox-de Boor functions are polynomials on every open knot span: explicit coefficient
   lists built by the same recursions (nref_poly, dnref_poly), and the resulting statement that
   every entry of the assembled 1D matrix is the sum over the spans of the exactly integrated
   product polynomial, up to the defect of the Gauss table. *)
From Coq Require Import QArith Qcanon ZArith List Bool Arith Lia.
From Coq Require Qcabs.
From Verif.lib Require Import Bsp.
From Verif.C02 Require Import Proofs.
From Verif.C09 Require Import Model Proofs Proofs_entry Poly.
Import ListNotations.
Open Scope Qc_scope.

(* N_{i,p} restricted to the open span (t_s, t_{s+1}): the Cox-de Boor recursion on polynomials *)
Fixpoint nref_poly (kv : list Qc) (p i s : nat) : list Qc :=
  match p with
  | O => if Nat.eqb i s then [1] else []
  | S q =>
      let d1 := kn kv (i + p) - kn kv i in
      let d2 := kn kv (i + p + 1) - kn kv (i + 1) in
      padd (pmul_lin (- kn kv i / d1) (1 / d1) (nref_poly kv q i s))
           (pmul_lin (kn kv (i + p + 1) / d2) (- (1) / d2) (nref_poly kv q (S i) s))
  end.

(* the k-th derivative: the derivative recursion (dNref) on polynomials *)
Fixpoint dnref_poly (kv : list Qc) (k p i s : nat) : list Qc :=
  match k with
  | O => nref_poly kv p i s
  | S k' =>
      match p with
      | O => []
      | S q =>
          pscale (Zq (Z.of_nat p))
            (padd (pscale (/ (kn kv (i + p) - kn kv i)) (dnref_poly kv k' q i s))
                  (pscale (- / (kn kv (i + p + 1) - kn kv (i + 1))) (dnref_poly kv k' q (S i) s)))
      end
  end.

(* on the open span s only the degree-0 function number s is switched on *)
Lemma in_span_open kv s u i :
  sorted kv -> (S s < length kv)%nat -> (S i < length kv)%nat -> kn kv s < u -> u < kn kv (S s) ->
  in_span kv i u = Nat.eqb i s.
Proof.
  intros Hs Hl Hi L U. unfold in_span.
  assert (Hlast : qeqb u (kn kv (length kv - 1)) = false).
  { destruct (qeqb u (kn kv (length kv - 1))) eqn:E; [|reflexivity]. apply qeqb_iff in E. exfalso.
    apply (Qclt_not_le _ _ U). rewrite E. apply Hs; lia. }
  rewrite Hlast. cbn [andb]. rewrite orb_false_r.
  destruct (Nat.eqb_spec i s) as [->|Hne].
  - apply andb_true_iff. split; [apply qleb_iff; apply Qclt_le_weak; exact L|apply qltb_iff; exact U].
  - apply andb_false_iff.
    destruct (Nat.lt_ge_cases i s) as [Hlt|Hge].
    + right. apply qltb_false_iff. eapply Qcle_trans; [apply (Hs (S i) s); lia|]. apply Qclt_le_weak. exact L.
    + left. apply qleb_false_iff. eapply Qclt_le_trans; [exact U|]. apply Hs; lia.
Qed.

Lemma nref_poly_eval kv s u : sorted kv -> (S s < length kv)%nat -> kn kv s < u -> u < kn kv (S s) ->
  forall p i, (i + p + 1 < length kv)%nat -> Nref kv p i u = peval (nref_poly kv p i s) u.
Proof.
  intros Hs Hl L U. induction p as [|q IH]; intros i Hi.
  - cbn [Nref nref_poly]. rewrite (in_span_open kv s u i Hs Hl ltac:(lia) L U).
    destruct (Nat.eqb i s); cbn [peval]; ring.
  - cbn [Nref nref_poly]. rewrite peval_padd, !peval_pmul_lin.
    rewrite <- (IH i) by lia. rewrite <- (IH (S i)) by lia. unfold Qcdiv. ring.
Qed.

Lemma nref_poly_length kv s : forall p i, (length (nref_poly kv p i s) <= p + 1)%nat.
Proof.
  induction p as [|q IH]; intros i; cbn [nref_poly].
  - destruct (Nat.eqb i s); cbn; lia.
  - rewrite length_padd.
    pose proof (proj1 (length_pmul_lin (- kn kv i / (kn kv (i + S q) - kn kv i)) (1 / (kn kv (i + S q) - kn kv i)) (nref_poly kv q i s))) as H1.
    pose proof (proj1 (length_pmul_lin (kn kv (i + S q + 1) / (kn kv (i + S q + 1) - kn kv (i + 1))) (- (1) / (kn kv (i + S q + 1) - kn kv (i + 1))) (nref_poly kv q (S i) s))) as H2.
    pose proof (IH i). pose proof (IH (S i)). lia.
Qed.

Lemma dnref_poly_eval kv s u : sorted kv -> (S s < length kv)%nat -> kn kv s < u -> u < kn kv (S s) ->
  forall k p i, (i + p + 1 < length kv)%nat -> dNref kv k p i u = peval (dnref_poly kv k p i s) u.
Proof.
  intros Hs Hl L U. induction k as [|k IH]; intros p i Hi.
  - cbn [dNref dnref_poly]. apply nref_poly_eval; assumption.
  - destruct p as [|q]; cbn [dNref dnref_poly]; [reflexivity|].
    rewrite peval_pscale, peval_padd, !peval_pscale.
    rewrite <- (IH q i) by lia. rewrite <- (IH q (S i)) by lia. unfold Qcdiv. ring.
Qed.

Lemma dnref_poly_length kv s : forall k p i, (length (dnref_poly kv k p i s) <= p - k + 1)%nat.
Proof.
  induction k as [|k IH]; intros p i.
  - cbn [dnref_poly]. pose proof (nref_poly_length kv s p i). lia.
  - destruct p as [|q]; cbn [dnref_poly]; [cbn; lia|].
    rewrite length_pscale, length_padd, !length_pscale.
    pose proof (IH q i). pose proof (IH q (S i)). lia.
Qed.

(* ------------------------------------------------------------------ *)
(* the product polynomial of an entry on span s, and its pull-back to the reference cell [-1,1] *)

Definition span_poly (kv : list Qc) (p du dv i j s : nat) : list Qc :=
  pmul (dnref_poly kv dv p i s) (dnref_poly kv du p j s).
Definition span_half (kv : list Qc) (s : nat) : Qc := half * (kn kv (S s) - kn kv s).
Definition span_mid (kv : list Qc) (s : nat) : Qc := half * (kn kv s + kn kv (S s)).
Definition cell_poly (kv : list Qc) (p du dv i j s : nat) : list Qc :=
  pcomp (span_poly kv p du dv i j s) (span_mid kv s) (span_half kv s).

Lemma span_poly_eval kv p du dv i j s u :
  sorted kv -> (S s < length kv)%nat -> kn kv s < u -> u < kn kv (S s) ->
  (i + p + 1 < length kv)%nat -> (j + p + 1 < length kv)%nat ->
  dNref kv dv p i u * dNref kv du p j u = peval (span_poly kv p du dv i j s) u.
Proof.
  intros Hs Hl L U Hi Hj. unfold span_poly. rewrite peval_pmul.
  rewrite <- !(dnref_poly_eval kv s u Hs Hl L U) by assumption. reflexivity.
Qed.

Lemma cell_poly_length kv p du dv i j s : (du <= p)%nat -> (dv <= p)%nat ->
  (length (cell_poly kv p du dv i j s) <= 2 * p - du - dv + 1)%nat.
Proof.
  intros Hu Hv. unfold cell_poly, span_poly.
  pose proof (length_pcomp (pmul (dnref_poly kv dv p i s) (dnref_poly kv du p j s)) (span_mid kv s) (span_half kv s)).
  pose proof (length_pmul (dnref_poly kv dv p i s) (dnref_poly kv du p j s)).
  pose proof (dnref_poly_length kv s dv p i). pose proof (dnref_poly_length kv s du p j). lia.
Qed.

(* the quadrature sum over one cell = half-width * the reference rule applied to the cell polynomial *)
Lemma cell_sum kv p du dv i j s ref :
  sorted kv -> (S s < length kv)%nat -> kn kv s < kn kv (S s) ->
  (forall xw, In xw ref -> - (1) < fst xw /\ fst xw < 1) ->
  (i + p + 1 < length kv)%nat -> (j + p + 1 < length kv)%nat ->
  sumf (fun xw => snd xw * (dNref kv dv p i (fst xw) * dNref kv du p j (fst xw)))
       (gauss_cell ref (kn kv s) (kn kv (S s)))
  = span_half kv s * sumf (fun xw => snd xw * peval (cell_poly kv p du dv i j s) (fst xw)) ref.
Proof.
  intros Hs Hl Hab Href Hi Hj. unfold gauss_cell. rewrite sumf_map. cbn [fst snd].
  rewrite <- sumf_scal. apply sumf_ext. intros [xi w] Hin. cbn [fst snd].
  destruct (Href _ Hin) as [H1 H2]. cbn [fst] in H1, H2.
  destruct (node_inside (kn kv s) (kn kv (S s)) xi Hab H1 H2) as [L U].
  rewrite (span_poly_eval kv p du dv i j s _ Hs Hl L U Hi Hj).
  unfold cell_poly. rewrite peval_pcomp. unfold span_mid, span_half.
  replace (half * (kn kv s + kn kv (S s)) + half * (kn kv (S s) - kn kv s) * xi)
    with (half * (kn kv (S s) - kn kv s) * xi + half * (kn kv s + kn kv (S s))) by ring.
  ring.
Qed.

Lemma rule_ok_nodes eps n r : rule_ok eps n r = true ->
  forall xw, In xw r -> - (1) < fst xw /\ fst xw < 1.
Proof.
  unfold rule_ok. intros H xw Hin. apply andb_true_iff in H. destruct H as [H _].
  apply andb_true_iff in H. destruct H as [H _]. apply andb_true_iff in H. destruct H as [_ H].
  rewrite forallb_forall in H. specialize (H xw Hin).
  apply andb_true_iff in H. destruct H as [H _]. apply andb_true_iff in H. destruct H as [A B].
  split; apply qltb_iff; assumption.
Qed.

Lemma abs_sum_bound {A} (f g e : A -> Qc) (l : list A) :
  (forall a, In a l -> Qcabs.Qcabs (f a - g a) <= e a) ->
  Qcabs.Qcabs (sumf f l - sumf g l) <= sumf e l.
Proof.
  induction l as [|a l IH]; intros H.
  - cbn. replace (Q2Qc 0 - Q2Qc 0) with (Q2Qc 0) by ring. rewrite Qcabs.Qcabs_pos; apply Qcle_refl.
  - rewrite !sumf_cons.
    replace (f a + sumf f l - (g a + sumf g l)) with ((f a - g a) + (sumf f l - sumf g l)) by ring.
    eapply Qcle_trans; [apply Qcabs.Qcabs_triangle|]. apply Qcplus_le_compat.
    + apply H. left. reflexivity.
    + apply IH. intros b Hb. apply H. right. exact Hb.
Qed.

(* biform_1d_entry_exact: every entry of the (weight-free) matrix assembled with a rule that passes
   the table check for the DEFAULT node count is the sum over the spans of the exactly integrated
   product polynomial (half-width * integral over [-1,1] of the pulled-back polynomial), up to
   eps * sum_k half-width_k * ||c_k||_1 *)
Lemma biform_1d_entry_exact_l kv p du dv ref eps i j :
  kv_ok kv p -> (du <= p)%nat -> (dv <= p)%nat ->
  rule_ok eps (Z.to_nat (nqp_default (2 * p) du dv)) ref = true ->
  (i < numdofs kv p)%nat -> (j < numdofs kv p)%nat ->
  let sp k := nth k (span_indices kv) 0%nat in
  Qcabs.Qcabs (entry1d kv p du dv ref None i j
               - sumf (fun k => span_half kv (sp k) * pint 0 (cell_poly kv p du dv i j (sp k))) (seq 0 (numspans kv)))
  <= eps * sumf (fun k => span_half kv (sp k) * l1norm (cell_poly kv p du dv i j (sp k))) (seq 0 (numspans kv)).
Proof.
  intros Hok Hu Hv Hrule Hi Hj sp.
  pose proof (rule_ok_nodes _ _ _ Hrule) as Href.
  pose proof (ok_sorted _ _ Hok) as Hs.
  unfold entry1d. rewrite biform_1d_entry_l by assumption.
  rewrite iterated_cells, sumf_concat, (sumf_seq_nth _ [] (cellsL ref (mesh kv))), cellsL_length.
  change (length (mesh kv) - 1)%nat with (numspans kv).
  rewrite <- sumf_scal.
  apply abs_sum_bound. intros k Hk. apply in_seq in Hk.
  destruct (mesh_cell_facts kv p ref k Hok ltac:(lia)) as [E [L Hl]]. cbn zeta in E, L, Hl.
  fold (sp k) in E, L, Hl. rewrite E.
  assert (Hi' : (i + p + 1 < length kv)%nat) by (unfold numdofs in Hi; lia).
  assert (Hj' : (j + p + 1 < length kv)%nat) by (unfold numdofs in Hj; lia).
  set (c := cell_poly kv p du dv i j (sp k)). set (h := span_half kv (sp k)).
  assert (Ecell : sumf (fun xw => wgt None xw * (dNref kv dv p i (fst xw) * dNref kv du p j (fst xw)))
                       (gauss_cell ref (kn kv (sp k)) (kn kv (S (sp k))))
                  = h * sumf (fun xw => snd xw * peval c (fst xw)) ref)
    by (apply (cell_sum kv p du dv i j (sp k) ref Hs Hl L Href Hi' Hj')).
  rewrite Ecell.
  assert (Hh : 0 <= h).
  { unfold h, span_half. apply Qclt_le_weak. apply Qcmult_pos; [apply half_pos|]. apply Qclt_sub_pos in L. exact L. }
  replace (h * sumf (fun xw => snd xw * peval c (fst xw)) ref - h * pint 0 c)
    with (h * (sumf (fun xw => snd xw * peval c (fst xw)) ref - pint 0 c)) by ring.
  rewrite Qcabs.Qcabs_Qcmult, (Qcabs.Qcabs_pos h Hh).
  replace (eps * (h * l1norm c)) with ((eps * l1norm c) * h) by ring.
  rewrite (Qcmult_comm h). apply Qcmult_le_compat_r; [|exact Hh].
  apply (nqp_default_exact_l (2 * p) du dv eps ref c); [lia|exact Hrule|].
  unfold c. apply cell_poly_length; assumption.
Qed.

(* an exact rule (eps = 0): the entries ARE the sums of the exact integrals *)
Lemma biform_1d_entry_exact0_l kv p du dv ref i j :
  kv_ok kv p -> (du <= p)%nat -> (dv <= p)%nat ->
  rule_ok 0 (Z.to_nat (nqp_default (2 * p) du dv)) ref = true ->
  (i < numdofs kv p)%nat -> (j < numdofs kv p)%nat ->
  let sp k := nth k (span_indices kv) 0%nat in
  entry1d kv p du dv ref None i j
  = sumf (fun k => span_half kv (sp k) * pint 0 (cell_poly kv p du dv i j (sp k))) (seq 0 (numspans kv)).
Proof.
  intros Hok Hu Hv Hrule Hi Hj sp.
  pose proof (biform_1d_entry_exact_l kv p du dv ref 0 i j Hok Hu Hv Hrule Hi Hj) as H. cbv zeta in H. fold sp in H.
  replace (0 * sumf (fun k => span_half kv (sp k) * l1norm (cell_poly kv p du dv i j (sp k))) (seq 0 (numspans kv)))
    with (Q2Qc 0) in H by ring.
  assert (E : Qcabs.Qcabs (entry1d kv p du dv ref None i j
               - sumf (fun k => span_half kv (sp k) * pint 0 (cell_poly kv p du dv i j (sp k))) (seq 0 (numspans kv))) = 0).
  { apply Qcle_antisym; [exact H|apply Qcabs.Qcabs_nonneg]. }
  apply Qcabs.Qcabs_null in E.
  transitivity (entry1d kv p du dv ref None i j
      - sumf (fun k => span_half kv (sp k) * pint 0 (cell_poly kv p du dv i j (sp k))) (seq 0 (numspans kv))
      + sumf (fun k => span_half kv (sp k) * pint 0 (cell_poly kv p du dv i j (sp k))) (seq 0 (numspans kv))); [ring|].
  rewrite E. ring.
Qed.

(* ------------------------------------------------------------------ *)
(* the two-space routine: grid cells inside span s1 of kv1 (trial) and span s2 of kv2 (test) *)

(* explicit-witness form of grid_refines: spans[k] is the knot span containing grid cell k *)
Definition grid_in_spans (kv : list Qc) (grid : list Qc) (spans : list nat) : Prop :=
  forall k, (S k < length grid)%nat ->
    nth k grid 0 < nth (S k) grid 0 /\ (S (nth k spans 0%nat) < length kv)%nat /\
    kn kv (nth k spans 0%nat) <= nth k grid 0 /\ nth (S k) grid 0 <= kn kv (S (nth k spans 0%nat)).

Lemma grid_in_spans_refines kv grid spans : grid_in_spans kv grid spans -> grid_refines kv grid.
Proof.
  intros H k Hk. destruct (H k Hk) as [A [B [C D]]]. split; [exact A|]. exists (nth k spans 0%nat). auto.
Qed.

Definition cell_poly2 (kv1 : list Qc) (p1 : nat) (kv2 : list Qc) (p2 du dv i j s1 s2 : nat) (a b : Qc) : list Qc :=
  pcomp (pmul (dnref_poly kv2 dv p2 i s2) (dnref_poly kv1 du p1 j s1)) (half * (a + b)) (half * (b - a)).

Lemma cell_poly2_length kv1 p1 kv2 p2 du dv i j s1 s2 a b : (du <= p1)%nat -> (dv <= p2)%nat ->
  (length (cell_poly2 kv1 p1 kv2 p2 du dv i j s1 s2 a b) <= p1 + p2 - du - dv + 1)%nat.
Proof.
  intros Hu Hv. unfold cell_poly2.
  pose proof (length_pcomp (pmul (dnref_poly kv2 dv p2 i s2) (dnref_poly kv1 du p1 j s1)) (half * (a + b)) (half * (b - a))).
  pose proof (length_pmul (dnref_poly kv2 dv p2 i s2) (dnref_poly kv1 du p1 j s1)).
  pose proof (dnref_poly_length kv2 s2 dv p2 i). pose proof (dnref_poly_length kv1 s1 du p1 j). lia.
Qed.

Lemma cell_sum2 kv1 p1 kv2 p2 du dv i j s1 s2 a b ref :
  sorted kv1 -> sorted kv2 -> a < b ->
  (S s1 < length kv1)%nat -> kn kv1 s1 <= a -> b <= kn kv1 (S s1) ->
  (S s2 < length kv2)%nat -> kn kv2 s2 <= a -> b <= kn kv2 (S s2) ->
  (forall xw, In xw ref -> - (1) < fst xw /\ fst xw < 1) ->
  (i + p2 + 1 < length kv2)%nat -> (j + p1 + 1 < length kv1)%nat ->
  sumf (fun xw => snd xw * (dNref kv2 dv p2 i (fst xw) * dNref kv1 du p1 j (fst xw))) (gauss_cell ref a b)
  = half * (b - a) * sumf (fun xw => snd xw * peval (cell_poly2 kv1 p1 kv2 p2 du dv i j s1 s2 a b) (fst xw)) ref.
Proof.
  intros Hs1 Hs2 Hab Hl1 A1 B1 Hl2 A2 B2 Href Hi Hj. unfold gauss_cell. rewrite sumf_map. cbn [fst snd].
  rewrite <- sumf_scal. apply sumf_ext. intros [xi w] Hin. cbn [fst snd].
  destruct (Href _ Hin) as [H1 H2]. cbn [fst] in H1, H2.
  destruct (node_inside a b xi Hab H1 H2) as [L U]. cbv zeta in L, U.
  set (x := half * (b - a) * xi + half * (a + b)) in *.
  rewrite (dnref_poly_eval kv2 s2 x Hs2 Hl2 (Qcle_lt_trans _ _ _ A2 L) (Qclt_le_trans _ _ _ U B2) dv p2 i Hi).
  rewrite (dnref_poly_eval kv1 s1 x Hs1 Hl1 (Qcle_lt_trans _ _ _ A1 L) (Qclt_le_trans _ _ _ U B1) du p1 j Hj).
  unfold cell_poly2. rewrite peval_pcomp, peval_pmul.
  replace (half * (a + b) + half * (b - a) * xi) with x by (unfold x; ring).
  ring.
Qed.

Lemma biform_asym_entry_exact_l kv1 p1 kv2 p2 du dv grid S1 S2 ref eps i j :
  kv_ok kv1 p1 -> kv_ok kv2 p2 -> (du <= p1)%nat -> (dv <= p2)%nat ->
  grid_in_spans kv1 grid S1 -> grid_in_spans kv2 grid S2 ->
  rule_ok eps (Z.to_nat (nqp_default (p1 + p2) du dv)) ref = true ->
  (i < numdofs kv2 p2)%nat -> (j < numdofs kv1 p1)%nat ->
  let coo := biform_asym_coo kv1 p1 kv2 p2 du dv grid ref in
  let cp k := cell_poly2 kv1 p1 kv2 p2 du dv i j (nth k S1 0%nat) (nth k S2 0%nat) (nth k grid 0) (nth (S k) grid 0) in
  let hw k := half * (nth (S k) grid 0 - nth k grid 0) in
  Qcabs.Qcabs (coo_get (fst coo) (snd coo) i j - sumf (fun k => hw k * pint 0 (cp k)) (seq 0 (length grid - 1)))
  <= eps * sumf (fun k => hw k * l1norm (cp k)) (seq 0 (length grid - 1)).
Proof.
  intros Hok1 Hok2 Hu Hv G1 G2 Hrule Hi Hj coo cp hw.
  pose proof (rule_ok_nodes _ _ _ Hrule) as Href.
  unfold coo. rewrite (biform_asym_entry_l kv1 p1 kv2 p2 du dv grid ref i j Hok1 Hok2 Href
                         (grid_in_spans_refines _ _ _ G1) (grid_in_spans_refines _ _ _ G2) Hi Hj).
  rewrite iterated_cells, sumf_concat, (sumf_seq_nth _ [] (cellsL ref grid)), cellsL_length.
  rewrite <- sumf_scal.
  apply abs_sum_bound. intros k Hk. apply in_seq in Hk.
  assert (Hk' : (S k < length grid)%nat) by lia.
  destruct (G1 k Hk') as [Hab [Hl1 [A1 B1]]]. destruct (G2 k Hk') as [_ [Hl2 [A2 B2]]].
  rewrite cellsL_nth by exact Hk'.
  assert (Hi' : (i + p2 + 1 < length kv2)%nat) by (unfold numdofs in Hi; lia).
  assert (Hj' : (j + p1 + 1 < length kv1)%nat) by (unfold numdofs in Hj; lia).
  rewrite (cell_sum2 kv1 p1 kv2 p2 du dv i j (nth k S1 0%nat) (nth k S2 0%nat) _ _ ref
             (ok_sorted _ _ Hok1) (ok_sorted _ _ Hok2) Hab Hl1 A1 B1 Hl2 A2 B2 Href Hi' Hj').
  fold (cp k). fold (hw k).
  assert (Hh : 0 <= hw k).
  { unfold hw. apply Qclt_le_weak. apply Qcmult_pos; [apply half_pos|]. apply Qclt_sub_pos in Hab. exact Hab. }
  replace (hw k * sumf (fun xw => snd xw * peval (cp k) (fst xw)) ref - hw k * pint 0 (cp k))
    with (hw k * (sumf (fun xw => snd xw * peval (cp k) (fst xw)) ref - pint 0 (cp k))) by ring.
  rewrite Qcabs.Qcabs_Qcmult, (Qcabs.Qcabs_pos (hw k) Hh).
  replace (eps * (hw k * l1norm (cp k))) with ((eps * l1norm (cp k)) * hw k) by ring.
  rewrite (Qcmult_comm (hw k)). apply Qcmult_le_compat_r; [|exact Hh].
  apply (nqp_default_exact_l (p1 + p2) du dv eps ref (cp k)); [lia|exact Hrule|].
  unfold cp. apply cell_poly2_length; assumption.
Qed.
