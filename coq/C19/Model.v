(* C19 -- executable model of pyiga's KnotVector class, make_knots and Spline.derivative
   over exact rationals (Qc).  Definitions only; the numpy vocabulary is lib/NpQ.v
   (exact) and lib/NpF.v (binary64), the span search is lib/Bsp.v (shared with C02).

   Source (pyiga/bspline.py unless stated):
     62-69    KnotVector.__init__          (asserts non-decreasing)
     77-81    __eq__                       kv_eq (repaired, symmetric) / kv_eq_old (np.allclose)
     87-95    numdofs, numspans
     101-110  support, support_idx
     112-121  _ensure_mesh, mesh           np.unique(kv, return_inverse=True)
     123-136  mesh_support_idx(_all)
     138-144  mesh_span_indices
     146-162  findspan / first_active(_at) bspline_cy.pyx:13-28 = Bsp.findspan
     164-174  greville
     176-189  refine, meshsize_avg
     192-213  make_knots                   (repaired form: np.linspace, see fixes/)
     spline.py:21-26  Spline.derivative                                            *)
From Coq Require Import QArith Qcanon ZArith List Arith Bool.
From Verif.lib Require Import Bsp NpCore NpQ.
Import ListNotations.
Open Scope Qc_scope.

(* ---- make_knots ---------------------------------------------------- *)

(* kv = np.concatenate((np.repeat(a, p+1),
                        np.repeat(np.linspace(a, b, n+1)[1:-1], mult),
                        np.repeat(b, p+1)))                               *)
Definition make_knots (p : nat) (a b : Qc) (n mult : nat) : list Qc :=
  np_concat3 (repeat a (p + 1))
             (np_repeat_each (sl_1_m1 (linspace_q a b (n + 1))) mult)
             (repeat b (p + 1)).

(* the unrepaired source: np.repeat(np.arange(a, b, (b-a) / n)[1:], mult) *)
Definition make_knots_old (p : nat) (a b : Qc) (n mult : nat) : list Qc :=
  np_concat3 (repeat a (p + 1))
             (np_repeat_each (sl_from1 (arange_q a b ((b - a) / natq n))) mult)
             (repeat b (p + 1)).

(* ---- KnotVector ---------------------------------------------------- *)

(* the assertion of __init__ *)
Definition kv_valid (kv : list Qc) : bool := sortedb kv.

Definition numknots (kv : list Qc) : nat := length kv.
(* numdofs: Bsp.numdofs kv p = length kv - p - 1 *)
Definition mesh (kv : list Qc) : list Qc := np_unique kv.
Definition knots_to_mesh (kv : list Qc) : list nat := np_unique_inverse kv.
Definition numspans (kv : list Qc) : nat := (length (mesh kv) - 1)%nat.

Definition support_all (kv : list Qc) : Qc * Qc := (kn kv 0, kn kv (length kv - 1)).
Definition support (kv : list Qc) (p j : nat) : Qc * Qc := (kn kv j, kn kv (j + p + 1)).
Definition support_idx (p j : nat) : nat * nat := (j, (j + p + 1)%nat).

Definition mesh_support_idx (kv : list Qc) (p j : nat) : nat * nat :=
  let k2m := knots_to_mesh kv in
  let supp := support_idx p j in
  (nth (fst supp) k2m 0%nat, nth (snd supp) k2m 0%nat).

(* n = self.numdofs
   startend = np.stack((np.arange(0,n), np.arange(self.p+1, n+self.p+1)), axis=1)
   return self._knots_to_mesh[startend] *)
Definition mesh_support_idx_all (kv : list Qc) (p : nat) : list (nat * nat) :=
  let n := numdofs kv p in
  let startend := np_stack2 (np_arange_nat 0 n) (np_arange_nat (p + 1) (n + p + 1)) in
  np_take2 (knots_to_mesh kv) startend.

(* k2m = self._knots_to_mesh;  np.where(k2m[1:] != k2m[:-1])[0] *)
Definition mesh_span_indices (kv : list Qc) : list nat :=
  let k2m := knots_to_mesh kv in
  np_where_ne (sl_from1 k2m) (sl_to_m1 k2m).

(* findspan: Bsp.findspan kv p u;  first_active k = k - p (Python int) *)
Definition first_active (p : nat) (k : nat) : Z := (Z.of_nat k - Z.of_nat p)%Z.
Definition first_active_at_z (kv : list Qc) (p : nat) (u : Qc) : Z := first_active p (findspan kv p u).

Definition two : Qc := 1 + 1.

(* p = 0: (kv[1:] + kv[:-1]) / 2;
   p > 0: np.clip(np.convolve(kv, np.ones(p)/p)[p:-p], kv[0], kv[-1]) *)
Definition greville (kv : list Qc) (p : nat) : list Qc :=
  if Nat.eqb p 0 then map (fun x => x / two) (zip_with Qcplus (sl_from1 kv) (sl_to_m1 kv))
  else map (np_clip (kn kv 0) (kn kv (length kv - 1)))
           (sl_range p p (np_convolve kv (map (fun x => x / natq p) (repeat 1 p)))).

Definition midpoints (m : list Qc) : list Qc :=
  map (fun x => x / two) (zip_with Qcplus (sl_from1 m) (sl_to_m1 m)).

(* refine(new_knots): np.sort(np.concatenate((kv, new_knots))) *)
Definition refine (kv new_knots : list Qc) : list Qc := np_sort (kv ++ new_knots).
(* refine(None): new_knots = (mesh[1:] + mesh[:-1]) / 2 *)
Definition refine_uniform (kv : list Qc) : list Qc := refine kv (midpoints (mesh kv)).

Definition meshsize_avg (kv : list Qc) : Qc :=
  qabs (kn kv (length kv - 1) - kn kv 0) / natq (numspans kv).

(* ---- __eq__ -------------------------------------------------------- *)

Fixpoint all2 (r : Qc -> Qc -> bool) (x y : list Qc) : bool :=
  match x, y with
  | a :: x', b :: y' => r a b && all2 r x' y'
  | _, _ => true
  end.

(* np.allclose(x, y, atol, rtol): all(|x - y| <= atol + rtol*|y|) *)
Definition isclose_np (atol rtol x y : Qc) : bool := qleb (qabs (x - y)) (atol + rtol * qabs y).
(* repaired: all(|x - y| <= atol + rtol*max(|x|,|y|)) *)
Definition isclose_sym (atol rtol x y : Qc) : bool :=
  qleb (qabs (x - y)) (atol + rtol * qmax (qabs x) (qabs y)).

Definition tol : Qc := Q2Qc (1 # 100000000).   (* 1e-8 *)

Definition kv_eq_with (close : Qc -> Qc -> bool) (kv1 : list Qc) (p1 : nat) (kv2 : list Qc) (p2 : nat) : bool :=
  Nat.eqb p1 p2 && Nat.eqb (length kv1) (length kv2) && all2 close kv1 kv2.

Definition kv_eq := kv_eq_with (isclose_sym tol tol).
Definition kv_eq_old := kv_eq_with (isclose_np tol tol).

(* ---- Spline.derivative --------------------------------------------- *)

(* diffcoeffs = p / (kv[p+1:-1] - kv[1:-(p+1)]) * np.diff(coeffs);  diffkv = kv[1:-1], degree p-1 *)
Definition derivative_coeffs (kv : list Qc) (p : nat) (c : list Qc) : list Qc :=
  zip_with Qcmult
    (map (fun d => natq p / d) (zip_with Qcminus (sl_range (p + 1) 1 kv) (sl_range 1 (p + 1) kv)))
    (np_diff c).
Definition derivative_kv (kv : list Qc) : list Qc := sl_1_m1 kv.

(* a spline evaluated through the Cox-de Boor reference of lib/Bsp.v *)
Definition spline_ev (kv : list Qc) (p : nat) (c : list Qc) (u : Qc) : Qc :=
  qsum (map (fun i => nth i c 0 * Nref kv p i u) (seq 0 (length c))).
Definition spline_dev (kv : list Qc) (p : nat) (c : list Qc) (u : Qc) : Qc :=
  qsum (map (fun i => nth i c 0 * dNref kv 1 p i u) (seq 0 (length c))).
