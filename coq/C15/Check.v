(* C15 -- decidable comparison of the model with recorded outputs of the
   implementation; used by the generated case files coq/gen/C15_cases_*.v.
   Definitions only. *)
From Coq Require Import ZArith List Bool.
From Verif.C15 Require Import Model Model2.
Import ListNotations.
Open Scope Z_scope.

Fixpoint list_eqb {A : Type} (e : A -> A -> bool) (a b : list A) : bool :=
  match a, b with
  | [], [] => true
  | x :: a', y :: b' => e x y && list_eqb e a' b'
  | _, _ => false
  end.
Definition opt_eqb {A : Type} (e : A -> A -> bool) (a b : option A) : bool :=
  match a, b with
  | Some x, Some y => e x y
  | None, None => true
  | _, _ => false
  end.
Definition zl_eqb := list_eqb Z.eqb.
Definition pl_eqb := list_eqb key_eqb.
Definition trip_eqb (a b : (Z * Z) * Z) : bool := key_eqb (fst a) (fst b) && (snd a =? snd b).
Definition tl_eqb := list_eqb trip_eqb.
Definition rows_eqb := list_eqb (fun a b : Z * Z * Z => trip_eqb a b).

Record mlcase := MkML {
  c_bs : list (Z * Z); c_bidx : list pat; c_data : list Z; c_x : list Z;
  c_rows : list Z; c_cols : list Z; c_axes : list nat; c_matrix : option (list (list Z));
  c_dot_skipped : bool;
  o_shape : Z * Z; o_nz : option (list (Z * Z)); o_nzlt : option (list (Z * Z));
  o_nzT : option (list (Z * Z));
  o_rows : option (list (Z * Z * Z)); o_cols : option (list (Z * Z)); o_dot : option (list Z);
  o_asm : list ((Z * Z) * Z); o_reo : list ((Z * Z) * Z); o_reonz : option (list (Z * Z));
  o_dfm : option (list Z); o_tidx : list (option (list Z)); o_seqb : option (list (list Z));
  o_rtg : option (list (Z * Z)) }.

Definition flag (n : nat) (ok : bool) : list nat := if ok then [] else [n].

Definition check_ml (c : mlcase) : list nat :=
  let bs := c_bs c in let bidx := c_bidx c in
  flag 1 (key_eqb (shape bs) (o_shape c)) ++
  flag 2 (opt_eqb pl_eqb (nonzero bs bidx false) (o_nz c)) ++
  flag 3 (opt_eqb pl_eqb (nonzero bs bidx true) (o_nzlt c)) ++
  flag 4 (opt_eqb pl_eqb (nonzero (transpose_bs bs) (transpose_bidx bidx) false) (o_nzT c)) ++
  flag 5 (opt_eqb rows_eqb (nonzeros_for_rows bs bidx (c_rows c)) (o_rows c)) ++
  flag 6 (opt_eqb pl_eqb (nonzeros_for_columns bs bidx (c_cols c)) (o_cols c)) ++
  flag 7 (c_dot_skipped c || opt_eqb zl_eqb (matvec bs bidx (c_data c) (c_x c)) (o_dot c)) ++
  flag 8 (tl_eqb (asmatrix bs bidx (c_data c)) (o_asm c)) ++
  flag 9 (tl_eqb (reorder_asmatrix bs bidx (c_data c) (c_axes c)) (o_reo c)) ++
  flag 10 (opt_eqb pl_eqb (nonzero (reorder_bs bs (c_axes c)) (reorder_bidx bidx (c_axes c)) false) (o_reonz c)) ++
  flag 11 (match c_matrix c with
           | Some A => opt_eqb zl_eqb (Some (data_from_matrix bs bidx A)) (o_dfm c)
           | None => true end) ++
  flag 12 (list_eqb (opt_eqb zl_eqb) (map transpose_idx bidx) (o_tidx c)) ++
  (* repaired numbering n_k*i + j (fixes/C15-sequential-bidx-rectangular.patch) *)
  flag 13 (match o_seqb c with Some l => list_eqb zl_eqb (sequential_bidx_fixed bs bidx) l | None => true end) ++
  (* ReorderedTensorGenerator: the matrix positions requested for the whole data tensor (None = not recorded) *)
  flag 14 (match o_rtg c with Some l => pl_eqb (tensor_gen_all bs bidx) l | None => true end).

Record repoint := MkRP {
  rp_i : Z; rp_j : Z; rp_I : list Z; rp_J : list Z; rp_ti : Z; rp_tj : Z;
  rp_M : list Z; rp_back : Z * Z; rp_rfr : option (Z * Z) }.

Definition check_rp (bs : list (Z * Z)) (p : repoint) : list nat :=
  flag 21 (zl_eqb (from_seq (rp_i p) (rowdims bs)) (rp_I p)) ++
  flag 22 (zl_eqb (from_seq (rp_j p) (coldims bs)) (rp_J p)) ++
  flag 23 (to_seq (rp_I p) (rowdims bs) =? rp_ti p) ++
  flag 24 (to_seq (rp_J p) (coldims bs) =? rp_tj p) ++
  flag 25 (zl_eqb (reindex_to_multilevel (rp_i p) (rp_j p) bs) (rp_M p)) ++
  flag 26 (key_eqb (reindex_from_multilevel (rp_M p) bs) (rp_back p)) ++
  flag 27 (match bs, rp_M p, rp_rfr p with
           | [(m1, n1); (m2, n2)], [a; b], Some r => key_eqb (reindex_from_reordered a b m1 n1 m2 n2) r
           | _, _, None => true
           | _, _, _ => false end).

(* one step of a history on one object, with the recorded outcome of the implementation *)
Inductive hstep :=
| HSet (d : list Z) (accepted : bool)
| HFromMat (A : list (list Z))
| HAsm (out : list ((Z * Z) * Z))
| HDot (x : list Z) (out : option (list Z))
| HNz (lt : bool) (out : option (list (Z * Z)))
| HNzT (out : option (list (Z * Z)))
| HReo (axes : list nat) (out : list ((Z * Z) * Z))
| HReoDot (axes : list nat) (x : list Z) (out : option (list Z)).

Fixpoint check_hist (bs : list (Z * Z)) (bidx : list pat) (data : list Z) (steps : list hstep) : list nat :=
  match steps with
  | [] => []
  | st :: steps' =>
      match st with
      | HSet d acc => flag 60 (Bool.eqb (set_ok bidx d) acc)
                      ++ check_hist bs bidx (hist_step bs bidx data (OpSet d)) steps'
      | HFromMat A => check_hist bs bidx (hist_step bs bidx data (OpFromMatrix A)) steps'
      | HAsm out => flag 61 (tl_eqb (asmatrix bs bidx data) out) ++ check_hist bs bidx data steps'
      | HDot x out => flag 62 (opt_eqb zl_eqb (matvec bs bidx data x) out) ++ check_hist bs bidx data steps'
      | HNz lt out => flag 63 (opt_eqb pl_eqb (nonzero bs bidx lt) out) ++ check_hist bs bidx data steps'
      | HNzT out => flag 64 (opt_eqb pl_eqb (nonzero (transpose_bs bs) (transpose_bidx bidx) false) out)
                    ++ check_hist bs bidx data steps'
      | HReo axes out => flag 65 (tl_eqb (reorder_asmatrix bs bidx data axes) out) ++ check_hist bs bidx data steps'
      | HReoDot axes x out =>
          flag 66 (opt_eqb zl_eqb (matvec (reorder_bs bs axes) (reorder_bidx bidx axes)
                                          (transpose_data (datashape bidx) data axes) x) out)
          ++ check_hist bs bidx data steps'
      end
  end.

Inductive case :=
| CHist (bs : list (Z * Z)) (bidx : list pat) (data : list Z) (steps : list hstep)
| CML (c : mlcase)
| CRe (bs : list (Z * Z)) (pts : list repoint)
| CKvs (kv1 : list Z) (p1 : nat) (kv2 : list Z) (p2 : nat) (out : pat)
| CKronp (As : list (list (list Z))) (rows : list Z) (restrict : bool) (out : option (list ((Z * Z) * Z)))
| CBanded (n bw : Z) (ij : pat) (flat : list Z)
| CDense (m n : Z) (ij : pat)
| CReorder (X : list (list Z)) (M N m1 n1 : Z) (Y : list (list Z)).

Fixpoint dedup (l : list nat) : list nat :=
  match l with
  | [] => []
  | x :: l' => if existsb (Nat.eqb x) l' then dedup l' else x :: dedup l'
  end.

Definition check (c : case) : list nat :=
  match c with
  | CHist bs bidx data steps => dedup (check_hist bs bidx data steps)
  | CML c => check_ml c
  | CRe bs pts => dedup (flat_map (check_rp bs) pts)
  | CKvs kv1 p1 kv2 p2 out => flag 31 (pl_eqb (compute_sparsity_ij (supports kv1 p1) (supports kv2 p2)) out)
  | CKronp As rows restrict out => flag 41 (opt_eqb tl_eqb (kron_partial As rows restrict) out)
  | CBanded n bw ij flat =>
      flag 51 (pl_eqb (compute_banded_sparsity_ij n bw) ij) ++ flag 52 (zl_eqb (compute_banded_sparsity n bw) flat)
  | CDense m n ij => flag 53 (pl_eqb (compute_dense_ij m n) ij)
  | CReorder X M N m1 n1 Y => flag 54 (list_eqb zl_eqb (reorder_dense X M N m1 n1) Y)
  end.

(* index of the case * 100 + number of the disagreeing observable *)
Fixpoint bad (k : nat) (cs : list case) : list nat :=
  match cs with
  | [] => []
  | c :: cs' => map (fun f => (k * 100 + f)%nat) (check c) ++ bad (S k) cs'
  end.
