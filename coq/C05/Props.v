(* C05 -- property theorems only.  Nref is the Cox-de Boor reference of coq/lib/Bsp.v
   (x / 0 = 0, half-open spans, last non-empty span closed at the right end);
   knot_insertion / prolongation_spec are the transcriptions in C05/Model.v. *)
From Coq Require Import QArith Qcanon List Arith.
From Verif.lib Require Import Bsp.
From Verif.C02 Require Import Proofs.
From Verif.C05 Require Import Model Proofs.
Import ListNotations.
Open Scope Qc_scope.

(* Boehm knot insertion (bspline.knot_insertion): for every well-formed open knot vector
   (any degree p >= 0, non-uniform, repeated interior knots), every u in its domain
   (also u equal to an existing knot, and the end points), every old basis function i
   and EVERY point x, the old function is the combination of the new basis functions
   with the entries of column i of the returned matrix. *)
Theorem knot_insertion_preserves : forall kv p u i x,
  kv_ok kv p -> kn kv 0 <= u -> u <= kn kv (length kv - 1) -> (i < numdofs kv p)%nat ->
  Nref kv p i x =
    bigsum (S (numdofs kv p))
           (fun j => lookup (knot_insertion kv p u) j i * Nref (insert_knot kv p u) p j x).
Proof. exact knot_insertion_preserves_l. Qed.
Print Assumptions knot_insertion_preserves.

(* the same identity in its local form (Boehm's identity for one B-spline, any sorted
   knots s_0..s_{p+2}, removed knot s_m interior), on which the theorem above rests *)
Theorem boehm_identity : forall last x p s m,
  (forall j, (j <= S p)%nat -> s j <= s (S j)) ->
  (forall j, (j <= S (S p))%nat -> s j <= last) ->
  (1 <= m <= S p)%nat ->
  NF (remove_at s m) last p 0 x =
    (s m - s 0%nat) / (s (S p) - s 0%nat) * NF s last p 0 x
    + (s (S (S p)) - s m) / (s (S (S p)) - s 1%nat) * NF s last p 1 x.
Proof. exact boehm_local. Qed.
Print Assumptions boehm_identity.

Theorem knot_insertion_rows_sum_one : forall kv p u j,
  kv_ok kv p -> kn kv 0 <= u -> u <= kn kv (length kv - 1) -> (j < S (numdofs kv p))%nat ->
  bigsum (numdofs kv p) (fun i => lookup (knot_insertion kv p u) j i) = 1.
Proof. exact knot_insertion_rows_sum_one_l. Qed.
Print Assumptions knot_insertion_rows_sum_one.

Theorem knot_insertion_nonneg : forall kv p u j i,
  kv_ok kv p -> kn kv 0 <= u -> u <= kn kv (length kv - 1) ->
  (j < S (numdofs kv p))%nat -> (i < numdofs kv p)%nat ->
  0 <= lookup (knot_insertion kv p u) j i.
Proof. exact knot_insertion_nonneg_l. Qed.
Print Assumptions knot_insertion_nonneg.

(* the entries the three loops of knot_insertion assign are the closed form ki_entry *)
Theorem knot_insertion_entries : forall kv p k u j i,
  (p <= k)%nat -> (k < numdofs kv p)%nat -> (i < numdofs kv p)%nat -> (j < S (numdofs kv p))%nat ->
  lookup (knot_insertion_at kv p k u) j i = ki_entry kv p k u j i.
Proof. exact ki_lookup. Qed.
Print Assumptions knot_insertion_entries.

(* inserting a knot of the domain keeps the knot vector well-formed (so insertions can be iterated) *)
Theorem refinement_wellformed : forall us kv p,
  kv_ok kv p -> Forall (in_dom kv) us -> kv_ok (refine_kv kv p us) p.
Proof. exact refine_kv_ok. Qed.
Print Assumptions refinement_wellformed.

(* arbitrary knot refinement kv1 c kv2 (prolongation(kv1, kv2) specified as the product of the
   single insertions of the knots us = kv2 \ kv1, any number, any order, repetitions allowed):
   every coarse basis function is, at every point, the combination of the fine basis
   functions with the entries of its column. *)
Theorem prolongation_preserves : forall us kv p,
  kv_ok kv p -> Forall (in_dom kv) us ->
  forall i x, (i < numdofs kv p)%nat ->
    Nref kv p i x =
      bigsum (numdofs (refine_kv kv p us) p)
             (fun j => get2 (prolongation_spec kv p us) j i * Nref (refine_kv kv p us) p j x).
Proof. exact prolongation_preserves_l. Qed.
Print Assumptions prolongation_preserves.

Theorem prolongation_rows_sum_one : forall us kv p j,
  kv_ok kv p -> Forall (in_dom kv) us -> (j < numdofs (refine_kv kv p us) p)%nat ->
  bigsum (numdofs kv p) (fun i => get2 (prolongation_spec kv p us) j i) = 1.
Proof. exact prolongation_rows_sum_one_l. Qed.
Print Assumptions prolongation_rows_sum_one.

Theorem prolongation_nonneg : forall us kv p j i,
  kv_ok kv p -> Forall (in_dom kv) us ->
  (j < numdofs (refine_kv kv p us) p)%nat -> (i < numdofs kv p)%nat ->
  0 <= get2 (prolongation_spec kv p us) j i.
Proof. exact prolongation_nonneg_l. Qed.
Print Assumptions prolongation_nonneg.

(* transfers compose (successive levels), and a transfer maps every coefficient vector to the
   coefficients of the pointwise identical function *)
Theorem transfer_compose : forall kv1 kv2 kv3 p P Q,
  preserves kv1 kv2 p P -> preserves kv2 kv3 p Q ->
  preserves kv1 kv3 p (mmul Q P (numdofs kv3 p) (numdofs kv2 p) (numdofs kv1 p)).
Proof. exact preserves_compose. Qed.
Print Assumptions transfer_compose.

Theorem transfer_coefficients : forall kv1 kv2 p P (c : nat -> Qc) x,
  preserves kv1 kv2 p P ->
  bigsum (numdofs kv1 p) (fun i => c i * Nref kv1 p i x)
  = bigsum (numdofs kv2 p)
           (fun j => bigsum (numdofs kv1 p) (fun i => get2 P j i * c i) * Nref kv2 p j x).
Proof. exact preserves_coeffs. Qed.
Print Assumptions transfer_coefficients.

(* the boolean test used in the case files implies the hypothesis kv_ok *)
Theorem open_kv_wellformed : forall kv p, open_kv kv p = true -> kv_ok kv p.
Proof. exact open_kv_ok. Qed.
Print Assumptions open_kv_wellformed.

(* NOT PROVED: levelwise_eval_eq_fine
     forall HSpace state S reachable by refinement (C04 invariant), both bases, every coefficient
     vector c and point x:  sum_l f_l(x) = sum_J (represent_fine S * c)_J * B^L_J(x)   (values,
     gradients, Hessians), f_l = coeffs_to_levelwise_funcs.
   What is proved instead: the 1-D, two-space core it is built from (transfer_compose,
   transfer_coefficients on top of prolongation_preserves).  Missing: the model of the HSpace
   state (coq/C04/Model.v did not exist when this was written), Kronecker products for dim > 1,
   truncation.
   NOT PROVED: vh_prolongators_hb, vh_prolongators_thb, prolongate_to_preserves, boundary_restriction
     (statements in DESIGN.md, C05).  They are covered by the correspondence run only:
     the function-preservation predicate is evaluated exactly (Fractions, Cox-de Boor oracle
     written independently in harness/props/c05.py) on the implementation's matrices.
     On the unchanged tree that evaluation REFUTES vh_prolongators_thb for >= 3 levels and
     prolongate_to_preserves for finite disparity (replays in evidence/replay). *)
