(* C18 -- executable model of pyiga.tensor (CanonicalTensor, TuckerTensor, join_tucker_bases,
   apply_tprod on full arrays, _normalize_indices, CanonicalOperator), of
   pyiga.lowrank.TensorGenerator and of lowrank_cy.rank_1_update / aca3d_update and one cross
   step of lowrank.aca.  Definitions only; proofs are in Proofs.v.

   Arithmetic is that of an arbitrary commutative ring R (Section variables); the
   correspondence run instantiates R := Z (small-integer entries are exact in binary64).
   Matrices and full arrays are (dimensions, entry function): the numpy primitives the code
   combines (hstack, pad, fancy row selection, dot, tensordot) are modelled by their entry-wise
   meaning; WHICH of them pyiga combines, in which order and on which axes is what is
   transcribed (tensor.py line numbers are cited at each definition). *)
From Coq Require Import List Arith Bool ZArith Lia.
Import ListNotations.

(* ------------------------------------------------------------------ *)
(* Python index semantics: tensor.py:66-94 (_normalize_indices)        *)
(* ------------------------------------------------------------------ *)

Inductive index :=
| IInt (i : Z)                              (* np.isscalar(ik) *)
| ISlice (start stop step : option Z)       (* isinstance(ik, slice) *)
| IList (l : list Z).                       (* list / array of indices *)

Inductive err := IndexError | ValueError | AssertionError | TypeError.

Inductive res (A : Type) := Ok (a : A) | Err (e : err).
Arguments Ok {A} a.
Arguments Err {A} e.

Definition bind {A B} (x : res A) (f : A -> res B) : res B :=
  match x with Ok a => f a | Err e => Err e end.

(* range(n)[i] for an int i: negative indices wrap once, otherwise IndexError *)
Definition wrap (n : nat) (i : Z) : option nat :=
  let n' := Z.of_nat n in
  if (0 <=? i)%Z && (i <? n')%Z then Some (Z.to_nat i)
  else if (- n' <=? i)%Z && (i <? 0)%Z then Some (Z.to_nat (i + n'))
  else None.

(* slice.indices(n) (CPython PySlice_AdjustIndices), step <> 0 *)
Definition slice_adjust (n : Z) (start stop : option Z) (step : Z) : Z * Z :=
  let lower := if (step <? 0)%Z then (-1)%Z else 0%Z in
  let upper := if (step <? 0)%Z then (n - 1)%Z else n in
  let adj v := if (v <? 0)%Z then Z.max (v + n) lower else Z.min v upper in
  (match start with None => if (step <? 0)%Z then upper else lower | Some s => adj s end,
   match stop with None => if (step <? 0)%Z then lower else upper | Some s => adj s end).

(* len(range(start, stop, step)) *)
Definition range_len (start stop step : Z) : Z :=
  if (0 <? step)%Z then (if (start <? stop)%Z then (stop - start - 1) / step + 1 else 0)%Z
  else (if (stop <? start)%Z then (start - stop - 1) / (- step) + 1 else 0)%Z.

Definition range_list (start stop step : Z) : list Z :=
  map (fun k => (start + Z.of_nat k * step)%Z) (seq 0 (Z.to_nat (range_len start stop step))).

(* range(n)[start:stop:step] as the list of selected positions *)
Definition slice_range (n : nat) (start stop step : option Z) : res (list nat) :=
  let st := match step with None => 1%Z | Some s => s end in
  if (st =? 0)%Z then Err ValueError
  else let '(a, b) := slice_adjust (Z.of_nat n) start stop st in
       Ok (map Z.to_nat (range_list a b st)).

Fixpoint wrap_all (n : nat) (l : list Z) : res (list nat) :=
  match l with
  | [] => Ok []
  | i :: l' => match wrap n i with
               | None => Err IndexError
               | Some k => bind (wrap_all n l') (fun r => Ok (k :: r))
               end
  end.

(* one axis: (selected positions, is-singleton-from-scalar-index)   tensor.py:79-92 *)
Definition norm_axis (n : nat) (ik : index) : res (list nat * bool) :=
  match ik with
  | IInt i => match wrap n i with Some k => Ok ([k], true) | None => Err IndexError end
  | ISlice a b s => bind (slice_range n a b s) (fun r => Ok (r, false))
  | IList l => bind (wrap_all n l) (fun r => Ok (r, false))
  end.

Fixpoint norm_axes (shape : list nat) (I : list index) : res (list (list nat * bool)) :=
  match shape, I with
  | [], _ => Ok []
  | n :: shape', ik :: I' =>
      bind (norm_axis n ik) (fun a => bind (norm_axes shape' I') (fun r => Ok (a :: r)))
  | n :: shape', [] =>     (* missing trailing axes: slice(None)   tensor.py:70-71 *)
      bind (norm_axis n (ISlice None None None)) (fun a => bind (norm_axes shape' []) (fun r => Ok (a :: r)))
  end.

(* tensor.py:66-94; result per axis: (I_new[k], k in singleton); shape_new = map length *)
Definition normalize_indices (I : list index) (shape : list nat) : res (list (list nat * bool)) :=
  if length shape <? length I then Err ValueError else norm_axes shape I.

Definition sel_ranges (ax : list (list nat * bool)) : list (list nat) := map fst ax.
Definition sel_shape (ax : list (list nat * bool)) : list nat := map (fun a => length (fst a)) ax.
Fixpoint sel_singletons (k : nat) (ax : list (list nat * bool)) : list nat :=
  match ax with
  | [] => []
  | a :: ax' => if snd a then k :: sel_singletons (S k) ax' else sel_singletons (S k) ax'
  end.

(* ------------------------------------------------------------------ *)
(* multi-indices                                                       *)
(* ------------------------------------------------------------------ *)

(* itertools.product / np.ndindex / utils.cartesian_product order: last factor fastest *)
Fixpoint product (ls : list (list nat)) : list (list nat) :=
  match ls with
  | [] => [[]]
  | l :: rest => flat_map (fun x => map (cons x) (product rest)) l
  end.

Definition ndindex (shape : list nat) : list (list nat) := product (map (seq 0) shape).

Fixpoint ravel_aux (acc : nat) (shape idx : list nat) : nat :=
  match shape, idx with
  | n :: shape', i :: idx' => ravel_aux (acc * n + i) shape' idx'
  | _, _ => acc
  end.
Definition ravel (shape idx : list nat) : nat := ravel_aux 0 shape idx.

Definition memb (k : nat) (l : list nat) : bool := existsb (Nat.eqb k) l.

(* positions of [0..d) not in axes: sorted(set(range(ndim)) - set(axis)) *)
Definition remaining (d : nat) (axes : list nat) : list nat :=
  filter (fun k => negb (memb k axes)) (seq 0 d).

(* the index of the un-squeezed array: 0 at the squeezed axes, idx' elsewhere *)
Fixpoint unsqueeze_aux (k d : nat) (axes : list nat) (idx : list nat) : list nat :=
  match d with
  | 0 => []
  | S d' => if memb k axes then 0 :: unsqueeze_aux (S k) d' axes idx
            else match idx with
                 | [] => 0 :: unsqueeze_aux (S k) d' axes []
                 | i :: idx' => i :: unsqueeze_aux (S k) d' axes idx'
                 end
  end.
Definition unsqueeze (d : nat) (axes idx : list nat) : list nat := unsqueeze_aux 0 d axes idx.

Definition pick {A} (l : list A) (ks : list nat) (d : A) : list A := map (fun k => nth k l d) ks.

Fixpoint all_lt (idx bound : list nat) : bool :=
  match idx, bound with
  | i :: idx', b :: bound' => (i <? b) && all_lt idx' bound'
  | _, _ => true
  end.
Fixpoint all_ge (idx bound : list nat) : bool :=
  match idx, bound with
  | i :: idx', b :: bound' => (b <=? i) && all_ge idx' bound'
  | _, _ => true
  end.
Fixpoint sub_idx (idx off : list nat) : list nat :=
  match idx, off with
  | i :: idx', o :: off' => (i - o) :: sub_idx idx' off'
  | _, _ => idx
  end.
Fixpoint add_idx (idx off : list nat) : list nat :=
  match idx, off with
  | i :: idx', o :: off' => (i + o) :: add_idx idx' off'
  | _, _ => idx
  end.
Fixpoint all_same (i : nat) (idx : list nat) : bool :=
  match idx with [] => true | j :: idx' => (i =? j) && all_same i idx' end.

Definition list_eqb (a b : list nat) : bool :=
  (length a =? length b) && forallb (fun p => fst p =? snd p) (combine a b).

Section Ring.
Variable R : Type.
Variables (rO rI : R) (radd rmul rsub : R -> R -> R) (ropp : R -> R).
(* [nonzero a] models the test abs(a) > 1e-15 of CanonicalTensor.from_tensor (tensor.py:739) *)
Variable nonzero : R -> bool.
Variable reqb : R -> R -> bool.

Definition rsum (l : list R) : R := fold_right radd rO l.
Definition sumn (n : nat) (f : nat -> R) : R := rsum (map f (seq 0 n)).

(* ------------------------------------------------------------------ *)
(* matrices and full arrays                                            *)
(* ------------------------------------------------------------------ *)

Record mat := mkmat { mr : nat; mc : nat; me : nat -> nat -> R }.
Record full := mkfull { fsh : list nat; fe : list nat -> R }.

Definition mat_mul (B X : mat) : mat :=                       (* B.dot(X) *)
  mkmat (mr B) (mc X) (fun i r => sumn (mc B) (fun j => rmul (me B i j) (me X j r))).
Definition mat_hstack (A B : mat) : mat :=                    (* np.hstack((A,B)) *)
  mkmat (mr A) (mc A + mc B) (fun i j => if j <? mc A then me A i j else me B i (j - mc A)).
Definition mat_neg (A : mat) : mat := mkmat (mr A) (mc A) (fun i j => ropp (me A i j)).
Definition mat_rows (A : mat) (rs : list nat) : mat :=        (* A[rs] (row selection) *)
  mkmat (length rs) (mc A) (fun i j => me A (nth i rs 0) j).
Definition mat_cols_to (A : mat) (k : nat) : mat :=           (* A[:, :k], 0 <= k *)
  mkmat (mr A) (Nat.min k (mc A)) (me A).
Definition mat_T (A : mat) : mat := mkmat (mc A) (mr A) (fun i j => me A j i).
Definition mat_sub_block (A : mat) (lo hi : nat) : mat :=     (* A[lo:hi, lo:hi], 0 <= lo, hi *)
  mkmat (Nat.min hi (mr A) - lo) (Nat.min hi (mc A) - lo) (fun i j => me A (lo + i) (lo + j)).
Definition mat_eye (n : nat) : mat := mkmat n n (fun i j => if i =? j then rI else rO).

Definition full_neg (A : full) : full := mkfull (fsh A) (fun idx => ropp (fe A idx)).
Definition full_add (A B : full) : full := mkfull (fsh A) (fun idx => radd (fe A idx) (fe B idx)).
Definition full_sub (A B : full) : full := mkfull (fsh A) (fun idx => rsub (fe A idx) (fe B idx)).

(* ------------------------------------------------------------------ *)
(* apply_tprod on a full array: tensor.py:97-128.                      *)
(* Y[i1..in, t] = sum_{j1..jn} prod_k B_k[i_k,j_k] X[j1..jn, t];       *)
(* None = identity; trailing axes t allowed.                           *)
(* ------------------------------------------------------------------ *)
Fixpoint tprod (Bs : list (option mat)) (f : list nat -> R) (idx : list nat) : R :=
  match Bs with
  | [] => f idx
  | ob :: Bs' =>
      match idx with
      | [] => f []
      | i :: idx' =>
          match ob with
          | None => tprod Bs' (fun rest => f (i :: rest)) idx'
          | Some B => sumn (mc B) (fun j => rmul (me B i j) (tprod Bs' (fun rest => f (j :: rest)) idx'))
          end
      end
  end.

Fixpoint tprod_shape (Bs : list (option mat)) (shape : list nat) : list nat :=
  match Bs, shape with
  | ob :: Bs', n :: shape' => (match ob with Some B => mr B | None => n end) :: tprod_shape Bs' shape'
  | _, _ => shape
  end.

Definition full_tprod (Bs : list (option mat)) (A : full) : full :=
  mkfull (tprod_shape Bs (fsh A)) (tprod Bs (fe A)).

(* the loop of tensor.py:119-128 as written: for i in reversed(range(n)) contract axis n-1
   of A with ops[i] (or roll it, for None) and put the new axis first *)
Definition insert_at (k : nat) (x : nat) (l : list nat) : list nat := firstn k l ++ x :: skipn k l.
Definition tprod_step (n : nat) (ob : option mat) (f : list nat -> R) : list nat -> R :=
  fun idx => match idx with
             | [] => rO
             | a :: rest =>
                 match ob with
                 | None => f (insert_at (n - 1) a rest)
                 | Some B => sumn (mc B) (fun j => rmul (me B a j) (f (insert_at (n - 1) j rest)))
                 end
             end.
Definition tprod_loop (Bs : list (option mat)) (f : list nat -> R) : list nat -> R :=
  fold_left (fun g ob => tprod_step (length Bs) ob g) (rev Bs) f.

(* np.pad(X, [(b_k, a_k)], 'constant') with before-widths bs and the new shape *)
Definition full_pad (A : full) (before after : list nat) : full :=
  mkfull (map (fun p => fst p + snd p) (combine (map (fun p => fst p + snd p) (combine before (fsh A))) after))
         (fun idx => if all_ge idx before && all_lt (sub_idx idx before) (fsh A)
                     then fe A (sub_idx idx before) else rO).

(* X[:k1, :k2, ...] *)
Definition full_trunc (A : full) (ks : list nat) : full :=
  mkfull (map (fun p => Nat.min (fst p) (snd p)) (combine ks (fsh A))) (fe A).

(* X.squeeze(axes) *)
Definition full_squeeze (A : full) (axes : list nat) : full :=
  let d := length (fsh A) in
  mkfull (pick (fsh A) (remaining d axes) 0) (fun idx => fe A (unsqueeze d axes idx)).

(* orthogonal ("outer") indexing by per-axis position lists *)
Definition full_select (A : full) (rs : list (list nat)) : full :=
  mkfull (map (@length nat) rs) (fun idx => fe A (map (fun p => nth (snd p) (fst p) 0) (combine rs idx))).

(* ------------------------------------------------------------------ *)
(* CanonicalTensor: tensor.py:689-844.  Xs = one n_k x R matrix per axis *)
(* ------------------------------------------------------------------ *)
Definition canon := list mat.

Definition crank (Xs : canon) : nat := match Xs with [] => 0 | X :: _ => mc X end.
Definition cshape (Xs : canon) : list nat := map mr Xs.

Fixpoint cterm (Xs : canon) (idx : list nat) (r : nat) : R :=
  match Xs, idx with
  | X :: Xs', i :: idx' => rmul (me X i r) (cterm Xs' idx' r)
  | _, _ => rI
  end.
(* asarray, tensor.py:753-758: sum over r of outer(columns r) *)
Definition centry (Xs : canon) (idx : list nat) : R := sumn (crank Xs) (cterm Xs idx).
Definition canon_asarray (Xs : canon) : full := mkfull (cshape Xs) (centry Xs).

Definition canon_zeros (shape : list nat) : canon := map (fun n => mkmat n 0 (fun _ _ => rO)) shape.
Definition canon_ones (shape : list nat) : canon := map (fun n => mkmat n 1 (fun _ _ => rI)) shape.

(* __neg__, tensor.py:797-799: negate the first factor *)
Definition canon_neg (Xs : canon) : canon :=
  match Xs with [] => [] | X :: Xs' => mat_neg X :: Xs' end.

(* __add__ with a CanonicalTensor, tensor.py:803-805 *)
Definition canon_add (A B : canon) : canon :=
  map (fun p => mat_hstack (fst p) (snd p)) (combine A B).

(* nway_prod, tensor.py:772-791 (Bs already padded with None; longer = ValueError) *)
Definition pad_ops (Bs : list (option mat)) (d : nat) : list (option mat) :=
  Bs ++ repeat None (d - length Bs).
Definition factors_nway (Bs : list (option mat)) (Xs : list mat) : list mat :=
  map (fun p => match fst p with Some B => mat_mul B (snd p) | None => snd p end)
      (combine (pad_ops Bs (length Xs)) Xs).

(* squeeze(axis=axes), tensor.py:816-838; axes non-empty, not all axes *)
Definition sq_factor (Xs : canon) (axes : list nat) (r : nat) : R :=
  fold_right (fun i acc => rmul (me (nth i Xs (mkmat 0 0 (fun _ _ => rI))) 0 r) acc) rI axes.
Definition canon_squeeze_some (Xs : canon) (axes : list nat) : canon :=
  match pick Xs (remaining (length Xs) axes) (mkmat 0 0 (fun _ _ => rO)) with
  | [] => []
  | X :: rest => mkmat (mr X) (mc X) (fun i r => rmul (me X i r) (sq_factor Xs axes r)) :: rest
  end.

(* ------------------------------------------------------------------ *)
(* TuckerTensor: tensor.py:847-1046                                    *)
(* ------------------------------------------------------------------ *)
Definition tshape (Us : list mat) : list nat := map mr Us.
(* asarray, tensor.py:908-910 *)
Definition tentry (Us : list mat) (X : full) (idx : list nat) : R := tprod (map Some Us) (fe X) idx.
Definition tucker_asarray (Us : list mat) (X : full) : full := mkfull (tshape Us) (tentry Us X).

(* from_tensor(CanonicalTensor), tensor.py:893-896 (np.fill_diagonal replaced by
   X[np.diag_indices(R, ndim)] = 1, see fixes/C18-tucker-from-1d-canonical.patch) *)
Definition diag_core (d rk : nat) : full :=
  mkfull (repeat rk d) (fun idx => match idx with
                                   | [] => rI
                                   | i :: idx' => if all_same i idx' then rI else rO
                                   end).

(* join_tucker_bases, tensor.py:1030-1046 *)
Definition join_U (U1 U2 : list mat) : list mat :=
  map (fun p => mat_hstack (fst p) (snd p)) (combine U1 U2).
Definition join_X1 (X1 X2 : full) : full := full_pad X1 (map (fun _ => 0) (fsh X1)) (fsh X2).
Definition join_X2 (X1 X2 : full) : full := full_pad X2 (fsh X1) (map (fun _ => 0) (fsh X2)).

(* squeeze(axis=axes), tensor.py:1002-1021; axes non-empty, not all axes *)
Definition tucker_sq_ops (Us : list mat) (axes : list nat) : list (option mat) :=
  map (fun k => if memb k axes then Some (nth k Us (mkmat 0 0 (fun _ _ => rO))) else None) (seq 0 (length Us)).
Definition tucker_squeeze_some (Us : list mat) (X : full) (axes : list nat) : list mat * full :=
  (pick Us (remaining (length Us) axes) (mkmat 0 0 (fun _ _ => rO)),
   full_squeeze (full_tprod (tucker_sq_ops Us axes) X) axes).

(* CanonicalTensor.from_tensor(TuckerTensor), tensor.py:735-745 *)
Definition t2c_indices (X : full) : list (list nat) :=
  filter (fun index => nonzero (fe X index)) (ndindex (fsh X)).
Definition t2c_factor (k : nat) (U : mat) (X : full) (inds : list (list nat)) : mat :=
  mkmat (mr U) (length inds)
        (fun i t => let index := nth t inds [] in
                    let u := me U i (nth k index 0) in
                    if k =? 0 then rmul (fe X index) u else u).
Definition tucker_to_canon (Us : list mat) (X : full) : canon :=
  let inds := t2c_indices X in
  match inds with
  | [] => canon_zeros (tshape Us)
  | _ => map (fun p => t2c_factor (fst p) (snd p) X inds) (combine (seq 0 (length Us)) Us)
  end.

(* ------------------------------------------------------------------ *)
(* the tensors the operations range over                               *)
(* ------------------------------------------------------------------ *)
Inductive tens :=
| TScal (a : R)
| TFull (A : full)
| TCanon (Xs : canon)
| TTucker (Us : list mat) (X : full).

Definition shape_of (t : tens) : list nat :=
  match t with
  | TScal _ => []
  | TFull A => fsh A
  | TCanon Xs => cshape Xs
  | TTucker Us _ => tshape Us
  end.

Definition asarray (t : tens) : full :=
  match t with
  | TScal a => mkfull [] (fun _ => a)
  | TFull A => A
  | TCanon Xs => canon_asarray Xs
  | TTucker Us X => tucker_asarray Us X
  end.

Definition entry (t : tens) (idx : list nat) : R := fe (asarray t) idx.

(* TuckerTensor.from_tensor, tensor.py:890-902 *)
Definition to_tucker (t : tens) : res tens :=
  match t with
  | TCanon Xs => Ok (TTucker Xs (diag_core (length Xs) (crank Xs)))
  | TTucker Us X => Ok t
  | TFull A => Ok (TTucker (map mat_eye (fsh A)) A)
  | TScal _ => Err TypeError
  end.

(* CanonicalTensor.from_tensor, tensor.py:732-747 *)
Definition to_canon (t : tens) : res tens :=
  match t with
  | TTucker Us X => Ok (TCanon (tucker_to_canon Us X))
  | _ => Err TypeError
  end.

Definition neg (t : tens) : res tens :=
  match t with
  | TScal a => Ok (TScal (ropp a))
  | TFull A => Ok (TFull (full_neg A))
  | TCanon Xs => Ok (TCanon (canon_neg Xs))                       (* tensor.py:797 *)
  | TTucker Us X => Ok (TTucker Us (full_neg X))                  (* tensor.py:999 *)
  end.

Definition tucker_addsub (sub : bool) (U1 : list mat) (X1 : full) (U2 : list mat) (X2 : full) : tens :=
  TTucker (join_U U1 U2)
          ((if sub then full_sub else full_add) (join_X1 X1 X2) (join_X2 X1 X2)).

(* __add__: tensor.py:801-811 (Canonical), 979-989 (Tucker) *)
Definition add (t1 t2 : tens) : res tens :=
  match t1, t2 with
  | TCanon A, TCanon B =>
      if list_eqb (cshape A) (cshape B) then Ok (TCanon (canon_add A B)) else Err AssertionError
  | TCanon A, TTucker U2 X2 =>
      if list_eqb (cshape A) (tshape U2)
      then Ok (tucker_addsub false A (diag_core (length A) (crank A)) U2 X2) else Err AssertionError
  | TCanon A, TFull B =>
      if list_eqb (cshape A) (fsh B) then Ok (TFull (full_add (canon_asarray A) B)) else Err AssertionError
  | TTucker U1 X1, TTucker U2 X2 =>
      if list_eqb (tshape U1) (tshape U2) then Ok (tucker_addsub false U1 X1 U2 X2) else Err AssertionError
  | TTucker U1 X1, TCanon B =>
      if list_eqb (tshape U1) (cshape B)
      then Ok (tucker_addsub false U1 X1 B (diag_core (length B) (crank B))) else Err AssertionError
  | TTucker U1 X1, TFull B =>
      if list_eqb (tshape U1) (fsh B) then Ok (TFull (full_add (tucker_asarray U1 X1) B)) else Err AssertionError
  | _, _ => Err TypeError
  end.

(* __sub__: tensor.py:813-814 (Canonical: self + (-T2)), 991-997 (Tucker) *)
Definition sub (t1 t2 : tens) : res tens :=
  match t1, t2 with
  | TTucker U1 X1, TTucker U2 X2 =>
      if list_eqb (tshape U1) (tshape U2) then Ok (tucker_addsub true U1 X1 U2 X2) else Err AssertionError
  | TTucker U1 X1, _ =>
      if list_eqb (tshape U1) (shape_of t2) then bind (neg t2) (add t1) else Err AssertionError
  | TCanon _, _ => bind (neg t2) (add t1)
  | _, _ => Err TypeError
  end.

(* nway_prod / apply_tprod: tensor.py:116-128, 772-791, 954-973 *)
Definition nway (Bs : list (option mat)) (t : tens) : res tens :=
  match t with
  | TCanon Xs => if length Xs <? length Bs then Err ValueError else Ok (TCanon (factors_nway Bs Xs))
  | TTucker Us X => if length Us <? length Bs then Err ValueError else Ok (TTucker (factors_nway Bs Us) X)
  | TFull A => Ok (TFull (full_tprod Bs A))
  | TScal _ => Err TypeError
  end.

Definition zeros_idx (d : nat) : list nat := repeat 0 d.

(* squeeze(axis): tensor.py:816-838, 1002-1021.  axes = None is Some of all singleton axes *)
Definition singleton_axes (shape : list nat) : list nat :=
  filter (fun k => nth k shape 0 =? 1) (seq 0 (length shape)).

Definition squeeze_axes (t : tens) (axes : list nat) : res tens :=
  let shape := shape_of t in
  let d := length shape in
  if negb (forallb (fun i => nth i shape 0 =? 1) axes) then Err ValueError
  else match axes with
       | [] => Ok t
       | _ => if length axes =? d then Ok (TScal (entry t (zeros_idx d)))
              else match t with
                   | TCanon Xs => Ok (TCanon (canon_squeeze_some Xs axes))
                   | TTucker Us X => let '(Us', X') := tucker_squeeze_some Us X axes in Ok (TTucker Us' X')
                   | _ => Err TypeError
                   end
       end.

Definition squeeze (t : tens) (axis : option (list nat)) : res tens :=
  match axis with
  | None => squeeze_axes t (singleton_axes (shape_of t))
  | Some axes => squeeze_axes t axes
  end.

(* __getitem__: tensor.py:840-844, 1023-1027 *)
Definition getitem (t : tens) (I : list index) : res tens :=
  bind (normalize_indices I (shape_of t)) (fun ax =>
    let rows Us := map (fun p => mat_rows (fst p) (snd p)) (combine Us (sel_ranges ax)) in
    match t with
    | TCanon Xs => squeeze_axes (TCanon (rows Xs)) (sel_singletons 0 ax)
    | TTucker Us X => squeeze_axes (TTucker (rows Us) X) (sel_singletons 0 ax)
    | _ => Err TypeError
    end).

(* truncate(k) with a tuple k of non-negative ranks: tensor.py:929-937 *)
Definition truncate (t : tens) (ks : list nat) : res tens :=
  match t with
  | TTucker Us X =>
      if length ks =? length Us
      then Ok (TTucker (map (fun p => mat_cols_to (fst p) (snd p)) (combine Us ks)) (full_trunc X ks))
      else Err AssertionError
  | _ => Err TypeError
  end.

(* pad(X, pad_width), tensor.py:237-258: P_j = rows [b, b+n) of the identity *)
Definition pad_mat (n b a : nat) : mat :=
  mkmat (n + b + a) n (fun i j => if (b <=? i) && (i - b =? j) then rI else rO).
Definition pad (t : tens) (widths : list (option (nat * nat))) : res tens :=
  if negb (length widths =? length (shape_of t)) then Err AssertionError
  else nway (map (fun p => match fst p with
                           | None => None
                           | Some (b, a) => Some (pad_mat (snd p) b a)
                           end) (combine widths (shape_of t))) t.

(* ------------------------------------------------------------------ *)
(* CanonicalOperator: tensor.py:1158-1254.  terms = list of d-tuples   *)
(* ------------------------------------------------------------------ *)
Definition canop := list (list mat).

Fixpoint kterm (term : list mat) (I J : list nat) : R :=
  match term, I, J with
  | A :: term', i :: I', j :: J' => rmul (me A i j) (kterm term' I' J')
  | _, _, _ => rI
  end.
(* the entry ((i1..id),(j1..jd)) of asmatrix(): sum over terms of the Kronecker product *)
Definition kentry (Op : canop) (I J : list nat) : R := rsum (map (fun term => kterm term I J) Op).

Definition canop_T (Op : canop) : canop := map (map mat_T) Op.                         (* :1204 *)
Definition canop_add (A B : canop) : canop := A ++ B.                                   (* :1211 *)
Definition canop_neg (A : canop) : canop :=                                             (* :1216 *)
  map (fun t => match t with [] => [] | X :: t' => mat_neg X :: t' end) A.
Definition alldot (t1 t2 : list mat) : list mat := map (fun p => mat_mul (fst p) (snd p)) (combine t1 t2).
Definition canop_mul (A B : canop) : canop :=                                           (* :1224 *)
  flat_map (fun t1 => map (fun t2 => alldot t1 t2) B) A.
Definition canop_kron (A B : canop) : canop :=                                          (* :1233 *)
  flat_map (fun t1 => map (fun t2 => t1 ++ t2) B) A.
Definition canop_slice (A : canop) (limits : list (nat * nat)) : canop :=               (* :1250 *)
  map (fun term => map (fun p => mat_sub_block (fst p) (fst (snd p)) (snd (snd p))) (combine term limits)) A.
(* apply to a full array: reduce(operator.add, (apply_tprod(t, X) for t in terms))  :1239 *)
Definition canop_apply_entry (Op : canop) (f : list nat -> R) (idx : list nat) : R :=
  rsum (map (fun term => tprod (map Some term) f idx) Op).
Definition canop_in_shape (Op : canop) : list nat := match Op with [] => [] | t :: _ => map mc t end.
Definition canop_out_shape (Op : canop) : list nat := match Op with [] => [] | t :: _ => map mr t end.

(* ------------------------------------------------------------------ *)
(* TensorGenerator: lowrank.py:12-81                                   *)
(* ------------------------------------------------------------------ *)
(* __getitem__: entries at cartesian_product(I_new) reshaped to shape_new, singleton axes squeezed;
   result = (shape, flat C-order data) *)
Definition gen_getitem (shape : list nat) (f : list nat -> R) (I : list index) : res (list nat * list R) :=
  bind (normalize_indices I shape) (fun ax =>
    Ok (pick (sel_shape ax) (remaining (length ax) (sel_singletons 0 ax)) 0,
        map f (product (sel_ranges ax)))).
Definition gen_asarray (shape : list nat) (f : list nat -> R) : list nat * list R :=
  (shape, map f (ndindex shape)).
Fixpoint set_nth (l : list nat) (k : nat) (v : nat) : list nat :=
  match l, k with
  | [], _ => []
  | _ :: l', 0 => v :: l'
  | x :: l', S k' => x :: set_nth l' k' v
  end.
(* matrix_at(I, axes): lowrank.py:60-75 *)
Definition gen_matrix_at (f : list nat -> R) (I : list nat) (a0 a1 : nat) : list nat -> R :=
  fun ab => match ab with
            | [a; b] => f (set_nth (set_nth I a0 a) a1 b)
            | _ => rO
            end.

(* modek_tprod(B, k, X), tensor.py:150-167: contraction of axis k of X with the columns of B, the new
   axis staying in position k:  Y[i_0..i_k..] = sum_j B[i_k, j] X[i_0..j..].  The correspondence run
   evaluates it as apply_tprod with k None placeholders (full_tprod); Proofs.modek_spec shows that the
   two coincide. *)
Definition modek_entry (B : mat) (k : nat) (f : list nat -> R) (idx : list nat) : R :=
  sumn (mc B) (fun j => rmul (me B (nth k idx 0) j) (f (set_nth idx k j))).
Definition modek_ops (B : mat) (k : nat) : list (option mat) := repeat None k ++ [Some B].

(* ------------------------------------------------------------------ *)
(* lowrank_cy.pyx:4-31 and one cross step of lowrank.aca (lowrank.py:104-134) *)
(* ------------------------------------------------------------------ *)
Definition rank_1_update (X : mat) (alpha : R) (u v : nat -> R) : mat :=
  mkmat (mr X) (mc X) (fun i j => radd (me X i j) (rmul (rmul alpha (u i)) (v j))).
Definition aca3d_update (X : full) (alpha : R) (u : nat -> R) (V : nat -> nat -> R) : full :=
  mkfull (fsh X) (fun idx => match idx with
                             | [i; j; k] => radd (fe X idx) (rmul (rmul alpha (u i)) (V j k))
                             | _ => fe X idx
                             end).
(* E_row = X[i,:] - A[i,:]; col = A[:,j0] - X[:,j0]; rank_1_update(X, 1/E_row[j0], col, E_row);
   alpha stands for 1 / E_row[j0] *)
Definition aca_E_row (A X : mat) (i : nat) : nat -> R := fun j => rsub (me X i j) (me A i j).
Definition aca_col (A X : mat) (j0 : nat) : nat -> R := fun a => rsub (me A a j0) (me X a j0).
Definition aca_step (A X : mat) (i j0 : nat) (alpha : R) : mat :=
  rank_1_update X alpha (aca_col A X j0) (aca_E_row A X i).

(* ------------------------------------------------------------------ *)
(* find_truncation_rank, tensor.py:186-207 (greedy truncation of a HOSVD core), in exact arithmetic:
   err**2 of _find_best_truncation_axis is the squared norm of the last slice along the axis *)
(* ------------------------------------------------------------------ *)
Variable rltb : R -> R -> bool.      (* a < b *)

Definition sqnorm (shape : list nat) (f : list nat -> R) : R :=
  rsum (map (fun idx => rmul (f idx) (f idx)) (ndindex shape)).
(* the multi-indices of np.swapaxes(X, ax, 0)[-1] *)
Definition last_slice (shape : list nat) (ax : nat) : list (list nat) :=
  product (map (seq 0) (firstn ax shape) ++ [nth ax shape 0 - 1] :: map (seq 0) (skipn (S ax) shape)).
Definition slice_sq (shape : list nat) (f : list nat -> R) (ax : nat) : R :=
  rsum (map (fun idx => rmul (f idx) (f idx)) (last_slice shape ax)).
(* sl[ax] = slice(None, -1) *)
Definition dec_axis (shape : list nat) (ax : nat) : list nat :=
  firstn ax shape ++ (nth ax shape 0 - 1) :: skipn (S ax) shape.
(* np.argmin: first minimal entry *)
Fixpoint argmin_aux (best : nat) (bestv : R) (k : nat) (vs : list R) : nat * R :=
  match vs with
  | [] => (best, bestv)
  | v :: vs' => if rltb v bestv then argmin_aux k v (S k) vs' else argmin_aux best bestv (S k) vs'
  end.
Definition best_axis (shape : list nat) (f : list nat -> R) : nat * R :=
  match map (slice_sq shape f) (seq 0 (length shape)) with
  | [] => (0, rO)
  | v :: vs => argmin_aux 0 v 1 vs
  end.
(* the while loop; returns the final shape and the accumulated squared error of the slices that
   were actually cut off (the code keeps adding before it tests: the rejected slice is not cut) *)
Fixpoint trunc_loop (fuel : nat) (shape : list nat) (f : list nat -> R) (tolsq total : R) : list nat * R :=
  match fuel with
  | 0 => (shape, total)
  | S fuel' =>
      match shape with
      | [] => (shape, total)
      | _ =>
          if existsb (Nat.eqb 0) shape then (shape, total)          (* X.size == 0 *)
          else let '(ax, e2) := best_axis shape f in
               let total' := radd total e2 in
               if rltb tolsq total' then (shape, total)
               else trunc_loop fuel' (dec_axis shape ax) f tolsq total'
      end
  end.
Definition find_truncation_rank (X : full) (tolsq : R) : list nat * R :=
  trunc_loop (S (fold_right Nat.add 0 (fsh X))) (fsh X) (fe X) tolsq rO.

(* ------------------------------------------------------------------ *)
(* literals for the correspondence run                                 *)
(* ------------------------------------------------------------------ *)
Definition lmat := (nat * nat * list (list R))%type.
Definition mat_of (l : lmat) : mat :=
  let '(r, c, d) := l in mkmat r c (fun i j => nth j (nth i d []) rO).
Definition mat_tab (M : mat) : lmat :=
  (mr M, mc M, map (fun i => map (fun j => me M i j) (seq 0 (mc M))) (seq 0 (mr M))).
Definition lfull := (list nat * list R)%type.
Definition full_of (l : lfull) : full :=
  let '(sh, d) := l in mkfull sh (fun idx => nth (ravel sh idx) d rO).
Definition full_tab (A : full) : lfull := (fsh A, map (fe A) (ndindex (fsh A))).

Inductive lit :=
| LScal (a : R)
| LFull (A : lfull)
| LCanon (Xs : list lmat)
| LTucker (Us : list lmat) (X : lfull)
| LErr (e : err).

Definition tens_of (l : lit) : tens :=
  match l with
  | LScal a => TScal a
  | LFull A => TFull (full_of A)
  | LCanon Xs => TCanon (map mat_of Xs)
  | LTucker Us X => TTucker (map mat_of Us) (full_of X)
  | LErr _ => TScal rO
  end.
Definition tab (t : res tens) : lit :=
  match t with
  | Err e => LErr e
  | Ok (TScal a) => LScal a
  | Ok (TFull A) => LFull (full_tab A)
  | Ok (TCanon Xs) => LCanon (map mat_tab Xs)
  | Ok (TTucker Us X) => LTucker (map mat_tab Us) (full_tab X)
  end.

Fixpoint leqb {A} (e : A -> A -> bool) (a b : list A) : bool :=
  match a, b with
  | [], [] => true
  | x :: a', y :: b' => e x y && leqb e a' b'
  | _, _ => false
  end.
Definition lmat_eqb (a b : lmat) : bool :=
  let '(r1, c1, d1) := a in let '(r2, c2, d2) := b in
  (r1 =? r2) && (c1 =? c2) && leqb (leqb reqb) d1 d2.
Definition lfull_eqb (a b : lfull) : bool := leqb Nat.eqb (fst a) (fst b) && leqb reqb (snd a) (snd b).
Definition err_eqb (a b : err) : bool :=
  match a, b with
  | IndexError, IndexError | ValueError, ValueError | AssertionError, AssertionError | TypeError, TypeError => true
  | _, _ => false
  end.
Definition lit_eqb (a b : lit) : bool :=
  match a, b with
  | LScal x, LScal y => reqb x y
  | LFull x, LFull y => lfull_eqb x y
  | LCanon x, LCanon y => leqb lmat_eqb x y
  | LTucker u x, LTucker v y => leqb lmat_eqb u v && lfull_eqb x y
  | LErr e, LErr f => err_eqb e f
  | _, _ => false
  end.


(* ------------------------------------------------------------------ *)
(* one step of the correspondence run                                  *)
(* ------------------------------------------------------------------ *)
Inductive op :=
| OAdd | OSub | ONeg | OToTucker | OToCanon | OAsarray | OJoin1 | OJoin2 | OCopy
| OGetitem (I : list index)
| OSqueeze (axis : option (list nat))
| ONway (Bs : list (option lmat))
| OTruncate (ks : list nat)
| OPad (w : list (option (nat * nat)))
| OZerosC (shape : list nat) | OOnesC (shape : list nat)
| OZerosT (shape : list nat) | OOnesT (shape : list nat).

Definition join_op (first : bool) (a b : tens) : res tens :=
  match a, b with
  | TTucker U1 X1, TTucker U2 X2 =>
      if list_eqb (tshape U1) (tshape U2)
      then Ok (TTucker (join_U U1 U2) (if first then join_X1 X1 X2 else join_X2 X1 X2))
      else Err AssertionError
  | _, _ => Err TypeError
  end.

Definition run_op (o : op) (args : list lit) : lit :=
  let a := tens_of (nth 0 args (LErr TypeError)) in
  let b := tens_of (nth 1 args (LErr TypeError)) in
  match o with
  | OAdd => tab (add a b)
  | OSub => tab (sub a b)
  | ONeg => tab (neg a)
  | OToTucker => tab (to_tucker a)
  | OToCanon => tab (to_canon a)
  | OAsarray => LFull (full_tab (asarray a))
  | OJoin1 => tab (join_op true a b)
  | OJoin2 => tab (join_op false a b)
  | OCopy => tab (Ok a)
  | OGetitem II => tab (getitem a II)
  | OSqueeze ax => tab (squeeze a ax)
  | ONway Bs => tab (nway (map (option_map mat_of) Bs) a)
  | OTruncate ks => tab (truncate a ks)
  | OPad w => tab (pad a w)
  | OZerosC sh => tab (Ok (TCanon (canon_zeros sh)))
  | OOnesC sh => tab (Ok (TCanon (canon_ones sh)))
  | OZerosT sh => tab (to_tucker (TCanon (canon_zeros sh)))
  | OOnesT sh => tab (to_tucker (TCanon (canon_ones sh)))
  end.

Definition check_step (c : op * list lit * lit) : bool :=
  let '(o, args, expected) := c in lit_eqb (run_op o args) expected.

(* _normalize_indices alone *)
Definition axes_eqb (a b : list (list nat * bool)) : bool :=
  leqb (fun x y => leqb Nat.eqb (fst x) (fst y) && Bool.eqb (snd x) (snd y)) a b.
Definition check_norm (c : list nat * list index * res (list (list nat * bool))) : bool :=
  let '(shape, II, expected) := c in
  match normalize_indices II shape, expected with
  | Ok a, Ok b => axes_eqb a b
  | Err e, Err f => err_eqb e f
  | _, _ => false
  end.

(* TensorGenerator *)
Inductive gop := GGet (I : list index) | GAsarray | GMatrixAt (I : list nat) (a0 a1 : nat).
Definition run_gop (A : lfull) (o : gop) : res lfull :=
  let F := full_of A in
  match o with
  | GGet II => gen_getitem (fsh F) (fe F) II
  | GAsarray => Ok (gen_asarray (fsh F) (fe F))
  | GMatrixAt II a0 a1 =>
      let sh := [nth a0 (fsh F) 0; nth a1 (fsh F) 0] in
      Ok (gen_asarray sh (gen_matrix_at (fe F) II a0 a1))
  end.
Definition check_gen (c : lfull * gop * res lfull) : bool :=
  let '(A, o, expected) := c in
  match run_gop A o, expected with
  | Ok a, Ok b => lfull_eqb a b
  | Err e, Err f => err_eqb e f
  | _, _ => false
  end.

(* CanonicalOperator *)
Inductive cop := CT | CAdd | CNeg | CSub | CMul | CKron | CSlice (limits : list (nat * nat)).
Definition canop_of (A : list (list lmat)) : canop := map (map mat_of) A.
Definition run_cop (o : cop) (A B : canop) : canop :=
  match o with
  | CT => canop_T A
  | CAdd => canop_add A B
  | CNeg => canop_neg A
  | CSub => canop_add A (canop_neg B)
  | CMul => canop_mul A B
  | CKron => canop_kron A B
  | CSlice l => canop_slice A l
  end.
(* asmatrix() as a dense matrix, rows/columns in C (ravel) order *)
Definition canop_dense (Op : canop) : list (list R) :=
  map (fun I => map (fun J => kentry Op I J) (ndindex (canop_in_shape Op))) (ndindex (canop_out_shape Op)).
(* (op, A, B, expected terms, expected asmatrix of the result) *)
Definition check_cop (c : cop * list (list lmat) * list (list lmat) * list (list lmat) * list (list R)) : bool :=
  let '(o, A, B, eterms, edense) := c in
  let C := run_cop o (canop_of A) (canop_of B) in
  leqb (leqb lmat_eqb) (map (map mat_tab) C) eterms && leqb (leqb reqb) (canop_dense C) edense.
(* A.apply(X) for a full array X *)
Definition check_capply (c : list (list lmat) * lfull * lfull) : bool :=
  let '(A, X, expected) := c in
  let Op := canop_of A in
  lfull_eqb (full_tab (mkfull (canop_out_shape Op) (canop_apply_entry Op (fe (full_of X))))) expected.

(* rank_1_update / aca3d_update on literals *)
Definition check_r1 (c : lmat * R * list R * list R * lmat) : bool :=
  let '(X, alpha, u, v, expected) := c in
  lmat_eqb (mat_tab (rank_1_update (mat_of X) alpha (fun i => nth i u rO) (fun j => nth j v rO))) expected.
Definition check_r3 (c : lfull * R * list R * lmat * lfull) : bool :=
  let '(X, alpha, u, V, expected) := c in
  lfull_eqb (full_tab (aca3d_update (full_of X) alpha (fun i => nth i u rO) (me (mat_of V)))) expected.

(* find_truncation_rank(X, tol) with tol^2 given *)
Definition check_trunc (c : lfull * R * list nat) : bool :=
  let '(X, tolsq, expected) := c in
  leqb Nat.eqb (fst (find_truncation_rank (full_of X) tolsq)) expected.

(* indices of the cases that disagree *)
Fixpoint bad {A} (chk : A -> bool) (k : nat) (cs : list A) : list nat :=
  match cs with
  | [] => []
  | c :: cs' => if chk c then bad chk (S k) cs' else k :: bad chk (S k) cs'
  end.

End Ring.
