(* C07 -- proofs about the model of coq/C07/Model.v. *)
From Coq Require Import QArith Qcanon ZArith List Arith Bool Lia.
From Verif.lib Require Import Bsp.
From Verif.C02 Require Import Proofs.
From Verif.C07 Require Import Model.
Import ListNotations.
Open Scope Qc_scope.

(* ------------------------------------------------------------------ *)
(* one axis *)

Lemma rdot_ext : forall r off f g, (forall i, f i = g i) -> rdot off r f = rdot off r g.
Proof. induction r; intros; simpl; [reflexivity|]. rewrite H, (IHr (S off) f g H). reflexivity. Qed.

Lemma rdot_add : forall r off f g, rdot off r (fun i => f i + g i) = rdot off r f + rdot off r g.
Proof. induction r; intros; simpl; [ring|]. rewrite IHr. ring. Qed.

Lemma rdot_scal : forall r off a f, rdot off r (fun i => a * f i) = a * rdot off r f.
Proof. induction r; intros; simpl; [ring|]. rewrite IHr. ring. Qed.

Definition rsum (r : list Qc) : Qc := fold_right Qcplus 0 r.

Lemma rdot_const : forall r off a, rdot off r (fun _ => a) = rsum r * a.
Proof. induction r; intros; simpl; [ring|]. rewrite IHr. ring. Qed.

Lemma rdot_swap : forall r off s off' (F : nat -> nat -> Qc),
  rdot off r (fun i => rdot off' s (fun k => F i k)) = rdot off' s (fun k => rdot off r (fun i => F i k)).
Proof.
  induction r; intros; simpl.
  - revert off'. induction s; intros; simpl; [reflexivity|]. rewrite <- IHs. ring.
  - rewrite IHr. rewrite <- rdot_scal, <- rdot_add. reflexivity.
Qed.

(* ------------------------------------------------------------------ *)
(* tensor-product contraction *)

Lemma tp_eval_ext_len : forall rows C D,
  (forall idx, length idx = length rows -> C idx = D idx) -> tp_eval rows C = tp_eval rows D.
Proof.
  induction rows as [|[off r] rs IH]; intros C D H; simpl.
  - apply H. reflexivity.
  - apply rdot_ext. intros i. apply IH. intros idx Hl. apply H. simpl. lia.
Qed.

Lemma tp_eval_ext : forall rows C D, (forall idx, C idx = D idx) -> tp_eval rows C = tp_eval rows D.
Proof. intros. apply tp_eval_ext_len. auto. Qed.

Lemma tp_eval_add : forall rows C D,
  tp_eval rows (fun i => C i + D i) = tp_eval rows C + tp_eval rows D.
Proof.
  induction rows as [|[off r] rs IH]; intros; simpl; [reflexivity|].
  rewrite <- rdot_add. apply rdot_ext. intros. apply IH.
Qed.

Lemma tp_eval_scal : forall rows a C, tp_eval rows (fun i => a * C i) = a * tp_eval rows C.
Proof.
  induction rows as [|[off r] rs IH]; intros; simpl; [reflexivity|].
  rewrite <- rdot_scal. apply rdot_ext. intros. apply IH.
Qed.

Lemma tp_eval_scal_r : forall rows a C, tp_eval rows (fun i => C i * a) = tp_eval rows C * a.
Proof.
  intros. rewrite Qcmult_comm, <- tp_eval_scal. apply tp_eval_ext. intros. ring.
Qed.

(* partition of unity of a list of rows: every row sums to one *)
Definition pou (rows : list orow) : Prop := Forall (fun r => rsum (snd r) = 1) rows.

Lemma tp_eval_const : forall rows a, pou rows -> tp_eval rows (fun _ => a) = a.
Proof.
  induction rows as [|[off r] rs IH]; intros a H; simpl; [reflexivity|].
  inversion H; subst. simpl in *.
  rewrite (rdot_ext r off _ (fun _ => a)) by (intros; apply IH; assumption).
  rewrite rdot_const, H2. ring.
Qed.

Lemma tp_eval_rdot : forall rows s off (F : list nat -> nat -> Qc),
  tp_eval rows (fun idx => rdot off s (F idx)) = rdot off s (fun k => tp_eval rows (fun idx => F idx k)).
Proof.
  induction rows as [|[o r] rs IH]; intros; simpl; [reflexivity|].
  rewrite <- rdot_swap. apply rdot_ext. intros i. apply IH.
Qed.

(* currying over two groups of axes *)
Lemma tp_eval_app : forall r1 r2 C,
  tp_eval (r1 ++ r2) C = tp_eval r1 (fun i1 => tp_eval r2 (fun i2 => C (i1 ++ i2))).
Proof.
  induction r1 as [|[off r] rs IH]; intros; simpl; [reflexivity|].
  apply rdot_ext. intros i. rewrite IH. reflexivity.
Qed.

Lemma firstn_app_len {A} (a b : list A) n : length a = n -> firstn n (a ++ b) = a.
Proof. intros <-. rewrite firstn_app, Nat.sub_diag, firstn_all. simpl. apply app_nil_r. Qed.
Lemma skipn_app_len {A} (a b : list A) n : length a = n -> skipn n (a ++ b) = b.
Proof. intros <-. rewrite skipn_app, Nat.sub_diag, skipn_all. reflexivity. Qed.

Lemma tp_eval_app_fst : forall r1 r2 C1, pou r2 ->
  tp_eval (r1 ++ r2) (fun idx => C1 (firstn (length r1) idx)) = tp_eval r1 C1.
Proof.
  intros. rewrite tp_eval_app. apply tp_eval_ext_len. intros i1 Hl.
  rewrite (tp_eval_ext r2 _ (fun _ => C1 i1)).
  - apply tp_eval_const. assumption.
  - intros. rewrite firstn_app_len; auto.
Qed.

Lemma tp_eval_app_snd : forall r1 r2 C2, pou r1 ->
  tp_eval (r1 ++ r2) (fun idx => C2 (skipn (length r1) idx)) = tp_eval r2 C2.
Proof.
  intros. rewrite tp_eval_app.
  rewrite (tp_eval_ext_len r1 _ (fun _ => tp_eval r2 C2)).
  - apply tp_eval_const. assumption.
  - intros i1 Hl. apply tp_eval_ext. intros. rewrite skipn_app_len; auto.
Qed.

Lemma tp_eval_app_mul : forall r1 r2 C1 C2,
  tp_eval (r1 ++ r2) (fun idx => C1 (firstn (length r1) idx) * C2 (skipn (length r1) idx))
  = tp_eval r1 C1 * tp_eval r2 C2.
Proof.
  intros. rewrite tp_eval_app.
  rewrite (tp_eval_ext_len r1 _ (fun i1 => C1 i1 * tp_eval r2 C2)).
  - apply tp_eval_scal_r.
  - intros i1 Hl. rewrite <- tp_eval_scal. apply tp_eval_ext. intros.
    rewrite firstn_app_len, skipn_app_len; auto.
Qed.

(* ------------------------------------------------------------------ *)
(* rows of a product space *)

Lemma zip3_app {A B C} : forall (a1 : list A) (b1 : list B) (c1 : list C) a2 b2 c2,
  length a1 = length b1 -> length a1 = length c1 ->
  zip3 (a1 ++ a2) (b1 ++ b2) (c1 ++ c2) = zip3 a1 b1 c1 ++ zip3 a2 b2 c2.
Proof.
  induction a1; intros [|y b1] [|z c1]; intros; simpl in *; try discriminate; [reflexivity|].
  f_equal. apply IHa1; lia.
Qed.

Lemma zip3_length {A B C} : forall (a : list A) (b : list B) (c : list C),
  length a = length b -> length a = length c -> length (zip3 a b c) = length a.
Proof.
  induction a; intros [|y b] [|z c]; intros; simpl in *; try discriminate; [reflexivity|].
  f_equal. apply IHa; lia.
Qed.

Lemma zerov_app n1 n2 : zerov (n1 + n2) = zerov n1 ++ zerov n2.
Proof. unfold zerov. apply repeat_app. Qed.

Lemma grid_rows_app : forall k1 k2 u1 u2 nd,
  length u1 = length k1 ->
  grid_rows (k1 ++ k2) (u1 ++ u2) nd (zerov (length k1 + length k2))
  = grid_rows k1 u1 nd (zerov (length k1)) ++ grid_rows k2 u2 nd (zerov (length k2)).
Proof.
  intros. unfold grid_rows. rewrite zerov_app, zip3_app, map_app; auto.
  unfold zerov. rewrite repeat_length. reflexivity.
Qed.

Lemma grid_rows_length : forall k u nd, length u = length k ->
  length (grid_rows k u nd (zerov (length k))) = length k.
Proof.
  intros. unfold grid_rows. rewrite map_length, zip3_length; auto.
  unfold zerov. rewrite repeat_length. reflexivity.
Qed.

(* partition of unity of the collocation rows of a function at a grid point
   (C02: the B-splines of an open knot vector sum to one on its support) *)
Definition pou_at (k : list KV) (us : list Qc) : Prop := pou (grid_rows k us 0 (zerov (length k))).

(* ------------------------------------------------------------------ *)
(* operations on B-spline functions *)

Lemma translate_spec_l : forall f off us c,
  pou_at (kvs f) us -> g_val (b_translate f off) us c = g_val f us c + off c.
Proof.
  intros f off us c H. unfold g_val, b_translate, sdim. simpl.
  rewrite tp_eval_add. f_equal. apply tp_eval_const. exact H.
Qed.

Lemma scale_spec_l : forall f fac us c, g_val (b_scale f fac) us c = g_val f us c * fac c.
Proof. intros. unfold g_val, b_scale, sdim. simpl. apply tp_eval_scal_r. Qed.

Lemma matrix_spec_l : forall f A rows us c,
  g_val (b_matrix f A rows) us c = rdot 0 (map (A c) (seq 0 (nc f))) (fun k => g_val f us k).
Proof. intros. unfold g_val, b_matrix, sdim. simpl. apply tp_eval_rdot. Qed.

Lemma getitem_spec_l : forall f cs us c, g_val (b_select f cs) us c = g_val f us (nth c cs 0%nat).
Proof. intros. reflexivity. Qed.

Lemma nurbs_getitem_spec_l : forall f cs us c, (c < length cs)%nat ->
  n_val (n_select f cs) us c = n_val f us (nth c cs 0%nat).
Proof.
  intros f cs us c Hc. unfold n_val, g_val, n_select, wcomp, sdim. cbn [kvs co nc].
  replace (S (length cs) - 1)%nat with (length cs) by lia.
  assert (E1 : (c <? length cs)%nat = true) by (apply Nat.ltb_lt; exact Hc).
  rewrite E1, Nat.ltb_irrefl. reflexivity.
Qed.

(* Python index semantics: a negative int counts from the end; the full slice is the identity
   selection, [::-1] the reversed one *)
Lemma py_wrap_spec_l : forall n i,
  (forall k, (k < n)%nat -> py_wrap n (Z.of_nat k) = Some k)
  /\ ((1 <= i <= n)%nat -> py_wrap n (- Z.of_nat i) = Some (n - i)%nat)
  /\ py_wrap n (Z.of_nat n + Z.of_nat i) = None /\ py_wrap n (- Z.of_nat n - 1 - Z.of_nat i) = None.
Proof.
  intros n i. unfold py_wrap. repeat split.
  - intros k Hk.
    destruct (Z.leb_spec 0 (Z.of_nat k)); [|lia]. destruct (Z.ltb_spec (Z.of_nat k) (Z.of_nat n)); [|lia].
    simpl. rewrite Nat2Z.id. reflexivity.
  - intros Hi.
    destruct (Z.leb_spec 0 (- Z.of_nat i)); [lia|]. simpl.
    destruct (Z.leb_spec (- Z.of_nat n) (- Z.of_nat i)); [|lia].
    destruct (Z.ltb_spec (- Z.of_nat i) 0); [|lia]. simpl. f_equal. lia.
  - destruct (Z.ltb_spec (Z.of_nat n + Z.of_nat i) (Z.of_nat n)); [lia|]. rewrite andb_false_r.
    destruct (Z.ltb_spec (Z.of_nat n + Z.of_nat i) 0); [lia|]. rewrite andb_false_r. reflexivity.
  - destruct (Z.leb_spec 0 (- Z.of_nat n - 1 - Z.of_nat i)); [lia|]. simpl.
    destruct (Z.leb_spec (- Z.of_nat n) (- Z.of_nat n - 1 - Z.of_nat i)); [lia|]. reflexivity.
Qed.

Lemma full_slice_l : forall n, py_slice n None None 1 = seq 0 n.
Proof.
  intros n. unfold py_slice. simpl Z.eqb. simpl Z.ltb. cbv iota.
  replace ((Z.of_nat n - 0 + 1 - 1) / 1)%Z with (Z.of_nat n) by (rewrite Z.div_1_r; lia).
  rewrite Nat2Z.id. rewrite <- (map_id (seq 0 n)) at 2. apply map_ext. intros k. lia.
Qed.

Lemma rev_seq0' : forall n, rev (seq 0 n) = map (fun a => (n - 1 - a)%nat) (seq 0 n).
Proof.
  induction n; [reflexivity|].
  rewrite seq_S at 1. rewrite rev_app_distr. simpl rev. simpl app. rewrite IHn.
  cbn [seq map]. f_equal; [lia|].
  rewrite <- seq_shift, map_map. apply map_ext. intros. lia.
Qed.

Lemma reverse_slice_l : forall n, py_slice n None None (-1) = rev (seq 0 n).
Proof.
  intros n. unfold py_slice. simpl Z.eqb. simpl Z.ltb. cbv iota.
  replace ((Z.of_nat n - 1 - -1 - -1 - 1) / - -1)%Z with (Z.of_nat n) by (simpl Z.opp; rewrite Z.div_1_r; lia).
  rewrite Nat2Z.id, rev_seq0'. apply map_ext_in. intros k Hk. apply in_seq in Hk. lia.
Qed.

Lemma as_nurbs_spec_l : forall f us c, (c < nc f)%nat -> pou_at (kvs f) us ->
  n_val (b_as_nurbs f) us c = g_val f us c.
Proof.
  intros f us c Hc H. unfold n_val, g_val, b_as_nurbs, mk_nurbs, wcomp, sdim. simpl.
  rewrite Nat.sub_0_r.
  assert (E1 : (c <? nc f)%nat = true) by (apply Nat.ltb_lt; exact Hc).
  assert (E2 : (nc f <? nc f)%nat = false) by (apply Nat.ltb_irrefl).
  rewrite E1, E2.
  rewrite (tp_eval_const _ 1 H).
  rewrite (tp_eval_ext _ _ (fun idx => co f idx c)) by (intros; ring).
  field. intro E; discriminate E.
Qed.

(* operations on NURBS functions: no partition of unity needed, the weight function cancels *)
Lemma wcomp_mk_nurbs : forall kv C W m, wcomp (mk_nurbs kv C W m) = m.
Proof. intros. unfold wcomp, mk_nurbs. simpl. lia. Qed.

Lemma g_val_mk_nurbs_num : forall kv C W m us c, (c < m)%nat ->
  g_val (mk_nurbs kv C W m) us c = tp_eval (grid_rows kv us 0 (zerov (length kv))) (fun idx => C idx c * W idx).
Proof.
  intros. unfold g_val, mk_nurbs, sdim. simpl.
  assert (E : (c <? m)%nat = true) by (apply Nat.ltb_lt; assumption). rewrite E. reflexivity.
Qed.

Lemma g_val_mk_nurbs_w : forall kv C W m us,
  g_val (mk_nurbs kv C W m) us m = tp_eval (grid_rows kv us 0 (zerov (length kv))) W.
Proof.
  intros. unfold g_val, mk_nurbs, sdim. simpl. rewrite Nat.ltb_irrefl. reflexivity.
Qed.

Lemma n_val_mk_nurbs : forall kv C W m us c, (c < m)%nat ->
  n_val (mk_nurbs kv C W m) us c
  = tp_eval (grid_rows kv us 0 (zerov (length kv))) (fun idx => C idx c * W idx)
    / tp_eval (grid_rows kv us 0 (zerov (length kv))) W.
Proof.
  intros. unfold n_val. rewrite wcomp_mk_nurbs, g_val_mk_nurbs_num, g_val_mk_nurbs_w by assumption. reflexivity.
Qed.

Lemma n_translate_spec_l : forall f off us c,
  (c < wcomp f)%nat -> (forall idx, co f idx (wcomp f) <> 0) -> g_val f us (wcomp f) <> 0 ->
  n_val (n_translate f off) us c = n_val f us c + off c.
Proof.
  intros f off us c Hc Hw HW.
  unfold n_translate. rewrite n_val_mk_nurbs by exact Hc. unfold n_C, n_W.
  rewrite (tp_eval_ext _ _ (fun idx => co f idx c + off c * co f idx (wcomp f))).
  2:{ intros idx. field. apply Hw. }
  rewrite tp_eval_add, tp_eval_scal.
  unfold n_val, g_val in *. unfold sdim in *. field. exact HW.
Qed.

Lemma n_scale_spec_l : forall f fac us c,
  (c < wcomp f)%nat -> (forall idx, co f idx (wcomp f) <> 0) -> g_val f us (wcomp f) <> 0 ->
  n_val (n_scale f fac) us c = n_val f us c * fac c.
Proof.
  intros f fac us c Hc Hw HW.
  unfold n_scale. rewrite n_val_mk_nurbs by exact Hc. unfold n_C, n_W.
  rewrite (tp_eval_ext _ _ (fun idx => co f idx c * fac c)).
  2:{ intros idx. field. apply Hw. }
  rewrite tp_eval_scal_r.
  unfold n_val, g_val in *. unfold sdim in *. field. exact HW.
Qed.

(* ------------------------------------------------------------------ *)
(* outer sum / product, tensor product of B-spline functions *)

Section Outer.
Variables (f1 f2 : bsp) (u1 u2 : list Qc).
Hypothesis L1 : length u1 = sdim f1.
Hypothesis L2 : length u2 = sdim f2.

Let R1 := grid_rows (kvs f1) u1 0 (zerov (sdim f1)).
Let R2 := grid_rows (kvs f2) u2 0 (zerov (sdim f2)).

Lemma outer_rows :
  grid_rows (kvs f1 ++ kvs f2) (u1 ++ u2) 0 (zerov (length (kvs f1 ++ kvs f2))) = R1 ++ R2.
Proof. rewrite app_length. apply grid_rows_app. exact L1. Qed.

Lemma R1_len : length R1 = sdim f1.
Proof. apply grid_rows_length. exact L1. Qed.

Lemma outer_sum_spec_l : forall c, pou_at (kvs f1) u1 -> pou_at (kvs f2) u2 ->
  g_val (b_outer_sum f1 f2) (u1 ++ u2) c = g_val f1 u1 c + g_val f2 u2 c.
Proof.
  intros c P1 P2. unfold g_val at 1. unfold sdim at 1. unfold b_outer_sum. cbn [kvs co nc].
  rewrite outer_rows, tp_eval_add. unfold split1, split2. rewrite <- R1_len.
  rewrite (tp_eval_app_fst R1 R2 (fun idx => co f1 idx c) P2).
  rewrite (tp_eval_app_snd R1 R2 (fun idx => co f2 idx c) P1). reflexivity.
Qed.

Lemma outer_product_spec_l : forall c,
  g_val (b_outer_product f1 f2) (u1 ++ u2) c = g_val f1 u1 c * g_val f2 u2 c.
Proof.
  intros c. unfold g_val at 1. unfold sdim at 1. unfold b_outer_product. cbn [kvs co nc].
  rewrite outer_rows. unfold split1, split2. rewrite <- R1_len.
  apply (tp_eval_app_mul R1 R2 (fun idx => co f1 idx c) (fun idx => co f2 idx c)).
Qed.

Lemma tensor_product_spec_l : forall c, pou_at (kvs f1) u1 -> pou_at (kvs f2) u2 ->
  g_val (b_tensor_product f1 f2) (u1 ++ u2) c
  = if (c <? nc f2)%nat then g_val f2 u2 c else g_val f1 u1 (c - nc f2).
Proof.
  intros c P1 P2. unfold g_val at 1. unfold sdim at 1. unfold b_tensor_product. cbn [kvs co nc].
  rewrite outer_rows. unfold split1, split2. rewrite <- R1_len.
  destruct (c <? nc f2)%nat.
  - apply (tp_eval_app_snd R1 R2 (fun idx => co f2 idx c) P1).
  - apply (tp_eval_app_fst R1 R2 (fun idx => co f1 idx (c - nc f2)) P2).
Qed.
End Outer.

(* ------------------------------------------------------------------ *)
(* the dense collocation row and the (first index, p+1 values) form are the same functional *)

Definition row_equiv (a b : orow) : Prop := forall g, rdot (fst a) (snd a) g = rdot (fst b) (snd b) g.

Lemma tp_eval_equiv : forall R1 R2, Forall2 row_equiv R1 R2 -> forall C, tp_eval R1 C = tp_eval R2 C.
Proof.
  induction 1 as [|[o1 r1] [o2 r2] R1 R2 H H2 IH]; intros C; simpl; [reflexivity|].
  rewrite (H _). simpl. apply rdot_ext. intros i. apply IH.
Qed.

Lemma rdot_app : forall a b off g, rdot off (a ++ b) g = rdot off a g + rdot (off + length a) b g.
Proof.
  induction a; intros; simpl.
  - rewrite Nat.add_0_r. ring.
  - rewrite IHa. replace (S off + length a0)%nat with (off + S (length a0))%nat by lia. ring.
Qed.

Lemma rdot_zero : forall r off g, Forall (fun x => x = 0) r -> rdot off r g = 0.
Proof.
  induction r; intros; simpl; [reflexivity|]. inversion H; subst. rewrite IHr by assumption. ring.
Qed.

Lemma window_row : forall (vals : list Qc) fa p n g,
  length vals = S p -> (fa + p < n)%nat ->
  rdot 0 (map (fun j => if ((fa <=? j) && (j <=? fa + p))%nat then nth (j - fa) vals 0 else 0) (seq 0 n)) g
  = rdot fa vals g.
Proof.
  intros vals fa p n g Hl Hn.
  set (h := fun j => if ((fa <=? j) && (j <=? fa + p))%nat then nth (j - fa) vals 0 else 0).
  replace n with (fa + (S p + (n - fa - S p)))%nat by lia.
  rewrite !seq_app, !map_app, !rdot_app. rewrite !map_length, !seq_length. simpl (0 + fa)%nat.
  assert (Z1 : rdot 0 (map h (seq 0 fa)) g = 0).
  { apply rdot_zero. apply Forall_forall. intros x Hx. apply in_map_iff in Hx.
    destruct Hx as [j [<- Hj]]. apply in_seq in Hj. unfold h.
    destruct (Nat.leb_spec fa j); [lia|]. reflexivity. }
  assert (Z2 : forall off, rdot off (map h (seq (fa + S p) (n - fa - S p))) g = 0).
  { intros off. apply rdot_zero. apply Forall_forall. intros x Hx. apply in_map_iff in Hx.
    destruct Hx as [j [<- Hj]]. apply in_seq in Hj. unfold h.
    destruct (Nat.leb_spec j (fa + p)); [lia|]. rewrite andb_false_r. reflexivity. }
  assert (M : map h (seq fa (S p)) = vals).
  { apply (nth_ext _ _ 0 0).
    - rewrite map_length, seq_length. symmetry. exact Hl.
    - intros i Hi. rewrite map_length, seq_length in Hi.
      rewrite (nth_indep _ 0 (h 0%nat)) by (rewrite map_length, seq_length; exact Hi).
      rewrite map_nth, seq_nth by exact Hi. unfold h.
      destruct (Nat.leb_spec fa (fa + i)); [|lia].
      destruct (Nat.leb_spec (fa + i) (fa + p)); [|lia]. simpl.
      replace (fa + i - fa)%nat with i by lia. reflexivity. }
  rewrite Z1, Z2, M. ring.
Qed.

Lemma act_row_length : forall kv nd k u, (k <= nd)%nat -> length (act_row kv nd k u) = S (snd kv).
Proof.
  intros [kv p] nd k u Hk. unfold act_row, active_deriv. cbv zeta. simpl fst. simpl snd.
  destruct k as [|k].
  - simpl. rewrite map_length, seq_length. reflexivity.
  - cbn [nth].
    set (ders := map _ (seq 0 (S p))).
    set (Fk := fun k0 : nat => map (fun dr : list Qc => nth k0 dr 0) ders).
    rewrite (nth_indep _ [] (Fk 0%nat)) by (rewrite map_length, seq_length; lia).
    rewrite map_nth. unfold Fk. rewrite map_length. unfold ders. rewrite map_length, seq_length. reflexivity.
Qed.

(* a point of the domain of an open knot vector *)
Definition in_dom (kv : KV) (u : Qc) : Prop :=
  kv_ok (fst kv) (snd kv) /\ kn (fst kv) 0 <= u /\ u <= kn (fst kv) (length (fst kv) - 1).

Lemma dense_equiv_win : forall kv nd k u, in_dom kv u -> (k <= nd)%nat ->
  row_equiv (win_row kv nd k u) (dense_row kv nd k u).
Proof.
  intros kv nd k u [Hok [H0 H1]] Hk g. unfold win_row, dense_row. cbn [fst snd].
  symmetry. apply window_row.
  - apply act_row_length. exact Hk.
  - destruct (findspan_spec_l (fst kv) (snd kv) u Hok H0 H1) as [A [B _]].
    unfold first_active_at, kv_n, numdofs. lia.
Qed.

Lemma rows_equiv : forall ks us D nd,
  Forall2 in_dom ks us -> (forall k, In k D -> (k <= nd)%nat) ->
  Forall2 row_equiv (win_rows ks us nd D) (grid_rows ks us nd D).
Proof.
  intros ks us D nd H. revert D. induction H as [|kv u ks us Hd H IH]; intros D HD.
  - constructor.
  - destruct D as [|k D]; [constructor|]. unfold win_rows, grid_rows. cbn [zip3 map].
    constructor.
    + apply dense_equiv_win; [exact Hd|apply HD; left; reflexivity].
    + apply IH. intros k' Hk'. apply HD. right. exact Hk'.
Qed.

Lemma in_zerov : forall n k, In k (zerov n) -> k = 0%nat.
Proof. intros n k H. apply repeat_spec in H. exact H. Qed.

Lemma in_bump : forall D i k nd, (forall k, In k D -> (S k <= nd)%nat) -> In k (bump D i) -> (k <= nd)%nat.
Proof.
  intros D i k nd H Hk. unfold bump in Hk. apply in_map_iff in Hk. destruct Hk as [[j x] [E Hin]].
  apply in_combine_r in Hin. specialize (H _ Hin). simpl in E. destruct (Nat.eqb j i); lia.
Qed.

Lemma in_unitv : forall n i k, In k (unitv n i) -> (k <= 1)%nat.
Proof.
  intros n i k H. unfold unitv in H. eapply in_bump; [|exact H].
  intros k' Hk'. apply in_zerov in Hk'. lia.
Qed.

(* ------------------------------------------------------------------ *)
(* coordinates of scattered points: the repaired selection hands kvs[d] the coordinate
   sdim-1-d, i.e. the reversed (zyx) list that __call__ builds *)

Lemma opt_all_some {A} : forall l : list A, opt_all (map Some l) = Some l.
Proof. induction l; simpl; [reflexivity|]. rewrite IHl. reflexivity. Qed.

Lemma pw_coords_fixed : forall xs, pw_coords sel_fixed xs = Some (rev xs).
Proof.
  intros xs. unfold pw_coords. rewrite <- opt_all_some. f_equal.
  induction xs as [|a ys IH] using rev_ind; [reflexivity|].
  rewrite app_length, rev_app_distr. simpl length. rewrite Nat.add_1_r.
  cbn [seq map rev app].
  f_equal.
  - unfold sel_fixed. rewrite app_length. simpl. 
    replace (length ys + 1 - 1 - 0)%nat with (length ys) by lia.
    rewrite nth_error_app2 by lia. rewrite Nat.sub_diag. reflexivity.
  - rewrite <- IH. rewrite <- seq_shift, map_map. apply map_ext_in. intros d Hd. apply in_seq in Hd.
    unfold sel_fixed. rewrite app_length. simpl.
    replace (length ys + 1 - 1 - S d)%nat with (length ys - 1 - d)%nat by lia.
    apply nth_error_app1. lia.
Qed.

Lemma routes_agree_val_l : forall f xs c,
  Forall2 in_dom (kvs f) (rev xs) -> pw_val sel_fixed f xs c = Some (call_val f xs c).
Proof.
  intros f xs c H. unfold pw_val. rewrite pw_coords_fixed. f_equal.
  unfold pw_val_at, call_val, g_val. apply tp_eval_equiv. apply rows_equiv; [exact H|].
  intros k Hk. apply in_zerov in Hk. lia.
Qed.

(* the Jacobian slots *)
Lemma upd_app_exact {A} : forall (a b : list A) x v, upd (a ++ x :: b) (length a) v = a ++ v :: b.
Proof.
  intros. unfold upd. rewrite firstn_app_len by reflexivity. f_equal. f_equal.
  rewrite skipn_app. rewrite skipn_all2 by lia.
  replace (S (length a) - length a)%nat with 1%nat by lia. reflexivity.
Qed.

Lemma jac_slots : forall (v : nat -> Qc) d k, (k <= d)%nat ->
  fold_left (fun acc i => upd acc (d - i - 1) (v i)) (seq 0 k) (repeat 0 d)
  = repeat 0 (d - k) ++ map v (rev (seq 0 k)).
Proof.
  intros v d. induction k; intros Hk.
  - simpl. rewrite Nat.sub_0_r, app_nil_r. reflexivity.
  - rewrite seq_S, fold_left_app, IHk by lia. simpl fold_left. simpl (0 + k)%nat.
    rewrite rev_app_distr. simpl rev. simpl map. simpl app.
    replace (d - k)%nat with (S (d - S k)) by lia.
    replace (repeat 0 (S (d - S k))) with (repeat 0 (d - S k) ++ [0]).
    2:{ symmetry. cbn [repeat]. apply repeat_cons. }
    rewrite <- app_assoc. simpl app.
    replace (S (d - S k) - 1)%nat with (length (repeat (0:Qc) (d - S k))) by (rewrite repeat_length; lia).
    apply upd_app_exact.
Qed.

Lemma routes_agree_jac_l : forall f xs c,
  Forall2 in_dom (kvs f) (rev xs) -> pw_jac sel_fixed f xs c = Some (g_jac f (rev xs) c).
Proof.
  intros f xs c H. unfold pw_jac. rewrite pw_coords_fixed. f_equal.
  unfold pw_jac_at, g_jac. rewrite jac_slots by lia. rewrite Nat.sub_diag. simpl app.
  apply map_ext. intros i. unfold g_dir. apply tp_eval_equiv. apply rows_equiv; [exact H|].
  apply in_unitv.
Qed.

(* ... and for NURBS functions *)
Lemma act_row_nd0 : forall kv nd u, act_row kv nd 0 u = act_row kv 0 0 u.
Proof. intros. unfold act_row, active_deriv. reflexivity. Qed.

Lemma pw_val_at_nd : forall f us nd c, pw_val_at f us nd c = pw_val_at f us 0 c.
Proof.
  intros. unfold pw_val_at. f_equal. unfold win_rows. apply map_ext_in. intros [[kv u] k] Hin.
  assert (k = 0%nat).
  { revert Hin. generalize (kvs f) us. unfold zerov. generalize (sdim f).
    induction n; intros [|a l] [|b l']; simpl; try tauto.
    intros [E|Hin]; [congruence|]. eapply IHn; eauto. }
  subst. unfold win_row. rewrite act_row_nd0. reflexivity.
Qed.

Lemma n_routes_agree_val_l : forall f xs c,
  Forall2 in_dom (kvs f) (rev xs) -> n_pw_val sel_fixed f xs c = Some (n_call f xs c).
Proof.
  intros f xs c H. unfold n_pw_val. rewrite pw_coords_fixed. apply (f_equal Some).
  unfold n_call, n_val.
  pose proof (routes_agree_val_l f xs c H) as A. pose proof (routes_agree_val_l f xs (wcomp f) H) as B.
  unfold pw_val in A, B. rewrite pw_coords_fixed in A, B. injection A as A. injection B as B.
  unfold call_val in A, B. rewrite A, B. reflexivity.
Qed.

Lemma n_routes_agree_jac_l : forall f xs c,
  Forall2 in_dom (kvs f) (rev xs) -> n_pw_jac sel_fixed f xs c = Some (n_jac f (rev xs) c).
Proof.
  intros f xs c H. unfold n_pw_jac. rewrite pw_coords_fixed. apply (f_equal Some). unfold n_jac.
  rewrite (pw_val_at_nd f (rev xs) 1 c), (pw_val_at_nd f (rev xs) 1 (wcomp f)).
  pose proof (routes_agree_val_l f xs c H) as A. pose proof (routes_agree_val_l f xs (wcomp f) H) as B.
  pose proof (routes_agree_jac_l f xs c H) as A'. pose proof (routes_agree_jac_l f xs (wcomp f) H) as B'.
  unfold pw_val in A, B. unfold pw_jac in A', B'. rewrite pw_coords_fixed in A, B, A', B'.
  injection A as A. injection B as B. injection A' as A'. injection B' as B'.
  unfold call_val in A, B. rewrite A, B, A', B'. reflexivity.
Qed.

(* ------------------------------------------------------------------ *)
(* the indexing as written in /repo HEAD (XY[1-d]) *)

Lemma asis_sdim1_raises_l : forall f x c, pw_val sel_asis f [x] c = None.
Proof. reflexivity. Qed.

Lemma asis_sdim2_ok_l : forall f x y c, pw_val sel_asis f [x; y] c = pw_val sel_fixed f [x; y] c.
Proof. reflexivity. Qed.

Definition kv_lin : KV := ([0; 0; 1; 1], 1%nat).
Definition f_wit : bsp :=
  mk_bsp [kv_lin; kv_lin; kv_lin]
         (arr [2;2;2]%nat 1 [0; 1; Q2Qc 2; Q2Qc 3; Q2Qc 4; Q2Qc 5; Q2Qc 6; Q2Qc 7]) 1.
Definition xs_wit : list Qc := [Q2Qc (1#4); Q2Qc (1#2); Q2Qc (3#4)].

Lemma asis_sdim3_refuted_l : exists f xs c,
  Forall2 in_dom (kvs f) (rev xs) /\ pw_val sel_asis f xs c <> Some (call_val f xs c).
Proof.
  exists f_wit, xs_wit, 0%nat. split.
  - assert (K : kv_ok (fst kv_lin) (snd kv_lin)).
    { constructor; simpl; try lia; try reflexivity.
      intros i j Hij Hj. simpl in Hj.
      destruct i as [|[|[|[|i]]]]; destruct j as [|[|[|[|j]]]]; try lia; vm_compute; congruence. }
    assert (D : forall u, 0 <= u -> u <= 1 -> in_dom kv_lin u).
    { intros u H0 H1. split; [exact K|]. split; [exact H0|exact H1]. }
    simpl. constructor; [|constructor; [|constructor; [|constructor]]]; apply D; vm_compute; congruence.
  - vm_compute. intro E. discriminate E.
Qed.

(* ------------------------------------------------------------------ *)
(* NURBS: quotient, quotient rule for the Jacobian and the Hessian (Leibniz form:
   the unique solution of  V = N W  differentiated once and twice) *)

Lemma nurbs_is_quotient_l : forall f us c, g_val f us (wcomp f) <> 0 ->
  n_val f us c * g_val f us (wcomp f) = g_val f us c.
Proof. intros. unfold n_val. field. assumption. Qed.

Lemma nurbs_jac_rule_l : forall V W Va Wa, W <> 0 ->
  nurbs_jac_entry V W Va Wa * W + (V / W) * Wa = Va
  /\ forall n na, n * W = V -> na * W + n * Wa = Va -> na = nurbs_jac_entry V W Va Wa.
Proof.
  intros V W Va Wa HW. unfold nurbs_jac_entry. split; [field; exact HW|].
  intros n na <- <-. field. exact HW.
Qed.

Lemma nurbs_hess_rule_l : forall V W Va Vb Wa Wb Vab Wab, W <> 0 ->
  let N := V / W in
  let Na := nurbs_jac_entry V W Va Wa in
  let Nb := nurbs_jac_entry V W Vb Wb in
  let Nab := nurbs_hess_entry V W Vab Wab Na Nb Wa Wb in
  Nab * W + Na * Wb + Nb * Wa + N * Wab = Vab
  /\ forall n na nb nab, n * W = V -> na * W + n * Wa = Va -> nb * W + n * Wb = Vb ->
       nab * W + na * Wb + nb * Wa + n * Wab = Vab -> nab = Nab.
Proof.
  intros V W Va Vb Wa Wb Vab Wab HW. cbv zeta. unfold nurbs_hess_entry, nurbs_jac_entry.
  split; [field; exact HW|].
  intros n na nb nab <- <- <- <-. field. exact HW.
Qed.

(* the linearised Hessian order of BSplineFunc.grid_hessian, written in xyz directions,
   is np.triu_indices: (xx, xy, xz, yy, yz, zz); NurbsFunc.grid_hessian combines the two *)
Lemma rev_seq0 : forall n, rev (seq 0 n) = map (fun a => (n - 1 - a)%nat) (seq 0 n).
Proof.
  induction n; [reflexivity|].
  rewrite seq_S at 1. rewrite rev_app_distr. simpl rev. simpl app. rewrite IHn.
  cbn [seq map]. f_equal; [lia|].
  rewrite <- seq_shift, map_map. apply map_ext. intros. lia.
Qed.

Lemma flat_map_ext_in {A B} (f g : A -> list B) l :
  (forall a, In a l -> f a = g a) -> flat_map f l = flat_map g l.
Proof. intros H. rewrite !flat_map_concat_map. f_equal. apply map_ext_in. exact H. Qed.

Lemma seq_add_map : forall n a, seq a n = map (fun t => (a + t)%nat) (seq 0 n).
Proof.
  induction n; intros; [reflexivity|]. simpl. f_equal; [lia|].
  rewrite (IHn (S a)), <- seq_shift, map_map. apply map_ext. intros; lia.
Qed.

Lemma hess_order_l : forall d,
  map (fun ij => (d - 1 - fst ij, d - 1 - snd ij)%nat) (hess_pairs d) = triu d.
Proof.
  intros d. unfold hess_pairs, triu.
  rewrite flat_map_concat_map, concat_map, map_map, <- flat_map_concat_map.
  rewrite rev_seq0. rewrite flat_map_concat_map, map_map, <- flat_map_concat_map.
  apply flat_map_ext_in. intros a Ha. apply in_seq in Ha.
  rewrite map_map. cbn [fst snd].
  replace (S (d - 1 - a)) with (d - a)%nat by lia.
  rewrite rev_seq0, map_map.
  transitivity (map (fun t => (a, a + t)%nat) (seq 0 (d - a))).
  - apply map_ext_in. intros t Ht. apply in_seq in Ht. f_equal; lia.
  - rewrite (seq_add_map (d - a) a), map_map. reflexivity.
Qed.

(* ------------------------------------------------------------------ *)
(* boundary specifications and boundary functions *)

Lemma bdspec_names_l : forall dim : nat,
  ((1 <= dim)%nat -> parse_bdname Left dim = Some ((dim - 1)%nat, 0%nat)
                     /\ parse_bdname Right dim = Some ((dim - 1)%nat, 1%nat))
  /\ ((2 <= dim)%nat -> parse_bdname Bottom dim = Some ((dim - 2)%nat, 0%nat)
                        /\ parse_bdname Top dim = Some ((dim - 2)%nat, 1%nat))
  /\ ((3 <= dim)%nat -> parse_bdname Front dim = Some ((dim - 3)%nat, 0%nat)
                        /\ parse_bdname Back dim = Some ((dim - 3)%nat, 1%nat))
  /\ ((dim < 2)%nat -> parse_bdname Bottom dim = None /\ parse_bdname Top dim = None)
  /\ ((dim < 3)%nat -> parse_bdname Front dim = None /\ parse_bdname Back dim = None).
Proof.
  intros dim. unfold parse_bdname.
  repeat split;
    repeat match goal with
    | |- context [(?a <? ?b)%Z] => destruct (Z.ltb_spec a b)
    | |- context [(?a <=? ?b)%Z] => destruct (Z.leb_spec a b)
    end; cbn [orb]; try lia; try reflexivity; f_equal; f_equal; lia.
Qed.

(* _BoundaryFunction: __call__ inserts the fixed coordinate at len(x)-axis of the xyz list,
   grid_eval inserts the axis at position axis of the zyx list: the same point *)
Lemma insert_rev {A} : forall (l : list A) v a, (a <= length l)%nat ->
  rev (insert_at (length l - a) v l) = insert_at a v (rev l).
Proof.
  intros l v a Ha. unfold insert_at. rewrite rev_app_distr. simpl rev. rewrite <- app_assoc. simpl app.
  rewrite firstn_rev, skipn_rev. reflexivity.
Qed.

Lemma boundary_function_routes_l : forall (val : list Qc -> Qc) axis fixed xs, (axis <= length xs)%nat ->
  bf_call (fun x => val (rev x)) axis fixed xs = bf_grid val axis fixed (rev xs).
Proof. intros. unfold bf_call, bf_grid. rewrite insert_rev by assumption. reflexivity. Qed.

(* boundary(): slicing the coefficients is the trace, because the B-spline basis of an open
   knot vector is interpolatory at the end points (Hend; C02) *)
Lemma grid_rows_cons : forall kv k u us nd,
  grid_rows (kv :: k) (u :: us) nd (zerov (S (length k))) = dense_row kv nd 0 u :: grid_rows k us nd (zerov (length k)).
Proof. reflexivity. Qed.

Lemma tp_eval_insert : forall r1 R r2 j C,
  row_equiv R (j, [1]) ->
  tp_eval (r1 ++ R :: r2) C = tp_eval (r1 ++ r2) (fun idx => C (insert_at (length r1) j idx)).
Proof.
  intros r1 R r2 j C HR. rewrite !tp_eval_app. apply tp_eval_ext_len. intros i1 Hl.
  destruct R as [o r]. cbn [tp_eval]. rewrite (HR _). cbn [fst snd rdot].
  rewrite Qcmult_1_l, Qcplus_0_r. apply tp_eval_ext. intros i2.
  unfold insert_at. rewrite firstn_app_len, skipn_app_len by exact Hl. reflexivity.
Qed.

Lemma boundary_is_trace_l : forall k1 kv k2 co0 m u1 u2 a side c,
  length u1 = length k1 -> length u2 = length k2 ->
  let f := mk_bsp (k1 ++ kv :: k2) co0 m in
  row_equiv (dense_row kv 0 0 a) ((if Nat.eqb side 0 then 0 else kv_n kv - 1)%nat, [1]) ->
  g_val (boundary f (length k1) side) (u1 ++ u2) c = g_val f (u1 ++ a :: u2) c.
Proof.
  intros k1 kv k2 co0 m u1 u2 a side c L1 L2 f Hend.
  unfold g_val, boundary, sdim. subst f. cbn [kvs co nc].
  assert (Er : remove_at (length k1) (k1 ++ kv :: k2) = k1 ++ k2).
  { unfold remove_at. rewrite firstn_app_len by reflexivity. f_equal.
    rewrite skipn_app, skipn_all2 by lia.
    replace (S (length k1) - length k1)%nat with 1%nat by lia. reflexivity. }
  rewrite Er. rewrite !app_length. cbn [length].
  rewrite grid_rows_app by exact L1.
  replace (length k1 + S (length k2))%nat with (length k1 + length (kv :: k2))%nat by reflexivity.
  rewrite (grid_rows_app k1 (kv :: k2) u1 (a :: u2)) by exact L1.
  cbn [length]. rewrite grid_rows_cons.
  rewrite (tp_eval_insert _ _ _ _ _ Hend).
  rewrite grid_rows_length by exact L1.
  apply tp_eval_ext. intros idx.
  rewrite app_nth2 by lia. rewrite Nat.sub_diag. reflexivity.
Qed.

(* ------------------------------------------------------------------ *)
(* xyz-order forms: __call__ takes the coordinates in xyz order, the x-most coordinates
   belong to the LAST knot vectors, i.e. to the second operand G2 *)

Lemma outer_sum_call_l : forall f1 f2 x1 x2 c,
  length x1 = sdim f1 -> length x2 = sdim f2 ->
  pou_at (kvs f1) (rev x1) -> pou_at (kvs f2) (rev x2) ->
  call_val (b_outer_sum f1 f2) (x2 ++ x1) c = call_val f1 x1 c + call_val f2 x2 c.
Proof.
  intros. unfold call_val. rewrite rev_app_distr.
  apply outer_sum_spec_l; try assumption; rewrite rev_length; assumption.
Qed.

Lemma outer_product_call_l : forall f1 f2 x1 x2 c,
  length x1 = sdim f1 -> length x2 = sdim f2 ->
  call_val (b_outer_product f1 f2) (x2 ++ x1) c = call_val f1 x1 c * call_val f2 x2 c.
Proof.
  intros. unfold call_val. rewrite rev_app_distr.
  apply outer_product_spec_l; rewrite rev_length; assumption.
Qed.

Lemma tensor_product_call_l : forall f1 f2 x1 x2 c,
  length x1 = sdim f1 -> length x2 = sdim f2 ->
  pou_at (kvs f1) (rev x1) -> pou_at (kvs f2) (rev x2) ->
  call_val (b_tensor_product f1 f2) (x2 ++ x1) c
  = if (c <? nc f2)%nat then call_val f2 x2 c else call_val f1 x1 (c - nc f2).
Proof.
  intros. unfold call_val. rewrite rev_app_distr.
  apply tensor_product_spec_l; try assumption; rewrite rev_length; assumption.
Qed.

(* column j of the Jacobian is the derivative along the knot vector of the j-th xyz coordinate *)
Lemma jacobian_slot_order_l : forall f us c j, (j < sdim f)%nat ->
  nth j (g_jac f us c) 0 = g_dir f 1 us (unitv (sdim f) (sdim f - 1 - j)) c.
Proof.
  intros f us c j Hj. unfold g_jac. rewrite rev_seq0, map_map.
  set (G := fun x : nat => g_dir f 1 us (unitv (sdim f) (sdim f - 1 - x)) c).
  rewrite (nth_indep _ 0 (G 0%nat)) by (rewrite map_length, seq_length; exact Hj).
  rewrite map_nth, seq_nth by exact Hj. reflexivity.
Qed.

(* _BoundaryFunction.grid_jacobian removes column sdim-axis-1 of the Jacobian of f: that column is
   the derivative along kvs[axis], the direction normal to the side *)
Lemma boundary_function_drops_normal_l : forall f us c axis, (axis < sdim f)%nat ->
  length (g_jac f us c) = sdim f
  /\ nth (length (g_jac f us c) - axis - 1) (g_jac f us c) 0 = g_dir f 1 us (unitv (sdim f) axis) c.
Proof.
  intros f us c axis Ha.
  assert (L : length (g_jac f us c) = sdim f) by (unfold g_jac; rewrite map_length, rev_length, seq_length; reflexivity).
  split; [exact L|]. rewrite L. rewrite jacobian_slot_order_l by lia.
  replace (sdim f - 1 - (sdim f - axis - 1))%nat with axis by lia. reflexivity.
Qed.
