(* C03 -- lemmas, part 10: horizontal stacking (scipy.sparse.bmat([blocks]) in represent_fine): entry semantics. *)
From Coq Require Import List Arith Bool Lia NArith Ring.
From Verif.C03 Require Import Model Proofs Proofs3 Proofs5 Proofs6.
Import ListNotations.

Section HStack.
Variable R : Type.
Variable r0 : R.

Notation svec := (svec R).
Notation get := (sv_get R r0).
Notation keys := (keys R).

Definition shift (ofs : N) (row : svec) : svec := map (fun e => ((ofs + fst e)%N, snd e)) row.

Lemma shift_get : forall ofs row c, get (shift ofs row) (ofs + c)%N = get row c.
Proof.
  intros ofs row c. induction row as [|[k v] row IH]; simpl; auto.
  rewrite !(get_cons R r0). simpl fst. destruct (N.eqb c k) eqn:E.
  - apply N.eqb_eq in E. subst. rewrite N.eqb_refl. reflexivity.
  - replace (N.eqb (ofs + c) (ofs + k)) with false; auto.
    symmetry. apply N.eqb_neq. apply N.eqb_neq in E. lia.
Qed.

Lemma shift_keys : forall ofs row k, In k (keys (shift ofs row)) -> exists x, In x (keys row) /\ k = (ofs + x)%N.
Proof.
  intros ofs row k H. unfold shift, Proofs5.keys in H. rewrite map_map in H. simpl in H.
  apply in_map_iff in H. destruct H as [e [<- He]]. exists (fst e). split; auto. apply in_map; auto.
Qed.

(* column offset of block number nb *)
Definition offs (blocks : list (smat R * nat)) (nb : nat) : N :=
  fold_right N.add 0%N (map (fun b => N.of_nat (snd b)) (firstn nb blocks)).

Notation step i := (fun (ofs_row : N * svec) (b : smat R * nat) =>
  ((fst ofs_row + N.of_nat (snd b))%N, snd ofs_row ++ shift (fst ofs_row) (nth i (fst b) []))).

Lemma hstack_fold : forall i (blocks : list (smat R * nat)) ofs (acc : svec),
  (forall k, In k (keys acc) -> (k < ofs)%N) ->
  (forall b k, In b blocks -> In k (keys (nth i (fst b) [])) -> (k < N.of_nat (snd b))%N) ->
  let res := fold_left (step i) blocks (ofs, acc) in
  (forall k, (k < ofs)%N -> get (snd res) k = get acc k) /\
  (forall nb c, nb < length blocks -> (c < N.of_nat (snd (nth nb blocks ([], 0%nat))))%N ->
     get (snd res) (ofs + offs blocks nb + c)%N = get (nth i (fst (nth nb blocks ([], 0%nat))) []) c).
Proof.
  intros i. induction blocks as [|b0 blocks IH]; intros ofs acc Hacc Hb.
  - simpl. split; auto. intros nb c H. simpl in H. lia.
  - simpl fold_left.
    assert (Hacc' : forall k, In k (keys (acc ++ shift ofs (nth i (fst b0) []))) -> (k < ofs + N.of_nat (snd b0))%N).
    { intros k Hk. unfold Proofs5.keys in Hk. rewrite map_app in Hk. apply in_app_or in Hk. destruct Hk as [Hk|Hk].
      - specialize (Hacc k Hk). lia.
      - apply shift_keys in Hk. destruct Hk as [x [Hx ->]]. specialize (Hb b0 x (or_introl eq_refl) Hx). lia. }
    destruct (IH (ofs + N.of_nat (snd b0))%N (acc ++ shift ofs (nth i (fst b0) [])) Hacc'
                 (fun b k Hin => Hb b k (or_intror Hin))) as [G1 G2].
    simpl in G1, G2. split.
    + intros k Hk. rewrite G1 by lia. apply (get_app_r R r0).
      intros Hin. apply shift_keys in Hin. destruct Hin as [x [_ ->]]. lia.
    + intros nb c Hnb Hc. destruct nb as [|nb].
      * simpl in Hc. unfold offs. simpl. rewrite G1 by lia.
        rewrite (get_app_l R r0) by (intros Hin; specialize (Hacc _ Hin); lia).
        replace (ofs + 0 + c)%N with (ofs + c)%N by lia. apply shift_get.
      * simpl in Hnb, Hc. simpl nth.
        replace (ofs + offs (b0 :: blocks) (S nb) + c)%N with (ofs + N.of_nat (snd b0) + offs blocks nb + c)%N
          by (unfold offs; simpl; lia).
        apply G2; auto. lia.
Qed.

(* bmat([blocks]): column (offset of block nb) + c of the stacked matrix is column c of block nb, every row i below
   the row count, provided the stored columns of every block lie below its declared width *)
Lemma hstack_entry_l : forall nrows (blocks : list (smat R * nat)) i nb c,
  i < nrows -> nb < length blocks -> (c < N.of_nat (snd (nth nb blocks ([], 0%nat))))%N ->
  (forall b k, In b blocks -> In k (keys (nth i (fst b) [])) -> (k < N.of_nat (snd b))%N) ->
  sm_get R r0 (hstack R nrows blocks) (N.of_nat i) (offs blocks nb + c)%N
  = sm_get R r0 (fst (nth nb blocks ([], 0%nat))) (N.of_nat i) c.
Proof.
  intros nrows blocks i nb c Hi Hnb Hc Hb. unfold sm_get, sm_row, hstack. rewrite Nnat.Nat2N.id.
  rewrite (nth_indep _ [] ((fun i0 => snd (fold_left (step i0) blocks (0%N, []))) 0)) by (rewrite map_length, seq_length; auto).
  rewrite (map_nth (fun i0 => snd (fold_left (step i0) blocks (0%N, [])))). rewrite seq_nth by auto. simpl Nat.add.
  destruct (hstack_fold i blocks 0%N [] ltac:(intros k []) Hb) as [_ G].
  exact (G nb c Hnb Hc).
Qed.

End HStack.
