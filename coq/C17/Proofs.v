(* C17 -- proofs. *)
From Coq Require Import QArith Qcanon ZArith List Arith Bool Lia.
From Verif.lib Require Import Bsp.
From Verif.C17 Require Import Model Spec.
Import ListNotations.
Open Scope Qc_scope.

(* ------------------------------------------------------------------ *)
(* finite sums *)

Lemma fold_right_plus_acc l a : fold_right Qcplus a l = fold_right Qcplus 0 l + a.
Proof. induction l as [|x l IH]; simpl; [ring | rewrite IH; ring]. Qed.

Lemma sumn_S n f : sumn (S n) f = sumn n f + f n.
Proof.
  unfold sumn. rewrite seq_S, map_app, fold_right_app. simpl.
  rewrite fold_right_plus_acc. ring.
Qed.

Lemma sumn_0 f : sumn 0 f = 0.
Proof. reflexivity. Qed.

Lemma sumn_ext n f g : (forall i, (i < n)%nat -> f i = g i) -> sumn n f = sumn n g.
Proof.
  induction n as [|n IH]; intros H; [reflexivity|].
  rewrite !sumn_S, IH, (H n) by (intros; try apply H; lia). reflexivity.
Qed.

Lemma sumn_add n f g : sumn n (fun i => f i + g i) = sumn n f + sumn n g.
Proof. induction n as [|n IH]; [rewrite !sumn_0; ring | rewrite !sumn_S, IH; ring]. Qed.

Lemma sumn_scal n c f : sumn n (fun i => c * f i) = c * sumn n f.
Proof. induction n as [|n IH]; [rewrite !sumn_0; ring | rewrite !sumn_S, IH; ring]. Qed.

Lemma sumn_zero n : sumn n (fun _ => 0) = 0.
Proof. induction n as [|n IH]; [reflexivity | rewrite sumn_S, IH; ring]. Qed.

Lemma sumn_swap n m (f : nat -> nat -> Qc) :
  sumn n (fun i => sumn m (fun j => f i j)) = sumn m (fun j => sumn n (fun i => f i j)).
Proof.
  induction n as [|n IH].
  - rewrite sumn_0. symmetry. rewrite (sumn_ext m _ (fun _ => 0)); [apply sumn_zero | reflexivity].
  - rewrite sumn_S, IH.
    rewrite (sumn_ext m (fun j => sumn (S n) (fun i => f i j))
                        (fun j => sumn n (fun i => f i j) + f n j)) by (intros j _; exact (sumn_S n (fun i => f i j))).
    rewrite sumn_add. reflexivity.
Qed.

Lemma sumn_delta n i f : (i < n)%nat -> sumn n (fun j => delta i j * f j) = f i.
Proof.
  induction n as [|n IH]; intros H; [lia|].
  rewrite sumn_S. unfold delta at 2. destruct (Nat.eqb_spec i n) as [->|Hne].
  - rewrite (sumn_ext n _ (fun _ => 0)), sumn_zero; [ring|].
    intros j Hj. unfold delta. destruct (Nat.eqb_spec n j); [lia | ring].
  - rewrite IH by lia. ring.
Qed.

(* ------------------------------------------------------------------ *)
(* tprod: extensionality, the loop of tensor.py, linearity, composition, identity *)

Lemma tprod_ext_len Bs : forall f g idx,
  (length Bs <= length idx)%nat -> (forall i, length i = length idx -> f i = g i) ->
  tprod Bs f idx = tprod Bs g idx.
Proof.
  induction Bs as [|B Bs IH]; intros f g idx HL H; simpl.
  - apply H. reflexivity.
  - destruct idx as [|i idx]; [reflexivity|]. simpl in HL.
    apply sumn_ext. intros j _. f_equal. apply IH; [lia|].
    intros r Hr. apply H. simpl. congruence.
Qed.

Lemma tprod_ext Bs : forall f g idx, (forall i, f i = g i) -> tprod Bs f idx = tprod Bs g idx.
Proof.
  induction Bs as [|B Bs IH]; intros f g idx H; simpl; [apply H|].
  destruct idx as [|i idx]; [reflexivity|].
  apply sumn_ext. intros j _. f_equal. apply IH. intros r. apply H.
Qed.

Lemma insert_at_app k x (l1 l2 : list nat) : length l1 = k -> insert_at k x (l1 ++ l2) = l1 ++ x :: l2.
Proof.
  intros <-. unfold insert_at.
  rewrite firstn_app, Nat.sub_diag, firstn_all, skipn_app, Nat.sub_diag, skipn_all. simpl.
  rewrite app_nil_r. reflexivity.
Qed.

(* invariant of the loop: after the last |Post| operators have been applied the tensor has
   the |Post| new axes first, then the m axes not yet contracted, then the trailing axes *)
Lemma loop_inv n : forall Post m f ipost jpre t,
  n = (m + length Post)%nat -> length ipost = length Post -> length jpre = m ->
  fold_left (fun g B => tprod_step n B g) (rev Post) f (ipost ++ jpre ++ t)
  = tprod Post (fun rest => f (jpre ++ rest)) (ipost ++ t).
Proof.
  induction Post as [|B Post IH]; intros m f ipost jpre t Hn Hi Hj.
  - destruct ipost; [reflexivity | discriminate].
  - destruct ipost as [|a ipost]; [discriminate|]. simpl in Hi, Hn.
    simpl rev. rewrite fold_left_app. simpl.
    apply sumn_ext. intros j _. f_equal.
    rewrite app_assoc, insert_at_app by (rewrite app_length; lia).
    replace ((ipost ++ jpre) ++ j :: t) with (ipost ++ (jpre ++ [j]) ++ t)
      by (rewrite <- !app_assoc; reflexivity).
    rewrite (IH (S m)) by (try rewrite app_length; simpl; lia).
    apply tprod_ext. intros r. rewrite <- app_assoc. reflexivity.
Qed.

Lemma tprod_loop_spec_l Bs f idx :
  (length Bs <= length idx)%nat -> tprod_loop Bs f idx = tprod Bs f idx.
Proof.
  intros H. unfold tprod_loop.
  rewrite <- (firstn_skipn (length Bs) idx) at 1 2.
  pose proof (loop_inv (length Bs) Bs 0 f (firstn (length Bs) idx) [] (skipn (length Bs) idx)) as L.
  simpl in L. rewrite L; [reflexivity | reflexivity | | reflexivity].
  rewrite firstn_length. lia.
Qed.

Lemma tprod_lin As : forall m (c : nat -> Qc) (g : nat -> tens) idx,
  tprod As (fun r => sumn m (fun k => c k * g k r)) idx = sumn m (fun k => c k * tprod As (g k) idx).
Proof.
  induction As as [|A As IH]; intros m c g idx; simpl; [reflexivity|].
  destruct idx as [|i idx].
  - rewrite (sumn_ext m _ (fun _ => 0)) by (intros; ring). rewrite sumn_zero. reflexivity.
  - rewrite (sumn_ext (oc A) _ (fun j => sumn m (fun k => c k * (oe A i j * tprod As (fun rest => g k (j :: rest)) idx)))).
    + rewrite sumn_swap. apply sumn_ext. intros k _. rewrite sumn_scal. reflexivity.
    + intros j _. rewrite (IH m c (fun k rest => g k (j :: rest))).
      rewrite <- sumn_scal. apply sumn_ext. intros k _. ring.
Qed.

Lemma tprod_compose_l As : forall Bs f idx,
  length As = length Bs -> tprod As (tprod Bs f) idx = tprod (mul_list As Bs) f idx.
Proof.
  induction As as [|A As IH]; intros Bs f idx HL; destruct Bs as [|B Bs]; try discriminate; [reflexivity|].
  simpl in HL. unfold mul_list. simpl. fold (mul_list As Bs).
  destruct idx as [|i idx]; [reflexivity|].
  rewrite (sumn_ext (oc A) _ (fun j => sumn (oc B) (fun k =>
            oe A i j * oe B j k * tprod (mul_list As Bs) (fun r => f (k :: r)) idx))).
  - rewrite sumn_swap. apply sumn_ext. intros k _.
    transitivity (tprod (mul_list As Bs) (fun r => f (k :: r)) idx * sumn (oc A) (fun j => oe A i j * oe B j k));
      [rewrite <- sumn_scal; apply sumn_ext; intros j _; ring | simpl; ring].
  - intros j _.
    rewrite (tprod_lin As (oc B) (fun k => oe B j k) (fun k => tprod Bs (fun r => f (k :: r))) idx).
    rewrite <- sumn_scal. apply sumn_ext. intros k _. rewrite IH by lia. ring.
Qed.

Lemma tprod_id_l shape As : Forall2 is_id shape As ->
  forall f idx, inrange shape idx -> tprod As f idx = f idx.
Proof.
  induction 1 as [|n A shape As [Hc He] _ IH]; intros f idx Hr; [reflexivity|].
  destruct idx as [|i idx]; [destruct Hr|]. destruct Hr as [Hi Hr]. simpl.
  rewrite Hc.
  rewrite (sumn_ext n _ (fun j => delta i j * f (j :: idx))).
  - apply sumn_delta. exact Hi.
  - intros j Hj. rewrite He by assumption. rewrite IH by assumption. reflexivity.
Qed.

Lemma is_id_b_sound n A : is_id_b n A = true -> is_id n A.
Proof.
  unfold is_id_b, is_id. rewrite andb_true_iff, Nat.eqb_eq, forallb_forall.
  intros [Hc H]. split; [exact Hc|]. intros i j Hi Hj.
  specialize (H i ltac:(apply in_seq; lia)). rewrite forallb_forall in H.
  specialize (H j ltac:(apply in_seq; lia)).
  unfold qeqb in H. apply Qeq_bool_iff in H. apply Qc_is_canon. exact H.
Qed.

(* trailing axes are independent: component t of the result only depends on component t of the data *)
Lemma tprod_componentwise_l Bs : forall f i t,
  length i = length Bs -> tprod Bs f (i ++ t) = tprod Bs (fun i' => f (i' ++ t)) i.
Proof.
  induction Bs as [|B Bs IH]; intros f i t HL.
  - destruct i; [reflexivity | discriminate].
  - destruct i as [|a i]; [discriminate|]. simpl in HL. simpl.
    apply sumn_ext. intros j _. f_equal. rewrite IH by lia. reflexivity.
Qed.

(* ------------------------------------------------------------------ *)
(* interpolation *)

Lemma interp_reproduces_l shape Ss Cs c idx :
  length Ss = length Cs -> Forall2 is_id shape (mul_list Ss Cs) ->
  inrange shape idx -> (length Ss <= length idx)%nat ->
  tprod_loop Ss (tprod Cs c) idx = c idx.
Proof.
  intros HL Hid Hr Hlen.
  rewrite tprod_loop_spec_l by assumption.
  rewrite tprod_compose_l by assumption.
  apply (tprod_id_l shape); assumption.
Qed.

Lemma interp_matches_nodes_l nshape Cs Ss rhs idx :
  length Cs = length Ss -> Forall2 is_id nshape (mul_list Cs Ss) ->
  inrange nshape idx -> (length Ss <= length idx)%nat ->
  tprod Cs (tprod_loop Ss rhs) idx = rhs idx.
Proof.
  intros HL Hid Hr Hlen.
  rewrite (tprod_ext_len Cs _ (tprod Ss rhs) idx) by
    (try lia; intros i Hi; apply tprod_loop_spec_l; lia).
  rewrite tprod_compose_l by assumption.
  apply (tprod_id_l nshape); assumption.
Qed.

Lemma interp_componentwise_l Ss rhs i t :
  length i = length Ss ->
  tprod_loop Ss rhs (i ++ t) = tprod_loop Ss (fun i' => rhs (i' ++ t)) i.
Proof.
  intros HL. rewrite !tprod_loop_spec_l by (try rewrite app_length; lia).
  apply tprod_componentwise_l. exact HL.
Qed.

Lemma physical_equals_pullback_l Ss f grid geo :
  tprod_loop Ss (grid_eval_transformed f grid geo) = tprod_loop Ss (grid_eval (compose f geo) grid).
Proof. reflexivity. Qed.

(* ------------------------------------------------------------------ *)
(* discrete L2 projection (any dimension / geometry / hierarchical basis: N basis functions
   sampled at Q quadrature points, weights w = quadrature weight times |det J|) *)

Lemma sumn_opp n f : sumn n (fun i => - f i) = - sumn n f.
Proof. induction n as [|n IH]; [rewrite !sumn_0; ring | rewrite !sumn_S, IH; ring]. Qed.

Lemma sumn_sub n f g : sumn n (fun i => f i - g i) = sumn n f - sumn n g.
Proof. induction n as [|n IH]; [rewrite !sumn_0; ring | rewrite !sumn_S, IH; ring]. Qed.

Section L2proofs.
  Variables (N Q : nat) (Cq : nat -> nat -> Qc) (w : nat -> Qc).
  Notation M := (massq Q Cq w).
  Notation load := (loadq Q Cq w).
  Notation s := (spl N Cq).

  (* the load vector of a function of the space is the mass matrix times its coefficients *)
  Lemma load_of_spline c i : load (s c) i = mv N M c i.
  Proof.
    unfold loadq, mv, massq, spl.
    rewrite (sumn_ext Q _ (fun q => sumn N (fun j => Cq q i * w q * Cq q j * c j))).
    - rewrite sumn_swap. apply sumn_ext. intros j _.
      transitivity (c j * sumn Q (fun q => Cq q i * w q * Cq q j)); [|ring].
      rewrite <- sumn_scal. apply sumn_ext. intros q _. ring.
    - intros q _. rewrite <- sumn_scal. apply sumn_ext. intros j _. ring.
  Qed.

  Lemma mv_sub x y i : mv N M (fun j => x j - y j) i = mv N M x i - mv N M y i.
  Proof. unfold mv. rewrite <- sumn_sub. apply sumn_ext. intros j _. ring. Qed.

  (* residual of the projection is orthogonal to every basis function *)
  Lemma l2_residual_orthogonal_l f x :
    (forall i, (i < N)%nat -> mv N M x i = load f i) ->
    forall i, (i < N)%nat -> sumn Q (fun q => Cq q i * w q * (f q - s x q)) = 0.
  Proof.
    intros H i Hi.
    rewrite (sumn_ext Q _ (fun q => Cq q i * w q * f q - Cq q i * w q * s x q)) by (intros; ring).
    rewrite sumn_sub. fold (load f i). fold (load (s x) i).
    rewrite load_of_spline, H by assumption. ring.
  Qed.

  (* the projection reproduces functions of the space when the mass matrix is injective *)
  Lemma l2_reproduces_l c x :
    (forall y, (forall i, (i < N)%nat -> mv N M y i = 0) -> forall i, (i < N)%nat -> y i = 0) ->
    (forall i, (i < N)%nat -> mv N M x i = load (s c) i) ->
    forall i, (i < N)%nat -> x i = c i.
  Proof.
    intros Hinj H i Hi.
    assert (Hz : x i - c i = 0).
    { apply (Hinj (fun j => x j - c j)); [|exact Hi].
      intros k Hk. rewrite mv_sub, H, load_of_spline by assumption. ring. }
    rewrite <- (Qcplus_0_r (c i)), <- Hz. ring.
  Qed.

  (* x^T M x = sum_q w_q (spline value at q)^2 *)
  Lemma energy x : sumn N (fun i => x i * mv N M x i) = sumn Q (fun q => w q * (s x q * s x q)).
  Proof.
    transitivity (sumn N (fun i => sumn Q (fun q => x i * Cq q i * w q * s x q))).
    - apply sumn_ext. intros i _. unfold mv, massq.
      rewrite <- sumn_scal.
      transitivity (sumn N (fun j => sumn Q (fun q => x i * (Cq q i * w q * Cq q j) * x j))).
      + apply sumn_ext. intros j _.
        transitivity (x i * x j * sumn Q (fun q => Cq q i * w q * Cq q j)); [ring|].
        rewrite <- sumn_scal. apply sumn_ext. intros q _. ring.
      + rewrite sumn_swap. apply sumn_ext. intros q _. unfold spl.
        rewrite <- sumn_scal. apply sumn_ext. intros j _. ring.
    - rewrite sumn_swap. apply sumn_ext. intros q _.
      transitivity ((w q * s x q) * sumn N (fun i => Cq q i * x i)); [|unfold spl; ring].
      rewrite <- sumn_scal. apply sumn_ext. intros i _. ring.
  Qed.

  Lemma sq_nonneg (a : Qc) : 0 <= a * a.
  Proof.
    destruct (Qclt_le_dec a 0) as [L|L].
    - replace (a * a) with ((- a) * (- a)) by ring.
      assert (0 <= - a) by (apply Qclt_le_weak in L; apply Qcopp_le_compat in L;
                            replace (- 0) with 0 in L by ring; exact L).
      replace 0 with (0 * - a) by ring. apply Qcmult_le_compat_r; assumption.
    - replace 0 with (0 * a) by ring. apply Qcmult_le_compat_r; assumption.
  Qed.

  Lemma sumn_nonneg n f : (forall i, (i < n)%nat -> 0 <= f i) -> 0 <= sumn n f.
  Proof.
    induction n as [|n IH]; intros H; [rewrite sumn_0; apply Qcle_refl|].
    rewrite sumn_S. replace 0 with (0 + 0) by ring.
    apply Qcplus_le_compat; [apply IH; intros; apply H; lia | apply H; lia].
  Qed.

  Lemma sumn_nonneg_zero n f :
    (forall i, (i < n)%nat -> 0 <= f i) -> sumn n f = 0 -> forall i, (i < n)%nat -> f i = 0.
  Proof.
    induction n as [|n IH]; intros Hp Hs i Hi; [lia|].
    rewrite sumn_S in Hs.
    assert (H1 : 0 <= sumn n f) by (apply sumn_nonneg; intros; apply Hp; lia).
    assert (H2 : 0 <= f n) by (apply Hp; lia).
    assert (Hn : f n = 0).
    { apply Qcle_antisym; [|exact H2].
      assert (H3 : 0 + f n <= sumn n f + f n)
        by (apply Qcplus_le_compat; [exact H1 | apply Qcle_refl]).
      rewrite Hs, Qcplus_0_l in H3. exact H3. }
    destruct (Nat.eq_dec i n) as [->|Hne]; [exact Hn|].
    apply IH; [intros; apply Hp; lia | rewrite Hn in Hs; rewrite <- Hs; ring | lia].
  Qed.

  (* positive weights and a basis that is unisolvent on the quadrature points give an injective
     (symmetric positive definite) mass matrix: the solver's contract then determines x *)
  Lemma mass_injective_l :
    (forall q, (q < Q)%nat -> 0 < w q) ->
    (forall y, (forall q, (q < Q)%nat -> s y q = 0) -> forall i, (i < N)%nat -> y i = 0) ->
    forall y, (forall i, (i < N)%nat -> mv N M y i = 0) -> forall i, (i < N)%nat -> y i = 0.
  Proof.
    intros Hw Hc y Hy. apply Hc. intros q Hq.
    assert (E : sumn Q (fun q => w q * (s y q * s y q)) = 0).
    { rewrite <- energy. rewrite (sumn_ext N _ (fun _ => 0)); [apply sumn_zero|].
      intros i Hi. rewrite Hy by assumption. ring. }
    assert (Z : w q * (s y q * s y q) = 0).
    { apply (sumn_nonneg_zero Q (fun q => w q * (s y q * s y q))); [|exact E|exact Hq].
      intros k Hk. replace 0 with (0 * (s y k * s y k)) by ring.
      apply Qcmult_le_compat_r; [apply Qclt_le_weak, Hw, Hk | apply sq_nonneg]. }
    destruct (Qcmult_integral _ _ Z) as [Z1|Z2].
    - specialize (Hw q Hq). rewrite Z1 in Hw. exfalso. exact (Qclt_not_eq _ _ Hw eq_refl).
    - destruct (Qcmult_integral _ _ Z2); assumption.
  Qed.
End L2proofs.

(* Kronecker path of project_L2 (geo=None): (x)M_k^-1 applied to the load tensor
   (x)C_k^T (x)D_k (x)C_k c of a function of the space returns c, when the 1D mass matrices
   are the quadrature Gram matrices M_k = C_k^T D_k C_k and S_k M_k = I. *)
Lemma l2_kron_reproduces_l shape Ss Cts Ds Cs c idx :
  length Ss = length Cts -> length Cts = length Ds -> length Ds = length Cs ->
  Forall2 is_id shape (mul_list Ss (mul_list Cts (mul_list Ds Cs))) ->
  inrange shape idx -> (length Ss <= length idx)%nat ->
  tprod_loop Ss (tprod_loop Cts (tprod_loop Ds (tprod Cs c))) idx = c idx.
Proof.
  intros H1 H2 H3 Hid Hr Hl.
  assert (LD : length (mul_list Ds Cs) = length Ds)
    by (unfold mul_list; rewrite map_length, combine_length; lia).
  assert (LC : length (mul_list Cts (mul_list Ds Cs)) = length Cts)
    by (unfold mul_list at 1; rewrite map_length, combine_length; lia).
  rewrite tprod_loop_spec_l by assumption.
  rewrite (tprod_ext_len Ss _ (tprod Cts (tprod Ds (tprod Cs c))) idx); [|assumption|].
  - rewrite (tprod_ext_len Ss _ (tprod (mul_list Cts (mul_list Ds Cs)) c) idx); [|assumption|].
    + rewrite tprod_compose_l by lia. apply (tprod_id_l shape); assumption.
    + intros i Hi.
      rewrite (tprod_ext_len Cts _ (tprod (mul_list Ds Cs) c) i) by
        (try lia; intros j Hj; apply tprod_compose_l; lia).
      apply tprod_compose_l. lia.
  - intros i Hi. rewrite tprod_loop_spec_l by lia.
    apply tprod_ext_len; [lia|]. intros j Hj. apply tprod_loop_spec_l. lia.
Qed.

(* ------------------------------------------------------------------ *)
(* the two operators are projections *)

(* interpolation: I = (x)S_k applied to nodal data, E = (x)C_k (evaluation at the nodes).
   I (E (I rhs)) = I rhs: interpolating the interpolant returns the same coefficients *)
Lemma interp_is_projection_l shape Ss Cs rhs idx :
  length Ss = length Cs -> Forall2 is_id shape (mul_list Ss Cs) ->
  inrange shape idx -> (length Ss <= length idx)%nat ->
  tprod_loop Ss (tprod Cs (tprod_loop Ss rhs)) idx = tprod_loop Ss rhs idx.
Proof. intros. apply (interp_reproduces_l shape); assumption. Qed.

(* ... and in terms of nodal values: E I E c = E c when C_k S_k = I *)
Lemma interp_values_projection_l nshape Cs Ss c idx :
  length Cs = length Ss -> Forall2 is_id nshape (mul_list Cs Ss) ->
  inrange nshape idx -> (length Ss <= length idx)%nat ->
  tprod Cs (tprod_loop Ss (tprod Cs c)) idx = tprod Cs c idx.
Proof. intros. apply (interp_matches_nodes_l nshape); assumption. Qed.

Section L2projection.
  Variables (N Q : nat) (Cq : nat -> nat -> Qc) (w : nat -> Qc).
  (* a solver for the mass matrix: any map with M (sol b) = b on the N equations *)
  Variable sol : (nat -> Qc) -> nat -> Qc.
  Hypothesis Hsol : forall b i, (i < N)%nat -> mv N (massq Q Cq w) (sol b) i = b i.
  Hypothesis Hw : forall q, (q < Q)%nat -> 0 < w q.
  Hypothesis Huni : forall y, (forall q, (q < Q)%nat -> spl N Cq y q = 0) -> forall i, (i < N)%nat -> y i = 0.

  (* P f = the projected function sampled at the quadrature points *)
  Definition l2proj (f : nat -> Qc) : nat -> Qc := spl N Cq (sol (loadq Q Cq w f)).

  Lemma l2_coeffs_reproduced c i : (i < N)%nat -> sol (loadq Q Cq w (spl N Cq c)) i = c i.
  Proof.
    intros Hi. apply (l2_reproduces_l N Q Cq w c); [|intros k Hk; apply Hsol; exact Hk|exact Hi].
    apply mass_injective_l; assumption.
  Qed.

  Lemma spl_ext x y q : (forall j, (j < N)%nat -> x j = y j) -> spl N Cq x q = spl N Cq y q.
  Proof. intros H. unfold spl. apply sumn_ext. intros j Hj. rewrite (H j Hj). reflexivity. Qed.

  Lemma l2_projection_is_projection_l :
    (forall c i, (i < N)%nat -> sol (loadq Q Cq w (spl N Cq c)) i = c i) /\
    (forall c q, l2proj (spl N Cq c) q = spl N Cq c q) /\
    (forall f q, l2proj (l2proj f) q = l2proj f q).
  Proof.
    split; [exact l2_coeffs_reproduced|]. split.
    - intros c q. unfold l2proj. apply spl_ext. intros j Hj. apply l2_coeffs_reproduced. exact Hj.
    - intros f q. unfold l2proj. apply spl_ext. intros j Hj. apply l2_coeffs_reproduced. exact Hj.
  Qed.
End L2projection.

(* ------------------------------------------------------------------ *)
(* hierarchical spaces: the basis is given by its representation P (Nf fine tensor-product functions
   x N hierarchical functions; hs.represent_fine, HB or THB) on the finest level.  The discrete L2
   setting with the sampled basis Ch = Cf P IS the Galerkin restriction of the fine-level
   quantities: Gram matrix P^T M_f P (what C03's hassemble_galerkin shows assemble_matrix to be)
   and load vector P^T b_f. *)
Section Hier.
  Variables (Nf N Q : nat) (Cf P : nat -> nat -> Qc) (w : nat -> Qc).
  Definition Ch (q i : nat) : Qc := sumn Nf (fun r => Cf q r * P r i).
  Definition galerkin (i j : nat) : Qc :=
    sumn Nf (fun r => sumn Nf (fun s => P r i * massq Q Cf w r s * P s j)).
  Definition restrict (b : nat -> Qc) (i : nat) : Qc := sumn Nf (fun r => P r i * b r).

  Lemma hs_load f i : loadq Q Ch w f i = restrict (loadq Q Cf w f) i.
  Proof.
    unfold loadq, restrict, Ch.
    rewrite (sumn_ext Q _ (fun q => sumn Nf (fun r => P r i * (Cf q r * w q * f q)))).
    - rewrite sumn_swap. apply sumn_ext. intros r _. rewrite sumn_scal. reflexivity.
    - intros q _.
      transitivity ((w q * f q) * sumn Nf (fun r => Cf q r * P r i)); [ring|].
      rewrite <- sumn_scal. apply sumn_ext. intros r _. ring.
  Qed.

  Lemma hs_mass i j : massq Q Ch w i j = galerkin i j.
  Proof.
    unfold massq at 1, galerkin.
    transitivity (sumn Q (fun q => sumn Nf (fun r => sumn Nf (fun s =>
                    P r i * (Cf q r * w q * Cf q s) * P s j)))).
    - apply sumn_ext. intros q _. unfold Ch.
      transitivity ((w q * sumn Nf (fun s => Cf q s * P s j)) * sumn Nf (fun r => Cf q r * P r i)); [ring|].
      rewrite <- sumn_scal. apply sumn_ext. intros r _.
      transitivity ((Cf q r * P r i * w q) * sumn Nf (fun s => Cf q s * P s j)); [ring|].
      rewrite <- sumn_scal. apply sumn_ext. intros s _. ring.
    - rewrite sumn_swap. apply sumn_ext. intros r _.
      rewrite sumn_swap. apply sumn_ext. intros s _. unfold massq.
      transitivity ((P r i * P s j) * sumn Q (fun q => Cf q r * w q * Cf q s)); [|ring].
      rewrite <- sumn_scal. apply sumn_ext. intros q _. ring.
  Qed.

  (* L2 projection into the hierarchical space, stated on the assembled quantities: if x solves
     (P^T M_f P) x = P^T b_f for the load vector b_f of a function of the hierarchical space,
     x are its coefficients; and for any data the residual is orthogonal to every hierarchical
     basis function.  The hypothesis that the ASSEMBLED load vector is P^T b_f is what
     _hdiscr.assemble_functional violates for data with finer-level kinks (open finding). *)
  Lemma hspace_l2_reproduces_l c x :
    (forall y, (forall i, (i < N)%nat -> mv N galerkin y i = 0) -> forall i, (i < N)%nat -> y i = 0) ->
    (forall i, (i < N)%nat -> mv N galerkin x i = restrict (loadq Q Cf w (spl N Ch c)) i) ->
    forall i, (i < N)%nat -> x i = c i.
  Proof.
    intros Hinj H. apply (l2_reproduces_l N Q Ch w c x).
    - intros y Hy. apply Hinj. intros i Hi. rewrite <- (Hy i Hi).
      unfold mv. apply sumn_ext. intros j _. rewrite hs_mass. reflexivity.
    - intros i Hi. rewrite hs_load, <- (H i Hi).
      unfold mv. apply sumn_ext. intros j _. rewrite hs_mass. reflexivity.
  Qed.

  Lemma hspace_l2_orthogonal_l f x :
    (forall i, (i < N)%nat -> mv N galerkin x i = restrict (loadq Q Cf w f) i) ->
    forall i, (i < N)%nat -> sumn Q (fun q => Ch q i * w q * (f q - spl N Ch x q)) = 0.
  Proof.
    intros H. apply (l2_residual_orthogonal_l N Q Ch w f x).
    intros i Hi. rewrite hs_load, <- (H i Hi).
    unfold mv. apply sumn_ext. intros j _. rewrite hs_mass. reflexivity.
  Qed.
End Hier.
