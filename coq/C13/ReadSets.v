(* C13 -- what the code generator READS, and why a generator that reads nothing else is a function of
   the key.  The read sets are regenerated on every run by translate/c13_readsets.py (ast walk of
   pyiga/codegen/cython.py and pyiga/vform.py, fail-closed) into coq/gen/C13_ReadSets.v together with the
   obligations [reads_within expr_reads current_table = true], [same_classes ..], [subset reads (key ++
   derived ++ late) = true] per record class and [unresolved = []]. *)
From Coq Require Import String.
From Coq Require Import List ZArith Bool Permutation.
From Verif.C13 Require Import Model Spec Proofs.
Import ListNotations.
Open Scope string_scope.

Definition rtable := list (string * list string).

Fixpoint rlookup (R : rtable) (c : string) : list string :=
  match R with
  | [] => []
  | (k, l) :: R' => if String.eqb c k then l else rlookup R' c
  end.

(* shape and children enter Expr.hash directly (Model.key) *)
Definition structural : list string := ["shape"; "children"].
Definition mem_str (x : string) (l : list string) : bool := existsb (String.eqb x) l.

(* every attribute read of class c is structural or one of the code-relevant attributes of the key table *)
Definition reads_ok (T : table) (rc : string * list string) : bool :=
  forallb (fun a => mem_str a structural || mem_str a (map fst (seml (tlookup T (fst rc))))) (snd rc).
Definition reads_within (R : rtable) (T : table) : bool := forallb (reads_ok T) R.
(* the two translators see the same expression classes, in the same (sorted) order *)
Fixpoint same_classes (R : rtable) (T : table) : bool :=
  match R, T with
  | [], [] => true
  | (c, _) :: R', (d, _) :: T' => String.eqb c d && same_classes R' T'
  | _, _ => false
  end.

(* what a generator that reads only R can see of a tree *)
Definition read_attrs (l : list string) (a : attrs) : attrs :=
  map (fun nm => (nm, lookup nm a)) (filter (fun nm => negb (mem_str nm structural)) l).
Fixpoint restrict (R : rtable) (n : node) : node :=
  match n with
  | Node c sh a ch => Node c sh (read_attrs (rlookup R c) a) (map (restrict R) ch)
  end.
Definition restrict_src (R : rtable) (s : vsrc) : vsrc :=
  match s with SExpr n => SExpr (restrict R n) | _ => s end.
Definition restrict_var (R : rtable) (v : avar) : avar :=
  mk_avar (v_name v) (restrict_src R (v_src v)) (v_shape v) (v_symmetric v) (v_deriv v).
Definition restrict_form (R : rtable) (f : form) : form :=
  mk_form (f_dim f) (f_arity f) (f_vec f) (f_spacetime f) (f_boundary f)
          (f_bfs f) (f_inputs f) (map (restrict_var R) (f_vars f)) (map (restrict R) (f_exprs f)).

(* ------------------------------------------------------------------ *)

Lemma mem_str_in x l : mem_str x l = true <-> In x l.
Proof.
  unfold mem_str. rewrite existsb_exists. split.
  - intros [y [I E]]. apply String.eqb_eq in E. subst; auto.
  - intros I. exists x. split; auto. apply String.eqb_refl.
Qed.

Lemma lookup_sem_attrs cs a nm : In nm (map fst (seml cs)) -> lookup nm (sem_attrs cs a) = lookup nm a.
Proof.
  unfold sem_attrs. induction (seml cs) as [|[k t] l IH]; simpl; intros H; [contradiction|].
  destruct (String.eqb nm k) eqn:E.
  - apply String.eqb_eq in E. subst. reflexivity.
  - destruct H as [H|H]; [subst; rewrite String.eqb_refl in E; discriminate|]. auto.
Qed.

Lemma rlookup_in R c : rlookup R c = [] \/ In (c, rlookup R c) R.
Proof.
  induction R as [|[k l] R IH]; simpl; auto.
  destruct (String.eqb c k) eqn:E.
  - apply String.eqb_eq in E. subst. right. left. reflexivity.
  - destruct IH as [IH|IH]; auto.
Qed.

Lemma read_attrs_strip R T c a : reads_within R T = true ->
  read_attrs (rlookup R c) (sem_attrs (tlookup T c) a) = read_attrs (rlookup R c) a.
Proof.
  intros H. destruct (rlookup_in R c) as [E|I].
  - rewrite E. reflexivity.
  - unfold reads_within in H. rewrite forallb_forall in H. specialize (H _ I).
    unfold reads_ok in H; cbn [fst snd] in H. rewrite forallb_forall in H.
    unfold read_attrs. apply map_ext_in. intros nm IN.
    apply filter_In in IN as [IN NS]. specialize (H _ IN). cbv beta in H.
    apply negb_true_iff in NS. apply orb_true_iff in H as [H|H]; [congruence|].
    apply mem_str_in in H. rewrite lookup_sem_attrs; auto.
Qed.

Lemma restrict_strip R T : reads_within R T = true -> forall n, restrict R (strip T n) = restrict R n.
Proof.
  intros H.
  fix IH 1. intros [c sh a ch]. simpl. f_equal.
  - apply read_attrs_strip. exact H.
  - induction ch as [|x ch IHl]; simpl; auto. f_equal; auto.
Qed.

Lemma restrict_strip_form R T : reads_within R T = true ->
  forall f, restrict_form R (strip_form T f) = restrict_form R f.
Proof.
  intros H f. unfold restrict_form, strip_form; simpl. f_equal.
  - rewrite map_map. apply map_ext. intros v. unfold restrict_var, strip_var; simpl. f_equal.
    destruct (v_src v); simpl; auto. f_equal. apply restrict_strip. exact H.
  - rewrite map_map. apply map_ext. intros n. apply restrict_strip. exact H.
Qed.

(* a generator that reads only R does not distinguish a tree from its code-relevant content *)
Lemma reads_only_strip R T : reads_within R T = true ->
  forall (Code : Type) (g : node -> Code), (forall n, g n = g (restrict R n)) -> forall n, g (strip T n) = g n.
Proof. intros H Code g G n. rewrite (G (strip T n)), (G n). f_equal. apply restrict_strip. exact H. Qed.

Lemma reads_only_strip_form R T : reads_within R T = true ->
  forall (Code : Type) (g : form -> Code), (forall f, g f = g (restrict_form R f)) -> forall f, g (strip_form T f) = g f.
Proof. intros H Code g G f. rewrite (G (strip_form T f)), (G f). f_equal. apply restrict_strip_form. exact H. Qed.

Lemma same_key_same_code_reads_l : forall T R, covers T = true -> reads_within R T = true ->
  forall (Code : Type) (g : node -> Code), (forall n, g n = g (restrict R n)) ->
  forall a b, well_typed T a = true -> well_typed T b = true -> key T a = key T b -> g a = g b.
Proof.
  intros T R C H Code g G a b Wa Wb K.
  rewrite <- (reads_only_strip R T H Code g G a), <- (reads_only_strip R T H Code g G b).
  f_equal. apply key_separates_l; auto.
Qed.

Lemma form_same_key_same_code_reads_l : forall T R, covers T = true -> reads_within R T = true ->
  forall (Code : Type) (g : form -> Code), (forall f, g f = g (restrict_form R f)) ->
  forall f f', wf_form T f = true -> wf_form T f' = true -> form_key T f = form_key T f' -> g f = g f'.
Proof.
  intros T R C H Code g G a b Wa Wb K.
  rewrite <- (reads_only_strip_form R T H Code g G a), <- (reads_only_strip_form R T H Code g G b).
  f_equal. apply form_key_separates_l; auto.
Qed.

(* the cache theorem with the generator applied to the REQUESTED FORM ITSELF (not to its stripped copy) *)
Lemma cache_returns_requested_reads_l :
  forall (T : table) (R : rtable) (C : Type) (gen : bool -> form -> C)
         (seed : list ((form * bool) * C)) (reqs : list (form * bool)),
    covers T = true -> reads_within R T = true ->
    (forall od f, gen od f = gen od (restrict_form R f)) ->
    let build := fun r : form * bool => gen (snd r) (fst r) in
    (forall r c, In (r, c) seed -> wf_form T (fst r) = true /\ c = build r) ->
    Forall (fun r => wf_form T (fst r) = true) reqs ->
    snd (serve _ _ _ keq1 (keyof1 T) (fun r => gen (snd r) (strip_form T (fst r)))
           (preseed _ _ _ (keyof1 T) seed) reqs) = map build reqs.
Proof.
  intros T R C gen seed reqs Cv H G build S F.
  assert (E : forall od f, gen od (strip_form T f) = gen od f).
  { intros od f. apply (reads_only_strip_form R T H C (gen od) (G od)). }
  rewrite (cache_returns_requested_l T C gen seed reqs Cv).
  - apply map_ext. intros r. apply E.
  - intros r c I. destruct (S r c I) as [W Ec]. split; auto. rewrite Ec. unfold build. symmetry. apply E.
  - exact F.
Qed.

(* ------------------------------------------------------------------ *)
(* Record classes (AsmVar, BasisFun, InputField, Parameter, VForm): attributes as a store.  If every attribute
   read lies in key ++ derived, the derived ones are functions of the keyed ones, and two objects agree on
   the keyed attributes, then anything computed from the read attributes agrees. *)
Section Stores.
  Variable V : Type.
  Definition store := string -> V.
  Definition agree (l : list string) (s t : store) : Prop := forall a, In a l -> s a = t a.
  Definition reads_only (Code : Type) (R : list string) (g : store -> Code) : Prop :=
    forall s t, agree R s t -> g s = g t.
  (* d is computed from the keyed attributes by [defn d] *)
  Definition derived_by (K D : list string) (defn : string -> store -> V) (s : store) : Prop :=
    forall d, In d D -> s d = defn d s.

  Lemma subset_in a b x : subset a b = true -> In x a -> In x b.
  Proof.
    unfold subset. rewrite forallb_forall. intros H I. specialize (H x I).
    apply existsb_exists in H as [y [J E]]. apply String.eqb_eq in E. subst; auto.
  Qed.

  Lemma reads_determined_l : forall (Code : Type) (R K D : list string) (g : store -> Code)
      (defn : string -> store -> V),
    subset R (K ++ D) = true -> reads_only Code R g ->
    (forall d, In d D -> reads_only V K (defn d)) ->
    forall s t, derived_by K D defn s -> derived_by K D defn t -> agree K s t -> g s = g t.
  Proof.
    intros Code R K D g defn Sub RO DK s t Ds Dt A. apply RO. intros a I.
    apply (subset_in _ _ _ Sub) in I. apply in_app_or in I as [I|I]; auto.
    rewrite (Ds a I), (Dt a I). apply DK; auto.
  Qed.
End Stores.
