(* C18 -- TensorSum / TensorProd (tensor.py:1059-1152) over the tensors of Model.v, and the
   subtraction of canonical tensors and of Kronecker-rank operators (tensor.py:813-814, 1220-1221).
   Definitions and proofs; the property theorems are restated in Props3.v. *)
From Coq Require Import List Arith Bool ZArith Lia Ring.
From Verif.C18 Require Import Model Proofs.
Import ListNotations.

Section SumProd.
Variable R : Type.
Variables (rO rI : R) (radd rmul rsub : R -> R -> R) (ropp : R -> R).
Variable Rth : ring_theory rO rI radd rmul rsub ropp (@eq R).
Add Ring RringS : Rth.

Local Notation "0" := rO.
Local Notation "1" := rI.
Local Infix "+" := radd.
Local Infix "*" := rmul.
Local Infix "-" := rsub.
Local Notation "- x" := (ropp x).

Local Notation tens := (Model.tens R).
Local Notation entry := (Model.entry R rO rI radd rmul).
Local Notation centry := (Model.centry R rO rI radd rmul).
Local Notation tentry := (Model.tentry R rO radd rmul).
Local Notation kentry := (Model.kentry R rO rI radd rmul).
Local Notation neg := (Model.neg R ropp).
Local Notation rsum := (Model.rsum R rO radd).

(* a tensor is a term of Model.v (scalar, ndarray, canonical, Tucker), a TensorSum or a TensorProd *)
Inductive tens2 :=
| T2B (t : tens)
| T2Sum (xs : list tens2)
| T2Prod (xs : list tens2).

(* .shape: tensor.py:1063-1064 (shape of the first term), 1112-1121 (concatenation) *)
Fixpoint shape2 (t : tens2) : list nat :=
  match t with
  | T2B b => Model.shape_of R b
  | T2Sum xs => match xs with [] => [] | x :: _ => shape2 x end
  | T2Prod xs => (fix go (l : list tens2) : list nat :=
                    match l with [] => [] | x :: l' => shape2 x ++ go l' end) xs
  end.

(* asarray: tensor.py:1070-1075 (sum of the expansions), 1126-1129 (array_outer of the expansions:
   the index is cut into the pieces belonging to the factors) *)
Fixpoint entry2 (t : tens2) (idx : list nat) : R :=
  match t with
  | T2B b => entry b idx
  | T2Sum xs => (fix go (l : list tens2) : R :=
                   match l with [] => 0 | x :: l' => entry2 x idx + go l' end) xs
  | T2Prod xs => (fix go (l : list tens2) (idx : list nat) : R :=
                    match l with
                    | [] => 1
                    | x :: l' => let n := length (shape2 x) in
                                 entry2 x (firstn n idx) * go l' (skipn n idx)
                    end) xs idx
  end.

Definition mapres {A B} (f : A -> res B) : list A -> res (list B) :=
  fix go (l : list A) : res (list B) :=
    match l with
    | [] => Ok []
    | x :: l' => bind (f x) (fun y => bind (go l') (fun r => Ok (y :: r)))
    end.

(* the TensorSum constructor: tensor.py:1061-1066 *)
Definition mk_sum (xs : list tens2) : res tens2 :=
  match xs with
  | [] => Err AssertionError
  | x :: xs' => if forallb (fun y => list_eqb (shape2 y) (shape2 x)) xs' then Ok (T2Sum xs)
                else Err AssertionError
  end.

(* __neg__: tensor.py:1097-1098 (every term), 1141-1142 (the first factor) *)
Fixpoint neg2 (t : tens2) : res tens2 :=
  match t with
  | T2B b => bind (neg b) (fun b' => Ok (T2B b'))
  | T2Sum xs => bind (mapres (fun x => neg2 x) xs) mk_sum
  | T2Prod xs => match xs with
                 | [] => Err IndexError
                 | x :: xs' => bind (neg2 x) (fun y => Ok (T2Prod (y :: xs')))
                 end
  end.

(* __add__ / __sub__: tensor.py:1091-1095, 1135-1139 *)
Definition add2 (a b : tens2) : res tens2 :=
  match a with
  | T2Sum xs => mk_sum (xs ++ [b])
  | T2Prod _ => mk_sum [a; b]
  | T2B _ => Err TypeError
  end.
Definition sub2 (a b : tens2) : res tens2 := bind (neg2 b) (add2 a).

(* __getitem__ of a TensorSum, tensor.py:1100-1105: the terms are indexed one by one; all scalars are
   summed up, otherwise the results form a new TensorSum.  [gi] is the __getitem__ of the terms. *)
Definition is_scal (t : tens2) : bool := match t with T2B (TScal _ _) => true | _ => false end.
Definition sum_getitem (gi : tens2 -> res tens2) (xs : list tens2) : res tens2 :=
  bind (mapres gi xs) (fun ys =>
    if forallb is_scal ys then Ok (T2B (TScal R (rsum (map (fun y => entry2 y []) ys)))) else mk_sum ys).

(* nway_prod of a TensorSum, tensor.py:1083-1089 *)
Definition sum_nway (Bs : list (option (Model.mat R))) (xs : list tens) : res tens2 :=
  bind (mapres (fun x => bind (Model.nway R rO radd rmul Bs x) (fun y => Ok (T2B y))) xs) mk_sum.

(* ------------------------------------------------------------------ *)

Lemma entry2_sum xs idx : entry2 (T2Sum xs) idx = rsum (map (fun x => entry2 x idx) xs).
Proof. induction xs as [|x xs IH]; [reflexivity|]. simpl in *. rewrite IH. reflexivity. Qed.

Lemma mk_sum_ok xs t : mk_sum xs = Ok t -> t = T2Sum xs.
Proof.
  unfold mk_sum. destruct xs as [|x xs]; [discriminate|].
  destruct (forallb _ xs); [|discriminate]. intros H; inversion H; reflexivity.
Qed.

(* every term of a TensorSum built by the constructor has the shape of the sum *)
Lemma mk_sum_shapes xs t : mk_sum xs = Ok t ->
  Forall (fun x => list_eqb (shape2 x) (shape2 t) = true) xs.
Proof.
  unfold mk_sum. destruct xs as [|x xs]; [discriminate|].
  destruct (forallb _ xs) eqn:E; [|discriminate]. intros H; inversion H; subst t. simpl.
  constructor.
  - unfold list_eqb. rewrite Nat.eqb_refl. simpl.
    assert (G : forall l : list nat, forallb (fun p => fst p =? snd p) (combine l l) = true).
    { induction l as [|a l IH]; [reflexivity|]. simpl. rewrite Nat.eqb_refl. exact IH. }
    apply G.
  - rewrite forallb_forall in E. apply Forall_forall. exact E.
Qed.

(* asarray(S + T) = asarray(S) + asarray(T) for a TensorSum S and any tensor T *)
Lemma sum_add_spec xs b t idx :
  add2 (T2Sum xs) b = Ok t -> entry2 t idx = entry2 (T2Sum xs) idx + entry2 b idx.
Proof.
  unfold add2. intros H. apply mk_sum_ok in H. subst t.
  rewrite !entry2_sum, map_app, (Proofs.rsum_app R rO rI radd rmul rsub ropp Rth). simpl. ring.
Qed.

(* asarray(P + T) = asarray(P) + asarray(T) for a TensorProd P *)
Lemma prod_add_spec ps b t idx :
  add2 (T2Prod ps) b = Ok t -> entry2 t idx = entry2 (T2Prod ps) idx + entry2 b idx.
Proof.
  unfold add2. intros H. apply mk_sum_ok in H. subst t.
  rewrite entry2_sum. cbn [map Model.rsum fold_right]. ring.
Qed.

(* negation of a term of Model.v commutes with expansion (scalar, ndarray, canonical, Tucker) *)
Lemma base_neg_spec (b b' : tens) idx :
  length idx = length (Model.shape_of R b) ->
  neg b = Ok b' -> entry b' idx = - entry b idx.
Proof.
  intros HL H. destruct b as [a|A|Xs|Us X]; simpl in H; inversion H; subst b'; unfold Model.entry; simpl.
  - reflexivity.
  - reflexivity.
  - apply (Proofs.canon_neg_spec R rO rI radd rmul rsub ropp Rth).
    simpl in HL. unfold Model.cshape in HL. rewrite map_length in HL. exact HL.
  - apply (Proofs.tucker_neg_spec R rO rI radd rmul rsub ropp Rth).
Qed.

Lemma mapres_neg_base (bs : list tens) : forall ys,
  mapres neg2 (map T2B bs) = Ok ys ->
  exists bs', ys = map T2B bs' /\ Forall2 (fun b b' => neg b = Ok b') bs bs'.
Proof.
  induction bs as [|b bs IH]; intros ys H; simpl in H.
  - inversion H. exists []. split; [reflexivity|constructor].
  - destruct (neg b) as [b'|e] eqn:Eb; simpl in H; [|discriminate].
    destruct (mapres neg2 (map T2B bs)) as [r|e] eqn:Er; simpl in H; [|discriminate].
    inversion H; subst ys. destruct (IH r eq_refl) as [bs' [-> F]].
    exists (b' :: bs'). split; [reflexivity|constructor; assumption].
Qed.

(* asarray(-S) = -asarray(S) for a TensorSum of scalar / ndarray / canonical / Tucker terms *)
Lemma sum_neg_spec (bs : list tens) t idx :
  Forall (fun b => length idx = length (Model.shape_of R b)) bs ->
  neg2 (T2Sum (map T2B bs)) = Ok t ->
  entry2 t idx = - entry2 (T2Sum (map T2B bs)) idx.
Proof.
  intros HL H. cbn [neg2] in H.
  destruct (mapres neg2 (map T2B bs)) as [ys|e] eqn:E; simpl in H; [|discriminate].
  apply mk_sum_ok in H. subst t.
  destruct (mapres_neg_base bs ys E) as [bs' [-> F]].
  rewrite !entry2_sum, !map_map. cbn [entry2].
  clear E. induction F as [|b b' bs bs' Hb F IH]; simpl.
  - ring.
  - inversion HL; subst. rewrite (base_neg_spec b b' idx) by assumption. rewrite IH by assumption. ring.
Qed.

(* asarray(S - T) = asarray(S) - asarray(T) for a TensorSum S and a term T of Model.v *)
Lemma sum_sub_spec xs (b : tens) t idx :
  length idx = length (Model.shape_of R b) ->
  sub2 (T2Sum xs) (T2B b) = Ok t -> entry2 t idx = entry2 (T2Sum xs) idx - entry2 (T2B b) idx.
Proof.
  intros HL H. unfold sub2 in H. cbn [neg2] in H.
  destruct (neg b) as [b'|e] eqn:Eb; simpl in H; [|discriminate].
  change (add2 (T2Sum xs) (T2B b') = Ok t) in H.
  rewrite (sum_add_spec _ _ _ _ H). cbn [entry2]. rewrite (base_neg_spec b b' idx HL Eb). ring.
Qed.

(* -P for a TensorProd whose first factor is a term of Model.v: only that factor is negated *)
Lemma prod_neg_spec (b : tens) ps t idx :
  length (firstn (length (Model.shape_of R b)) idx) = length (Model.shape_of R b) ->
  neg2 (T2Prod (T2B b :: ps)) = Ok t -> entry2 t idx = - entry2 (T2Prod (T2B b :: ps)) idx.
Proof.
  intros HL H. cbn [neg2] in H.
  destruct (neg b) as [b'|e] eqn:Eb; simpl in H; [|discriminate].
  inversion H; subst t. cbn [entry2 shape2].
  assert (ES : Model.shape_of R b' = Model.shape_of R b).
  { destruct b as [a|A|Xs|Us X]; simpl in Eb; inversion Eb; subst b'; try reflexivity.
    simpl. destruct Xs; reflexivity. }
  rewrite ES. rewrite (base_neg_spec b b' _ HL Eb). ring.
Qed.

Lemma mapres_Forall2 {A B} (f : A -> res B) : forall l ys, mapres f l = Ok ys -> Forall2 (fun x y => f x = Ok y) l ys.
Proof.
  induction l as [|x l IH]; intros ys H; simpl in H.
  - inversion H. constructor.
  - destruct (f x) as [y|e] eqn:Ex; simpl in H; [|discriminate].
    destruct (mapres f l) as [r|e] eqn:Er; simpl in H; [|discriminate].
    inversion H; subst ys. constructor; [exact Ex|apply IH; reflexivity].
Qed.

Lemma forallb_scal_entry ys : forallb is_scal ys = true -> forall idx, map (fun y => entry2 y idx) ys = map (fun y => entry2 y []) ys.
Proof.
  intros H idx. apply map_ext_in. intros y Hy. rewrite forallb_forall in H. specialize (H y Hy).
  destruct y as [[a|A|Xs|Us X]|xs|xs]; simpl in H; try discriminate. reflexivity.
Qed.

(* TensorSum.__getitem__: if the __getitem__ gi of every term returns the selected entries of that term
   (sel maps an index of the result to the index of the original), so does the __getitem__ of the sum;
   all-int expressions return the sum of the scalar entries *)
Lemma sum_getitem_spec (gi : tens2 -> res tens2) (sel : list nat -> list nat) xs t idx' :
  (forall x y, In x xs -> gi x = Ok y -> entry2 y idx' = entry2 x (sel idx')) ->
  sum_getitem gi xs = Ok t ->
  entry2 t idx' = entry2 (T2Sum xs) (sel idx').
Proof.
  intros Hgi H. unfold sum_getitem in H.
  destruct (mapres gi xs) as [ys|e] eqn:E; simpl in H; [|discriminate].
  apply mapres_Forall2 in E.
  assert (HS : rsum (map (fun y => entry2 y idx') ys) = entry2 (T2Sum xs) (sel idx')).
  { rewrite entry2_sum. clear H. induction E as [|x y xs ys Hxy E IH]; [reflexivity|]. simpl.
    rewrite (Hgi x y (or_introl eq_refl) Hxy). rewrite IH; [reflexivity|].
    intros x0 y0 Hin. apply Hgi. right. exact Hin. }
  destruct (forallb is_scal ys) eqn:Esc.
  - inversion H; subst t. cbn [entry2]. unfold Model.entry. simpl.
    rewrite <- (forallb_scal_entry ys Esc idx'). exact HS.
  - apply mk_sum_ok in H. subst t. rewrite entry2_sum. exact HS.
Qed.

(* TensorSum.nway_prod: asarray(apply_tprod(Bs, S)) = apply_tprod(Bs, asarray(S)) given that statement
   for every term (canon_nway, tucker_nway, and by definition for ndarrays) *)
Lemma sum_nway_spec Bs (xs : list tens) t idx (F : tens -> list nat -> R) :
  (forall x y, In x xs -> Model.nway R rO radd rmul Bs x = Ok y -> entry y idx = F x idx) ->
  sum_nway Bs xs = Ok t ->
  entry2 t idx = rsum (map (fun x => F x idx) xs).
Proof.
  intros HF H. unfold sum_nway in H.
  destruct (mapres _ xs) as [ys|e] eqn:E; simpl in H; [|discriminate].
  apply mk_sum_ok in H. subst t. apply mapres_Forall2 in E. rewrite entry2_sum.
  induction E as [|x y xs ys Hxy E IH]; [reflexivity|]. simpl.
  destruct (Model.nway R rO radd rmul Bs x) as [y0|e] eqn:Ex; simpl in Hxy; [|discriminate].
  inversion Hxy; subst y. cbn [entry2]. rewrite (HF x y0 (or_introl eq_refl) Ex).
  rewrite IH; [reflexivity|]. intros x1 y1 Hin. apply HF. right. exact Hin.
Qed.

(* ------------------------------------------------------------------ *)
(* subtraction: CanonicalTensor.__sub__ = self + (-T2) (tensor.py:813), CanonicalOperator.__sub__ =
   self + (-other) (tensor.py:1220) *)
Lemma canon_sub_spec (A B : list (Model.mat R)) idx ra rb :
  Proofs.uniform R A ra -> Proofs.uniform R B rb -> length A = length B -> A <> [] ->
  length idx = length B ->
  centry (Model.canon_add R A (Model.canon_neg R ropp B)) idx = centry A idx - centry B idx.
Proof.
  intros HA HB HL Hne Hi.
  assert (HB' : Proofs.uniform R (Model.canon_neg R ropp B) rb).
  { destruct B as [|X B]; [exact HB|]. inversion HB; subst. constructor; [reflexivity|assumption]. }
  rewrite (Proofs.canon_add_spec R rO rI radd rmul rsub ropp Rth A _ idx ra rb HA HB').
  - rewrite (Proofs.canon_neg_spec R rO rI radd rmul rsub ropp Rth B idx Hi). ring.
  - destruct B; simpl; exact HL.
  - exact Hne.
Qed.

Lemma canop_sub_spec (A B : list (list (Model.mat R))) I J :
  Forall (fun t => t <> []) B -> I <> [] -> J <> [] ->
  kentry (Model.canop_add R A (Model.canop_neg R ropp B)) I J = kentry A I J - kentry B I J.
Proof.
  intros HB HI HJ.
  rewrite (Proofs.canop_add_spec R rO rI radd rmul rsub ropp Rth).
  rewrite (Proofs.canop_neg_spec R rO rI radd rmul rsub ropp Rth B I J HB HI HJ). ring.
Qed.

End SumProd.
