(* C06 -- the space-time split of replace_physical_derivs (vform.py:574-586) in the model:
   on a cylinder G(x,t) = (G~(x), t) the emitted expression for one space derivative and ANY
   number n of time derivatives is the physical derivative d_x_k d_t^n u~. *)
From Coq Require Import List String Bool Arith Lia Field Ring.
From Verif.C06 Require Import Model.
Import ListNotations.

Section ST.
Variable F : Type.
Variables (f0 f1 : F) (fadd fmul fsub fdiv : F -> F -> F) (fopp finv : F -> F).
Hypothesis Fth : field_theory f0 f1 fadd fmul fsub fopp fdiv finv (@eq F).
Add Field Ffield5 : Fth.
Infix "+" := fadd. Infix "*" := fmul. Infix "-" := fsub. Infix "/" := fdiv.
Notation "- x" := (fopp x).
Notation eval := (eval F fadd fmul fsub fdiv fopp).
Notation expr := (expr F).
Notation env := (env F).
Notation rpd_bf := (rpd_bf F f0).

Variable Js : nat -> nat -> F.       (* Jacobian of the space part G~ *)
Variable P : nat -> F.               (* physical jets d_x_k d_t^n u~, k a space axis *)

(* the Jacobian of the cylinder: block diag (Js, 1) *)
Definition Jc (d a b : nat) : F :=
  if (a =? d - 1) || (b =? d - 1) then (if a =? b then f1 else f0) else Js a b.
Definition Jcm (d : nat) : list (list expr) :=
  map (fun a => map (fun b => Const (Jc d a b)) (seq 0 d)) (seq 0 d).
Definition dummy : env := mkEnv (fun _ _ _ _ => f0) (fun _ _ _ _ => f0) (fun _ => f0) f0 f0 (fun _ x => x).
Definition detJc (d : nat) : F :=
  match e_det F f1 fopp (S d) (Jcm d) with Some e => eval dummy e | None => f0 end.

(* one space derivative along axis i and n time derivatives *)
Definition Dst (d i n : nat) : list nat := bump (unitD d i) (d - 1) n.

Lemma fold_bump_2 : forall n a b, fold_left (fun D i => bump D i 1) (repeat 1 n) [a; b] = [a; (b + n)%nat].
Proof.
  induction n; intros a b; simpl.
  - f_equal. f_equal. lia.
  - rewrite IHn. f_equal. f_equal. lia.
Qed.

Lemma fold_bump_3 : forall n a b c, fold_left (fun D i => bump D i 1) (repeat 2 n) [a; b; c] = [a; b; (c + n)%nat].
Proof.
  induction n; intros a b c; simpl.
  - f_equal. f_equal. f_equal. lia.
  - rewrite IHn. f_equal. f_equal. f_equal. lia.
Qed.

Lemma indices_to_D_st2 : forall n, indices_to_D 2 (0 :: repeat 1 n) = Dst 2 0 n.
Proof. intros. unfold indices_to_D. simpl. rewrite fold_bump_2. reflexivity. Qed.

Lemma indices_to_D_st3 : forall n i, i < 2 -> indices_to_D 3 (i :: repeat 2 n) = Dst 3 i n.
Proof.
  intros n i Hi. unfold indices_to_D. destruct i as [|[|i]]; try lia; simpl; rewrite fold_bump_3; reflexivity.
Qed.

Definition newdefs (d : nat) (name : string) (comp : option nat) (n : nat) : list (def F) :=
  map (fun i => (pdname name (Dst d i n), TS (PD name comp (Dst d i n) false))) (seq 0 (d - 1)).

(* hypotheses on the environment: JacInv is the model's inverse of the cylinder Jacobian, the
   helper variables have the values of their definitions, and the parametric jets are the
   composition of the physical ones with the space Jacobian *)
Definition st_env_ok (d : nat) (name : string) (comp : option nat) (n : nat) (en : env) : Prop :=
  (forall a b, e_vr en "JacInv" [a; b] (zerosD d) false = eval dummy (inv_entry F f0 f1 fopp (Jcm d) a b)) /\
  (forall i, i < d - 1 -> e_vr en (pdname name (Dst d i n)) [] (zerosD d) false = e_pd en name comp (Dst d i n) false) /\
  (forall i, i < d - 1 ->
     e_pd en name comp (Dst d i n) false = fold_right (fun k acc => Js k i * P k + acc) f0 (seq 0 (d - 1))).

Definition st_ok (d : nat) (name : string) (comp : option nat) (n k : nat) (en : env) : Prop :=
  match rpd_bf true d name comp (Dst d k n) true with
  | RNew e ds => eval en e = P k /\ ds = newdefs d name comp n
  | _ => False
  end.

(* side condition of [field]: the determinant in whatever normal form *)
Ltac nz Hd :=
  match goal with
  | |- ?c <> _ => let H := fresh "H" in (intro H; apply Hd; transitivity c; [ring | exact H])
  end.

Lemma spacetime_split_2_l : forall name comp n en,
  detJc 2 <> f0 -> st_env_ok 2 name comp n en -> st_ok 2 name comp n 0 en.
Proof.
  intros name comp n en Hd [HJ [Hv Hp]]. cbv in Hd.
  unfold st_ok, rpd_bf. 
  assert (E : Dst 2 0 n = [1; n]) by reflexivity.
  rewrite E. cbn [sumD fold_right Nat.add Nat.eqb negb firstn Nat.sub D_to_indices D_to_indices_from repeat app nth].
  replace ((1 + (n + 0))%nat =? 0) with false by reflexivity.
  cbn [seq map e_inner combine reduce_add fold_left fst snd osome].
  rewrite indices_to_D_st2. split; [|reflexivity].
  cbn [Model.eval Model.opf jacinv]. rewrite (HJ 0 0), (Hv 0) by lia. rewrite (Hp 0) by lia.
  cbv. field. nz Hd.
Qed.

Lemma spacetime_split_3_l : forall name comp n en,
  detJc 3 <> f0 -> st_env_ok 3 name comp n en -> forall k, k < 2 -> st_ok 3 name comp n k en.
Proof.
  intros name comp n en Hd [HJ [Hv Hp]] k Hk. cbv in Hd.
  unfold st_ok, rpd_bf.
  destruct k as [|[|k]]; try lia.
  - assert (E : Dst 3 0 n = [1; 0; n]) by reflexivity.
    rewrite E. cbn [sumD fold_right Nat.add Nat.eqb negb firstn Nat.sub D_to_indices D_to_indices_from repeat app nth].
    replace ((1 + (0 + (n + 0)))%nat =? 0) with false by reflexivity.
    cbn [seq map e_inner combine reduce_add fold_left fst snd osome].
    rewrite !indices_to_D_st3 by lia. split; [|reflexivity].
    cbn [Model.eval Model.opf jacinv]. rewrite (HJ 0 0), (HJ 1 0), (Hv 0), (Hv 1) by lia. rewrite (Hp 0), (Hp 1) by lia.
    cbv. field. nz Hd.
  - assert (E : Dst 3 1 n = [0; 1; n]) by reflexivity.
    rewrite E. cbn [sumD fold_right Nat.add Nat.eqb negb firstn Nat.sub D_to_indices D_to_indices_from repeat app nth].
    replace ((0 + (1 + (n + 0)))%nat =? 0) with false by reflexivity.
    cbn [seq map e_inner combine reduce_add fold_left fst snd osome].
    rewrite !indices_to_D_st3 by lia. split; [|reflexivity].
    cbn [Model.eval Model.opf jacinv]. rewrite (HJ 0 1), (HJ 1 1), (Hv 0), (Hv 1) by lia. rewrite (Hp 0), (Hp 1) by lia.
    cbv. field. nz Hd.
Qed.

End ST.
