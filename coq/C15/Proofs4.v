(* C15 -- level reordering (MLMatrix.reorder): entries at permuted digits (final round). *)
From Coq Require Import ZArith List Bool Lia Arith.
From Verif.C15 Require Import Model Spec Proofs Proofs3.
Import ListNotations.
Open Scope Z_scope.

(* the selection addressed by a multi-index K into the data layout (K_k-th entry of level k) *)
Fixpoint sel_of {B : Type} (d : B) (ls : list (list B)) (K : list nat) : list B :=
  match ls, K with
  | l :: ls', k :: K' => nth k l d :: sel_of d ls' K'
  | _, _ => []
  end.

(* its position in the C-ordered data tensor *)
Fixpoint pos_of {B : Type} (ls : list (list B)) (K : list nat) : nat :=
  match ls, K with
  | l :: ls', k :: K' => (k * length (product ls') + pos_of ls' K')%nat
  | _, _ => O
  end.

Lemma nth_flat_map_uniform : forall {A B : Type} (g : A -> list B) (len : nat) (l : list A) (d : A) (dd : B) k n,
  (forall x, length (g x) = len) -> (k < length l)%nat -> (n < len)%nat ->
  nth (k * len + n) (flat_map g l) dd = nth n (g (nth k l d)) dd.
Proof.
  intros A B g len l d dd. induction l as [|a l IH]; intros k n Hg Hk Hn; simpl in Hk; [lia|].
  destruct k as [|k]; simpl.
  - rewrite app_nth1; auto. rewrite Hg. lia.
  - rewrite app_nth2 by (rewrite Hg; lia). rewrite Hg.
    replace (len + k * len + n - len)%nat with (k * len + n)%nat by lia. apply IH; auto. lia.
Qed.

Lemma flat_map_uniform_length : forall {A B : Type} (g : A -> list B) (len : nat) (l : list A),
  (forall x, length (g x) = len) -> length (flat_map g l) = (length l * len)%nat.
Proof. induction l; intros H; simpl; auto. rewrite app_length, H, IHl; auto. Qed.

Lemma product_nth : forall {B : Type} (d : B) (ls : list (list B)) (K : list nat),
  cvalid ls K ->
  (pos_of ls K < length (product ls))%nat /\ nth (pos_of ls K) (product ls) [] = sel_of d ls K.
Proof.
  induction ls as [|l ls IH]; intros K HK; destruct K as [|k K]; simpl in HK; try tauto.
  - simpl. split; auto.
  - destruct HK as [Hk HK]. destruct (IH K HK) as [IH1 IH2].
    cbn [product pos_of sel_of].
    assert (Hlen : forall x : B, length (map (cons x) (product ls)) = length (product ls))
      by (intros; apply map_length).
    split.
    + clear IH2. rewrite (flat_map_uniform_length _ (length (product ls))) by (intros; apply Hlen).
      nia.
    + rewrite (nth_flat_map_uniform _ (length (product ls)) l d []) by auto.
      rewrite (nth_indep _ [] (nth k l d :: [])) by (rewrite map_length; auto).
      rewrite (map_nth (cons (nth k l d))). rewrite IH2. reflexivity.
Qed.

Lemma dense_entry_combine_notin : forall P data r c, ~ In (r, c) P -> dense_entry (combine P data) r c = 0.
Proof.
  induction P as [|[i j] P IH]; intros data r c H; destruct data as [|x data]; simpl; auto.
  rewrite IH by (intros H'; apply H; right; auto).
  destruct (Z.eqb_spec i r), (Z.eqb_spec j c); simpl; auto. subst. exfalso. apply H. left; auto.
Qed.

(* distinct positions: the entry at the n-th position of the layout is the n-th datum *)
Lemma dense_entry_combine_nth : forall P data n, NoDup P -> (n < length P)%nat ->
  dense_entry (combine P data) (fst (nth n P (0, 0))) (snd (nth n P (0, 0))) = nth n data 0.
Proof.
  induction P as [|[i j] P IH]; intros data n ND Hn; simpl in Hn; [lia|].
  inversion ND; subst. destruct data as [|x data].
  - simpl. destruct n; reflexivity.
  - destruct n as [|n].
    + cbn [nth fst snd combine dense_entry]. rewrite !Z.eqb_refl. cbn [andb].
      rewrite dense_entry_combine_notin by auto. lia.
    + cbn [nth combine dense_entry]. rewrite IH by (auto; lia).
      assert (Hne : nth n P (0, 0) <> (i, j)) by (intros E; apply H1; rewrite <- E; apply nth_In; lia).
      destruct (nth n P (0, 0)) as [a b]. cbn [fst snd].
      destruct (Z.eqb_spec i a), (Z.eqb_spec j b); cbn [andb]; try lia. subst. congruence.
Qed.

(* E1: the entry of asmatrix at the position addressed by K is data[K] *)
Lemma asm_entry_at : forall bs bidx data K,
  wf_structure bs bidx -> Forall (@NoDup (Z * Z)) bidx -> cvalid bidx K ->
  let e := entry_of bs (sel_of (0, 0) bidx K) in
  dense_entry (asmatrix bs bidx data) (fst e) (snd e) = nth (pos_of bidx K) data 0.
Proof.
  intros bs bidx data K Hwf HN HK. cbv zeta.
  assert (Hl : length bs = length bidx) by (symmetry; eapply Forall2_length'; eauto).
  rewrite asmatrix_spec_l by auto.
  destruct (product_nth (0, 0) bidx K HK) as [Hp Hs].
  rewrite <- Hs.
  assert (E : entry_of bs (nth (pos_of bidx K) (product bidx) []) = nth (pos_of bidx K) (kron_pattern bs bidx) (0, 0)).
  { unfold kron_pattern. rewrite (nth_indep _ (0, 0) (entry_of bs [])) by (rewrite map_length; auto).
    rewrite map_nth. reflexivity. }
  rewrite E. apply dense_entry_combine_nth.
  - apply kron_pattern_NoDup; auto.
  - unfold kron_pattern. rewrite map_length. auto.
Qed.

(* ------------------------------------------------------------------------ *)
(* picking levels                                                            *)
(* ------------------------------------------------------------------------ *)
Lemma Forall2_nth_rel : forall {A B : Type} (R : A -> B -> Prop) l1 l2 d1 d2 a,
  Forall2 R l1 l2 -> (a < length l1)%nat -> R (nth a l1 d1) (nth a l2 d2).
Proof.
  intros A B R l1 l2 d1 d2 a H. revert a. induction H; intros a Ha; simpl in Ha; [lia|].
  destruct a; simpl; auto. apply IHForall2. lia.
Qed.

Lemma wf_pick : forall bs bidx axes, wf_structure bs bidx ->
  Forall (fun a => (a < length bidx)%nat) axes ->
  wf_structure (reorder_bs bs axes) (reorder_bidx bidx axes).
Proof.
  unfold wf_structure, reorder_bs, reorder_bidx, pick. intros bs bidx axes Hwf HA.
  induction HA as [|a axes Ha HA IH]; simpl; constructor; auto.
  apply Forall2_nth_rel; auto.
Qed.

Lemma NoDup_pick : forall (bidx : list pat) axes, Forall (@NoDup (Z * Z)) bidx ->
  Forall (fun a => (a < length bidx)%nat) axes -> Forall (@NoDup (Z * Z)) (reorder_bidx bidx axes).
Proof.
  unfold reorder_bidx, pick. intros bidx axes HN HA.
  induction HA as [|a axes Ha HA IH]; simpl; constructor; auto.
  rewrite Forall_forall in HN. apply HN. apply nth_In. auto.
Qed.

Lemma cvalid_nth : forall {B : Type} (ls : list (list B)) K a, cvalid ls K -> (a < length ls)%nat ->
  (nth a K O < length (nth a ls []))%nat.
Proof.
  induction ls as [|l ls IH]; intros K a HK Ha; destruct K as [|k K]; simpl in *; try tauto; try lia.
  destruct HK as [Hk HK]. destruct a; auto. apply IH; auto. lia.
Qed.

Lemma cvalid_pick : forall {B : Type} (ls : list (list B)) K axes, cvalid ls K ->
  Forall (fun a => (a < length ls)%nat) axes -> cvalid (pick [] ls axes) (pick O K axes).
Proof.
  unfold pick. intros B ls K axes HK HA. induction HA as [|a axes Ha HA IH]; simpl; auto.
  split; auto. apply cvalid_nth; auto.
Qed.

Lemma sel_of_nth : forall {B : Type} (d : B) (ls : list (list B)) K a, cvalid ls K -> (a < length ls)%nat ->
  nth a (sel_of d ls K) d = nth (nth a K O) (nth a ls []) d.
Proof.
  induction ls as [|l ls IH]; intros K a HK Ha; destruct K as [|k K]; simpl in *; try tauto; try lia.
  destruct HK as [Hk HK]. destruct a; auto. apply IH; auto. lia.
Qed.

Lemma sel_of_pick : forall {B : Type} (d : B) (ls : list (list B)) K axes, cvalid ls K ->
  Forall (fun a => (a < length ls)%nat) axes ->
  sel_of d (pick [] ls axes) (pick O K axes) = pick d (sel_of d ls K) axes.
Proof.
  unfold pick. intros B d ls K axes HK HA. induction HA as [|a axes Ha HA IH]; simpl; auto.
  rewrite IH. f_equal. symmetry. apply sel_of_nth; auto.
Qed.

(* ------------------------------------------------------------------------ *)
(* positions depend on the level sizes only                                  *)
(* ------------------------------------------------------------------------ *)
Lemma product_length_sizes : forall {B C : Type} (ls : list (list B)) (ls' : list (list C)),
  map (@length B) ls = map (@length C) ls' -> length (product ls) = length (product ls').
Proof.
  intros. rewrite !product_length. unfold total_len. rewrite H. reflexivity.
Qed.

Lemma pos_of_sizes : forall {B C : Type} (ls : list (list B)) (ls' : list (list C)) K,
  map (@length B) ls = map (@length C) ls' -> pos_of ls K = pos_of ls' K.
Proof.
  induction ls as [|l ls IH]; intros ls' K H; destruct ls' as [|l' ls']; simpl in H; try discriminate; auto.
  inversion H. destruct K as [|k K]; simpl; auto.
  rewrite (IH ls' K) by auto. rewrite (product_length_sizes ls ls') by auto. reflexivity.
Qed.

Lemma cvalid_sizes : forall {B C : Type} (ls : list (list B)) (ls' : list (list C)) K,
  map (@length B) ls = map (@length C) ls' -> cvalid ls K -> cvalid ls' K.
Proof.
  induction ls as [|l ls IH]; intros ls' K H HK; destruct ls' as [|l' ls']; simpl in H; try discriminate;
    destruct K as [|k K]; simpl in *; try tauto.
  injection H as H1 H2. destruct HK as [Hk HK]. split; [rewrite <- H1; exact Hk|]. eapply IH; eauto.
Qed.

Lemma range_length : forall n, length (range (Z.of_nat n)) = n.
Proof. intros. unfold range. rewrite map_length, seq_length. apply Nat2Z.id. Qed.

Lemma range_nth : forall n k, (k < n)%nat -> nth k (range (Z.of_nat n)) 0 = Z.of_nat k.
Proof.
  intros. unfold range. rewrite Nat2Z.id.
  change 0 with (Z.of_nat O). rewrite map_nth. rewrite seq_nth by auto. reflexivity.
Qed.

Lemma sel_of_ranges : forall (ns : list nat) K, cvalid (map (fun n => range (Z.of_nat n)) ns) K ->
  sel_of 0 (map (fun n => range (Z.of_nat n)) ns) K = map Z.of_nat K.
Proof.
  induction ns as [|n ns IH]; intros K HK; destruct K as [|k K]; simpl in *; try tauto.
  destruct HK as [Hk HK]. rewrite range_length in Hk. rewrite range_nth by auto. rewrite IH; auto.
Qed.

Lemma index_of_spec : forall j axes k, In j axes ->
  exists i, index_of j axes k = (k + i)%nat /\ (i < length axes)%nat /\ nth i axes O = j.
Proof.
  induction axes as [|a axes IH]; intros k H; [destruct H|]. simpl.
  destruct (Nat.eqb_spec a j).
  - exists O. simpl. repeat split; auto; lia.
  - destruct H as [H|H]; [contradiction|]. destruct (IH (S k) H) as (i & E & Hi & Hn).
    exists (S i). simpl. repeat split; auto; lia.
Qed.

Lemma prodZ_datashape : forall (ls : list pat), prodZ (datashape ls) = Z.of_nat (length (product ls)).
Proof.
  induction ls as [|l ls IH].
  - reflexivity.
  - change (prodZ (datashape (l :: ls))) with (Z.of_nat (length l) * prodZ (datashape ls)).
    rewrite IH. cbn [product].
    rewrite (flat_map_uniform_length _ (length (product ls))) by (intros; apply map_length). lia.
Qed.

Lemma pos_of_to_seq : forall (ls : list pat) K, length K = length ls ->
  to_seq (map Z.of_nat K) (datashape ls) = Z.of_nat (pos_of ls K).
Proof.
  induction ls as [|l ls IH]; intros K HK; destruct K as [|k K]; simpl in HK; try discriminate.
  - reflexivity.
  - assert (HK' : length K = length ls) by (injection HK; auto).
    change (datashape (l :: ls)) with (Z.of_nat (length l) :: datashape ls).
    cbn [map]. rewrite to_seq_cons by (unfold datashape; rewrite !map_length; exact HK').
    rewrite IH by exact HK'. rewrite prodZ_datashape. cbn [pos_of]. lia.
Qed.

Lemma map_nth_seq : forall {B : Type} (K : list B) (d : B), map (fun j => nth j K d) (seq 0 (length K)) = K.
Proof.
  induction K as [|k K IH]; intros d; simpl; auto. f_equal.
  rewrite <- seq_shift, map_map. apply IH.
Qed.

Lemma pick_datashape : forall (bidx : list pat) axes, Forall (fun a => (a < length bidx)%nat) axes ->
  pick 1 (datashape bidx) axes = map Z.of_nat (map (fun a => length (nth a bidx [])) axes).
Proof.
  unfold pick, datashape. intros bidx axes HA. rewrite map_map. apply map_ext_in. intros a Ha.
  rewrite Forall_forall in HA. specialize (HA a Ha).
  rewrite (nth_indep _ 1 (Z.of_nat (length (@nil (Z * Z))))) by (rewrite map_length; auto).
  rewrite (map_nth (fun b : pat => Z.of_nat (length b))). reflexivity.
Qed.

(* E2: np.transpose(data, axes) at the permuted multi-index is data at the original one *)
Lemma transpose_data_at : forall (bidx : list pat) data axes K, cvalid bidx K ->
  Forall (fun a => (a < length bidx)%nat) axes -> (forall j, (j < length bidx)%nat -> In j axes) ->
  nth (pos_of (reorder_bidx bidx axes) (pick O K axes)) (transpose_data (datashape bidx) data axes) 0
  = nth (pos_of bidx K) data 0.
Proof.
  intros bidx data axes K HK HA Hcov.
  pose proof (cvalid_length _ _ HK) as HL.
  unfold transpose_data. rewrite pick_datashape by auto. rewrite map_map.
  set (ns := map (fun a => length (nth a bidx [])) axes).
  set (ls2 := map (fun n => range (Z.of_nat n)) ns).
  assert (Hsz : map (@length (Z * Z)) (reorder_bidx bidx axes) = map (@length Z) ls2).
  { unfold reorder_bidx, pick, ls2, ns. rewrite !map_map. apply map_ext. intros a.
    rewrite range_length. reflexivity. }
  assert (HK2 : cvalid ls2 (pick O K axes)).
  { eapply cvalid_sizes; [exact Hsz|]. apply cvalid_pick; auto. }
  rewrite (pos_of_sizes _ ls2 _ Hsz).
  destruct (product_nth 0 ls2 (pick O K axes) HK2) as [Hp Hs].
  match goal with |- nth _ (map ?F _) 0 = _ => set (Fn := F) end.
  rewrite (nth_indep _ 0 (Fn [])) by (rewrite map_length; auto).
  rewrite map_nth, Hs. unfold ls2. rewrite sel_of_ranges by exact HK2. unfold Fn.
  replace (map _ (seq 0 (length (datashape bidx)))) with (map Z.of_nat K).
  - rewrite pos_of_to_seq by auto. rewrite Nat2Z.id. reflexivity.
  - unfold datashape at 1. rewrite map_length. rewrite <- HL.
    rewrite <- (map_nth_seq K O) at 1. rewrite map_map. apply map_ext_in. intros j Hj.
    apply in_seq in Hj.
    assert (Hjl : (j < length bidx)%nat) by (destruct Hj as [_ Hj]; simpl in Hj; exact (eq_ind _ (fun n => (j < n)%nat) Hj _ HL)).
    destruct (index_of_spec j axes 0 (Hcov j Hjl)) as (i & E & Hi & Hn).
    rewrite E. simpl. unfold pick.
    rewrite (nth_indep _ 0 (Z.of_nat O)) by (rewrite !map_length; auto).
    rewrite map_nth. f_equal.
    symmetry. rewrite (nth_indep (map (fun j0 : nat => nth j0 K O) axes) O (nth O K O)) by (rewrite map_length; auto).
    rewrite (map_nth (fun a => nth a K O)). rewrite Hn. reflexivity.
Qed.

(* MLMatrix.reorder(axes): the entry addressed by the data-layout multi-index K, i.e. the one
   at row/column digits (I_k, J_k) = bidx[k][K_k], is found in the reordered matrix at the
   permuted digits -- for every number of levels and every cover `axes` of the levels *)
Lemma reorder_spec_l : forall bs bidx data axes K,
  wf_structure bs bidx -> Forall (@NoDup (Z * Z)) bidx -> cvalid bidx K ->
  Forall (fun a => (a < length bidx)%nat) axes -> (forall j, (j < length bidx)%nat -> In j axes) ->
  let sel := sel_of (0, 0) bidx K in
  let e := entry_of bs sel in
  let e' := entry_of (reorder_bs bs axes) (pick (0, 0) sel axes) in
  dense_entry (reorder_asmatrix bs bidx data axes) (fst e') (snd e')
  = dense_entry (asmatrix bs bidx data) (fst e) (snd e)
  /\ dense_entry (asmatrix bs bidx data) (fst e) (snd e) = nth (pos_of bidx K) data 0.
Proof.
  intros bs bidx data axes K Hwf HN HK HA Hcov. cbv zeta.
  pose proof (asm_entry_at bs bidx data K Hwf HN HK) as E1. cbv zeta in E1.
  split; [|exact E1]. rewrite E1.
  pose proof (asm_entry_at (reorder_bs bs axes) (reorder_bidx bidx axes)
                (transpose_data (datashape bidx) data axes) (pick O K axes)
                (wf_pick _ _ _ Hwf HA) (NoDup_pick _ _ HN HA)) as E2.
  cbv zeta in E2. unfold reorder_asmatrix, reorder_bidx in *.
  rewrite !(sel_of_pick (0, 0) bidx K axes HK HA) in E2.
  rewrite E2 by (apply cvalid_pick; auto).
  apply (transpose_data_at bidx data axes K); auto.
Qed.
