(* C04 -- non-vacuity: concrete reachable states meet the hypotheses of the theorems. *)
From Coq Require Import List Arith Lia Bool.
From Verif.lib Require Import FinSet.
From Verif.C04 Require Import Model Proofs ProofsFun ProofsMesh ProofsQuery ProofsClosure Boundary Supports Children ProofsChildren ProofsParents ProofsDisparity ProofsDisparityD.
Import ListNotations.

(* 2-D, degrees (2,1), 3x2 coarse cells, disparity 1; marks on two levels in one call,
   given as list / tuple / set *)
Definition ex_axes := [mk_axis 2 [3;1;1;3]; mk_axis 1 [2;1;2]].
Definition ex_ops := [
  Refine [(0, (CList, [[0;0]; [2;1]; [0;0]]))] false;
  Refine [(1, (CTuple, [[1;1]])); (0, (CSet, [[1;0]]))] false;
  RefineRegion 1 [[4;2]; [5;3]; [0;0]] ].
Definition ex_st := run (hs_init ex_axes (Some 1)) ex_ops.

(* the history is valid (hypothesis of reachable_cells_inv / active_cells_tile) *)
Ltac by_mem :=
  match goal with
  | |- In ?x ?s => refine (proj1 (mem_In x s) _); vm_compute; reflexivity
  | |- ~ In ?x ?s => refine (proj1 (mem_false_In x s) _); vm_compute; reflexivity
  end.

Ltac solve_in H :=
  repeat (destruct H as [H|H]; [subst; by_mem|]); destruct H.

Example ex_ops_valid : ops_valid (hs_init ex_axes (Some 1)) ex_ops.
Proof.
  unfold ex_ops. cbn [ops_valid op_valid]. repeat split.
  - intros k c H. destruct k as [|k]; simpl in H; [|destruct H]. solve_in H.
  - intros k c H. destruct k as [|[|k]]; simpl in H; [solve_in H | solve_in H | destruct H].
Qed.

Example ex_disp : forall d, Some 1 = Some d -> 1 <= d.
Proof. intros d H; inversion H; lia. Qed.

(* the state is non-trivial: 3 levels, active cells on all of them, the executable forms of
   the invariants hold, and the mesh is admissible for disparity 1 *)
Example ex_state : numlevels ex_st = 3
  /\ map (fun k => length (lv_active (lvl ex_st k))) [0;1;2] = [0; 20; 16]
  /\ cells_inv_b ex_st = true /\ funcs_inv_b ex_st = true /\ admissible_b ex_st 1 = true.
Proof. vm_compute. repeat split; reflexivity. Qed.

(* hypothesis of active_cells_tile: a finest-level cell whose level-0 ancestor is a mesh cell *)
Example ex_tile_hyp : S 2 = numlevels ex_st /\ In (anc 2 [9;2]) (tp_cells (msh ex_st 0)).
Proof. split; [vm_compute; reflexivity|]. vm_compute. intuition. Qed.

(* its unique active ancestor is the level-1 cell (4,1) *)
Example ex_tile_witness : In (anc 1 [9;2]) (A ex_st 1) /\ ~ In [9;2] (A ex_st 2) /\ ~ In (anc 2 [9;2]) (A ex_st 0).
Proof.
  split; [|split].
  - by_mem.
  - by_mem.
  - by_mem.
Qed.

(* container independence: same keys, same cells per key *)
Example ex_equiv : raw_equiv [(0, (CList, [[2;1]; [0;0]; [2;1]]))] [(0, (CSet, [[0;0]; [2;1]]))].
Proof. constructor; [|constructor]. split; [reflexivity|]. simpl. intros x. tauto. Qed.

Example ex_equiv_result :
  hs_refine (hs_init ex_axes (Some 1)) [(0, (CList, [[2;1]; [0;0]; [2;1]]))] false =
  hs_refine (hs_init ex_axes (Some 1)) [(0, (CSet, [[0;0]; [2;1]]))] false.
Proof. vm_compute. reflexivity. Qed.

(* the marking closure really adds cells for finite disparity (second call: one marked cell
   on level 1 forces neighbours on level 0) *)
Example ex_closure_adds :
  match hs_refine (run (hs_init ex_axes (Some 1)) [Refine [(0, (CList, [[0;0]]))] false])
                  [(1, (CList, [[1;1]]))] false with
  | Ok (_, m) => negb (is_empty (mk m 0))
  | _ => false
  end = true.
Proof. vm_compute. reflexivity. Qed.

(* good (hypothesis of disparity_admissible_partial) holds for a reachable state *)
Example ex_good : good ex_st.
Proof. apply good_run; [apply good_init; exact ex_disp | exact ex_ops_valid]. Qed.

(* TEST: the conclusion of tables_consistent evaluated
   on the cells and functions of levels 0..2 of the example hierarchy *)
Definition mesh_ok_test (ms : tpmesh) : bool :=
  forallb (fun f => negb (is_empty (support1 ms f)) && subset (support1 ms f) (tp_cells ms)) (tp_functions ms)
  && forallb (fun c => Nat.eqb (length c) (dim ms)
        && subset (supported_in1 ms c) (tp_functions ms)
        && forallb (fun f => Bool.eqb (mem f (supported_in1 ms c)) (mem c (support1 ms f))) (tp_functions ms))
       (tp_cells ms).
Example ex_tables_consistent_test :
  forallb (fun j => mesh_ok_test (Nat.iter j tp_refine (tpmesh_of ex_axes))) [0;1;2] = true.
Proof. vm_compute. reflexivity. Qed.

(* conclusion of activity_characterisation_partial on the example, via its executable form *)
Example ex_funcs_inv : funcs_inv_b ex_st = true.
Proof. vm_compute. reflexivity. Qed.

(* hypotheses of activity_characterisation_step other than the mesh tables *)
Example ex_step_hyps : cells_inv ex_st /\ marks_valid ex_st [[]; [[0;1]]; []].
Proof.
  split; [apply (g_cells _ ex_good)|]. split.
  - intros k c H. destruct k as [|[|[|k]]]; simpl in H.
    + destruct H.
    + destruct H as [<-|[]]. by_mem.
    + destruct H.
    + destruct k; destruct H.
  - intros k Hk. assert (E : numlevels ex_st = 3) by (vm_compute; reflexivity). rewrite E in Hk.
    destruct k as [|[|[|k]]]; try lia; [reflexivity | destruct k; reflexivity].
Qed.

(* hypothesis of tables_consistent / activity_characterisation / the query theorems: valid axes *)
Example ex_axes_ok : Forall axis_ok ex_axes.
Proof.
  assert (G : forall a, forallb (fun m => m <=? ax_p a + 1) (ax_mults a) && (1 <=? ax_numdofs a) = true -> axis_ok a).
  { intros a E. apply andb_true_iff in E. destruct E as [E1 E2]. split.
    - rewrite forallb_forall in E1. apply Forall_forall. intros m Hm. apply Nat.leb_le. auto.
    - apply Nat.leb_le. auto. }
  constructor; [apply G; vm_compute; reflexivity|]. constructor; [apply G; vm_compute; reflexivity|]. constructor.
Qed.

(* hypotheses of incidence_spec: indices inside a non-trivial matrix (46 rows, 36 columns) *)
Example ex_incidence_hyp : 5 < length (active_functions_flat ex_st) /\ 30 < length (active_cells_flat ex_st).
Proof. vm_compute. lia. Qed.

(* hypotheses of cell_function_queries_agree: an active function of level 1 and an active cell of
   level 2 on which it does not vanish (entry = 1), and one on which it vanishes *)
Example ex_query_hyp :
  In [0;1] (AF ex_st 1) /\ In [0;0] (A ex_st 2) /\ 1 <= 2 /\ 2 < numlevels ex_st /\
  incidence_entry ex_st (1, [0;1]) (2, [0;0]) = true /\ incidence_entry ex_st (1, [0;1]) (2, [10;6]) = false.
Proof.
  split; [by_mem|]. split; [by_mem|]. vm_compute. repeat split; (lia || reflexivity).
Qed.

(* hypothesis of disparity_admissible_partial_cells on the example (disparity 1, 3 levels: the
   condition is not vacuous for the 16 active cells of level 2 and k = 0), via its executable form *)
Example ex_cell_condition : cell_condition ex_axes (Some 1) ex_ops 1.
Proof. apply cell_condition_b_sound. vm_compute. reflexivity. Qed.

(* hypotheses of marking_closure_closed: finite disparity and a successful call *)
Example ex_closure_hyp :
  hs_disparity (hs_init ex_axes (Some 1)) = Some 1 /\
  exists r, hs_refine (run (hs_init ex_axes (Some 1)) [Refine [(0, (CList, [[0;0]]))] false])
                      [(1, (CList, [[1;1]]))] false = Ok r.
Proof. split; [reflexivity|]. eexists. vm_compute. reflexivity. Qed.

(* TEST of the support-query model (no theorem yet): on the example the supports of all active
   functions cover all active cells, and a two-level query merges the per-level results *)
Example ex_supports_cover_test : supports_cover_b ex_st = true.
Proof. vm_compute. reflexivity. Qed.

Example ex_multi_level_query_test :
  map (@length mi) (compute_supports ex_st [[]; [[0;1]]; [[0;0]]]) = [0; 1; 4].
Proof. vm_compute. reflexivity. Qed.

(* hypotheses of children_closed / children_inside_parent_support: a deactivated function of level 0
   with 4 children (a corner function), all of them active or deactivated on level 1 *)
Example ex_children_hyp :
  In [0;0] (DF ex_st 0) /\ length (function_children ex_st 0 [[0;0]]) = 4 /\
  forallb (fun g => mem g (AF ex_st 1) || mem g (DF ex_st 1)) (function_children ex_st 0 [[0;0]]) = true.
Proof. split; [by_mem|]. vm_compute. split; reflexivity. Qed.

(* hypotheses of disparity_admissible_d1 / every_function_has_parent on the example (disparity 1, all
   multiplicities >= 1, all calls with the default marking); ex_st has 3 levels with active cells on levels 1 and 2 (ex_state) *)
Example ex_axes_pos : Forall axis_pos ex_axes.
Proof. repeat constructor; simpl; try lia; discriminate. Qed.

Example ex_ops_default : Forall op_default ex_ops.
Proof. repeat constructor. Qed.

Example ex_admissible : admissible ex_axes (Some 1) ex_ops 1.
Proof. apply disparity_admissible_d1_l; [exact ex_axes_ok | exact ex_axes_pos | exact ex_ops_valid | exact ex_ops_default]. Qed.

(* the same for disparity 2: a four-call chain (4 levels, so k + 2 < j occurs) *)
Definition ex_ops2 := [
  Refine [(0, (CList, [[0;0]; [1;0]]))] false;
  Refine [(1, (CSet, [[0;0]]))] false;
  Refine [(2, (CTuple, [[0;0]]))] false ].

Example ex_ops2_valid : ops_valid (hs_init ex_axes (Some 2)) ex_ops2.
Proof.
  unfold ex_ops2. cbn [ops_valid op_valid]. repeat split.
  - intros k c H. destruct k as [|k]; simpl in H; [|destruct H]. solve_in H.
  - intros k c H. destruct k as [|[|k]]; simpl in H; [destruct H | solve_in H | destruct H].
  - intros k c H. destruct k as [|[|[|k]]]; simpl in H; [destruct H | destruct H | solve_in H | destruct H].
Qed.

Example ex_admissible_d2 :
  numlevels (run (hs_init ex_axes (Some 2)) ex_ops2) = 4 /\ admissible ex_axes (Some 2) ex_ops2 2.
Proof.
  split; [vm_compute; reflexivity|].
  apply disparity_admissible_l; [exact ex_axes_ok | exact ex_axes_pos | lia | exact ex_ops2_valid | repeat constructor].
Qed.
