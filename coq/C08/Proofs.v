(* C08 -- lemmas about the model of the assembly drivers. *)
From Coq Require Import ZArith List Bool Arith Lia.
From Verif.C08 Require Import Model.
Import ListNotations.

(* ------------------------------------------------------------------------- *)
(** * chunk_tasks *)

Lemma chunks_fuel_concat : forall (A : Type) fuel n (l : list A),
  (1 <= n)%nat -> (length l <= fuel)%nat -> concat (chunks_fuel fuel n l) = l.
Proof.
  induction fuel as [|f IH]; intros n l Hn Hl.
  - destruct l; simpl in *; [reflexivity | lia].
  - destruct l as [|a l']; [reflexivity|].
    cbn [chunks_fuel concat]. rewrite IH; [apply firstn_skipn | exact Hn |].
    rewrite skipn_length. simpl in *. lia.
Qed.

Lemma chunks_fuel_nonempty : forall (A : Type) fuel n (l : list A),
  (1 <= n)%nat -> Forall (fun c => c <> [] /\ (length c <= n)%nat) (chunks_fuel fuel n l).
Proof.
  induction fuel as [|f IH]; intros n l Hn; [constructor|].
  destruct l as [|a l']; [constructor|].
  cbn [chunks_fuel]. constructor; [|apply IH; exact Hn].
  split.
  - destruct n; [lia|]. simpl. discriminate.
  - rewrite firstn_length. lia.
Qed.

Lemma chunks_fuel_count : forall (A : Type) fuel n (l : list A),
  (1 <= n)%nat -> (length l <= fuel)%nat -> l <> [] ->
  ((length (chunks_fuel fuel n l) - 1) * n < length l)%nat.
Proof.
  induction fuel as [|f IH]; intros n l Hn Hl Hne.
  - destruct l; [congruence | simpl in Hl; lia].
  - destruct l as [|a l']; [congruence|].
    cbn [chunks_fuel length].
    remember (skipn n (a :: l')) as r eqn:Hr.
    destruct r as [|b r'].
    + destruct f; simpl; lia.
    + assert (Hlen : length (b :: r') = (length (a :: l') - n)%nat).
      { rewrite Hr. apply skipn_length. }
      assert (Hle : (length (b :: r') <= f)%nat) by (rewrite Hlen; simpl in *; lia).
      specialize (IH n (b :: r') Hn Hle ltac:(discriminate)).
      assert (Hpos : (1 <= length (chunks_fuel f n (b :: r')))%nat).
      { destruct f; [simpl in Hle; lia|]. simpl. lia. }
      rewrite Hlen in IH.
      replace (S (length (chunks_fuel f n (b :: r'))) - 1)%nat
        with ((length (chunks_fuel f n (b :: r')) - 1) + 1)%nat by lia.
      simpl length in *. nia.
Qed.

Lemma chunks_fuel_map : forall (A B : Type) (f : A -> B) fuel n (l : list A),
  chunks_fuel fuel n (map f l) = map (map f) (chunks_fuel fuel n l).
Proof.
  induction fuel as [|fu IH]; intros n l; [reflexivity|].
  destruct l as [|a l']; [reflexivity|].
  change (map f (a :: l')) with (f a :: map f l') at 1.
  cbn [chunks_fuel map].
  change (f a :: map f l') with (map f (a :: l')).
  rewrite <- firstn_map, <- skipn_map, IH. reflexivity.
Qed.

Lemma chunk_size_pos : forall len k, (1 <= chunk_size len k)%nat.
Proof. intros. unfold chunk_size. lia. Qed.

Lemma chunks_concat_l : forall (A : Type) (l : list A) k, concat (chunk_tasks l k) = l.
Proof. intros. unfold chunk_tasks. apply chunks_fuel_concat; [apply chunk_size_pos | lia]. Qed.

Lemma chunks_shape_l : forall (A : Type) (l : list A) k,
  Forall (fun c => c <> [] /\ (length c <= chunk_size (length l) k)%nat) (chunk_tasks l k).
Proof. intros. unfold chunk_tasks. apply chunks_fuel_nonempty, chunk_size_pos. Qed.

Lemma chunks_count_l : forall (A : Type) (l : list A) k,
  (1 <= k)%nat -> (length (chunk_tasks l k) <= k)%nat.
Proof.
  intros A l k Hk. unfold chunk_tasks.
  destruct l as [|a l'].
  - simpl. lia.
  - pose proof (chunks_fuel_count A (length (a :: l')) (chunk_size (length (a :: l')) k) (a :: l')
                  (chunk_size_pos _ _) (le_n _) ltac:(discriminate)) as H.
    unfold chunk_size in *.
    set (len := length (a :: l')) in *. set (c := length (chunks_fuel len (len / k + 1) (a :: l'))) in *.
    pose proof (Nat.div_mod len k ltac:(lia)) as Hdm.
    pose proof (Nat.mod_upper_bound len k ltac:(lia)) as Hmod.
    destruct (le_lt_dec c k) as [Hc|Hc]; [exact Hc|exfalso].
    assert (k * (len / k + 1) <= (c - 1) * (len / k + 1))%nat by (apply Nat.mul_le_mono_r; lia).
    nia.
Qed.

Lemma chunks_map_l : forall (A B : Type) (f : A -> B) (l : list A) k,
  chunk_tasks (map f l) k = map (map f) (chunk_tasks l k).
Proof. intros. unfold chunk_tasks. rewrite map_length. apply chunks_fuel_map. Qed.

(* ------------------------------------------------------------------------- *)
(** * schedule independence *)

Section Sched.
  Variable L V : Type.
  Variable L_eqb : L -> L -> bool.
  Hypothesis L_eqb_spec : forall a b, L_eqb a b = true <-> a = b.

  Notation op := (op L V).
  Notation exec := (exec L_eqb).
  Notation step := (step L_eqb).
  Notation upd := (upd L_eqb).

  Lemma L_eqb_refl : forall a, L_eqb a a = true.
  Proof. intro a. apply L_eqb_spec. reflexivity. Qed.

  Lemma L_eqb_neq : forall a b, a <> b -> L_eqb a b = false.
  Proof.
    intros a b H. destruct (L_eqb a b) eqn:E; [|reflexivity].
    apply L_eqb_spec in E. contradiction.
  Qed.

  Lemma upd_same : forall m l v, upd m l v l = v.
  Proof. intros. unfold Model.upd. rewrite L_eqb_refl. reflexivity. Qed.

  Lemma upd_other : forall m l v l', l <> l' -> upd m l v l' = m l'.
  Proof. intros. unfold Model.upd. rewrite L_eqb_neq by assumption. reflexivity. Qed.

  Lemma exec_cons : forall o s m, exec (o :: s) m = exec s (step m o).
  Proof. reflexivity. Qed.

  Lemma exec_app : forall s1 s2 m, exec (s1 ++ s2) m = exec s2 (exec s1 m).
  Proof. intros. unfold Model.exec. apply fold_left_app. Qed.

  (* an operation whose footprint avoids l leaves l alone *)
  Lemma step_untouched : forall o m l, ~ In l (fp o) -> step m o l = m l.
  Proof.
    intros [l0 v|d s] m l H; simpl in *.
    - apply upd_other. intro; subst; tauto.
    - apply upd_other. intro; subst; tauto.
  Qed.

  Lemma exec_untouched : forall s m l, (forall o, In o s -> ~ In l (fp o)) -> exec s m l = m l.
  Proof.
    induction s as [|o s IH]; intros m l H; [reflexivity|].
    rewrite exec_cons, IH.
    - apply step_untouched, H. left; reflexivity.
    - intros o' Ho'. apply H. right; exact Ho'.
  Qed.

  (* memories that agree on a set S closed under the footprints of the operations
     still agree on S afterwards *)
  Lemma step_agree : forall (S : L -> Prop) o m1 m2,
    (forall l, In l (fp o) -> S l) -> (forall l, S l -> m1 l = m2 l) ->
    forall l, S l -> step m1 o l = step m2 o l.
  Proof.
    intros S [l0 v|d s] m1 m2 Hfp Hag l Hl; simpl.
    - unfold Model.upd. destruct (L_eqb l0 l); [reflexivity | apply Hag, Hl].
    - unfold Model.upd. destruct (L_eqb d l); [|apply Hag, Hl].
      apply Hag, Hfp. simpl. auto.
  Qed.

  Lemma exec_agree : forall (S : L -> Prop) s m1 m2,
    (forall o, In o s -> forall l, In l (fp o) -> S l) -> (forall l, S l -> m1 l = m2 l) ->
    forall l, S l -> exec s m1 l = exec s m2 l.
  Proof.
    induction s as [|o s IH]; intros m1 m2 Hfp Hag l Hl; [apply Hag, Hl|].
    rewrite !exec_cons. apply IH; [| |exact Hl].
    - intros o' Ho'. apply Hfp. right; exact Ho'.
    - intros l' Hl'. apply (step_agree S); auto. intros l'' H''. apply (Hfp o); [left; reflexivity|exact H''].
  Qed.

  (* ownership: every location touched (read or written) by task number i is owned by i *)
  Definition owned (own : L -> nat) (ts : list (list op)) : Prop :=
    forall i t, nth_error ts i = Some t -> forall o, In o t -> forall l, In l (fp o) -> own l = i.

  Lemma nth_error_mid : forall (A : Type) (ts1 : list A) x ts2,
    nth_error (ts1 ++ x :: ts2) (length ts1) = Some x.
  Proof. intros. rewrite nth_error_app2 by lia. rewrite Nat.sub_diag. reflexivity. Qed.

  Lemma nth_error_mid_other : forall (A : Type) (ts1 : list A) x y ts2 i,
    i <> length ts1 -> nth_error (ts1 ++ x :: ts2) i = nth_error (ts1 ++ y :: ts2) i.
  Proof.
    intros A ts1 x y ts2 i Hi.
    destruct (lt_dec i (length ts1)).
    - rewrite !nth_error_app1 by lia. reflexivity.
    - rewrite !nth_error_app2 by lia.
      destruct (i - length ts1)%nat eqn:E; [lia|]. reflexivity.
  Qed.

  Lemma owned_tail : forall own ts1 x t ts2,
    owned own (ts1 ++ (x :: t) :: ts2) -> owned own (ts1 ++ t :: ts2).
  Proof.
    intros own ts1 x t ts2 H i u Hu o Ho l Hl.
    destruct (Nat.eq_dec i (length ts1)) as [->|Hne].
    - rewrite nth_error_mid in Hu. injection Hu as <-.
      apply (H (length ts1) (x :: t)); [apply nth_error_mid | right; exact Ho | exact Hl].
    - apply (H i u); [|exact Ho|exact Hl].
      rewrite (nth_error_mid_other _ ts1 (x :: t) t ts2 i Hne). exact Hu.
  Qed.

  (* the memory at l after any schedule is what l's owner alone computes *)
  Lemma sched_owner : forall own ts s,
    interleave ts s -> owned own ts ->
    forall m l, exec s m l = exec (nth (own l) ts []) m l.
  Proof.
    intros own ts s Hil. induction Hil as [ts Hall | ts1 x t ts2 s Hil IH]; intros Hown m l.
    - assert (E : nth (own l) ts [] = []).
      { destruct (nth_in_or_default (own l) ts []) as [Hin|Hd]; [|exact Hd].
        rewrite Forall_forall in Hall. apply Hall, Hin. }
      rewrite E. reflexivity.
    - rewrite exec_cons. rewrite (IH (owned_tail _ _ _ _ _ Hown)).
      destruct (Nat.eq_dec (own l) (length ts1)) as [E|Hne].
      + rewrite E. rewrite !app_nth2 by lia. rewrite Nat.sub_diag. simpl nth.
        rewrite exec_cons. reflexivity.
      + assert (Enth : nth (own l) (ts1 ++ t :: ts2) [] = nth (own l) (ts1 ++ (x :: t) :: ts2) []).
        { destruct (lt_dec (own l) (length ts1)).
          - rewrite !app_nth1 by lia. reflexivity.
          - rewrite !app_nth2 by lia. destruct (own l - length ts1)%nat eqn:E'; [lia|]. reflexivity. }
        rewrite Enth. set (u := nth (own l) (ts1 ++ (x :: t) :: ts2) []).
        apply (exec_agree (fun l' => own l' = own l)); [| |reflexivity].
        * intros o Ho l' Hl'.
          destruct (nth_in_or_default (own l) (ts1 ++ (x :: t) :: ts2) []) as [Hin|Hd].
          -- destruct (lt_dec (own l) (length (ts1 ++ (x :: t) :: ts2))) as [Hlt|Hge].
             ++ apply (Hown (own l) u); [|exact Ho|exact Hl'].
                unfold u. apply nth_error_nth'. exact Hlt.
             ++ unfold u in Ho. rewrite nth_overflow in Ho by lia. destruct Ho.
          -- unfold u in Ho. rewrite Hd in Ho. destruct Ho.
        * intros l' Hl'. apply step_untouched. intro Hin.
          assert (own l' = length ts1).
          { apply (Hown (length ts1) (x :: t)); [apply nth_error_mid | left; reflexivity | exact Hin]. }
          lia.
  Qed.

  Theorem sched_own_independent : forall own ts s1 s2,
    owned own ts -> interleave ts s1 -> interleave ts s2 ->
    forall m l, exec s1 m l = exec s2 m l.
  Proof.
    intros own ts s1 s2 Hown H1 H2 m l.
    rewrite (sched_owner own ts s1 H1 Hown), (sched_owner own ts s2 H2 Hown). reflexivity.
  Qed.

  (* the sequential order (task 0, then task 1, ...) is one of the schedules *)
  Lemma interleave_nil_tasks : forall (A : Type) (ts : list (list A)) s,
    interleave ts s -> interleave ([] :: ts) s.
  Proof.
    intros A ts s H. induction H as [ts Hall | ts1 x t ts2 s H IH].
    - constructor. constructor; [reflexivity | exact Hall].
    - apply (il_step ([] :: ts1) x t ts2 s). exact IH.
  Qed.

  Lemma interleave_concat : forall (A : Type) (ts : list (list A)), interleave ts (concat ts).
  Proof.
    induction ts as [|t ts IH]; [constructor; constructor|].
    induction t as [|x t IHt].
    - simpl. apply interleave_nil_tasks, IH.
    - simpl. apply (il_step [] x t ts). exact IHt.
  Qed.

  (* pairwise disjoint footprints give an ownership function *)
  Definition locs (t : list op) : list L := flat_map (@fp L V) t.

  Fixpoint find_owner (Ls : list (list L)) (l : L) : nat :=
    match Ls with
    | [] => 0
    | t :: rest => if existsb (L_eqb l) t then 0 else S (find_owner rest l)
    end.

  Lemma existsb_In : forall l t, existsb (L_eqb l) t = true <-> In l t.
  Proof.
    intros l t. rewrite existsb_exists. split.
    - intros [x [Hx E]]. apply L_eqb_spec in E. subst. exact Hx.
    - intro H. exists l. split; [exact H | apply L_eqb_refl].
  Qed.

  Lemma NoDup_app_disj : forall (a b : list L), NoDup (a ++ b) ->
    NoDup b /\ forall x, In x a -> ~ In x b.
  Proof.
    induction a as [|x a IH]; intros b H; simpl in *.
    - split; [exact H | tauto].
    - inversion H as [|? ? Hnin Hnd]; subst. destruct (IH b Hnd) as [Hb Hdis].
      split; [exact Hb|]. intros y [<-|Hy] Hyb.
      + apply Hnin. apply in_or_app. right; exact Hyb.
      + apply (Hdis y Hy Hyb).
  Qed.

  Lemma find_owner_nodup : forall Ls, NoDup (concat Ls) ->
    forall i t l, nth_error Ls i = Some t -> In l t -> find_owner Ls l = i.
  Proof.
    induction Ls as [|t0 rest IH]; intros Hnd i t l Hi Hl.
    - destruct i; discriminate.
    - simpl in Hnd. destruct (NoDup_app_disj _ _ Hnd) as [Hrest Hdis].
      destruct i as [|i']; simpl in Hi.
      + injection Hi as ->. simpl. apply existsb_In in Hl. rewrite Hl. reflexivity.
      + simpl. assert (Hin : In l (concat rest)).
        { apply in_concat. exists t. split; [eapply nth_error_In; exact Hi | exact Hl]. }
        destruct (existsb (L_eqb l) t0) eqn:E.
        * apply existsb_In in E. exfalso. exact (Hdis l E Hin).
        * f_equal. exact (IH Hrest i' t l Hi Hl).
  Qed.

  Theorem sched_nodup_independent : forall ts s1 s2,
    NoDup (concat (map locs ts)) -> interleave ts s1 -> interleave ts s2 ->
    forall m l, exec s1 m l = exec s2 m l.
  Proof.
    intros ts s1 s2 Hnd. apply (sched_own_independent (find_owner (map locs ts))).
    intros i t Hi o Ho l Hl.
    apply (find_owner_nodup _ Hnd i (locs t)).
    - rewrite nth_error_map, Hi. reflexivity.
    - unfold locs. apply in_flat_map. exists o. split; assumption.
  Qed.

  (* a list of stores to pairwise different locations *)
  Lemma exec_writes_nodup : forall (lvs : list (L * V)) m l v,
    NoDup (map fst lvs) -> In (l, v) lvs ->
    exec (map (fun lv => Wr (fst lv) (snd lv)) lvs) m l = v.
  Proof.
    induction lvs as [|[l0 v0] lvs IH]; intros m l v Hnd Hin; [destruct Hin|].
    simpl map. rewrite exec_cons. simpl in Hnd. inversion Hnd as [|? ? Hnin Hnd']; subst.
    destruct Hin as [E|Hin].
    - injection E as -> ->. rewrite exec_untouched.
      + simpl. apply upd_same.
      + intros o Ho. apply in_map_iff in Ho. destruct Ho as [[l1 v1] [<- H1]]. simpl.
        intros [E|[]]. subst. apply Hnin. apply in_map_iff. exists (l, v1). split; [reflexivity|exact H1].
    - apply IH; assumption.
  Qed.
End Sched.

(* ------------------------------------------------------------------------- *)
(** * the thread pool of multi_entries / multi_blocks *)

Lemma nat_eqb_spec : forall a b : nat, Nat.eqb a b = true <-> a = b.
Proof. intros. apply Nat.eqb_eq. Qed.

Section PoolProofs.
  Variable I V : Type.
  Variable entry : I -> V.

  Lemma pool_concat : forall idx T, concat (pool_tasks entry idx T) = serial_task entry idx.
  Proof.
    intros. unfold pool_tasks, serial_task. rewrite concat_map, chunks_concat_l. reflexivity.
  Qed.

  Lemma pool_locs : forall idx T,
    concat (map (locs nat V) (pool_tasks entry idx T)) = seq 0 (length idx).
  Proof.
    intros idx T. unfold pool_tasks.
    assert (E : forall ch : list (nat * I),
               locs nat V (map (fun pi : nat * I => Wr (fst pi) (entry (snd pi))) ch) = map fst ch).
    { induction ch as [|c ch IH]; [reflexivity|]. unfold locs in *. simpl. rewrite IH. reflexivity. }
    rewrite map_map. rewrite (map_ext _ (map fst) E).
    rewrite <- chunks_map_l, chunks_concat_l.
    rewrite map_fst_combine_seq. reflexivity.
  Abort.
End PoolProofs.
