(* C19 -- model, second part: the array version of the span search and the first-active indices
   built from it.  Definitions only.
     pyiga/bspline_cy.pyx:29-37   pyx_findspans: result[i] = pyx_findspan(kv, p, u[i])
     pyiga/bspline.py:158-164     first_active(k) = k - p, first_active_at(u)
     pyiga/bspline.py:638, 671    indices = pyx_findspans(kv.kv, kv.p, nodes) - kv.p          *)
From Coq Require Import QArith Qcanon ZArith List Arith.
From Verif.lib Require Import Bsp NpCore NpQ.
From Verif.C19 Require Import Model.
Import ListNotations.

Definition findspans (kv : list Qc) (p : nat) (us : list Qc) : list nat := map (findspan kv p) us.
Definition first_active_all (kv : list Qc) (p : nat) (us : list Qc) : list Z :=
  map (fun s => (Z.of_nat s - Z.of_nat p)%Z) (findspans kv p us).
