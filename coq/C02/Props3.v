(* C02 -- property theorems about the entry points of the extracted run (deepening round).
   ex_point is the function the extracted OCaml program evaluates per line of input; xcheck is
   the comparison the per-run cross-check file evaluates with vm_compute on a sample of the
   extracted program's output. *)
From Coq Require Import QArith Qcanon List Arith.
From Verif.lib Require Import Bsp.
From Verif.C02 Require Import Proofs Proofs_ref Proofs_tp ExtractDefs.
Import ListNotations.
Open Scope Qc_scope.

(* Everything the extracted program prints for a point of the domain of an open knot vector is
   the Cox-de Boor reference: the span, every row of values/derivatives of the all-active route,
   the single-function route for every basis function, and spline evaluation/differentiation of
   every order -- for every degree, knot vector, coefficient vector, point and order bound. *)
Theorem ex_point_spec : forall kv p nd c u,
  open_kv kv p = true -> kn kv 0 <= u -> u <= kn kv (length kv - 1) -> length c = numdofs kv p ->
  let '(s, ad, sev, evs) := ex_point kv p nd c u in
  s = findspan kv p u /\
  (forall k, (k <= nd)%nat ->
     nth k ad [] = map (fun r => dNref kv k p (s - p + r) u) (seq 0 (S p))) /\
  (forall i, (i < numdofs kv p)%nat -> nth i sev 0 = Nref kv p i u) /\
  (forall k, (k <= nd)%nat ->
     nth k evs 0 = sumf (fun j => nth j c 0 * dNref kv k p j u) 0 (numdofs kv p)).
Proof. exact ex_point_spec_l. Qed.
Print Assumptions ex_point_spec.

(* Soundness of the cross-check of the extracted program against vm_compute: a printed result
   that passes xcheck is exactly the model's result on a well-formed open knot vector. *)
Theorem xcheck_sound : forall kv p nd c u span ad sev evs,
  xcheck kv p nd c u span ad sev evs = true ->
  open_kv kv p = true /\ ex_point kv p nd c u = (span, ad, sev, evs).
Proof. exact xcheck_sound_l. Qed.
Print Assumptions xcheck_sound.

(* NOT PROVED: that the OCaml program produced by `Extraction` computes ex_point (the extraction
   mechanism and the OCaml compiler are trusted; tested on every run by xcheck on a sample), and
   that scipy's FITPACK splev (the route of bspline.ev/deriv for degree <= 5) computes spline_ev
   (not modelled: compiled Fortran; tied at volume by the extracted run). *)
