(* C04 -- executable integer/set model of pyiga.hierarchical (TPMesh, HMesh, HSpace).

   Definitions only (no proofs): the model must still run when a proof breaks.
   Sets of cells / functions are the canonical sorted lists of lib/FinSet.v.
   Every definition cites the source lines it transcribes (pyiga/hierarchical.py unless
   another file is named).  C03, C05 and C11 build on this file.

   Overview
     axis            (p, multiplicities of the breakpoints): integer abstraction of a KnotVector
     tpmesh          per-axis tables meshsupp / suppfunc of one tensor-product level (TPMesh)
     level           the four sets of one level: active/deactivated cells, active/deactivated functions
     hspace          list of tpmeshes + list of levels + disparity (None = numpy.inf)
     hs_refine       HSpace.refine (marks given per level in any container, marking closure
                     for finite disparity, HMesh.refine, function (de)activation)
     hs_refine_region, flat orderings, incidence matrix, support queries, ==, is_subspace_of *)
From Coq Require Import List Arith Bool Lia.
From Verif.lib Require Import FinSet.
Import ListNotations.

(* ------------------------------------------------------------------------- *)
(* 1-D knot vectors: bspline.py:36-183                                         *)

(* kv = breakpoint i repeated (nth i mults) times; open knot vector: first/last = p+1 *)
Record axis := mk_axis { ax_p : nat; ax_mults : list nat }.

(* _knots_to_mesh = np.unique(kv, return_inverse=True)[1]   (bspline.py:112-115) *)
Fixpoint k2m_aux (i : nat) (mults : list nat) : list nat :=
  match mults with [] => [] | m :: r => repeat i m ++ k2m_aux (S i) r end.
Definition k2m (a : axis) : list nat := k2m_aux 0 (ax_mults a).

Definition ax_numknots (a : axis) : nat := length (k2m a).
Definition ax_numdofs (a : axis) : nat := ax_numknots a - ax_p a - 1.     (* bspline.py:88-90 *)
Definition ax_numspans (a : axis) : nat := length (ax_mults a) - 1.       (* bspline.py:93-95 *)

(* mesh_support_idx_all (bspline.py:129-136): row j = (k2m[j], k2m[j+p+1]) *)
Definition ax_meshsupp (a : axis) : list (nat * nat) :=
  map (fun j => (nth j (k2m a) 0, nth (j + ax_p a + 1) (k2m a) 0)) (seq 0 (ax_numdofs a)).

(* KnotVector.refine() with new_knots=None (bspline.py:176-183): one single knot in the
   middle of every mesh span *)
Fixpoint refine_mults (m : list nat) : list nat :=
  match m with
  | [] => []
  | x :: r => match r with [] => [x] | _ :: _ => x :: 1 :: refine_mults r end
  end.
Definition ax_refine (a : axis) : axis := mk_axis (ax_p a) (refine_mults (ax_mults a)).

(* _compute_supported_functions (hierarchical.py:50-62): for cell k the first and one
   beyond the last function j with meshsupp[j,0] <= k < meshsupp[j,1]; the loops compute
   the min / max over those j, starting from (numdofs, 0), then add 1 to the second column *)
Definition covers (ms : list (nat * nat)) (j k : nat) : bool :=
  let r := nth j ms (0, 0) in (fst r <=? k) && (k <? snd r).

(* (the functions are enumerated together with their meshsupp rows: one pass per cell) *)
Definition covers_r (r : nat * nat) (k : nat) : bool := (fst r <=? k) && (k <? snd r).

Definition supported_functions (numspans numdofs : nat) (ms : list (nat * nat)) : list (nat * nat) :=
  map (fun k => let js := map fst (filter (fun jr => covers_r (snd jr) k) (combine (seq 0 (length ms)) ms)) in
                (fold_right Nat.min numdofs js, S (fold_right Nat.max 0 js)))
      (seq 0 numspans).

(* ------------------------------------------------------------------------- *)
(* TPMesh: hierarchical.py:97-149                                              *)

Record tpmesh := mk_tpmesh {
  tp_axes : list axis;
  tp_numspans : list nat;                 (* :102 *)
  tp_numdofs : list nat;                  (* :104 *)
  tp_ms : list (list (nat * nat));        (* meshsupp, :106 *)
  tp_sf : list (list (nat * nat)) }.      (* suppfunc, :107 *)

Definition tpmesh_of (axes : list axis) : tpmesh :=
  mk_tpmesh axes (map ax_numspans axes) (map ax_numdofs axes) (map ax_meshsupp axes)
            (map (fun a => supported_functions (ax_numspans a) (ax_numdofs a) (ax_meshsupp a)) axes).

Definition tp_refine (m : tpmesh) : tpmesh := tpmesh_of (map ax_refine (tp_axes m)).   (* :112-113 *)

Definition empty_mesh : tpmesh := mk_tpmesh [] [] [] [] [].

(* itertools.product of the ranges(lo, hi): lexicographic, last axis fastest *)
Fixpoint prod_ranges (rs : list (nat * nat)) : list mi :=
  match rs with
  | [] => [[]]
  | (lo, hi) :: rs' => flat_map (fun i => map (cons i) (prod_ranges rs')) (seq lo (hi - lo))
  end.

(* (tbl[d][j_d, 0], tbl[d][j_d, 1]) for (d, j_d) in enumerate(jj) *)
Fixpoint lookup_ranges (tbls : list (list (nat * nat))) (idx : mi) : list (nat * nat) :=
  match tbls, idx with
  | t :: tbls', i :: idx' => nth i t (0, 0) :: lookup_ranges tbls' idx'
  | _, _ => []
  end.

Definition tp_cells (m : tpmesh) : set := of_list (prod_ranges (map (fun n => (0, n)) (tp_numspans m))).      (* :115-118 *)
Definition tp_functions (m : tpmesh) : set := of_list (prod_ranges (map (fun n => (0, n)) (tp_numdofs m))).   (* :124-127 *)

(* support of one function = cells where it does not vanish *)
Definition support1 (m : tpmesh) (f : mi) : set := of_list (prod_ranges (lookup_ranges (tp_ms m) f)).
(* functions that do not vanish on one cell *)
Definition supported_in1 (m : tpmesh) (c : mi) : set := of_list (prod_ranges (lookup_ranges (tp_sf m) c)).

(* TPMesh.support(indices) :129-136 and supported_in(cells) :138-145 (set.update in a loop) *)
Definition support (m : tpmesh) (fs : list mi) : set :=
  fold_left (fun acc f => union acc (support1 m f)) fs [].
Definition supported_in (m : tpmesh) (cs : list mi) : set :=
  fold_left (fun acc c => union acc (supported_in1 m c)) cs [].

(* ------------------------------------------------------------------------- *)
(* HMesh cell relations: hierarchical.py:190-219                               *)

(* cell_children(lv, cells) :190-196 -- a list, product(range(2c, 2c+2)) per cell *)
Definition cell_children (cells : list mi) : list mi :=
  flat_map (fun c => prod_ranges (map (fun ci => (2 * ci, 2 * ci + 2)) c)) cells.

Definition parent1 (c : mi) : mi := map Nat.div2 c.          (* tuple(ci // 2 for ci in c) *)
Definition cell_parent (cells : list mi) : set := of_list (map parent1 cells).     (* :207-209 *)

(* cell_grandparent(lv, cells, targetlv) :211-219 applies cell_parent (lv - targetlv) times *)
Fixpoint cell_grandparent (n : nat) (cells : list mi) : list mi :=
  match n with 0 => cells | S n' => cell_grandparent n' (cell_parent cells) end.

(* the level-(j-n) ancestor of one level-j cell *)
Definition anc (n : nat) (c : mi) : mi := Nat.iter n parent1 c.

(* ------------------------------------------------------------------------- *)
(* state                                                                       *)

Record level := mk_level {
  lv_active : set;        (* hmesh.active[lv]       :159 *)
  lv_deact : set;         (* hmesh.deactivated[lv]  :160 *)
  lv_actfun : set;        (* actfun[lv]             :377 *)
  lv_deactfun : set }.    (* deactfun[lv]           :378 *)

Definition empty_level : level := mk_level [] [] [] [].

Record hspace := mk_hspace {
  hs_meshes : list tpmesh;          (* hmesh.meshes *)
  hs_levels : list level;
  hs_disparity : option nat }.      (* None = numpy.inf *)

Definition numlevels (st : hspace) : nat := length (hs_levels st).          (* :417-420 *)
Definition lvl (st : hspace) (k : nat) : level := nth k (hs_levels st) empty_level.
Definition msh (st : hspace) (k : nat) : tpmesh := nth k (hs_meshes st) empty_mesh.

(* HSpace.__init__ :370-383 with HMesh.__init__ :156-161 *)
Definition hs_init (axes : list axis) (disparity : option nat) : hspace :=
  let m := tpmesh_of axes in
  mk_hspace [m] [mk_level (tp_cells m) [] (tp_functions m) []] disparity.

(* _add_level :406-410 with HMesh.add_level :182-188 *)
Definition add_level (st : hspace) : hspace :=
  mk_hspace (hs_meshes st ++ [tp_refine (last (hs_meshes st) empty_mesh)])
            (hs_levels st ++ [empty_level]) (hs_disparity st).

(* _ensure_levels(L) :412-415 *)
Definition ensure_levels (st : hspace) (L : nat) : hspace :=
  Nat.iter (L - numlevels st) add_level st.

(* ------------------------------------------------------------------------- *)
(* marks                                                                       *)

(* the documented container types of the per-level mark collections *)
Inductive container := CSet | CList | CTuple.

(* the dict `marked`: level -> (container type, cells in the order given, repetitions possible) *)
Definition rawmarks := list (nat * (container * list mi)).

Fixpoint marks_get (raw : rawmarks) (lv : nat) : list mi :=
  match raw with
  | [] => []
  | (k, (_, cs)) :: r => if k =? lv then cs else marks_get r lv
  end.

(* max(lv for (lv, cells) in marked.items() if cells) :863 ; None = ValueError (empty max) *)
Fixpoint max_marked_level (raw : rawmarks) : option nat :=
  match raw with
  | [] => None
  | (k, (_, cs)) :: r =>
      match cs, max_marked_level r with
      | [], o => o
      | _ :: _, None => Some k
      | _ :: _, Some k' => Some (Nat.max k k')
      end
  end.

(* marks as one set per level *)
Definition mk (m : list set) (k : nat) : set := nth k m [].

Fixpoint set_nth (k : nat) (x : set) (m : list set) : list set :=
  match m, k with
  | [], _ => []
  | _ :: r, 0 => x :: r
  | y :: r, S k' => y :: set_nth k' x r
  end.

(* ------------------------------------------------------------------------- *)
(* marking closure for finite disparity: hierarchical.py:816-849               *)

(* cell_support_extension(l, cells, k) :816-823 *)
Definition cell_support_extension (st : hspace) (l : nat) (cells : list mi) (k : nat) : set :=
  let aux := if k =? l then cells else cell_grandparent (l - k) cells in
  support (msh st k) (supported_in (msh st k) aux).

(* function_support_extension(l, functions, k) :825-832 *)
Definition function_support_extension (st : hspace) (l : nat) (fs : list mi) (k : nat) : set :=
  let aux := support (msh st l) fs in
  supported_in (msh st k) (if k =? l then aux else cell_grandparent (l - k) aux).

(* _cell_neighborhood(l, cells, truncate) :834-843 *)
Definition cell_neighborhood (st : hspace) (d l : nat) (cells : list mi) (trunc : bool) : set :=
  if l <? d then []
  else if trunc
       then inter (lv_active (lvl st (l - d))) (cell_parent (cell_support_extension st l cells (l - d + 1)))
       else inter (lv_active (lvl st (l - d))) (cell_support_extension st l cells (l - d)).

(* _mark_recursive(l, marked, truncate) :845-849 ; l drops by d >= 1 per call: fuel l+1 suffices.
   REPAIRED behaviour (fixes/C04-marks-container.patch): the marks already present on level
   l-d are converted to a set before the union, whatever container the caller used. *)
Fixpoint mark_recursive (fuel : nat) (st : hspace) (d l : nat) (trunc : bool) (m : list set) : list set :=
  match fuel with
  | 0 => m
  | S fuel' =>
      let nb := cell_neighborhood st d l (mk m l) trunc in
      if is_empty nb then m
      else mark_recursive fuel' st d (l - d) trunc (set_nth (l - d) (union (mk m (l - d)) nb) m)
  end.

(* the loop :868-869 *)
Definition mark_closure (st : hspace) (d : nat) (trunc : bool) (m : list set) : list set :=
  fold_left (fun m l => mark_recursive (S l) st d l trunc m) (seq 0 (numlevels st)) m.

(* ------------------------------------------------------------------------- *)
(* HMesh.refine :321-336, _functions_to_deactivate :800-814, HSpace.refine :871-894

   The source mutates the per-level sets in two loops over lv.  What level k holds at the
   end depends only on the old level k, the marks on k-1 and k, and the (final) cells of
   level k; the closed form below follows the order of the assignments in the source:
     HMesh.refine iteration k-1:  active[k] |= children(marked[k-1])            (:334-335)
     HMesh.refine iteration k:    active[k] -= marked[k]; deactivated[k] |= marked[k]   (:331-332)
       (only for k < numlevels-1; marks on the last level cannot exist after :864)
     mf[k] is computed AFTER HMesh.refine, from the OLD actfun[k]                (:872, :809-813)
     HSpace.refine iteration k-1: actfun[k] |= newfuncs   (candidates minus OLD actfun[k])  (:880-891)
     HSpace.refine iteration k:   actfun[k] -= mf[k]; deactfun[k] |= mf[k]      (:877-878, k < numlevels-1) *)

Definition refine_level (st : hspace) (m : list set) (k : nat) : level :=
  let lv := lvl st k in
  let ms := msh st k in
  let last := numlevels st - 1 <=? k in
  let mk_k := mk m k in
  let newc := if k =? 0 then [] else cell_children (mk m (k - 1)) in       (* new_cells[k] *)
  let a1 := union (lv_active lv) (of_list newc) in
  let a' := if last then a1 else diff a1 mk_k in
  let d' := if last then lv_deact lv else union (lv_deact lv) mk_k in
  let mf := if is_empty mk_k then []
            else filter (fun f => is_empty (inter (support ms [f]) a'))
                        (inter (supported_in ms mk_k) (lv_actfun lv)) in
  let cand := diff (supported_in ms newc) (lv_actfun lv) in
  let newf := filter (fun f => subset (support ms [f]) (union a' d')) cand in
  let af1 := union (lv_actfun lv) newf in
  let af' := if last then af1 else diff af1 mf in
  let df' := if last then lv_deactfun lv else union (lv_deactfun lv) mf in
  mk_level a' d' af' df'.

Definition refine_levels (st : hspace) (m : list set) : list level :=
  map (refine_level st m) (seq 0 (numlevels st)).

Inductive outcome (A : Type) := Ok (a : A) | ValueError | TypeError.
Arguments Ok {A} a.
Arguments ValueError {A}.
Arguments TypeError {A}.

(* HSpace.refine(marked, truncate) :851-894 ; returns the new space and the cells actually
   refined, per level *)
Definition hs_refine (st : hspace) (raw : rawmarks) (trunc : bool) : outcome (hspace * list set) :=
  match max_marked_level raw with
  | None => ValueError
  | Some mx =>
      let st1 := ensure_levels st (mx + 2) in
      let m0 := map (fun k => of_list (marks_get raw k)) (seq 0 (numlevels st1)) in
      let m := match hs_disparity st1 with
               | None => m0
               | Some d => mark_closure st1 d trunc m0
               end in
      Ok (mk_hspace (hs_meshes st1) (refine_levels st1 m) (hs_disparity st1), m)
  end.

(* refine_region(lv, region_function) :962-974.  The predicate on cell centres is an
   arbitrary boolean function of the cell; levels are added before the marks are formed,
   also when the call then fails with an empty selection. *)
Definition hs_refine_region (st : hspace) (lv : nat) (pred : mi -> bool) : hspace * outcome (hspace * list set) :=
  let st1 := ensure_levels st (lv + 2) in
  (st1, hs_refine st1 [(lv, (CTuple, filter pred (lv_active (lvl st1 lv))))] false).

(* ------------------------------------------------------------------------- *)
(* observations                                                                *)

(* active_cells(flat=True) :442-459, active_functions(flat=True) :466-484 *)
Definition active_cells_flat (st : hspace) : list (nat * mi) :=
  flat_map (fun k => map (pair k) (lv_active (lvl st k))) (seq 0 (numlevels st)).
Definition active_functions_flat (st : hspace) : list (nat * mi) :=
  flat_map (fun k => map (pair k) (lv_actfun (lvl st k))) (seq 0 (numlevels st)).

(* incidence_matrix() :1231-1292: the products with the cell prolongations send every
   active cell of level j >= k to its level-k ancestor; rows/columns in canonical order *)
Definition incidence_entry (st : hspace) (f c : nat * mi) : bool :=
  let (k, fi) := f in let (j, ci) := c in
  (k <=? j) && mem (anc (j - k) ci) (support1 (msh st k) fi).
Definition incidence (st : hspace) : list (list bool) :=
  map (fun f => map (incidence_entry st f) (active_cells_flat st)) (active_functions_flat st).

(* is_subspace_of(other, check_kv=False) :919-937 *)
Definition is_subspace_of (a b : hspace) : bool :=
  (numlevels a <=? numlevels b) &&
  forallb (fun k => subset (lv_deactfun (lvl a k)) (lv_deactfun (lvl b k))) (seq 0 (numlevels a)).

(* spans_same_space_as(other, check_kv=False) :942-960 -- with the operator precedence of
   the source: `not actfun equal  and  deactfun equal` makes the answer False *)
Definition spans_same_space_as (a b : hspace) : bool :=
  (numlevels a =? numlevels b) &&
  forallb (fun k => negb (negb (set_eqb (lv_actfun (lvl a k)) (lv_actfun (lvl b k)))
                          && set_eqb (lv_deactfun (lvl a k)) (lv_deactfun (lvl b k))))
          (seq 0 (numlevels a)).

(* ------------------------------------------------------------------------- *)
(* executable predicates of the property (used by Examples and by the case files) *)

(* Omega_k as a set *)
Definition omega (st : hspace) (k : nat) : set := union (lv_active (lvl st k)) (lv_deact (lvl st k)).

Definition cells_inv_b (st : hspace) : bool :=
  let L := numlevels st in
  set_eqb (omega st 0) (tp_cells (msh st 0)) &&
  forallb (fun k => disjoint (lv_active (lvl st k)) (lv_deact (lvl st k))) (seq 0 L) &&
  forallb (fun k => set_eqb (omega st (S k)) (of_list (cell_children (lv_deact (lvl st k))))) (seq 0 (L - 1)) &&
  is_empty (lv_deact (lvl st (L - 1))).

Definition funcs_inv_b (st : hspace) : bool :=
  forallb (fun k =>
    let fs := tp_functions (msh st k) in
    let inO := filter (fun f => subset (support1 (msh st k) f) (omega st k)) fs in
    let inD := filter (fun f => subset (support1 (msh st k) f) (lv_deact (lvl st k))) fs in
    set_eqb (lv_actfun (lvl st k)) (diff inO inD) && set_eqb (lv_deactfun (lvl st k)) inD)
  (seq 0 (numlevels st)).

(* no active function of level k is non-zero on an active cell of level > k + d *)
Definition admissible_b (st : hspace) (d : nat) : bool :=
  forallb (fun f => forallb (fun c => negb (incidence_entry st f c) || (fst c <=? fst f + d))
                            (active_cells_flat st))
          (active_functions_flat st).

(* a history of refinement calls *)
Inductive op :=
| Refine (raw : rawmarks) (trunc : bool)
| RefineRegion (lv : nat) (sel : list mi).      (* predicate = membership in sel *)

Definition step (st : hspace) (o : op) : hspace * bool :=     (* new state, call succeeded *)
  match o with
  | Refine raw trunc =>
      match hs_refine st raw trunc with Ok (st', _) => (st', true) | _ => (st, false) end
  | RefineRegion lv sel =>
      match hs_refine_region st lv (fun c => mem c sel) with
      | (_, Ok (st', _)) => (st', true)
      | (st1, _) => (st1, false)
      end
  end.

Definition run (st : hspace) (ops : list op) : hspace := fold_left (fun s o => fst (step s o)) ops st.
