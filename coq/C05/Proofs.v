(* C05 -- proofs: Boehm knot insertion preserves the function (Cox-de Boor reference),
   composition to arbitrary refinement, row sums, non-negativity. *)
From Coq Require Import QArith Qcanon ZArith List Bool Arith Lia Lqa.
From Verif.lib Require Import Bsp.
From Verif.C02 Require Import Proofs.
From Verif.C05 Require Import Model.
Import ListNotations.
Open Scope Qc_scope.

(* ------------------------------------------------------------------ *)
(* order reasoning on Qc through lra on Q *)
Lemma Qc_eq_Qeq (a b : Qc) : a = b <-> (a == b)%Q.
Proof. split; [intros ->; reflexivity | apply Qc_is_canon]. Qed.

Ltac qo :=
  repeat match goal with
  | H : @eq Qc _ _ |- _ => apply Qc_eq_Qeq in H
  | H : ~ @eq Qc _ _ |- _ => rewrite Qc_eq_Qeq in H
  end;
  try apply Qc_eq_Qeq; unfold Qcle, Qclt in *; lra.

Lemma Qcsub_eq0 (a b : Qc) : a - b = 0 -> a = b.
Proof. intros H. rewrite <- (Qcplus_0_l b). rewrite <- H. ring. Qed.

Lemma Qcsub_neq0 (a b : Qc) : a <> b -> a - b <> 0.
Proof. intros N E. apply N. apply Qcsub_eq0. exact E. Qed.

(* ------------------------------------------------------------------ *)
(* the Cox-de Boor reference over knot functions *)
Definition in_spanF (t : nat -> Qc) (last : Qc) (i : nat) (u : Qc) : bool :=
  (qleb (t i) u && qltb u (t (S i)))
  || (qeqb u last && qltb (t i) (t (S i)) && qeqb (t (S i)) last).

Fixpoint NF (t : nat -> Qc) (last : Qc) (p i : nat) (u : Qc) : Qc :=
  match p with
  | O => if in_spanF t last i u then 1 else 0
  | S q =>
      (u - t i) / (t (i + p)%nat - t i) * NF t last q i u
      + (t (i + p + 1)%nat - u) / (t (i + p + 1)%nat - t (i + 1)%nat) * NF t last q (S i) u
  end.

Lemma Nref_NF kv p : forall i u, Nref kv p i u = NF (kn kv) (kn kv (length kv - 1)) p i u.
Proof.
  induction p as [|q IH]; intros i u.
  - reflexivity.
  - cbn [Nref NF]. rewrite !IH. reflexivity.
Qed.

(* locality: only the knots i .. i+p+1 (and the right end point) matter *)
Lemma NF_ext last p : forall t t' i i' u,
  (forall j, (j <= p + 1)%nat -> t (i + j)%nat = t' (i' + j)%nat) ->
  NF t last p i u = NF t' last p i' u.
Proof.
  induction p as [|q IH]; intros t t' i i' u H.
  - cbn [NF]. unfold in_spanF.
    pose proof (H 0%nat ltac:(lia)) as H0. pose proof (H 1%nat ltac:(lia)) as H1.
    rewrite !Nat.add_0_r in H0. rewrite !Nat.add_1_r in H1. rewrite H0, H1. reflexivity.
  - cbn [NF].
    pose proof (H 0%nat ltac:(lia)) as H0. rewrite !Nat.add_0_r in H0.
    pose proof (H 1%nat ltac:(lia)) as H1.
    pose proof (H (S q) ltac:(lia)) as H2.
    pose proof (H (S q + 1)%nat ltac:(lia)) as H3. rewrite !Nat.add_assoc in H3.
    rewrite H0, H1, H2, H3.
    rewrite (IH t t' i i' u) by (intros j Hj; apply H; lia).
    rewrite (IH t t' (S i) (S i') u).
    + reflexivity.
    + intros j Hj. replace (S i + j)%nat with (i + S j)%nat by lia.
      replace (S i' + j)%nat with (i' + S j)%nat by lia. apply H. lia.
Qed.

(* a B-spline over p+2 coinciding knots is the zero function *)
Lemma NF_zero last p : forall t i u,
  (forall j, (j <= p)%nat -> t (i + j)%nat <= t (i + S j)%nat) ->
  t i = t (i + p + 1)%nat -> NF t last p i u = 0.
Proof.
  induction p as [|q IH]; intros t i u Hs He.
  - cbn [NF]. unfold in_spanF. rewrite Nat.add_0_r, Nat.add_1_r in He.
    rewrite <- He.
    replace (qltb (t i) (t i)) with false by (symmetry; apply qltb_false_iff; apply Qcle_refl).
    rewrite andb_false_r. cbn [andb orb].
    destruct (qleb (t i) u) eqn:E1; [|reflexivity].
    destruct (qltb u (t i)) eqn:E2; [|reflexivity].
    apply qleb_iff in E1. apply qltb_iff in E2. exfalso. qo.
  - assert (Hc : forall a b, (a <= b)%nat -> (b <= S q + 1)%nat -> t (i + a)%nat <= t (i + b)%nat).
    { intros a b Hab Hb. induction b as [|b IHb].
      - replace a with 0%nat by lia. apply Qcle_refl.
      - destruct (Nat.eq_dec a (S b)) as [->|Hn]; [apply Qcle_refl|].
        eapply Qcle_trans; [apply IHb; lia|]. apply Hs. lia. }
    assert (Hall : forall a, (a <= S q + 1)%nat -> t (i + a)%nat = t i).
    { intros a Ha. pose proof (Hc 0%nat a ltac:(lia) Ha) as A. pose proof (Hc a (S q + 1)%nat Ha ltac:(lia)) as B.
      rewrite Nat.add_0_r in A. rewrite Nat.add_assoc in B. rewrite <- He in B. apply Qcle_antisym; assumption. }
    cbn [NF]. rewrite (IH t i u), (IH t (S i) u).
    + ring.
    + intros j Hj. replace (S i + j)%nat with (i + S j)%nat by lia.
      replace (S i + S j)%nat with (i + S (S j))%nat by lia. apply Hs. lia.
    + replace (S i + q + 1)%nat with (i + (S q + 1))%nat by lia.
      replace (S i) with (i + 1)%nat by lia. rewrite !Hall by lia. reflexivity.
    + intros j Hj. apply Hs. lia.
    + replace (i + q + 1)%nat with (i + (q + 1))%nat by lia. rewrite Hall by lia. reflexivity.
Qed.

(* ------------------------------------------------------------------ *)
(* degree 0: splitting a span at an inserted knot *)
Definition ind (a b last x : Qc) : Qc :=
  if (qleb a x && qltb x b) || (qeqb x last && qltb a b && qeqb b last) then 1 else 0.

Lemma NF0_ind t last i x : NF t last 0 i x = ind (t i) (t (S i)) last x.
Proof. reflexivity. Qed.

Lemma ind_empty a last x : ind a a last x = 0.
Proof.
  unfold ind.
  replace (qltb a a) with false by (symmetry; apply qltb_false_iff; apply Qcle_refl).
  rewrite andb_false_r. cbn [andb orb].
  destruct (qleb a x) eqn:E1; [|reflexivity].
  destruct (qltb x a) eqn:E2; [|reflexivity].
  apply qleb_iff in E1. apply qltb_iff in E2. exfalso. qo.
Qed.

Ltac bcase b :=
  let E := fresh "E" in
  lazymatch b with
  | qeqb ?x ?y =>
      destruct b eqn:E;
      [ apply qeqb_iff in E
      | assert (x <> y) by (let H := fresh in intro H; apply qeqb_iff in H; congruence) ]
  | qleb _ _ => destruct b eqn:E; [apply qleb_iff in E | apply qleb_false_iff in E]
  | qltb _ _ => destruct b eqn:E; [apply qltb_iff in E | apply qltb_false_iff in E]
  end.

Lemma ind_split_strict a b c last x :
  a < b -> b < c -> c <= last -> ind a c last x = ind a b last x + ind b c last x.
Proof.
  intros Hab Hbc Hcl. unfold ind.
  replace (qltb a c) with true by (symmetry; apply qltb_iff; qo).
  replace (qltb a b) with true by (symmetry; apply qltb_iff; qo).
  replace (qltb b c) with true by (symmetry; apply qltb_iff; qo).
  replace (qeqb b last) with false.
  2:{ symmetry. destruct (qeqb b last) eqn:E; [|reflexivity]. apply qeqb_iff in E. exfalso. qo. }
  rewrite !andb_true_r, !andb_false_r, !orb_false_r.
  bcase (qleb a x); bcase (qltb x c); bcase (qeqb x last); bcase (qeqb c last);
  bcase (qltb x b); bcase (qleb b x); cbn [andb orb];
  try (exfalso; qo); try ring.
Qed.

Lemma ind_split a b c last x :
  a <= b -> b <= c -> c <= last ->
  ind a c last x = (b - a) / (b - a) * ind a b last x + (c - b) / (c - b) * ind b c last x.
Proof.
  intros Hab Hbc Hcl.
  destruct (Qc_eq_dec a b) as [->|Nab].
  - rewrite ind_empty.
    destruct (Qc_eq_dec b c) as [->|Nbc].
    + rewrite ind_empty. ring.
    + rewrite Qcmult_0_r. field. apply Qcsub_neq0. congruence.
  - destruct (Qc_eq_dec b c) as [->|Nbc].
    + rewrite ind_empty. rewrite Qcmult_0_r. field. apply Qcsub_neq0. congruence.
    + rewrite (ind_split_strict a b c) by (try assumption; qo).
      field. split; apply Qcsub_neq0; congruence.
Qed.

(* ------------------------------------------------------------------ *)
(* Boehm's identity, local form: s_0 <= ... <= s_{p+2}; removing the interior knot s_m
   (1 <= m <= p+1) gives the coarse B-spline, which is the stated combination of the
   two fine ones.  Division by zero is 0 as in the reference; the identity holds
   nevertheless because the affected B-splines vanish identically. *)
Definition remove_at (s : nat -> Qc) (m : nat) : nat -> Qc :=
  fun j => if (j <? m)%nat then s j else s (S j).

Lemma remove_at_lt s m j : (j < m)%nat -> remove_at s m j = s j.
Proof. intros H. unfold remove_at. apply Nat.ltb_lt in H. rewrite H. reflexivity. Qed.
Lemma remove_at_ge s m j : (m <= j)%nat -> remove_at s m j = s (S j).
Proof. intros H. unfold remove_at. apply Nat.ltb_ge in H. rewrite H. reflexivity. Qed.

Lemma mono_chain (s : nat -> Qc) n :
  (forall j, (j < n)%nat -> s j <= s (S j)) -> forall a b, (a <= b)%nat -> (b <= n)%nat -> s a <= s b.
Proof.
  intros Hs a b Hab Hb. induction b as [|b IHb].
  - replace a with 0%nat by lia. apply Qcle_refl.
  - destruct (Nat.eq_dec a (S b)) as [->|Hn]; [apply Qcle_refl|].
    eapply Qcle_trans; [apply IHb; lia|]. apply Hs. lia.
Qed.

Lemma NF_S t last q i x :
  NF t last (S q) i x =
    (x - t i) / (t (S (i + q)) - t i) * NF t last q i x
    + (t (S (S (i + q))) - x) / (t (S (S (i + q))) - t (S i)) * NF t last q (S i) x.
Proof.
  cbn [NF]. replace (i + S q)%nat with (S (i + q)) by lia.
  replace (S (i + q) + 1)%nat with (S (S (i + q))) by lia.
  replace (i + 1)%nat with (S i) by lia. reflexivity.
Qed.

Lemma boehm_local last x : forall p s m,
  (forall j, (j <= S p)%nat -> s j <= s (S j)) ->
  (forall j, (j <= S (S p))%nat -> s j <= last) ->
  (1 <= m <= S p)%nat ->
  NF (remove_at s m) last p 0 x =
    (s m - s 0%nat) / (s (S p) - s 0%nat) * NF s last p 0 x
    + (s (S (S p)) - s m) / (s (S (S p)) - s 1%nat) * NF s last p 1 x.
Proof.
  induction p as [|q IH]; intros s m Hs Hl Hm.
  - assert (m = 1%nat) by lia. subst m. rewrite !NF0_ind.
    rewrite (remove_at_lt s 1 0) by lia. rewrite (remove_at_ge s 1 1) by lia.
    apply ind_split; [apply Hs; lia | apply Hs; lia | apply Hl; lia].
  - pose proof (mono_chain s (S (S (S q))) ltac:(intros; apply Hs; lia)) as Hmono.
    set (s1 := fun j => s (S j)).
    assert (Hn1 : NF s1 last q 0 x = NF s last q 1 x) by (apply NF_ext; intros; reflexivity).
    assert (Hn2 : NF s1 last q 1 x = NF s last q 2 x) by (apply NF_ext; intros; reflexivity).
    assert (Z0 : s 0%nat = s (S q) -> NF s last q 0 x = 0).
    { intro E. apply NF_zero.
      - intros j Hj. cbn [Nat.add]. apply Hs. lia.
      - cbn [Nat.add]. replace (q + 1)%nat with (S q) by lia. exact E. }
    assert (Z1 : s 1%nat = s (S (S q)) -> NF s last q 1 x = 0).
    { intro E. apply NF_zero.
      - intros j Hj. cbn [Nat.add]. apply Hs. lia.
      - cbn [Nat.add]. replace (q + 1)%nat with (S q) by lia. exact E. }
    assert (Z2 : s 2%nat = s (S (S (S q))) -> NF s last q 2 x = 0).
    { intro E. apply NF_zero.
      - intros j Hj. cbn [Nat.add]. apply Hs. lia.
      - cbn [Nat.add]. replace (q + 1)%nat with (S q) by lia. exact E. }
    (* the two degree-q pieces of the coarse function *)
    assert (L0 : (m <= S q)%nat -> NF (remove_at s m) last q 0 x =
              (s m - s 0%nat) / (s (S q) - s 0%nat) * NF s last q 0 x
              + (s (S (S q)) - s m) / (s (S (S q)) - s 1%nat) * NF s last q 1 x).
    { intro Hle. apply IH; [intros; apply Hs; lia | intros; apply Hl; lia | lia]. }
    assert (L0' : m = S (S q) -> NF (remove_at s m) last q 0 x = NF s last q 0 x).
    { intro E. apply NF_ext. intros j Hj. cbn [Nat.add]. apply remove_at_lt. lia. }
    assert (L1 : (2 <= m)%nat -> NF (remove_at s m) last q 1 x =
              (s m - s 1%nat) / (s (S (S q)) - s 1%nat) * NF s last q 1 x
              + (s (S (S (S q))) - s m) / (s (S (S (S q))) - s 2%nat) * NF s last q 2 x).
    { intro Hge.
      assert (E : NF (remove_at s m) last q 1 x = NF (remove_at s1 (m - 1)) last q 0 x).
      { apply NF_ext. intros j Hj. cbn [Nat.add]. unfold remove_at, s1.
        destruct (Nat.ltb_spec (S j) m), (Nat.ltb_spec j (m - 1)); try lia; reflexivity. }
      rewrite E. rewrite (IH s1 (m - 1)%nat).
      - rewrite Hn1, Hn2. unfold s1. replace (S (m - 1)) with m by lia. reflexivity.
      - intros j Hj. unfold s1. apply Hs. lia.
      - intros j Hj. unfold s1. apply Hl. lia.
      - lia. }
    assert (L1' : m = 1%nat -> NF (remove_at s m) last q 1 x = NF s last q 2 x).
    { intro E. apply NF_ext. intros j Hj. cbn [Nat.add]. rewrite remove_at_ge by lia. reflexivity. }
    rewrite !NF_S. cbn [Nat.add].
    rewrite (remove_at_lt s m 0) by lia.
    rewrite (remove_at_ge s m (S (S q))) by lia.
    pose proof (Hmono 0 1 ltac:(lia) ltac:(lia))%nat as M01.
    pose proof (Hmono 1 2 ltac:(lia) ltac:(lia))%nat as M12.
    pose proof (Hmono 1 (S (S q)) ltac:(lia) ltac:(lia))%nat as M1p.
    pose proof (Hmono (S (S q)) (S (S (S q))) ltac:(lia) ltac:(lia))%nat as Mpp.
    pose proof (Hmono (S q) (S (S q)) ltac:(lia) ltac:(lia))%nat as Mqp.
    pose proof (Hmono 0 (S q) ltac:(lia) ltac:(lia))%nat as M0q.
    pose proof (Hmono 2 (S (S (S q))) ltac:(lia) ltac:(lia))%nat as M2e.
    destruct (Nat.eq_dec m (S (S q))) as [Em|Em]; destruct (Nat.eq_dec m 1) as [E1|E1]; try lia.
    + (* m = p+1: the last knot of the first fine function is the new one *)
      rewrite (remove_at_lt s m (S q)) by lia. rewrite (remove_at_lt s m 1) by lia.
      rewrite (L0' Em), (L1 ltac:(lia)). subst m.
      destruct (Qc_eq_dec (s 1%nat) (s (S (S q)))) as [A|A].
      * rewrite (Z1 A).
        destruct (Qc_eq_dec (s 0%nat) (s (S (S q)))) as [B|B].
        -- rewrite (Z0 ltac:(qo)). unfold Qcdiv. ring.
        -- unfold Qcdiv. generalize (/ (s (S q) - s 0%nat)) (/ (s (S (S (S q))) - s 2%nat))
                                    (/ (s (S (S (S q))) - s 1%nat)) (/ (s (S (S q)) - s 1%nat)).
           intros. field. apply Qcsub_neq0. congruence.
      * unfold Qcdiv. generalize (/ (s (S q) - s 0%nat)) (/ (s (S (S (S q))) - s 2%nat)).
        intros. field. repeat split; apply Qcsub_neq0; intro; qo.
    + (* m = 1: the first knot of the second fine function is the new one *)
      rewrite (remove_at_ge s m (S q)) by lia. rewrite (remove_at_ge s m 1) by lia.
      rewrite (L0 ltac:(lia)), (L1' E1). subst m.
      destruct (Qc_eq_dec (s 1%nat) (s (S (S q)))) as [A|A].
      * rewrite (Z1 A).
        destruct (Qc_eq_dec (s 1%nat) (s (S (S (S q))))) as [B|B].
        -- rewrite (Z2 ltac:(qo)). unfold Qcdiv. ring.
        -- unfold Qcdiv. generalize (/ (s (S q) - s 0%nat)) (/ (s (S (S (S q))) - s 2%nat))
                                    (/ (s (S (S q)) - s 0%nat)) (/ (s (S (S q)) - s 1%nat)).
           intros. field. apply Qcsub_neq0. congruence.
      * unfold Qcdiv. generalize (/ (s (S q) - s 0%nat)) (/ (s (S (S (S q))) - s 2%nat)).
        intros. field. repeat split; apply Qcsub_neq0; intro; qo.
    + (* interior *)
      rewrite (remove_at_ge s m (S q)) by lia. rewrite (remove_at_lt s m 1) by lia.
      rewrite (L0 ltac:(lia)), (L1 ltac:(lia)).
      destruct (Qc_eq_dec (s 1%nat) (s (S (S q)))) as [A|A].
      * rewrite (Z1 A). unfold Qcdiv. ring.
      * unfold Qcdiv. generalize (/ (s (S q) - s 0%nat)) (/ (s (S (S (S q))) - s 2%nat)).
        intros. field. repeat split; apply Qcsub_neq0; intro; qo.
Qed.

(* ------------------------------------------------------------------ *)
(* the knot vector after insertion *)
Lemma nth_firstn_skipn (l : list Qc) n j :
  nth j l 0 = if (j <? n)%nat then nth j (firstn n l) 0 else nth (j - n) (skipn n l) 0.
Proof.
  destruct (Nat.le_gt_cases (length l) n) as [L|L].
  - rewrite firstn_all2 by exact L. rewrite skipn_all2 by exact L.
    destruct (Nat.ltb_spec j n); [reflexivity|].
    rewrite nth_overflow by lia. destruct (j - n)%nat; reflexivity.
  - rewrite <- (firstn_skipn n l) at 1.
    assert (length (firstn n l) = n) by (apply firstn_length_le; lia).
    destruct (Nat.ltb_spec j n).
    + apply app_nth1. lia.
    + rewrite app_nth2 by lia. rewrite H. reflexivity.
Qed.

Lemma length_insert_at kv k u : length (insert_at kv k u) = S (length kv).
Proof.
  unfold insert_at. rewrite app_length. cbn [length]. rewrite firstn_length, skipn_length. lia.
Qed.

Lemma kn_ins_le kv k u j : (S k <= length kv)%nat -> (j <= k)%nat -> kn (insert_at kv k u) j = kn kv j.
Proof.
  intros Hk Hj. unfold kn, insert_at.
  assert (length (firstn (S k) kv) = S k) by (apply firstn_length_le; lia).
  rewrite app_nth1 by lia. rewrite (nth_firstn_skipn kv (S k) j).
  destruct (Nat.ltb_spec j (S k)); [reflexivity|lia].
Qed.

Lemma kn_ins_eq kv k u : (S k <= length kv)%nat -> kn (insert_at kv k u) (S k) = u.
Proof.
  intros Hk. unfold kn, insert_at.
  assert (length (firstn (S k) kv) = S k) by (apply firstn_length_le; lia).
  rewrite app_nth2 by lia. rewrite H. rewrite Nat.sub_diag. reflexivity.
Qed.

Lemma kn_ins_gt kv k u j : (S k <= length kv)%nat -> (k < j)%nat -> kn (insert_at kv k u) (S j) = kn kv j.
Proof.
  intros Hk Hj. unfold kn, insert_at.
  assert (length (firstn (S k) kv) = S k) by (apply firstn_length_le; lia).
  rewrite app_nth2 by lia. rewrite H.
  replace (S j - S k)%nat with (S (j - S k)) by lia. cbn [nth].
  rewrite (nth_firstn_skipn kv (S k) j).
  destruct (Nat.ltb_spec j (S k)); [lia|reflexivity].
Qed.

Section Insertion.
  Variables (kv : list Qc) (p k : nat) (u : Qc).
  Hypothesis Hsorted : sorted kv.
  Hypothesis Hk : (S (S k) <= length kv)%nat.
  Hypothesis Hlo : kn kv k <= u.
  Hypothesis Hhi : u <= kn kv (S k).

  Let kv' := insert_at kv k u.
  Let L := kn kv (length kv - 1).

  Lemma ins_last : kn kv' (length kv' - 1) = L.
  Proof.
    unfold kv'. rewrite length_insert_at.
    replace (S (length kv) - 1)%nat with (S (length kv - 1)) by lia.
    apply kn_ins_gt; lia.
  Qed.

  Lemma ins_sorted_step j : (S j < length kv')%nat -> kn kv' j <= kn kv' (S j).
  Proof.
    unfold kv'. rewrite length_insert_at. intros Hj.
    destruct (Nat.lt_trichotomy j k) as [A|[A|A]].
    - rewrite !kn_ins_le by lia. apply Hsorted; lia.
    - subst j. rewrite kn_ins_le by lia. rewrite kn_ins_eq by lia. exact Hlo.
    - destruct (Nat.eq_dec j (S k)) as [->|B].
      + rewrite kn_ins_eq by lia. rewrite kn_ins_gt by lia. exact Hhi.
      + destruct j as [|j']; [lia|]. rewrite !kn_ins_gt by lia. apply Hsorted; lia.
  Qed.

  Lemma ins_le_last j : (j < length kv')%nat -> kn kv' j <= L.
  Proof.
    unfold kv'. rewrite length_insert_at. intros Hj. unfold L.
    destruct (Nat.le_gt_cases j k) as [A|A].
    - rewrite kn_ins_le by lia. apply Hsorted; lia.
    - destruct (Nat.eq_dec j (S k)) as [->|B].
      + rewrite kn_ins_eq by lia. eapply Qcle_trans; [exact Hhi|]. apply Hsorted; lia.
      + destruct j as [|j']; [lia|]. rewrite kn_ins_gt by lia. apply Hsorted; lia.
  Qed.

  Lemma ins_zero i x :
    (i + p + 1 < length kv')%nat -> kn kv' i = kn kv' (i + p + 1)%nat ->
    NF (kn kv') L p i x = 0.
  Proof.
    intros Hi He. apply NF_zero; [|exact He].
    intros j Hj. replace (i + S j)%nat with (S (i + j)) by lia. apply ins_sorted_step. lia.
  Qed.

  (* Boehm: column i of the knot insertion matrix *)
  Lemma ki_column i x :
    (i + p + 1 < length kv)%nat ->
    Nref kv p i x =
      ki_coef kv p k u i * Nref kv' p i x + (1 - ki_coef kv p k u (S i)) * Nref kv' p (S i) x.
  Proof.
    intros Hi. rewrite !Nref_NF. rewrite ins_last. fold L.
    assert (Hlen : length kv' = S (length kv)) by apply length_insert_at.
    unfold ki_coef.
    destruct (Nat.leb_spec (i + p) k) as [C1|C1].
    - destruct (Nat.leb_spec (S i + p) k) as [C2|C2].
      + (* untouched, left of the new knot *)
        rewrite (NF_ext L p (kn kv) (kn kv') i i x).
        * ring.
        * intros j Hj. unfold kv'. rewrite kn_ins_le by lia. reflexivity.
      + (* i + p = k : the new knot is the last knot of the fine function i *)
        assert (Ek : k = (i + p)%nat) by lia.
        set (s := fun j => kn kv' (i + j)%nat).
        assert (E0 : NF (kn kv) L p i x = NF (remove_at s (S p)) L p 0 x).
        { apply NF_ext. intros j Hj. cbn [Nat.add]. unfold remove_at, s.
          destruct (Nat.ltb_spec j (S p)).
          - unfold kv'. rewrite kn_ins_le by lia. reflexivity.
          - replace (i + S j)%nat with (S (i + j)) by lia. unfold kv'. rewrite kn_ins_gt by lia. reflexivity. }
        assert (E1 : NF s L p 0 x = NF (kn kv') L p i x) by (apply NF_ext; intros; reflexivity).
        assert (E2 : NF s L p 1 x = NF (kn kv') L p (S i) x).
        { apply NF_ext. intros j Hj. unfold s. f_equal. lia. }
        rewrite E0. rewrite boehm_local.
        2:{ intros j Hj. unfold s. replace (i + S j)%nat with (S (i + j)) by lia. apply ins_sorted_step. lia. }
        2:{ intros j Hj. unfold s. apply ins_le_last. lia. }
        2:{ lia. }
        rewrite E1, E2. unfold s.
        replace (i + S p)%nat with (S k) by lia. replace (i + S (S p))%nat with (S (S k)) by lia.
        rewrite Nat.add_0_r. unfold kv'.
        rewrite kn_ins_eq by lia. rewrite (kn_ins_gt kv k u (S k)) by lia.
        rewrite (kn_ins_le kv k u i) by lia. fold kv'.
        assert (Zi : u = kn kv i -> NF (kn kv') L p i x = 0).
        { intro E. apply ins_zero; [lia|]. unfold kv'. rewrite kn_ins_le by lia.
          replace (i + p + 1)%nat with (S k) by lia. rewrite kn_ins_eq by lia. congruence. }
        destruct (Nat.leb_spec (S i) k) as [C3|C3].
        * (* p >= 1 *)
          replace (i + 1)%nat with (S i) by lia. unfold kv'. rewrite (kn_ins_le kv k u (S i)) by lia. fold kv'.
          unfold ki_alpha. replace (S i + p)%nat with (S k) by lia.
          assert (Zs : kn kv (S k) = kn kv (S i) -> NF (kn kv') L p (S i) x = 0).
          { intro E. apply ins_zero; [lia|]. unfold kv'. rewrite kn_ins_le by lia.
            replace (S i + p + 1)%nat with (S (S k)) by lia. rewrite kn_ins_gt by lia. congruence. }
          destruct (Qc_eq_dec u (kn kv i)) as [A|A]; destruct (Qc_eq_dec (kn kv (S k)) (kn kv (S i))) as [B|B].
          -- rewrite (Zi A), (Zs B). unfold Qcdiv. ring.
          -- rewrite (Zi A). rewrite !Qcmult_0_r. field. apply Qcsub_neq0. exact B.
          -- rewrite (Zs B). rewrite !Qcmult_0_r. field. apply Qcsub_neq0. exact A.
          -- field. split; apply Qcsub_neq0; assumption.
        * (* p = 0 *)
          assert (Hp0 : p = 0%nat) by lia. replace (i + 1)%nat with (S k) by lia.
          unfold kv'. rewrite kn_ins_eq by lia. fold kv'.
          assert (Zs : kn kv (S k) = u -> NF (kn kv') L p (S i) x = 0).
          { intro E. apply ins_zero; [lia|]. unfold kv'. replace (S i) with (S k) by lia.
            rewrite kn_ins_eq by lia. replace (S k + p + 1)%nat with (S (S k)) by lia.
            rewrite kn_ins_gt by lia. congruence. }
          destruct (Qc_eq_dec u (kn kv i)) as [A|A]; destruct (Qc_eq_dec (kn kv (S k)) u) as [B|B].
          -- rewrite (Zi A), (Zs B). unfold Qcdiv. ring.
          -- rewrite (Zi A). rewrite !Qcmult_0_r. field. apply Qcsub_neq0. exact B.
          -- rewrite (Zs B). rewrite !Qcmult_0_r. field. apply Qcsub_neq0. exact A.
          -- field. split; apply Qcsub_neq0; assumption.
    - destruct (Nat.leb_spec i k) as [C2|C2].
      + (* i <= k < i + p : the new knot is interior to the support of function i *)
        destruct (Nat.leb_spec (S i + p) k) as [C0|_]; [lia|].
        set (s := fun j => kn kv' (i + j)%nat).
        set (m := (S k - i)%nat).
        assert (E0 : NF (kn kv) L p i x = NF (remove_at s m) L p 0 x).
        { apply NF_ext. intros j Hj. cbn [Nat.add]. unfold remove_at, s, m.
          destruct (Nat.ltb_spec j (S k - i)).
          - unfold kv'. rewrite kn_ins_le by lia. reflexivity.
          - replace (i + S j)%nat with (S (i + j)) by lia. unfold kv'. rewrite kn_ins_gt by lia. reflexivity. }
        assert (E1 : NF s L p 0 x = NF (kn kv') L p i x) by (apply NF_ext; intros; reflexivity).
        assert (E2 : NF s L p 1 x = NF (kn kv') L p (S i) x).
        { apply NF_ext. intros j Hj. unfold s. f_equal. lia. }
        rewrite E0. rewrite boehm_local.
        2:{ intros j Hj. unfold s. replace (i + S j)%nat with (S (i + j)) by lia. apply ins_sorted_step. lia. }
        2:{ intros j Hj. unfold s. apply ins_le_last. lia. }
        2:{ unfold m. lia. }
        rewrite E1, E2. unfold s, m.
        replace (i + (S k - i))%nat with (S k) by lia.
        replace (i + S p)%nat with (S (i + p)) by lia. replace (i + S (S p))%nat with (S (S (i + p))) by lia.
        rewrite Nat.add_0_r. unfold kv'.
        rewrite kn_ins_eq by lia. rewrite (kn_ins_gt kv k u (i + p)) by lia.
        rewrite (kn_ins_gt kv k u (S (i + p))) by lia.
        rewrite (kn_ins_le kv k u i) by lia. fold kv'.
        unfold ki_alpha at 1.
        destruct (Nat.leb_spec (S i) k) as [C3|C3].
        * replace (i + 1)%nat with (S i) by lia. unfold kv'. rewrite (kn_ins_le kv k u (S i)) by lia. fold kv'.
          unfold ki_alpha. replace (S i + p)%nat with (S (i + p)) by lia.
          assert (Zs : kn kv (S (i + p)) = kn kv (S i) -> NF (kn kv') L p (S i) x = 0).
          { intro E. apply ins_zero; [lia|]. unfold kv'. rewrite kn_ins_le by lia.
            replace (S i + p + 1)%nat with (S (S (i + p))) by lia. rewrite kn_ins_gt by lia. congruence. }
          destruct (Qc_eq_dec (kn kv (S (i + p))) (kn kv (S i))) as [B|B].
          -- rewrite (Zs B). unfold Qcdiv. ring.
          -- unfold Qcdiv. generalize (/ (kn kv (i + p) - kn kv i)). intros. field. apply Qcsub_neq0. exact B.
        * assert (i = k) by lia. subst i. replace (k + 1)%nat with (S k) by lia.
          unfold kv'. rewrite kn_ins_eq by lia. fold kv'.
          assert (Zs : kn kv (S (k + p)) = u -> NF (kn kv') L p (S k) x = 0).
          { intro E. apply ins_zero; [lia|]. unfold kv'. rewrite kn_ins_eq by lia.
            replace (S k + p + 1)%nat with (S (S (k + p))) by lia. rewrite kn_ins_gt by lia. congruence. }
          destruct (Qc_eq_dec (kn kv (S (k + p))) u) as [B|B].
          -- rewrite (Zs B). unfold Qcdiv. ring.
          -- unfold Qcdiv. generalize (/ (kn kv (k + p) - kn kv k)). intros. field. apply Qcsub_neq0. exact B.
      + (* right of the new knot: shifted by one *)
        destruct (Nat.leb_spec (S i + p) k) as [C0|_]; [lia|].
        destruct (Nat.leb_spec (S i) k) as [C0|_]; [lia|].
        rewrite (NF_ext L p (kn kv) (kn kv') i (S i) x).
        * ring.
        * intros j Hj. cbn [Nat.add]. unfold kv'. rewrite kn_ins_gt by lia. reflexivity.
  Qed.
End Insertion.

(* ------------------------------------------------------------------ *)
(* finite sums *)
Lemma bigsum_ext n f g : (forall j, (j < n)%nat -> f j = g j) -> bigsum n f = bigsum n g.
Proof.
  induction n as [|n IH]; intros H; [reflexivity|]. cbn [bigsum].
  rewrite IH by (intros; apply H; lia). rewrite H by lia. reflexivity.
Qed.

Lemma bigsum_zero n f : (forall j, (j < n)%nat -> f j = 0) -> bigsum n f = 0.
Proof.
  induction n as [|n IH]; intros H; [reflexivity|]. cbn [bigsum].
  rewrite IH by (intros; apply H; lia). rewrite H by lia. ring.
Qed.

Lemma bigsum_plus n f g : bigsum n (fun j => f j + g j) = bigsum n f + bigsum n g.
Proof. induction n as [|n IH]; cbn [bigsum]; [ring|rewrite IH; ring]. Qed.

Lemma bigsum_scale n c f : bigsum n (fun j => c * f j) = c * bigsum n f.
Proof. induction n as [|n IH]; cbn [bigsum]; [ring|rewrite IH; ring]. Qed.

Lemma bigsum_scale_r n c f : bigsum n (fun j => f j * c) = bigsum n f * c.
Proof. induction n as [|n IH]; cbn [bigsum]; [ring|rewrite IH; ring]. Qed.

Lemma bigsum_swap n m (f : nat -> nat -> Qc) :
  bigsum n (fun j => bigsum m (fun l => f j l)) = bigsum m (fun l => bigsum n (fun j => f j l)).
Proof.
  induction n as [|n IH]; cbn [bigsum].
  - symmetry. apply bigsum_zero. reflexivity.
  - rewrite IH. rewrite <- bigsum_plus. reflexivity.
Qed.

Lemma bigsum_one n f i : (i < n)%nat -> (forall j, (j < n)%nat -> j <> i -> f j = 0) -> bigsum n f = f i.
Proof.
  induction n as [|n IH]; intros Hi H; [lia|]. cbn [bigsum].
  destruct (Nat.eq_dec i n) as [->|Hn].
  - rewrite bigsum_zero by (intros; apply H; lia). ring.
  - rewrite IH by (try lia; intros; apply H; lia). rewrite (H n) by lia. ring.
Qed.

Lemma bigsum_two n f i : (S i < n)%nat ->
  (forall j, (j < n)%nat -> j <> i -> j <> S i -> f j = 0) -> bigsum n f = f i + f (S i).
Proof.
  induction n as [|n IH]; intros Hi H; [lia|]. cbn [bigsum].
  destruct (Nat.eq_dec (S i) n) as [E|Hn].
  - subst n. rewrite (bigsum_one (S i) f i) by (try lia; intros; apply H; lia). reflexivity.
  - rewrite IH by (try lia; intros; apply H; lia). rewrite (H n) by lia. ring.
Qed.

Lemma bigsum_nonneg n f : (forall j, (j < n)%nat -> 0 <= f j) -> 0 <= bigsum n f.
Proof.
  induction n as [|n IH]; intros H; cbn [bigsum]; [apply Qcle_refl|].
  pose proof (IH ltac:(intros; apply H; lia)). pose proof (H n ltac:(lia)).
  replace 0 with (0 + 0) by ring. apply Qcplus_le_compat; assumption.
Qed.

(* ------------------------------------------------------------------ *)
(* the assignment-list matrix *)
Lemma lookup_in (l : asg) j i v :
  (forall e e', In e l -> In e' l -> fst e = fst e' -> snd e = snd e') ->
  In (j, i, v) l -> lookup l j i = v.
Proof.
  intros Hf Hin. unfold lookup. destruct (find (at_pos j i) (rev l)) as [e|] eqn:E.
  - apply find_some in E. destruct E as [E1 E2]. apply in_rev in E1.
    unfold at_pos in E2. apply andb_prop in E2. destruct E2 as [A B].
    apply Nat.eqb_eq in A, B.
    apply (Hf e (j, i, v) E1 Hin). destruct e as [[a b] c]. cbn in *. congruence.
  - exfalso. pose proof (find_none _ _ E (j, i, v)) as N.
    rewrite <- in_rev in N. specialize (N Hin). unfold at_pos in N. cbn in N.
    rewrite !Nat.eqb_refl in N. discriminate.
Qed.

Lemma lookup_notin (l : asg) j i :
  (forall e, In e l -> fst e <> (j, i)) -> lookup l j i = 0.
Proof.
  intros H. unfold lookup. destruct (find (at_pos j i) (rev l)) as [e|] eqn:E; [|reflexivity].
  exfalso. apply find_some in E. destruct E as [E1 E2]. apply in_rev in E1.
  apply (H e E1). unfold at_pos in E2. apply andb_prop in E2. destruct E2 as [A B].
  apply Nat.eqb_eq in A, B. destruct e as [[a b] c]. cbn in *. congruence.
Qed.

Lemma ki_in kv p k u e :
  In e (knot_insertion_at kv p k u) <->
    (exists a, (a < k - p + 1)%nat /\ e = (a, a, 1))
    \/ (exists a, (k + 1 <= a < numdofs kv p + 1)%nat /\ e = (a, (a - 1)%nat, 1))
    \/ (exists a, (k - p + 1 <= a < k + 1)%nat /\
                  (e = (a, (a - 1)%nat, 1 - ki_alpha kv p u a) \/ e = (a, a, ki_alpha kv p u a))).
Proof.
  unfold knot_insertion_at. rewrite !in_app_iff, !in_map_iff, in_flat_map. split.
  - intros [[a [E H]]|[[a [E H]]|[a [H E]]]].
    + left. exists a. apply in_seq in H. split; [lia|congruence].
    + right; left. exists a. apply in_seq in H. split; [lia|congruence].
    + right; right. exists a. apply in_rev in H. apply in_seq in H. split; [lia|].
      cbn in E. destruct E as [E|[E|[]]]; [left|right]; congruence.
  - intros [[a [H ->]]|[[a [H ->]]|[a [H E]]]].
    + left. exists a. split; [reflexivity|]. apply in_seq. lia.
    + right; left. exists a. split; [reflexivity|]. apply in_seq. lia.
    + right; right. exists a. split.
      * rewrite <- in_rev. apply in_seq. lia.
      * cbn. destruct E as [->| ->]; auto.
Qed.

Lemma ki_functional kv p k u e e' :
  In e (knot_insertion_at kv p k u) -> In e' (knot_insertion_at kv p k u) ->
  fst e = fst e' -> snd e = snd e'.
Proof.
  intros H H'. apply ki_in in H, H'.
  destruct H as [[a [Ha ->]]|[[a [Ha ->]]|[a [Ha [->| ->]]]]];
  destruct H' as [[b [Hb ->]]|[[b [Hb ->]]|[b [Hb [->| ->]]]]];
  cbn [fst snd]; intro E; injection E as E1 E2; try lia; try (subst; reflexivity);
  try (assert (a = b) by lia; subst; reflexivity).
Qed.

Lemma ki_lookup kv p k u j i :
  (p <= k)%nat -> (k < numdofs kv p)%nat -> (i < numdofs kv p)%nat -> (j < S (numdofs kv p))%nat ->
  lookup (knot_insertion_at kv p k u) j i = ki_entry kv p k u j i.
Proof.
  intros Hp Hk Hi Hj. unfold ki_entry, ki_coef.
  destruct (Nat.eqb_spec j i) as [->|Nji].
  - destruct (Nat.leb_spec (i + p) k) as [C1|C1]; [|destruct (Nat.leb_spec i k) as [C2|C2]].
    + apply lookup_in; [apply ki_functional|]. apply ki_in. left. exists i. split; [lia|reflexivity].
    + apply lookup_in; [apply ki_functional|]. apply ki_in. right; right. exists i. split; [lia|]. right; reflexivity.
    + apply lookup_notin. intros e He. apply ki_in in He.
      destruct He as [[a [Ha ->]]|[[a [Ha ->]]|[a [Ha [->| ->]]]]]; cbn [fst]; intro E; injection E as E1 E2; lia.
  - destruct (Nat.eqb_spec j (S i)) as [->|Nji'].
    + destruct (Nat.leb_spec (S i + p) k) as [C1|C1]; [|destruct (Nat.leb_spec (S i) k) as [C2|C2]].
      * replace (1 - 1) with 0 by ring.
        apply lookup_notin. intros e He. apply ki_in in He.
        destruct He as [[a [Ha ->]]|[[a [Ha ->]]|[a [Ha [->| ->]]]]]; cbn [fst]; intro E; injection E as E1 E2; lia.
      * apply lookup_in; [apply ki_functional|]. apply ki_in. right; right. exists (S i). split; [lia|]. left.
        replace (S i - 1)%nat with i by lia. reflexivity.
      * replace (1 - 0) with 1 by ring.
        apply lookup_in; [apply ki_functional|]. apply ki_in. right; left. exists (S i). split; [lia|].
        replace (S i - 1)%nat with i by lia. reflexivity.
    + apply lookup_notin. intros e He. apply ki_in in He.
      destruct He as [[a [Ha ->]]|[[a [Ha ->]]|[a [Ha [->| ->]]]]]; cbn [fst]; intro E; injection E as E1 E2; lia.
Qed.

(* ------------------------------------------------------------------ *)
(* knot insertion preserves the function *)
Lemma numdofs_lt kv p i : (i < numdofs kv p)%nat <-> (i + p + 1 < length kv)%nat.
Proof. unfold numdofs. lia. Qed.

Lemma knot_insertion_preserves_l kv p u i x :
  kv_ok kv p -> kn kv 0 <= u -> u <= kn kv (length kv - 1) -> (i < numdofs kv p)%nat ->
  Nref kv p i x =
    bigsum (S (numdofs kv p))
           (fun j => lookup (knot_insertion kv p u) j i * Nref (insert_knot kv p u) p j x).
Proof.
  intros Hok Hu0 Hu1 Hi.
  destruct (findspan_spec_l kv p u Hok Hu0 Hu1) as [A [B [C [D E]]]].
  unfold knot_insertion, insert_knot. set (k := findspan kv p u) in *.
  pose proof (ok_len _ _ Hok) as Hlen.
  assert (Hhi : u <= kn kv (S k)).
  { destruct E as [E|[E1 E2]]; [qo|]. rewrite E2, E1. apply Qcle_refl. }
  rewrite (ki_column kv p k u (ok_sorted _ _ Hok) ltac:(lia) D Hhi i x) by (apply numdofs_lt; exact Hi).
  rewrite (bigsum_two _ _ i).
  - rewrite !ki_lookup by (unfold numdofs in *; lia). unfold ki_entry.
    rewrite Nat.eqb_refl. destruct (Nat.eqb_spec (S i) i); [lia|]. rewrite Nat.eqb_refl. reflexivity.
  - lia.
  - intros j Hj N1 N2. rewrite ki_lookup by (unfold numdofs in *; lia). unfold ki_entry.
    destruct (Nat.eqb_spec j i); [lia|]. destruct (Nat.eqb_spec j (S i)); [lia|]. ring.
Qed.

(* ------------------------------------------------------------------ *)
(* rows sum to one, entries are non-negative *)
Lemma Qcinv_pos (b : Qc) : 0 < b -> 0 < / b.
Proof.
  intros H. unfold Qclt in *. cbn. rewrite Qred_correct. apply Qinv_lt_0_compat. exact H.
Qed.

Lemma Qcdiv_nonneg (a b : Qc) : 0 <= a -> 0 < b -> 0 <= a / b.
Proof.
  intros Ha Hb. unfold Qcdiv. replace 0 with (0 * / b) by ring.
  apply Qcmult_le_compat_r; [exact Ha|]. apply Qclt_le_weak. apply Qcinv_pos. exact Hb.
Qed.

Lemma Qc01 : 0 <= 1.
Proof. unfold Qcle, Qle. cbn. lia. Qed.
Lemma sub_nonneg (a b : Qc) : b <= a -> 0 <= a - b.
Proof. intros H. unfold Qcminus. apply (proj1 (Qcle_minus_iff b a)). exact H. Qed.
Lemma sub_pos (a b : Qc) : b < a -> 0 < a - b.
Proof. intros H. unfold Qcminus. apply (proj1 (Qclt_minus_iff b a)). exact H. Qed.

Lemma ki_coef_range kv p k u i :
  sorted kv -> (S k < length kv)%nat -> kn kv k < kn kv (S k) -> kn kv k <= u -> u <= kn kv (S k) ->
  (i + p < length kv)%nat ->
  0 <= ki_coef kv p k u i /\ 0 <= 1 - ki_coef kv p k u i.
Proof.
  intros Hs Hk Hne Hlo Hhi Hi. unfold ki_coef.
  destruct (Nat.leb_spec (i + p) k) as [C1|C1]; [|destruct (Nat.leb_spec i k) as [C2|C2]].
  - split; [apply Qc01|]. replace (1 - 1) with 0 by ring. apply Qcle_refl.
  - assert (A : kn kv i <= kn kv k) by (apply Hs; lia).
    assert (B : kn kv (S k) <= kn kv (i + p)) by (apply Hs; lia).
    unfold ki_alpha. split.
    + apply Qcdiv_nonneg; [apply sub_nonneg|apply sub_pos]; qo.
    + replace (1 - (u - kn kv i) / (kn kv (i + p) - kn kv i))
        with ((kn kv (i + p) - u) / (kn kv (i + p) - kn kv i)).
      * apply Qcdiv_nonneg; [apply sub_nonneg|apply sub_pos]; qo.
      * field. apply Qcsub_neq0. intro E. qo.
  - split; [apply Qcle_refl|]. replace (1 - 0) with 1 by ring. apply Qc01.
Qed.

Lemma ki_entry_nonneg kv p k u j i :
  sorted kv -> (S k < length kv)%nat -> kn kv k < kn kv (S k) -> kn kv k <= u -> u <= kn kv (S k) ->
  (i < numdofs kv p)%nat -> 0 <= ki_entry kv p k u j i.
Proof.
  intros Hs Hk Hne Hlo Hhi Hi. unfold ki_entry. unfold numdofs in Hi.
  destruct (Nat.eqb_spec j i); [|destruct (Nat.eqb_spec j (S i))].
  - apply (ki_coef_range kv p k u i); auto. lia.
  - apply (ki_coef_range kv p k u (S i)); auto. lia.
  - apply Qcle_refl.
Qed.

Lemma ki_row_sum kv p k u j :
  (p <= k)%nat -> (k < numdofs kv p)%nat -> (j < S (numdofs kv p))%nat ->
  bigsum (numdofs kv p) (fun i => ki_entry kv p k u j i) = 1.
Proof.
  intros Hp Hk Hj. set (n := numdofs kv p) in *. unfold ki_entry.
  destruct j as [|j'].
  - rewrite (bigsum_one n _ 0%nat); [|lia|].
    + cbn. unfold ki_coef. destruct (Nat.leb_spec (0 + p) k); [reflexivity|lia].
    + intros j Hj' N. destruct (Nat.eqb_spec 0 j); [lia|]. destruct (Nat.eqb_spec 0 (S j)); [lia|reflexivity].
  - destruct (Nat.eq_dec (S j') n) as [E|N].
    + rewrite (bigsum_one n _ j'); [|lia|].
      * destruct (Nat.eqb_spec (S j') j'); [lia|]. rewrite Nat.eqb_refl.
        unfold ki_coef. destruct (Nat.leb_spec (S j' + p) k); [lia|]. destruct (Nat.leb_spec (S j') k); [lia|]. ring.
      * intros j Hj' N. destruct (Nat.eqb_spec (S j') j); [lia|]. destruct (Nat.eqb_spec (S j') (S j)); [lia|reflexivity].
    + rewrite (bigsum_two n _ j'); [|lia|].
      * destruct (Nat.eqb_spec (S j') j'); [lia|]. rewrite !Nat.eqb_refl. ring.
      * intros j Hj' N1 N2. destruct (Nat.eqb_spec (S j') j); [lia|]. destruct (Nat.eqb_spec (S j') (S j)); [lia|reflexivity].
Qed.

Lemma knot_insertion_rows_sum_one_l kv p u j :
  kv_ok kv p -> kn kv 0 <= u -> u <= kn kv (length kv - 1) -> (j < S (numdofs kv p))%nat ->
  bigsum (numdofs kv p) (fun i => lookup (knot_insertion kv p u) j i) = 1.
Proof.
  intros Hok Hu0 Hu1 Hj.
  destruct (findspan_spec_l kv p u Hok Hu0 Hu1) as [A [B [C [D E]]]].
  unfold knot_insertion. set (k := findspan kv p u) in *.
  rewrite <- (ki_row_sum kv p k u j A B Hj).
  apply bigsum_ext. intros i Hi. apply ki_lookup; auto.
Qed.

Lemma knot_insertion_nonneg_l kv p u j i :
  kv_ok kv p -> kn kv 0 <= u -> u <= kn kv (length kv - 1) ->
  (j < S (numdofs kv p))%nat -> (i < numdofs kv p)%nat ->
  0 <= lookup (knot_insertion kv p u) j i.
Proof.
  intros Hok Hu0 Hu1 Hj Hi.
  destruct (findspan_spec_l kv p u Hok Hu0 Hu1) as [A [B [C [D E]]]].
  unfold knot_insertion. set (k := findspan kv p u) in *.
  rewrite ki_lookup by auto.
  pose proof (ok_len _ _ Hok) as Hlen.
  apply ki_entry_nonneg; auto.
  - apply (ok_sorted _ _ Hok).
  - lia.
  - destruct E as [E|[E1 E2]]; [qo|]. rewrite E2, E1. apply Qcle_refl.
Qed.

(* ------------------------------------------------------------------ *)
(* dense matrices *)
Lemma nth_map_seq {A} (f : nat -> A) n j d : (j < n)%nat -> nth j (map f (seq 0 n)) d = f j.
Proof.
  intros H. rewrite (nth_indep _ d (f 0%nat)) by (rewrite map_length, seq_length; lia).
  rewrite map_nth. rewrite seq_nth by lia. reflexivity.
Qed.

Lemma get2_gen (f : nat -> nat -> Qc) r c j i :
  (j < r)%nat -> (i < c)%nat ->
  get2 (map (fun j => map (fun i => f j i) (seq 0 c)) (seq 0 r)) j i = f j i.
Proof.
  intros Hj Hi. unfold get2. rewrite (nth_map_seq (fun j => map (fun i => f j i) (seq 0 c))) by lia.
  apply (nth_map_seq (fun i => f j i)). lia.
Qed.

Lemma get2_dense l r c j i : (j < r)%nat -> (i < c)%nat -> get2 (dense l r c) j i = lookup l j i.
Proof. apply (get2_gen (fun j i => lookup l j i)). Qed.

Lemma get2_mmul A B r m c j i : (j < r)%nat -> (i < c)%nat ->
  get2 (mmul A B r m c) j i = bigsum m (fun l => get2 A j l * get2 B l i).
Proof. apply (get2_gen (fun j i => bigsum m (fun l => get2 A j l * get2 B l i))). Qed.

Lemma get2_ident n j i : (j < n)%nat -> (i < n)%nat -> get2 (ident n) j i = if Nat.eqb j i then 1 else 0.
Proof. apply (get2_gen (fun j i => if Nat.eqb j i then 1 else 0)). Qed.

(* ------------------------------------------------------------------ *)
(* insertion keeps the knot vector well-formed *)
Lemma findspan_in kv p u :
  kv_ok kv p -> kn kv 0 <= u -> u <= kn kv (length kv - 1) ->
  let k := findspan kv p u in
  (p <= k)%nat /\ (k < numdofs kv p)%nat /\ kn kv k < kn kv (S k) /\ kn kv k <= u /\ u <= kn kv (S k).
Proof.
  intros Hok Hu0 Hu1. destruct (findspan_spec_l kv p u Hok Hu0 Hu1) as [A [B [C [D E]]]].
  cbv zeta. repeat split; auto.
  destruct E as [E|[E1 E2]]; [qo|]. rewrite E2, E1. apply Qcle_refl.
Qed.

Lemma length_insert_knot kv p u : length (insert_knot kv p u) = S (length kv).
Proof. apply length_insert_at. Qed.

Lemma numdofs_insert kv p u : kv_ok kv p -> numdofs (insert_knot kv p u) p = S (numdofs kv p).
Proof. intros Hok. pose proof (ok_len _ _ Hok). unfold numdofs. rewrite length_insert_knot. lia. Qed.

Lemma insert_knot_ok kv p u :
  kv_ok kv p -> kn kv 0 <= u -> u < kn kv (length kv - 1) ->
  kv_ok (insert_knot kv p u) p
  /\ kn (insert_knot kv p u) 0 = kn kv 0
  /\ kn (insert_knot kv p u) (length (insert_knot kv p u) - 1) = kn kv (length kv - 1).
Proof.
  intros Hok Hu0 Hu1.
  destruct (findspan_in kv p u Hok Hu0 (Qclt_le_weak _ _ Hu1)) as [A [B [C [D E]]]].
  unfold insert_knot. set (k := findspan kv p u) in *.
  pose proof (ok_len _ _ Hok) as Hlen. unfold numdofs in B.
  pose proof (ok_sorted _ _ Hok) as Hs.
  assert (Hk : (S (S k) <= length kv)%nat) by lia.
  assert (Hlast := ins_last kv k u Hk).
  split; [|split].
  - constructor.
    + rewrite length_insert_at. lia.
    + intros i j Hij Hj.
      apply (mono_chain (kn (insert_at kv k u)) (length (insert_at kv k u) - 1)); try lia.
      intros a Ha. apply ins_sorted_step; auto. lia.
    + rewrite !kn_ins_le by lia. apply (ok_first _ _ Hok).
    + rewrite Hlast. rewrite length_insert_at.
      replace (S (length kv) - p - 1)%nat with (S (length kv - p - 1)) by lia.
      rewrite kn_ins_gt by lia. apply (ok_last _ _ Hok).
    + rewrite length_insert_at.
      replace (S (length kv) - p - 1)%nat with (S (length kv - p - 1)) by lia.
      rewrite (kn_ins_gt kv k u (length kv - p - 1)) by lia.
      replace (S (length kv) - p - 2)%nat with (length kv - p - 1)%nat by lia.
      destruct (Nat.eq_dec (S k) (length kv - p - 1)) as [Eq|Nq].
      * rewrite <- Eq. rewrite kn_ins_eq by lia. rewrite Eq. rewrite (ok_last _ _ Hok). exact Hu1.
      * replace (length kv - p - 1)%nat with (S (length kv - p - 2)) at 1 by lia.
        rewrite kn_ins_gt by lia. apply (ok_last_span _ _ Hok).
  - apply kn_ins_le; lia.
  - exact Hlast.
Qed.

(* ------------------------------------------------------------------ *)
(* arbitrary refinement = product of knot insertions *)
Definition in_dom (kv : list Qc) (u : Qc) : Prop := kn kv 0 <= u /\ u < kn kv (length kv - 1).

Definition preserves (kv1 kv2 : list Qc) (p : nat) (P : list (list Qc)) : Prop :=
  forall i x, (i < numdofs kv1 p)%nat ->
    Nref kv1 p i x = bigsum (numdofs kv2 p) (fun j => get2 P j i * Nref kv2 p j x).

Lemma refine_kv_ok us : forall kv p,
  kv_ok kv p -> Forall (in_dom kv) us -> kv_ok (refine_kv kv p us) p.
Proof.
  induction us as [|u us IH]; intros kv p Hok Hd; [exact Hok|].
  cbn [refine_kv]. inversion Hd as [|? ? [Hu0 Hu1] Hd']; subst.
  destruct (insert_knot_ok kv p u Hok Hu0 Hu1) as [Hok' [E0 E1]].
  apply IH; [exact Hok'|]. eapply Forall_impl; [|exact Hd'].
  intros a [Ha0 Ha1]. unfold in_dom. rewrite E0, E1. split; assumption.
Qed.

Lemma prolongation_preserves_l us : forall kv p,
  kv_ok kv p -> Forall (in_dom kv) us ->
  preserves kv (refine_kv kv p us) p (prolongation_spec kv p us).
Proof.
  induction us as [|u us IH]; intros kv p Hok Hd i x Hi.
  - cbn [refine_kv prolongation_spec].
    rewrite (bigsum_one _ _ i Hi).
    + rewrite get2_ident by lia. rewrite Nat.eqb_refl. ring.
    + intros j Hj N. rewrite get2_ident by lia. destruct (Nat.eqb_spec j i); [lia|ring].
  - cbn [refine_kv prolongation_spec]. inversion Hd as [|? ? [Hu0 Hu1] Hd']; subst.
    destruct (insert_knot_ok kv p u Hok Hu0 Hu1) as [Hok' [E0 E1]].
    assert (Hd'' : Forall (in_dom (insert_knot kv p u)) us).
    { eapply Forall_impl; [|exact Hd']. intros a [Ha0 Ha1]. unfold in_dom. rewrite E0, E1. split; assumption. }
    pose proof (IH _ p Hok' Hd'') as IH'. unfold preserves in IH'.
    set (kv' := insert_knot kv p u) in *. set (kvF := refine_kv kv' p us) in *.
    set (n := numdofs kv p) in *. set (nF := numdofs kvF p) in *.
    assert (En : numdofs kv' p = S n) by (apply numdofs_insert; exact Hok).
    rewrite (knot_insertion_preserves_l kv p u i x Hok Hu0 (Qclt_le_weak _ _ Hu1) Hi). fold n. fold kv'.
    rewrite (bigsum_ext (S n) _ (fun l => bigsum nF (fun j =>
               get2 (prolongation_spec kv' p us) j l * lookup (knot_insertion kv p u) l i * Nref kvF p j x))).
    2:{ intros l Hl. rewrite (IH' l x) by lia. fold kvF. fold nF.
        rewrite <- bigsum_scale. apply bigsum_ext. intros j Hj. ring. }
    rewrite bigsum_swap. apply bigsum_ext. intros j Hj.
    rewrite get2_mmul by lia. rewrite <- bigsum_scale_r. apply bigsum_ext. intros l Hl.
    rewrite get2_dense by lia. reflexivity.
Qed.

Lemma prolongation_rows_sum_one_l us : forall kv p j,
  kv_ok kv p -> Forall (in_dom kv) us -> (j < numdofs (refine_kv kv p us) p)%nat ->
  bigsum (numdofs kv p) (fun i => get2 (prolongation_spec kv p us) j i) = 1.
Proof.
  induction us as [|u us IH]; intros kv p j Hok Hd Hj.
  - cbn [refine_kv prolongation_spec] in *. rewrite (bigsum_one _ _ j Hj).
    + rewrite get2_ident by lia. rewrite Nat.eqb_refl. reflexivity.
    + intros i Hi N. rewrite get2_ident by lia. destruct (Nat.eqb_spec j i); [lia|reflexivity].
  - cbn [refine_kv prolongation_spec] in *. inversion Hd as [|? ? [Hu0 Hu1] Hd']; subst.
    destruct (insert_knot_ok kv p u Hok Hu0 Hu1) as [Hok' [E0 E1]].
    assert (Hd'' : Forall (in_dom (insert_knot kv p u)) us).
    { eapply Forall_impl; [|exact Hd']. intros a [Ha0 Ha1]. unfold in_dom. rewrite E0, E1. split; assumption. }
    pose proof (IH _ p j Hok' Hd'' Hj) as IH'.
    set (kv' := insert_knot kv p u) in *. set (n := numdofs kv p) in *.
    assert (En : numdofs kv' p = S n) by (apply numdofs_insert; exact Hok).
    rewrite En in IH'.
    rewrite (bigsum_ext n _ (fun i => bigsum (S n) (fun l =>
               get2 (prolongation_spec kv' p us) j l * lookup (knot_insertion kv p u) l i))).
    2:{ intros i Hi. rewrite get2_mmul by lia. apply bigsum_ext. intros l Hl. rewrite get2_dense by lia. reflexivity. }
    rewrite bigsum_swap. rewrite <- IH'. apply bigsum_ext. intros l Hl.
    rewrite bigsum_scale.
    pose proof (knot_insertion_rows_sum_one_l kv p u l Hok Hu0 (Qclt_le_weak _ _ Hu1) Hl) as R.
    fold n in R.
    match goal with |- _ * bigsum n ?f = _ => replace (bigsum n f) with 1 by (symmetry; exact R) end. ring.
Qed.

Lemma Qcmult_nonneg (a b : Qc) : 0 <= a -> 0 <= b -> 0 <= a * b.
Proof. intros Ha Hb. replace 0 with (0 * b) by ring. apply Qcmult_le_compat_r; assumption. Qed.

Lemma prolongation_nonneg_l us : forall kv p j i,
  kv_ok kv p -> Forall (in_dom kv) us ->
  (j < numdofs (refine_kv kv p us) p)%nat -> (i < numdofs kv p)%nat ->
  0 <= get2 (prolongation_spec kv p us) j i.
Proof.
  induction us as [|u us IH]; intros kv p j i Hok Hd Hj Hi.
  - cbn [refine_kv prolongation_spec] in *. rewrite get2_ident by lia.
    destruct (Nat.eqb j i); [apply Qc01|apply Qcle_refl].
  - cbn [refine_kv prolongation_spec] in *. inversion Hd as [|? ? [Hu0 Hu1] Hd']; subst.
    destruct (insert_knot_ok kv p u Hok Hu0 Hu1) as [Hok' [E0 E1]].
    assert (Hd'' : Forall (in_dom (insert_knot kv p u)) us).
    { eapply Forall_impl; [|exact Hd']. intros a [Ha0 Ha1]. unfold in_dom. rewrite E0, E1. split; assumption. }
    set (kv' := insert_knot kv p u) in *. set (n := numdofs kv p) in *.
    assert (En : numdofs kv' p = S n) by (apply numdofs_insert; exact Hok).
    rewrite get2_mmul by lia. apply bigsum_nonneg. intros l Hl.
    apply Qcmult_nonneg.
    + apply IH; auto. lia.
    + rewrite get2_dense by lia. apply knot_insertion_nonneg_l; auto. apply Qclt_le_weak; exact Hu1.
Qed.

(* ------------------------------------------------------------------ *)
(* composition of transfers and action on coefficient vectors (the 1-D core of
   "level-wise evaluation = evaluation of the fine representation") *)
Lemma preserves_compose kv1 kv2 kv3 p P Q :
  preserves kv1 kv2 p P -> preserves kv2 kv3 p Q ->
  preserves kv1 kv3 p (mmul Q P (numdofs kv3 p) (numdofs kv2 p) (numdofs kv1 p)).
Proof.
  intros H1 H2 i x Hi. rewrite (H1 i x Hi).
  rewrite (bigsum_ext _ _ (fun l => bigsum (numdofs kv3 p) (fun j => get2 Q j l * get2 P l i * Nref kv3 p j x))).
  2:{ intros l Hl. rewrite (H2 l x Hl). rewrite <- bigsum_scale. apply bigsum_ext. intros j Hj. ring. }
  rewrite bigsum_swap. apply bigsum_ext. intros j Hj.
  rewrite get2_mmul by lia. rewrite <- bigsum_scale_r. reflexivity.
Qed.

Lemma preserves_coeffs kv1 kv2 p P (c : nat -> Qc) x :
  preserves kv1 kv2 p P ->
  bigsum (numdofs kv1 p) (fun i => c i * Nref kv1 p i x)
  = bigsum (numdofs kv2 p) (fun j => bigsum (numdofs kv1 p) (fun i => get2 P j i * c i) * Nref kv2 p j x).
Proof.
  intros H.
  rewrite (bigsum_ext _ _ (fun i => bigsum (numdofs kv2 p) (fun j => get2 P j i * c i * Nref kv2 p j x))).
  2:{ intros i Hi. rewrite (H i x Hi). rewrite <- bigsum_scale. apply bigsum_ext. intros j Hj. ring. }
  rewrite bigsum_swap. apply bigsum_ext. intros j Hj. rewrite <- bigsum_scale_r. reflexivity.
Qed.

(* ------------------------------------------------------------------ *)
(* the boolean well-formedness test implies the facts the theorems use *)
Lemma sortedb_adjacent l : sortedb l = true -> forall i, (S i < length l)%nat -> kn l i <= kn l (S i).
Proof.
  induction l as [|a t IH]; intros H i Hi; [cbn in Hi; lia|].
  destruct t as [|b t']; [cbn in Hi; lia|].
  cbn [sortedb] in H. apply andb_prop in H. destruct H as [H1 H2].
  destruct i as [|i].
  - unfold kn. cbn. apply qleb_iff. exact H1.
  - unfold kn in *. cbn [nth]. apply (IH H2 i). cbn [length] in *. lia.
Qed.

Lemma sortedb_sorted l : sortedb l = true -> sorted l.
Proof.
  intros H i j Hij Hj.
  apply (mono_chain (kn l) (length l - 1)); try lia.
  intros a Ha. apply sortedb_adjacent; [exact H|lia].
Qed.

Lemma open_kv_ok kv p : open_kv kv p = true -> kv_ok kv p.
Proof.
  unfold open_kv. intros H.
  repeat (apply andb_prop in H; let H' := fresh "H" in destruct H as [H H']).
  apply Nat.leb_le in H.
  constructor.
  - exact H.
  - apply sortedb_sorted. assumption.
  - rewrite forallb_forall in H4. apply qeqb_iff. apply H4. apply in_seq. lia.
  - rewrite forallb_forall in H3. replace (length kv - p - 1)%nat with (length kv - 1 - p)%nat by lia.
    apply qeqb_iff. apply H3. apply in_seq. lia.
  - apply qltb_iff. assumption.
Qed.
