#!/bin/bash
# MANIFEST.setup_cmd: offline build of the framework from files on disk only:
# full .vo build (never -vos) of the theories of every claimed property, the
# extension cache for /repo's current tree, extracted OCaml drivers if any.
cd "$(dirname "$0")"
mkdir -p .cache/gen evidence/replay
/venv/bin/python - <<'PY'
import json, os, sys
from harness import core
m = json.load(open(os.path.join(core.VERIF, 'MANIFEST.json')))
targets = []
for c in m['checks']:
    pid = c['property_id']
    d = os.path.join(core.COQ, pid)
    for f in sorted(os.listdir(d)) if os.path.isdir(d) else []:
        if f.endswith('.v') and (f.startswith('Props') or f.startswith('Examples')):
            targets.append('%s/%so' % (pid, f))
core.coq_makefile()
# every theory on disk (Model/Tie/Check files are imported by generated case files only, not by Props)
targets = sorted(set(targets) | {os.path.relpath(p, core.COQ) + 'o' for p in core.all_v_files()})
rc, out = core.sh(['make', '-f', 'Makefile.coq', '-k', '-j%d' % core.NCPU] + targets, cwd=core.COQ, timeout=7200)
print(out[-3000:])
print('coq build rc=%s (%d targets)' % (rc, len(targets)))
bad = core.grep_gate(core.all_v_files())
if bad:
    print('forbidden vernacular:', bad)
impl = core.Impl('setup')
try:
    impl.build()
    print('extensions built for', impl.sha)
except Exception as e:
    print('implementation build failed:', e)
finally:
    impl.cleanup()
PY
for b in coq/extract/build.sh harness/*/build.sh; do [ -f "$b" ] && bash "$b"; done
exit 0
