(* C02 -- the routes built ON the collocation rows: spline evaluation / differentiation
   (bspline.ev, bspline.deriv: `collocation_derivs(kv, u, k)[k] @ coeffs`) and the tensor-product
   evaluators (BSplineFunc.grid_eval / grid_jacobian: one collocation matrix per axis applied along
   that axis, apply_tprod).  For every degree, knot vector, derivative order, number of axes and point. *)
From Coq Require Import QArith Qcanon ZArith List Bool Arith Lia Lqa.
From Verif.lib Require Import Bsp.
From Verif.C02 Require Import Proofs Proofs_ref Proofs_ndu Proofs_deriv.
Import ListNotations.
Open Scope Qc_scope.

(* dense row times coefficient vector *)
Fixpoint dotl (r c : list Qc) : Qc :=
  match r, c with
  | a :: r', b :: c' => a * b + dotl r' c'
  | _, _ => 0
  end.

Lemma sumf_succ f : forall n a, sumf f (S a) n = sumf (fun j => f (S j)) a n.
Proof.
  induction n as [|n IH]; intros a; cbn [sumf]; [reflexivity|]. rewrite IH. reflexivity.
Qed.

Lemma dotl_sumf : forall r c, length r = length c ->
  dotl r c = sumf (fun j => nth j r 0 * nth j c 0) 0 (length r).
Proof.
  induction r as [|a r IH]; intros c Hl; destruct c as [|b c]; cbn [length] in Hl; try discriminate.
  - reflexivity.
  - cbn [dotl length sumf]. rewrite sumf_succ. cbn [nth]. rewrite (IH c) by lia. reflexivity.
Qed.

(* model of bspline.ev (k = 0) and bspline.deriv (k >= 1) *)
Definition spline_ev (kv : list Qc) (p k : nat) (c : list Qc) (u : Qc) : Qc :=
  dotl (colloc_row kv p k u) c.

Lemma spline_ev_spec_l kv p k c u :
  kv_ok kv p -> kn kv 0 <= u -> u <= kn kv (length kv - 1) -> length c = numdofs kv p ->
  spline_ev kv p k c u = sumf (fun j => nth j c 0 * dNref kv k p j u) 0 (numdofs kv p).
Proof.
  intros Hok H0 H1 Hc. unfold spline_ev.
  rewrite dotl_sumf by (rewrite colloc_row_length; lia).
  rewrite colloc_row_length. apply sumf_ext. intros j Hj.
  rewrite colloc_row_derivs_l by (assumption || lia). ring.
Qed.

(* only the p+1 coefficients starting at first_active_at enter *)
Lemma spline_ev_local_l kv p k c u :
  kv_ok kv p -> kn kv 0 <= u -> u <= kn kv (length kv - 1) -> length c = numdofs kv p ->
  spline_ev kv p k c u =
  sumf (fun j => nth j c 0 * dNref kv k p j u) (first_active_at kv p u) (S p).
Proof.
  intros Hok H0 H1 Hc. rewrite spline_ev_spec_l by assumption.
  destruct (findspan_spec_l kv p u Hok H0 H1) as (Hp & Hs & _).
  unfold first_active_at, numdofs in *.
  set (s := findspan kv p u) in *.
  replace (length kv - p - 1)%nat with ((s - p) + (S p + (length kv - p - 1 - S s)))%nat by lia.
  rewrite sumf_app. rewrite sumf_app. cbn [Nat.add].
  rewrite (sumf_zero _ (s - p) 0).
  2:{ intros i Hi. rewrite (dN_local_l kv p u k i) by (assumption || (fold s; lia)). ring. }
  rewrite (sumf_zero _ (length kv - p - 1 - S s)).
  2:{ intros i Hi. rewrite (dN_local_l kv p u k i) by (assumption || (fold s; lia)). ring. }
  ring.
Qed.

(* a spline with all coefficients equal to a constant is that constant; its derivatives vanish *)
Lemma sumf_const_scale c f : forall n a, sumf (fun j => c * f j) a n = c * sumf f a n.
Proof. exact (sumf_scale c f). Qed.

Lemma nth_repeat_Qc (x : Qc) n j : (j < n)%nat -> nth j (repeat x n) 0 = x.
Proof.
  revert j. induction n as [|n IH]; intros j Hj; [lia|]. destruct j as [|j]; cbn [repeat nth]; [reflexivity|].
  apply IH. lia.
Qed.

Lemma spline_ev_const_l kv p x u :
  kv_ok kv p -> kn kv 0 <= u -> u <= kn kv (length kv - 1) ->
  spline_ev kv p 0 (repeat x (numdofs kv p)) u = x.
Proof.
  intros Hok H0 H1. rewrite spline_ev_spec_l by (try assumption; apply repeat_length).
  rewrite (sumf_ext _ (fun j => x * Nref kv p j u)).
  2:{ intros j Hj. rewrite nth_repeat_Qc by lia. reflexivity. }
  rewrite sumf_scale. rewrite N_partition_of_unity_all_l by assumption. ring.
Qed.

Lemma spline_deriv_const_l kv p k x u :
  kv_ok kv p -> kn kv 0 <= u -> u <= kn kv (length kv - 1) -> (1 <= k)%nat ->
  spline_ev kv p k (repeat x (numdofs kv p)) u = 0.
Proof.
  intros Hok H0 H1 Hk. rewrite spline_ev_spec_l by (try assumption; apply repeat_length).
  rewrite (sumf_ext _ (fun j => x * dNref kv k p j u)).
  2:{ intros j Hj. rewrite nth_repeat_Qc by lia. reflexivity. }
  rewrite sumf_scale. rewrite dN_sum_zero_all_l by assumption. ring.
Qed.

(* ------------------------------------------------------------------ *)
(* tensor product: one collocation row per axis, applied axis by axis (apply_tprod at one grid
   point).  The coefficient tensor is a function of the multi-index (first axis first). *)
Fixpoint tp_eval (axes : list (list Qc * nat)) (ks : list nat) (c : list nat -> Qc) (pt : list Qc) : Qc :=
  match axes, ks, pt with
  | (kv, p) :: ax, k :: ks', u :: pt' =>
      sumf (fun j => nth j (colloc_row kv p k u) 0 * tp_eval ax ks' (fun idx => c (j :: idx)) pt')
           0 (numdofs kv p)
  | _, _, _ => c []
  end.

(* the definition of a tensor-product spline (derivative of multi-order ks):
   sum_{j1} ... sum_{jd} c[j1..jd] * prod_a N^(k_a)_{j_a,p_a}(u_a), written as nested sums *)
Fixpoint tp_ref (axes : list (list Qc * nat)) (ks : list nat) (c : list nat -> Qc) (pt : list Qc) : Qc :=
  match axes, ks, pt with
  | (kv, p) :: ax, k :: ks', u :: pt' =>
      sumf (fun j => dNref kv k p j u * tp_ref ax ks' (fun idx => c (j :: idx)) pt') 0 (numdofs kv p)
  | _, _, _ => c []
  end.

Fixpoint axes_ok (axes : list (list Qc * nat)) (pt : list Qc) : Prop :=
  match axes, pt with
  | (kv, p) :: ax, u :: pt' =>
      kv_ok kv p /\ kn kv 0 <= u /\ u <= kn kv (length kv - 1) /\ axes_ok ax pt'
  | [], [] => True
  | _, _ => False
  end.

Lemma tp_eval_spec_l : forall axes ks c pt, axes_ok axes pt -> tp_eval axes ks c pt = tp_ref axes ks c pt.
Proof.
  induction axes as [|[kv p] ax IH]; intros ks c pt Hok.
  - reflexivity.
  - destruct pt as [|u pt']; [destruct Hok|]. destruct Hok as (Hk & H0 & H1 & Hr).
    destruct ks as [|k ks']; [reflexivity|]. cbn [tp_eval tp_ref].
    apply sumf_ext. intros j Hj. rewrite colloc_row_derivs_l by (assumption || lia).
    rewrite IH by assumption. reflexivity.
Qed.

(* the explicit two-axis form: entry (i, j) of  C2 * c * C1^T  *)
Lemma tp_eval_2d_l kv2 p2 k2 kv1 p1 k1 (c : nat -> nat -> Qc) v u :
  kv_ok kv2 p2 -> kn kv2 0 <= v -> v <= kn kv2 (length kv2 - 1) ->
  kv_ok kv1 p1 -> kn kv1 0 <= u -> u <= kn kv1 (length kv1 - 1) ->
  tp_eval [(kv2, p2); (kv1, p1)] [k2; k1]
          (fun idx => match idx with [a; b] => c a b | _ => 0 end) [v; u] =
  sumf (fun a => sumf (fun b => c a b * (dNref kv2 k2 p2 a v * dNref kv1 k1 p1 b u)) 0 (numdofs kv1 p1))
       0 (numdofs kv2 p2).
Proof.
  intros A1 A2 A3 B1 B2 B3. rewrite tp_eval_spec_l by (cbn [axes_ok]; tauto).
  cbn [tp_ref]. apply sumf_ext. intros a Ha. rewrite <- sumf_scale. apply sumf_ext. intros b Hb. ring.
Qed.

(* the tensor-product basis is a partition of unity: constant coefficients give the constant, and
   any derivative of it vanishes *)
Definition all_zero (ks : list nat) : bool := forallb (Nat.eqb 0) ks.

Lemma tp_ref_const_l : forall axes ks x pt, axes_ok axes pt -> length ks = length axes ->
  tp_ref axes ks (fun _ => x) pt = if all_zero ks then x else 0.
Proof.
  induction axes as [|[kv p] ax IH]; intros ks x pt Hok Hl.
  - destruct ks; [reflexivity|discriminate].
  - destruct pt as [|u pt']; [destruct Hok|]. destruct Hok as (Hk & H0 & H1 & Hr).
    destruct ks as [|k ks']; [discriminate|]. cbn [tp_ref length] in *.
    rewrite (sumf_ext _ (fun j => (if all_zero ks' then x else 0) * dNref kv k p j u)).
    2:{ intros j Hj. rewrite IH by (assumption || lia). ring. }
    rewrite sumf_scale. unfold all_zero at 2. cbn [forallb]. fold (all_zero ks').
    destruct k as [|k].
    + cbn [dNref Nat.eqb andb]. rewrite N_partition_of_unity_all_l by assumption. ring.
    + cbn [Nat.eqb andb]. rewrite dN_sum_zero_all_l by (assumption || lia). ring.
Qed.

Lemma tp_eval_const_l axes ks x pt : axes_ok axes pt -> length ks = length axes ->
  tp_eval axes ks (fun _ => x) pt = if all_zero ks then x else 0.
Proof. intros Hok Hl. rewrite tp_eval_spec_l by assumption. apply tp_ref_const_l; assumption. Qed.

(* non-negative coefficients give a non-negative value (all axes sorted: values only, ks = 0) *)
Lemma sumf_nonneg f : forall n a, (forall i, (a <= i < a + n)%nat -> 0 <= f i) -> 0 <= sumf f a n.
Proof.
  induction n as [|n IH]; intros a H; cbn [sumf]; [apply Qcle_refl|].
  replace 0 with (0 + 0) by ring. apply Qcplus_le_compat; [apply H; lia|]. apply IH. intros i Hi. apply H. lia.
Qed.

Lemma tp_ref_nonneg_l : forall axes c pt, axes_ok axes pt -> (forall idx, 0 <= c idx) ->
  0 <= tp_ref axes (repeat 0%nat (length axes)) c pt.
Proof.
  induction axes as [|[kv p] ax IH]; intros c pt Hok Hc.
  - apply Hc.
  - destruct pt as [|u pt']; [destruct Hok|]. destruct Hok as (Hk & H0 & H1 & Hr).
    cbn [length repeat tp_ref dNref]. apply sumf_nonneg. intros j Hj.
    apply Qc_mult_nonneg.
    + apply N_nonneg_l; [exact (ok_sorted _ _ Hk)|unfold numdofs in Hj; lia].
    + apply IH; [assumption|]. intros idx. apply Hc.
Qed.
