(* C07 -- executable model (exact rationals, Qc) of pyiga's geometry maps:
   tensor-product spline / NURBS functions, their evaluation routes
   (tensor grid, single point, scattered points), Jacobians, Hessians,
   boundary extraction and the coefficient-level geometry operations.
   Definitions only (no proofs).  The 1D kernels come from coq/lib/Bsp.v.

   Source (cited per definition):  pyiga/bspline.py, pyiga/geometry.py, pyiga/utils.py.

   Conventions.  A coefficient array of shape N_0 x ... x N_{d-1} x (trailing) is a
   function  co : list nat -> nat -> Qc  (multi-index over the d spline axes,
   flattened trailing index).  Knot vectors / grid axes are in the code's
   axis order (kvs[0] is the slowest = "z-most" axis, kvs[d-1] is x);
   point coordinates handed to __call__ / pointwise_* are in xyz order. *)
From Coq Require Import QArith Qcanon Qcabs ZArith List Arith Bool Lia.
From Verif.lib Require Import Bsp.
Import ListNotations.
Open Scope Qc_scope.

(* ------------------------------------------------------------------ *)
(* weighted sums                                                       *)

(* sum_r row[r] * f (off + r): one row of a collocation matrix applied along one axis;
   off = 0 for a dense row, off = index of the first active function for the
   (index, p+1 values) form of collocation_info *)
Fixpoint rdot (off : nat) (row : list Qc) (f : nat -> Qc) : Qc :=
  match row with
  | [] => 0
  | a :: r => a * f off + rdot (S off) r f
  end.

Definition orow := (nat * list Qc)%type.

(* Y = sum_J prod_k A_k[j_k] X[J]  (tensor.py:97-128 apply_tprod, documented contract;
   np.einsum('i,j,k,ijk...') of bspline.py:476) *)
Fixpoint tp_eval (rows : list orow) (C : list nat -> Qc) : Qc :=
  match rows with
  | [] => C []
  | (off, r) :: rs => rdot off r (fun i => tp_eval rs (fun idx => C (i :: idx)))
  end.

(* ------------------------------------------------------------------ *)
(* collocation rows                                                    *)

Definition KV := (list Qc * nat)%type.           (* knots, degree *)
Definition kv_n (kv : KV) : nat := numdofs (fst kv) (snd kv).

(* row k of active_deriv(kv, u, nd): the p+1 active (derivative) values *)
Definition act_row (kv : KV) (nd k : nat) (u : Qc) : list Qc :=
  nth k (active_deriv (fst kv) (snd kv) u nd) [].

(* collocation_info / collocation_derivs_info (bspline.py:614-627, 649-660) *)
Definition win_row (kv : KV) (nd k : nat) (u : Qc) : orow :=
  (first_active_at (fst kv) (snd kv) u, act_row kv nd k u).

(* row of collocation / collocation_derivs (bspline.py:591-612, 629-647): the same
   values scattered into a row of length numdofs at columns first..first+p *)
Definition dense_row (kv : KV) (nd k : nat) (u : Qc) : orow :=
  let fa := first_active_at (fst kv) (snd kv) u in
  let vals := act_row kv nd k u in
  (0%nat, map (fun j => if ((fa <=? j) && (j <=? fa + snd kv))%nat then nth (j - fa) vals 0 else 0)
              (seq 0 (kv_n kv))).

Definition zerov (n : nat) : list nat := repeat 0%nat n.
Definition bump (D : list nat) (i : nat) : list nat :=
  map (fun jk => if Nat.eqb (fst jk) i then S (snd jk) else snd jk) (combine (seq 0 (length D)) D).
Definition unitv (n i : nat) : list nat := bump (zerov n) i.

Fixpoint zip3 {A B C} (a : list A) (b : list B) (c : list C) : list (A * B * C) :=
  match a, b, c with
  | x :: a', y :: b', z :: c' => (x, y, z) :: zip3 a' b' c'
  | _, _, _ => []
  end.

(* rows for a grid point us (code axis order), derivative orders D per axis *)
Definition grid_rows (kvs : list KV) (us : list Qc) (nd : nat) (D : list nat) : list orow :=
  map (fun t => let '(kv, u, k) := t in dense_row kv nd k u) (zip3 kvs us D).
Definition win_rows (kvs : list KV) (us : list Qc) (nd : nat) (D : list nat) : list orow :=
  map (fun t => let '(kv, u, k) := t in win_row kv nd k u) (zip3 kvs us D).

(* ------------------------------------------------------------------ *)
(* BSplineFunc                                                         *)

Record bsp := mk_bsp { kvs : list KV; co : list nat -> nat -> Qc; nc : nat }.
Definition sdim (f : bsp) : nat := length (kvs f).

(* grid_eval at one grid point (bspline.py:874-895) *)
Definition g_val (f : bsp) (us : list Qc) (c : nat) : Qc :=
  tp_eval (grid_rows (kvs f) us 0 (zerov (sdim f))) (fun idx => co f idx c).

(* grid_jacobian (bspline.py:913-921): for i in reversed(range(sdim)) ... stack(axis=-1) *)
Definition g_dir (f : bsp) (nd : nat) (us : list Qc) (D : list nat) (c : nat) : Qc :=
  tp_eval (grid_rows (kvs f) us nd D) (fun idx => co f idx c).
Definition g_jac (f : bsp) (us : list Qc) (c : nat) : list Qc :=
  map (fun i => g_dir f 1 us (unitv (sdim f) i) c) (rev (seq 0 (sdim f))).

(* grid_hessian (bspline.py:950-980): for i in reversed(range(sdim)): for j in reversed(range(i+1)) *)
Definition hess_pairs (d : nat) : list (nat * nat) :=
  flat_map (fun i => map (fun j => (i, j)) (rev (seq 0 (S i)))) (rev (seq 0 d)).
Definition g_hess (f : bsp) (us : list Qc) (c : nat) : list Qc :=
  map (fun ij => g_dir f 2 us (bump (bump (zerov (sdim f)) (fst ij)) (snd ij)) c) (hess_pairs (sdim f)).

(* _BaseSplineFunc.eval (bspline.py:801-818): coords = reversed(x); grid_eval on the
   one-point grid; squeeze of the singleton axes (shape only) *)
Definition call_val (f : bsp) (xs : list Qc) (c : nat) : Qc := g_val f (rev xs) c.

(* ---- scattered points (bspline.py:436-587) ------------------------- *)

(* Python tuple indexing with negative wrap-around; None = IndexError *)
Definition py_nth {A} (l : list A) (i : Z) : option A :=
  let n := Z.of_nat (length l) in
  if ((0 <=? i) && (i <? n))%Z then nth_error l (Z.to_nat i)
  else if ((- n <=? i) && (i <? 0))%Z then nth_error l (Z.to_nat (n + i)) else None.

(* the coordinate handed to kvs[d]:
   as written in /repo HEAD:  XY[1-d]        (bspline.py:457,503,552)
   repaired (fixes/C07-pointwise-axis-order.patch):  XY[sdim-1-d] *)
Definition sel_asis (xs : list Qc) (d : nat) : option Qc := py_nth xs (1 - Z.of_nat d)%Z.
Definition sel_fixed (xs : list Qc) (d : nat) : option Qc := nth_error xs (length xs - 1 - d).

Fixpoint opt_all {A} (l : list (option A)) : option (list A) :=
  match l with
  | [] => Some []
  | None :: _ => None
  | Some a :: t => match opt_all t with Some r => Some (a :: r) | None => None end
  end.

Definition pw_coords (sel : list Qc -> nat -> option Qc) (xs : list Qc) : option (list Qc) :=
  opt_all (map (sel xs) (seq 0 (length xs))).

(* tp_bsp_eval_pointwise (bspline.py:453-479): coefficient window coeffs[Is:Is+p+1] contracted
   with the p+1 active values per axis *)
Definition pw_val_at (f : bsp) (us : list Qc) (nd : nat) (c : nat) : Qc :=
  tp_eval (win_rows (kvs f) us nd (zerov (sdim f))) (fun idx => co f idx c).
Definition pw_val (sel : list Qc -> nat -> option Qc) (f : bsp) (xs : list Qc) (c : nat) : option Qc :=
  match pw_coords sel xs with Some us => Some (pw_val_at f us 0 c) | None => None end.

(* tp_bsp_jac_pointwise (bspline.py:515-528): result[k, ..., sdim-i-1] = vals for i in range(sdim)
   (slot written with an Ellipsis in the repaired code, fixes/C07-pointwise-jacobian-slot.patch) *)
Definition pw_jac_at (f : bsp) (us : list Qc) (c : nat) : list Qc :=
  let d := sdim f in
  fold_left (fun acc i => upd acc (d - i - 1)
                (tp_eval (win_rows (kvs f) us 1 (unitv d i)) (fun idx => co f idx c)))
            (seq 0 d) (repeat 0 d).
Definition pw_jac (sel : list Qc -> nat -> option Qc) (f : bsp) (xs : list Qc) (c : nat) : option (list Qc) :=
  match pw_coords sel xs with Some us => Some (pw_jac_at f us c) | None => None end.

(* ------------------------------------------------------------------ *)
(* NurbsFunc (geometry.py:27-286): a bsp with nc = m+1 components, the last one the weight *)

(* constructor with separate weights, premultiplied=False (geometry.py:77-90) *)
Definition mk_nurbs (kv : list KV) (C : list nat -> nat -> Qc) (W : list nat -> Qc) (m : nat) : bsp :=
  mk_bsp kv (fun idx c => if (c <? m)%nat then C idx c * W idx else W idx) (S m).
Definition wcomp (f : bsp) : nat := (nc f - 1)%nat.

(* grid_eval (geometry.py:102-114), pointwise_eval (:163-167) *)
Definition n_val (f : bsp) (us : list Qc) (c : nat) : Qc := g_val f us c / g_val f us (wcomp f).
Definition n_call (f : bsp) (xs : list Qc) (c : nat) : Qc := n_val f (rev xs) c.
Definition n_pw_val (sel : list Qc -> nat -> option Qc) (f : bsp) (xs : list Qc) (c : nat) : option Qc :=
  match pw_coords sel xs with
  | Some us => Some (pw_val_at f us 0 c / pw_val_at f us 0 (wcomp f))
  | None => None end.

(* _nurbs_jacobian (geometry.py:17-25): (Vjac * W - V * Wjac) / W**2 per entry *)
Definition nurbs_jac_entry (V W Vj Wj : Qc) : Qc := (Vj * W - V * Wj) / (W * W).
Definition nurbs_jac (V W : Qc) (Vj Wj : list Qc) : list Qc :=
  map (fun vw => nurbs_jac_entry V W (fst vw) (snd vw)) (combine Vj Wj).
Definition n_jac (f : bsp) (us : list Qc) (c : nat) : list Qc :=
  nurbs_jac (g_val f us c) (g_val f us (wcomp f)) (g_jac f us c) (g_jac f us (wcomp f)).
(* pointwise_jacobian (geometry.py:182-186) through tp_bsp_eval_with_jac_pointwise (derivs=1 rows) *)
Definition n_pw_jac (sel : list Qc -> nat -> option Qc) (f : bsp) (xs : list Qc) (c : nat) : option (list Qc) :=
  match pw_coords sel xs with
  | Some us => Some (nurbs_jac (pw_val_at f us 1 c) (pw_val_at f us 1 (wcomp f))
                               (pw_jac_at f us c) (pw_jac_at f us (wcomp f)))
  | None => None end.

(* np.triu_indices(d) *)
Definition triu (d : nat) : list (nat * nat) :=
  flat_map (fun a => map (fun b => (a, b)) (seq a (d - a))) (seq 0 d).

(* grid_hessian (geometry.py:125-150), entry for the index pair (a, b) = (I[k], J[k]):
   Nhess1 = Vhess / W - (V * Whess) / W**2;  mat[a][b] = Njac[b] * Wjac[a] / W;  mat += mat^T;
   H = Nhess1 - mat[I, J] *)
Definition nurbs_hess_entry (V W Vh Wh Nja Njb Wja Wjb : Qc) : Qc :=
  Vh / W - (V * Wh) / (W * W) - (Njb * Wja / W + Nja * Wjb / W).
Definition n_hess (f : bsp) (us : list Qc) (c : nat) : list Qc :=
  let V := g_val f us c in
  let W := g_val f us (wcomp f) in
  let Wj := g_jac f us (wcomp f) in
  let Nj := nurbs_jac V W (g_jac f us c) Wj in
  let Vh := g_hess f us c in
  let Wh := g_hess f us (wcomp f) in
  map (fun t => let '(k, (a, b)) := t in
                nurbs_hess_entry V W (nth k Vh 0) (nth k Wh 0) (nth a Nj 0) (nth b Nj 0) (nth a Wj 0) (nth b Wj 0))
      (combine (seq 0 (length (triu (sdim f)))) (triu (sdim f))).

(* coeffs_weights (geometry.py:233-236) *)
Definition n_C (f : bsp) (idx : list nat) (c : nat) : Qc := co f idx c / co f idx (wcomp f).
Definition n_W (f : bsp) (idx : list nat) : Qc := co f idx (wcomp f).

(* ------------------------------------------------------------------ *)
(* boundaries                                                          *)

Inductive bdname := Left | Right | Bottom | Top | Front | Back.

(* _parse_bdspec (bspline.py:13-33); None = ValueError *)
Definition parse_bdname (b : bdname) (dim : nat) : option (nat * nat) :=
  let '(off, side) := match b with
                      | Left => (1, 0) | Right => (1, 1) | Bottom => (2, 0)
                      | Top => (2, 1) | Front => (3, 0) | Back => (3, 1) end%nat in
  let ax := (Z.of_nat dim - Z.of_nat off)%Z in
  if ((ax <? 0) || (Z.of_nat dim <=? ax))%Z then None else Some (Z.to_nat ax, side).
Definition parse_bdpair (ax : Z) (side : Z) (dim : nat) : option (nat * nat) :=
  if negb ((side =? 0) || (side =? 1))%Z then None
  else if ((ax <? 0) || (Z.of_nat dim <=? ax))%Z then None else Some (Z.to_nat ax, Z.to_nat side).

Definition insert_at {A} (k : nat) (v : A) (l : list A) : list A := firstn k l ++ v :: skipn k l.
Definition remove_at {A} (k : nat) (l : list A) : list A := firstn k l ++ skipn (S k) l.

(* BSplineFunc.boundary / NurbsFunc.boundary (bspline.py:1029-1036, geometry.py:203-210):
   slices[axis] = 0 if side==0 else -1; del kvs[axis] *)
Definition boundary (f : bsp) (axis side : nat) : bsp :=
  let n := kv_n (nth axis (kvs f) ([], 0%nat)) in
  mk_bsp (remove_at axis (kvs f))
         (fun idx c => co f (insert_at axis (if Nat.eqb side 0 then 0%nat else (n - 1)%nat) idx) c)
         (nc f).

(* _BoundaryFunction (geometry.py:380-419) *)
Definition kv_support (kv : KV) : Qc * Qc := (kn (fst kv) 0, kn (fst kv) (length (fst kv) - 1)).
Definition bf_fixed (f : bsp) (axis side : nat) : Qc :=
  let s := kv_support (nth axis (kvs f) ([], 0%nat)) in if Nat.eqb side 0 then fst s else snd s.
(* eval: x.insert(len(x) - axis, fixed); f( *x ) *)
Definition bf_call {A B} (val : list A -> B) (axis : nat) (fixed : A) (xs : list A) : B :=
  val (insert_at (length xs - axis) fixed xs).
(* grid_eval: gridaxes.insert(axis, [fixed]) *)
Definition bf_grid {A B} (val : list A -> B) (axis : nat) (fixed : A) (us : list A) : B :=
  val (insert_at axis fixed us).
(* grid_jacobian: drop column jacs.shape[-1] - axis - 1 *)
Definition bf_jac {A B} (jac : list A -> list B) (axis : nat) (fixed : A) (us : list A) : list B :=
  let J := jac (insert_at axis fixed us) in remove_at (length J - axis - 1) J.

(* support property / setter (bspline.py:1038-1052, geometry.py:212-223): the override if one was
   set, else the supports of the knot vectors *)
Definition support_of (ov : option (list (Qc * Qc))) (f : bsp) : list (Qc * Qc) :=
  match ov with Some s => s | None => map kv_support (kvs f) end.
Definition r_fixed (ov : option (list (Qc * Qc))) (f : bsp) (axis side : nat) : Qc :=
  let s := nth axis (support_of ov f) (0, 0) in if Nat.eqb side 0 then fst s else snd s.
(* boundary() (bspline.py:1024-1036, geometry.py:198-210): with a support override the generic
   _BoundaryFunction at support[axis][side], else the function of the sliced coefficients *)
Definition r_boundary_val (ov : option (list (Qc * Qc))) (f : bsp) (axis side : nat) (us : list Qc) (c : nat) : Qc :=
  match ov with
  | Some _ => bf_grid (fun u => g_val f u c) axis (r_fixed ov f axis side) us
  | None => g_val (boundary f axis side) us c
  end.

(* the support of that boundary: _BoundaryFunction.support = f.support[:axis] + f.support[axis+1:]
   (geometry.py:390), resp. the supports of the remaining knot vectors of the sliced function *)
Definition r_boundary_support (ov : option (list (Qc * Qc))) (f : bsp) (axis side : nat) : list (Qc * Qc) :=
  match ov with
  | Some _ => firstn axis (support_of ov f) ++ skipn (S axis) (support_of ov f)
  | None => map kv_support (kvs (boundary f axis side))
  end.

(* UserFunction (geometry.py:289-339) of a callable `fn` taking the coordinates in xyz order:
   eval = fn; pointwise_eval(points) = eval of the unpacked points;
   grid_eval = utils.grid_eval (utils.py:33-41): meshgrid of the grid axes (indexing='ij'), mesh.reverse(), fn of the mesh,
   i.e. fn at the reversed (xyz) coordinates of every grid point *)
Definition u_call {A B} (fn : list A -> B) (xs : list A) : B := fn xs.
Definition u_pw {A B} (fn : list A -> B) (xs : list A) : B := u_call fn xs.
Definition u_grid {A B} (fn : list A -> B) (us : list A) : B := fn (rev us).

(* ComposedFunction (geometry.py:341-378), geo = geo2 o geo1 with B-spline operands:
   XY = geo1.grid_eval(grd); np.rollaxis(XY, -1): component i of geo1 is coordinate i (xyz) of geo2 *)
Definition comp_point (f1 : bsp) (us : list Qc) : list Qc := map (g_val f1 us) (seq 0 (nc f1)).
(* grid_eval: geo2.pointwise_eval(...) *)
Definition comp_val (f2 f1 : bsp) (us : list Qc) (c : nat) : option Qc :=
  pw_val sel_fixed f2 (comp_point f1 us) c.
(* grid_jacobian: np.matmul(jac2, jac1), row c; for a scalar geo2 (gradient array, repaired in f32eb60)
   matmul(jac2[..., None, :], jac1)[..., 0, :] is the same row for c = 0 *)
Definition comp_jac (f2 f1 : bsp) (us : list Qc) (c : nat) : option (list Qc) :=
  match pw_jac sel_fixed f2 (comp_point f1 us) c with
  | Some J2c => Some (map (fun j => rdot 0 J2c (fun a => nth j (g_jac f1 us a) 0)) (seq 0 (sdim f1)))
  | None => None
  end.

(* ------------------------------------------------------------------ *)
(* operations on coefficients                                          *)

(* BSplineFunc.translate/scale/apply_matrix/__getitem__/as_nurbs (bspline.py:1060-1122) *)
Definition b_translate (f : bsp) (off : nat -> Qc) : bsp := mk_bsp (kvs f) (fun idx c => co f idx c + off c) (nc f).
Definition b_scale (f : bsp) (fac : nat -> Qc) : bsp := mk_bsp (kvs f) (fun idx c => co f idx c * fac c) (nc f).
Definition b_matrix (f : bsp) (A : nat -> nat -> Qc) (rows : nat) : bsp :=
  mk_bsp (kvs f) (fun idx c => rdot 0 (map (A c) (seq 0 (nc f))) (co f idx)) rows.
(* __getitem__ (bspline.py:1123-1124, geometry.py:284-286): coeffs[..., I] with I any Python/numpy
   index of the LAST trailing axis (length n, lead = product of the other trailing axes):
   an int (negative wraps, out of range = IndexError), a slice (slice.indices semantics), a list or
   tuple of ints (fancy index; numpy treats a tuple nested in the index tuple like a list).
   The selection is a list ks of positions on the last axis. *)
Definition py_wrap (n : nat) (i : Z) : option nat :=
  let z := Z.of_nat n in
  if ((0 <=? i) && (i <? z))%Z then Some (Z.to_nat i)
  else if ((- z <=? i) && (i <? 0))%Z then Some (Z.to_nat (z + i)) else None.
(* slice(start, stop, step).indices(n) unrolled (CPython PySlice_AdjustIndices); step <> 0 *)
Definition py_slice (n : nat) (start stop : option Z) (step : Z) : list nat :=
  let z := Z.of_nat n in
  if (step =? 0)%Z then []
  else if (0 <? step)%Z then
    let norm v := if (v <? 0)%Z then Z.max 0 (v + z) else Z.min v z in
    let a := match start with None => 0%Z | Some v => norm v end in
    let b := match stop with None => z | Some v => norm v end in
    map (fun k => Z.to_nat (a + Z.of_nat k * step)) (seq 0 (Z.to_nat ((b - a + step - 1) / step)))
  else
    let norm v := if (v <? 0)%Z then Z.max (-1) (v + z) else Z.min v (z - 1) in
    let a := match start with None => (z - 1)%Z | Some v => norm v end in
    let b := match stop with None => (-1)%Z | Some v => norm v end in
    map (fun k => Z.to_nat (a + Z.of_nat k * step)) (seq 0 (Z.to_nat ((a - b - step - 1) / (- step)))).
Definition py_list (n : nat) (l : list Z) : option (list nat) := opt_all (map (py_wrap n) l).
(* flattened trailing components selected by positions ks of the last axis *)
Definition sel_comps (lead n : nat) (ks : list nat) : list nat :=
  flat_map (fun r => map (fun k => (r * n + k)%nat) ks) (seq 0 lead).
Definition b_select (f : bsp) (cs : list nat) : bsp :=
  mk_bsp (kvs f) (fun idx c => co f idx (nth c cs 0%nat)) (length cs).
Definition b_getitem (f : bsp) (I : nat) : bsp := b_select f [I].
Definition b_as_nurbs (f : bsp) : bsp := mk_nurbs (kvs f) (co f) (fun _ => 1) (nc f).
(* copy (bspline.py:1054-1058; geometry.py:225-231 with premultiplied=True: no second premultiplication) *)
Definition b_copy (f : bsp) : bsp := mk_bsp (kvs f) (fun idx c => co f idx c) (nc f).
(* line_segment(z0, z1, support=(s0, s1)) with one interval (geometry.py:595-615) and
   cylinderize = tensor_product(line_segment(z0, z1, support), self) (bspline.py:1097-1106) *)
Definition line_kv (s0 s1 : Qc) : KV := ([s0; s0; s1; s1], 1%nat).
Definition b_line (z0 z1 s0 s1 : Qc) : bsp :=
  mk_bsp [line_kv s0 s1] (fun idx _ => if Nat.eqb (nth 0 idx 0%nat) 0 then z0 else z1) 1.

(* NurbsFunc.translate/scale/apply_matrix/__getitem__ (geometry.py:238-286) *)
Definition n_translate (f : bsp) (off : nat -> Qc) : bsp :=
  mk_nurbs (kvs f) (fun idx c => n_C f idx c + off c) (n_W f) (wcomp f).
Definition n_scale (f : bsp) (fac : nat -> Qc) : bsp :=
  mk_nurbs (kvs f) (fun idx c => n_C f idx c * fac c) (n_W f) (wcomp f).
Definition n_matrix (f : bsp) (A : nat -> nat -> Qc) (rows : nat) : bsp :=
  mk_nurbs (kvs f) (fun idx c => rdot 0 (map (A c) (seq 0 (wcomp f))) (n_C f idx)) (n_W f) rows.
(* C = self.coeffs[..., :-1]; NurbsFunc(kvs, C[..., I], self.coeffs[..., -1], premultiplied=True):
   the selected numerator components followed by the weight *)
Definition n_select (f : bsp) (cs : list nat) : bsp :=
  mk_bsp (kvs f) (fun idx c => if (c <? length cs)%nat then co f idx (nth c cs 0%nat) else co f idx (wcomp f))
         (S (length cs)).
Definition n_getitem (f : bsp) (I : nat) : bsp := n_select f [I].

(* outer_sum / outer_product / tensor_product of two BSplineFuncs (geometry.py:672-809);
   _prepare_for_outer reshapes C1 to SD1 x 1.. x VD1 and C2 to 1.. x SD2 x VD2 *)
Definition split1 (f1 : bsp) (idx : list nat) := firstn (sdim f1) idx.
Definition split2 (f1 : bsp) (idx : list nat) := skipn (sdim f1) idx.
Definition b_outer_sum (f1 f2 : bsp) : bsp :=
  mk_bsp (kvs f1 ++ kvs f2) (fun idx c => co f1 (split1 f1 idx) c + co f2 (split2 f1 idx) c) (nc f1).
Definition b_outer_product (f1 f2 : bsp) : bsp :=
  mk_bsp (kvs f1 ++ kvs f2) (fun idx c => co f1 (split1 f1 idx) c * co f2 (split2 f1 idx) c) (nc f1).
(* C = concatenate((C2, C1), axis=-1) *)
Definition b_tensor_product (f1 f2 : bsp) : bsp :=
  mk_bsp (kvs f1 ++ kvs f2)
         (fun idx c => if (c <? nc f2)%nat then co f2 (split2 f1 idx) c else co f1 (split1 f1 idx) (c - nc f2))
         (nc f2 + nc f1).
(* the NURBS branches: coefficients C1 + C2 (resp. product), weights W1 W2 multiplied *)
Definition n_outer_sum (f1 f2 : bsp) : bsp :=
  mk_nurbs (kvs f1 ++ kvs f2) (fun idx c => n_C f1 (split1 f1 idx) c + n_C f2 (split2 f1 idx) c)
           (fun idx => n_W f1 (split1 f1 idx) * n_W f2 (split2 f1 idx)) (wcomp f1).
Definition n_outer_product (f1 f2 : bsp) : bsp :=
  mk_nurbs (kvs f1 ++ kvs f2) (fun idx c => n_C f1 (split1 f1 idx) c * n_C f2 (split2 f1 idx) c)
           (fun idx => n_W f1 (split1 f1 idx) * n_W f2 (split2 f1 idx)) (wcomp f1).
Definition n_tensor_product (f1 f2 : bsp) : bsp :=
  mk_nurbs (kvs f1 ++ kvs f2)
           (fun idx c => if (c <? wcomp f2)%nat then n_C f2 (split2 f1 idx) c else n_C f1 (split1 f1 idx) (c - wcomp f2))
           (fun idx => n_W f1 (split1 f1 idx) * n_W f2 (split2 f1 idx)) (wcomp f2 + wcomp f1).

Definition b_cylinderize (f : bsp) (z0 z1 s0 s1 : Qc) : bsp := b_tensor_product (b_line z0 z1 s0 s1) f.
(* the documented defaults: cylinderize(self, z0=0.0, z1=1.0, support=(0.0, 1.0)) *)
Definition b_cylinderize_default_support (f : bsp) (z0 z1 : Qc) : bsp := b_cylinderize f z0 z1 0 1.
Definition b_cylinderize_defaults (f : bsp) : bsp := b_cylinderize f 0 1 0 1.

(* ------------------------------------------------------------------ *)
(* arrays from flat data (C order), used by the correspondence run     *)

Fixpoint ravel (shape idx : list nat) (acc : nat) : nat :=
  match shape, idx with
  | n :: s', i :: i' => ravel s' i' (acc * n + i)
  | _, _ => acc
  end.
(* coefficient function of an array of shape N ++ [m] stored flat *)
Definition arr (N : list nat) (m : nat) (flat : list Qc) : list nat -> nat -> Qc :=
  fun idx c => nth (ravel (N ++ [m]) (idx ++ [c]) 0) flat 0.
Definition arr0 (N : list nat) (flat : list Qc) : list nat -> Qc :=
  fun idx => nth (ravel N idx 0) flat 0.

(* all multi-indices of a shape in C order *)
Fixpoint all_idx (shape : list nat) : list (list nat) :=
  match shape with
  | [] => [[]]
  | n :: s' => flat_map (fun i => map (cons i) (all_idx s')) (seq 0 n)
  end.
Definition flatten (f : bsp) : list Qc :=
  flat_map (fun idx => map (co f idx) (seq 0 (nc f))) (all_idx (map kv_n (kvs f))).
