(* C11 -- executable instance of the exact sub-solvers (operators.make_solver) used only
   to RUN the multigrid model in the correspondence files: Gaussian elimination over Qc,
   and the set-up part of local_mg_step (solvers.py:177-188).  Definitions only. *)
From Coq Require Import QArith Qcanon List Arith Bool ZArith.
From Verif.C11 Require Import Model.
Import ListNotations.
Open Scope Qc_scope.

(* first row with nonzero leading entry, and the other rows *)
Fixpoint pick (rows : list (list Qc)) : option (list Qc * list (list Qc)) :=
  match rows with
  | [] => None
  | r :: rs =>
      if Qc_eq_dec (hd 0 r) 0
      then match pick rs with Some (p, rest) => Some (p, r :: rest) | None => None end
      else Some (r, rs)
  end.

(* rows are augmented [a_1 .. a_n | rhs]; n unknowns *)
Fixpoint gsolve (n : nat) (rows : list (list Qc)) : list Qc :=
  match n with
  | O => []
  | S k =>
      match pick rows with
      | None => repeat 0 n
      | Some (p, rest) =>
          let a := hd 0 p in
          let pt := tl p in
          let rest' := map (fun r => let c := hd 0 r / a in
                                     map (fun uv => fst uv - c * snd uv) (combine (tl r) pt)) rest in
          let y := gsolve k rest' in
          ((last pt 0 - ldot (removelast pt) y) / a) :: y
      end
  end.

Definition dsolve (B : dense) (r : vec) : vec :=
  gsolve (length r) (map (fun rv => fst rv ++ [snd rv]) (combine B r)).

(* As = [A]; for P in reversed(Ps): As.append(P.T A P)  and  Bs (solvers.py:177-188) *)
Fixpoint build (A : dense) (ps : list dense) (inds : list (list nat)) : list level * dense :=
  match ps, inds with
  | P :: ps', Ix :: inds' =>
      let '(ls, A0) := build (galerkin P A) ps' inds' in
      (mk_level P A Ix (dsolve (submat A Ix)) :: ls, A0)
  | _, _ => ([], A)
  end.

Definition local_mg_step (A : dense) (f : vec) (Ps : list dense) (inds : list (list nat))
                         (sm : smoother) (steps : nat) (x : vec) : vec :=
  let '(levels, A0) := build A (rev Ps) (rev (tl inds)) in
  let I0 := hd [] inds in
  mg_step sm steps I0 (dsolve (submat A0 I0)) levels x f.
