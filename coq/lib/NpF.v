(* Binary64 (PrimFloat) reading of np.arange and np.linspace as numpy 2.x computes
   them, and of the open-knot-vector layout built from them.  Bit-exact against
   numpy on every run of the C19 correspondence (harness/props/c19.py).

   np.arange(a, b, s)   [numpy/_core/src/multiarray/ctors.c: PyArray_ArangeObj/_calc_length,
                          arraytypes.c.src: DOUBLE_fill]
       len = ceil((b - a) / s)          evaluated in binary64
       buffer[0] = a ; buffer[1] = a + s ; delta = buffer[1] - buffer[0]
       buffer[i] = a + i*delta          for i >= 2
   np.linspace(a, b, num)  [numpy/_core/function_base.py]
       div = num - 1 ; delta = b - a ; step = delta / div
       y[i] = i*step + a   (when step == 0:  (i/div)*delta + a)
       y[-1] = b           (when num > 1)                                   *)
From Coq Require Import PrimFloat Uint63 ZArith QArith List Arith Bool Lia.
From Verif.lib Require Import NpCore.
Import ListNotations.
Open Scope float_scope.

Definition nat_f (n : nat) : float := PrimFloat.of_uint63 (Uint63.of_Z (Z.of_nat n)).

(* ceil(x) for |x| < 2^51: (x + 2^52) - 2^52 is x rounded to the nearest integer *)
Definition two52 : float := 0x1p52.
Definition ceil_f (x : float) : float :=
  let r := (x + two52) - two52 in if r <? x then r + 1 else r.

Fixpoint arange_fill (fuel : nat) (i len start delta : float) : list float :=
  match fuel with
  | O => []
  | S f => if i <? len then (start + i * delta) :: arange_fill f (i + 1) len start delta else []
  end.

(* fuel bounds the number of elements (the callers pass n + 3 for a step (b-a)/n) *)
Definition arange_f (fuel : nat) (a b s : float) : list float :=
  let len := ceil_f ((b - a) / s) in
  let delta := (a + s) - a in
  if len <=? 0 then []
  else a :: (if len <=? 1 then [] else (a + s) :: arange_fill fuel 2 len a delta).

Fixpoint lin_fill (k : nat) (fi div delta step a : float) : list float :=
  match k with
  | O => []
  | S k' => ((if step =? 0 then (fi / div) * delta else fi * step) + a)
            :: lin_fill k' (fi + 1) div delta step a
  end.

Definition linspace_f (a b : float) (num : nat) : list float :=
  match num with
  | O => []
  | S O => [0 * (b - a) + a]
  | S m => let div := nat_f m in
           let delta := b - a in
           lin_fill m 0 div delta (delta / div) a ++ [b]
  end.

(* ---- the knot vector built from the break points ---- *)

(* pyiga/bspline.py make_knots, repaired form (fixes/C19-make-knots-linspace.patch):
     np.concatenate((np.repeat(a, p+1), np.repeat(np.linspace(a, b, n+1)[1:-1], mult), np.repeat(b, p+1))) *)
Definition make_knots_f (p : nat) (a b : float) (n mult : nat) : list float :=
  layout a b (sl_1_m1 (linspace_f a b (n + 1))) (p + 1) mult.

(* the formula of the unrepaired source (bspline.py:209-212 at /repo 3a28d2c..efa2f39):
     np.repeat(np.arange(a, b, (b-a) / n)[1:], mult)                                     *)
Definition make_knots_old_f (p : nat) (a b : float) (n mult : nat) : list float :=
  layout a b (sl_from1 (arange_f (n + 3) a b ((b - a) / nat_f n))) (p + 1) mult.

(* KnotVector.mesh = np.unique(kv): on a non-decreasing array (which the constructor
   asserts, bspline.py:66) the sort is the identity and only the de-duplication acts *)
Definition mesh_f (kv : list float) : list float := dedup_adj PrimFloat.eqb kv.
Definition sorted_f (kv : list float) : bool := adjb PrimFloat.leb kv.
Definition strict_f (l : list float) : bool := adjb PrimFloat.ltb l.

(* the break points of the repaired constructor *)
Definition bp_f (a b : float) (n : nat) : list float := a :: sl_1_m1 (linspace_f a b (n + 1)) ++ [b].

(* everything about the break points that is decided by computation *)
Definition bp_ok (a b : float) (n : nat) : bool :=
  let L := bp_f a b n in
  (length L =? n + 1)%nat
  && strict_f L
  && adjb PrimFloat.leb L
  && adjb (fun x y => negb (PrimFloat.eqb x y)) L
  && forallb (fun x => PrimFloat.eqb x x && PrimFloat.leb x x) L.

Definition grid_check (nmax : nat) (g : list (float * float)) : bool :=
  forallb (fun ab => forallb (fun n => bp_ok (fst ab) (snd ab) n) (seq 1 nmax)) g.

(* the double nearest to a rational with |numerator|, denominator < 2^53: both are exact doubles
   and IEEE division is correctly rounded -- this is the value of the decimal / rational literal *)
Definition f_of_z (z : Z) : float :=
  match z with
  | Z0 => 0
  | Zpos _ => PrimFloat.of_uint63 (Uint63.of_Z z)
  | Zneg q => - PrimFloat.of_uint63 (Uint63.of_Z (Zpos q))
  end.
Definition f_of_q (q : Q) : float := f_of_z (Qnum q) / f_of_z (Zpos (Qden q)).
Definition f_of_qq (ab : Q * Q) : float * float := (f_of_q (fst ab), f_of_q (snd ab)).
(* all (x, y) with x before y in the list *)
Fixpoint pairs_of (l : list Q) : list (Q * Q) :=
  match l with
  | [] => []
  | x :: t => map (fun y => (x, y)) t ++ pairs_of t
  end.

Definition bp_old_f (a b : float) (n : nat) : list float :=
  a :: sl_from1 (arange_f (n + 3) a b ((b - a) / nat_f n)) ++ [b].

(* ---- lifting over p and mult ---- *)

Lemma make_knots_f_expand p a b n mult :
  make_knots_f p a b n mult =
  expand (combine (bp_f a b n) (p + 1 :: repeat mult (length (sl_1_m1 (linspace_f a b (n + 1)))) ++ [p + 1])%nat).
Proof.
  unfold make_knots_f, bp_f. rewrite layout_expand. f_equal.
  cbn [combine]. f_equal.
  induction (sl_1_m1 (linspace_f a b (n + 1))) as [|x t IH]; [reflexivity|].
  cbn [map app length repeat combine]. f_equal. exact IH.
Qed.

Lemma combine_fst {X Y} (l : list X) (r : list Y) : length l = length r -> map fst (combine l r) = l.
Proof.
  revert r. induction l as [|x t IH]; intros [|y r] H; cbn in *; try reflexivity; try discriminate.
  f_equal. apply IH. lia.
Qed.

Lemma forallb_combine {X} (P : X -> bool) (Q : nat -> bool) (l : list X) (r : list nat) :
  forallb P l = true -> forallb Q r = true ->
  forallb (fun xk => P (fst xk) && Q (snd xk)) (combine l r) = true.
Proof.
  revert r. induction l as [|x t IH]; intros [|y r] Hl Hr; cbn in *; try reflexivity.
  apply andb_true_iff in Hl. apply andb_true_iff in Hr. destruct Hl as [-> Hl], Hr as [-> Hr].
  cbn. apply IH; assumption.
Qed.

Lemma counts_pos p mult k : (1 <= mult)%nat ->
  forallb (fun j => 0 <? j)%nat (p + 1 :: repeat mult k ++ [p + 1])%nat = true.
Proof.
  intros Hm. cbn [forallb]. apply andb_true_iff. split; [apply Nat.ltb_lt; lia|].
  rewrite forallb_app. apply andb_true_iff. split.
  - apply forallb_repeat. apply Nat.ltb_lt. lia.
  - cbn [forallb]. rewrite andb_true_r. apply Nat.ltb_lt. lia.
Qed.

Lemma forallb_and {X} (P Q : X -> bool) l :
  forallb (fun x => P x && Q x) l = true -> forallb P l = true /\ forallb Q l = true.
Proof.
  induction l as [|x t IH]; cbn; [tauto|]. intros H.
  apply andb_true_iff in H. destruct H as [H1 H2]. apply andb_true_iff in H1.
  destruct (IH H2) as [A B]. destruct H1 as [-> ->]. rewrite A, B. tauto.
Qed.

(* for every degree and every interior multiplicity: if the break points pass the
   computed check, the knot vector is non-decreasing, its mesh is the list of break
   points (so numspans = n), and it has 2(p+1) + mult (n-1) entries *)
Lemma make_knots_f_lift p a b n mult : (1 <= n)%nat -> (1 <= mult)%nat -> bp_ok a b n = true ->
  let kv := make_knots_f p a b n mult in
  sorted_f kv = true /\ mesh_f kv = bp_f a b n /\ length (mesh_f kv) = (n + 1)%nat /\
  strict_f (mesh_f kv) = true /\
  length kv = (2 * (p + 1) + mult * (n - 1))%nat /\ last kv a = b /\ nth 0 kv b = a.
Proof.
  intros Hn Hm Hok. unfold bp_ok in Hok.
  repeat (apply andb_true_iff in Hok; let H := fresh "H" in destruct Hok as [Hok H]).
  apply Nat.eqb_eq in Hok.
  destruct (forallb_and _ _ _ H) as [Heq Hle].
  set (inner := sl_1_m1 (linspace_f a b (n + 1))) in *.
  assert (Hlen : length (bp_f a b n) = length (p + 1 :: repeat mult (length inner) ++ [p + 1])%nat).
  { unfold bp_f. fold inner. cbn [length]. rewrite !app_length, repeat_length. reflexivity. }
  assert (Hinner : length inner = (n - 1)%nat).
  { unfold bp_f in Hok. fold inner in Hok. cbn [length] in Hok. rewrite app_length in Hok. cbn in Hok. lia. }
  cbv zeta. rewrite make_knots_f_expand. fold inner.
  assert (Hmesh : mesh_f (expand (combine (bp_f a b n) (p + 1 :: repeat mult (length inner) ++ [p + 1])%nat)) = bp_f a b n).
  { unfold mesh_f. rewrite dedup_expand.
    - apply combine_fst. exact Hlen.
    - apply (forallb_combine (fun x => PrimFloat.eqb x x) (fun j => (0 <? j)%nat)); [exact Heq|].
      apply counts_pos. exact Hm.
    - rewrite combine_fst by exact Hlen. exact H0. }
  split; [|split; [exact Hmesh|split; [rewrite Hmesh; exact Hok|split; [rewrite Hmesh; exact H2|]]]].
  - unfold sorted_f. apply adjb_expand.
    + apply (forallb_combine (fun x => PrimFloat.leb x x) (fun j => (0 <? j)%nat)); [exact Hle|].
      apply counts_pos. exact Hm.
    + rewrite combine_fst by exact Hlen. exact H1.
  - rewrite <- make_knots_f_expand. unfold make_knots_f. fold inner.
    split; [rewrite layout_length; lia|].
    unfold layout, np_concat3. split.
    + rewrite app_assoc. rewrite last_app_nonnil by (replace (p + 1)%nat with (S p) by lia; discriminate).
      replace (p + 1)%nat with (S p) by lia. apply last_repeat.
    + replace (p + 1)%nat with (S p) by lia. reflexivity.
Qed.
