(* C06 -- non-vacuity for Props2.v (Qc instance, by computation). *)
From Coq Require Import List String Bool Arith ZArith QArith Qcanon Lia.
From Verif.C06 Require Import Model Sched Phys Forest InputField Measure.
Import ListNotations. Import QcInst.
Close Scope Qc_scope. Close Scope Q_scope. Open Scope nat_scope. Open Scope string_scope.

Definition q (n : Z) (d : positive) : Qc := Q2Qc (Qmake n d).
Definition C (n : Z) (d : positive) : qexpr := Const (q n d).

(* a forest with a shared variable: _tmp1 := 1*(f + 0), W := _tmp1 * _tmp1; the folding pass rewrites the
   definition of _tmp1 once and both uses see the same value *)
Definition ex2_defs : list (string * qtexpr) :=
  [("_tmp1", TS (Op OMul (C 1 1) (Op OAdd (VR "f_a" [] [0;0] true) (C 0 1))));
   ("W", TLV [Op OMul (VR "_tmp1" [] [0;0] false) (VR "_tmp1" [] [0;0] false); C 2 1])].
Example ex2_transform_forest :
  transform_forest Qc qfold1 ex2_defs =
  Some [("_tmp1", TS (VR "f_a" [] [0;0] true));
        ("W", TLV [Op OMul (VR "_tmp1" [] [0;0] false) (VR "_tmp1" [] [0;0] false); C 2 1])].
Proof. vm_compute. reflexivity. Qed.
Example ex2_wf : wf_sched Qc ["f_a"] ex2_defs = true.
Proof. vm_compute. reflexivity. Qed.

(* helper definitions with fresh names in front of a forest that does not mention them *)
Definition ex2_extra : list (string * qtexpr) := [("_geo_hess_trf_0_0_0", TS (Neg (VR "JacInv" [0;0] [0;0] true)))].
Example ex2_mentions_none : mentions_none Qc (map fst ex2_extra) ex2_defs.
Proof.
  intros name t es e v Hin Hes He Hv Hx. simpl in Hx. destruct Hx as [Hx|[]]. subst v.
  simpl in Hin. destruct Hin as [E|[E|[]]]; inversion E; subst; vm_compute in Hes; inversion Hes; subst;
    simpl in He; repeat (destruct He as [He|He]; [subst e; simpl in Hv; repeat (destruct Hv as [Hv|Hv]; [discriminate Hv|]); try contradiction|]);
    try contradiction.
Qed.

(* replace_physical_derivs on a parametric input field, order 1 in dim 2: the bf formula with field leaves *)
Example ex2_rpd_vr :
  rpd_vr Qc (q 0 1) 2 "f_a" [] [0; 1] false false =
  RNew (Op OAdd (Op OMul (VR "JacInv" [0; 1] [0; 0] false) (VR "f_a" [] [1; 0] true))
                (Op OMul (VR "JacInv" [1; 1] [0; 0] false) (VR "f_a" [] [0; 1] true))) [].
Proof. vm_compute. reflexivity. Qed.
Example ex2_rpd_vr_rejects : rpd_vr Qc (q 0 1) 2 "pf_a" [] [0; 1] true true = RFail.
Proof. vm_compute. reflexivity. Qed.

(* insert_input_field_derivs: the mixed second derivative of component 1 of g in dim 3 is slot 1 of the
   symmetric storage *)
Example ex2_iifd :
  iifd Qc 3 "g" [1] [1; 1; 0] = RNew (VR "g_hess_a" [1; 1] [0; 0; 0] false) [].
Proof. vm_compute. reflexivity. Qed.

(* an environment in which the arrays hold the jets exists (all entries equal) *)
Example ex2_arrays : arrays_hold_jets Qc 2 "f" [] true
  (mkEnv (fun _ _ _ _ => q 1 1) (fun _ _ _ _ => q 3 1) (fun _ => q 1 1) (q 1 1) (q 1 1) (fun _ x => x)).
Proof. split; intros; reflexivity. Qed.

(* measure and normal of concrete Jacobian columns *)
Example ex2_gaussweight : e_gaussweight Qc 2 = Some (Op OMul (GW 0) (GW 1)).
Proof. vm_compute. reflexivity. Qed.
Example ex2_normal_32 :
  map (fun e => qeqb (qeval (qenv_of [] [] [] (q 0 1) (q 0 1) qfn) e) (q 0 1))
      (e_unscaled_normal_32 Qc (C 1 1) (C 0 1) (C 0 1) (C 0 1) (C 1 1) (C 0 1)) = [true; true; false].
Proof. vm_compute. reflexivity. Qed.
