(* C09 -- proofs.  Part A: identities of Gram matrices of ANY quadrature rule (finite
   weighted point sums), part B: the index arithmetic of the 1D assemblers, part C:
   closed-form determinants / inverses. *)
From Coq Require Import QArith Qcanon Qcabs ZArith List Bool Arith Lia.
From Verif.lib Require Import Bsp.
From Verif.C02 Require Import Proofs.
From Verif.C09 Require Import Model.
Import ListNotations.
Open Scope Qc_scope.

(* ------------------------------------------------------------------ *)
(* finite sums *)

Lemma sumf_nil {A} (f : A -> Qc) : sumf f [] = 0.
Proof. reflexivity. Qed.

Lemma sumf_cons {A} (f : A -> Qc) a l : sumf f (a :: l) = f a + sumf f l.
Proof. reflexivity. Qed.

Lemma sumf_app {A} (f : A -> Qc) l1 l2 : sumf f (l1 ++ l2) = sumf f l1 + sumf f l2.
Proof. induction l1 as [|a l IH]; cbn [app]; rewrite ?sumf_nil, ?sumf_cons, ?IH; ring. Qed.

Lemma sumf_ext {A} (f g : A -> Qc) l : (forall a, In a l -> f a = g a) -> sumf f l = sumf g l.
Proof.
  induction l as [|a l IH]; intros H; [reflexivity|].
  rewrite !sumf_cons, (H a (or_introl eq_refl)), IH; [reflexivity|].
  intros b Hb. apply H. right. exact Hb.
Qed.

Lemma sumf_map {A B} (g : A -> B) (f : B -> Qc) l : sumf f (map g l) = sumf (fun a => f (g a)) l.
Proof. induction l as [|a l IH]; [reflexivity|]. cbn [map]. rewrite !sumf_cons, IH. reflexivity. Qed.

Lemma sumf_plus {A} (f g : A -> Qc) l : sumf (fun a => f a + g a) l = sumf f l + sumf g l.
Proof. induction l as [|a l IH]; rewrite ?sumf_nil, ?sumf_cons, ?IH; ring. Qed.

Lemma sumf_scal {A} c (f : A -> Qc) l : sumf (fun a => c * f a) l = c * sumf f l.
Proof. induction l as [|a l IH]; rewrite ?sumf_nil, ?sumf_cons, ?IH; ring. Qed.

Lemma sumf_scal_r {A} c (f : A -> Qc) l : sumf (fun a => f a * c) l = sumf f l * c.
Proof. induction l as [|a l IH]; rewrite ?sumf_nil, ?sumf_cons, ?IH; ring. Qed.

Lemma sumf_scal_both {A} c d (f : A -> Qc) l : c * sumf f l * d = sumf (fun a => c * f a * d) l.
Proof. induction l as [|a l IH]; rewrite ?sumf_nil, ?sumf_cons, <- ?IH; ring. Qed.

Lemma sumf_mul {A B} (f : A -> Qc) (g : B -> Qc) l1 l2 :
  sumf f l1 * sumf g l2 = sumf (fun a => sumf (fun b => f a * g b) l2) l1.
Proof.
  rewrite <- sumf_scal_r. apply sumf_ext. intros a _. rewrite <- sumf_scal. reflexivity.
Qed.

Lemma sumf_zero {A} (l : list A) : sumf (fun _ => 0) l = 0.
Proof. induction l as [|a l IH]; rewrite ?sumf_nil, ?sumf_cons, ?IH; ring. Qed.

Lemma sumf_swap {A B} (f : A -> B -> Qc) la lb :
  sumf (fun a => sumf (fun b => f a b) lb) la = sumf (fun b => sumf (fun a => f a b) la) lb.
Proof.
  induction la as [|a la IH].
  - cbn [sumf fold_right]. symmetry. apply sumf_zero.
  - rewrite sumf_cons, IH, <- sumf_plus. apply sumf_ext. intros b _. rewrite sumf_cons. reflexivity.
Qed.

Lemma sumf_concat {A} (f : A -> Qc) ls : sumf f (concat ls) = sumf (fun l => sumf f l) ls.
Proof. induction ls as [|l ls IH]; [reflexivity|]. cbn [concat]. rewrite sumf_app, sumf_cons, IH. reflexivity. Qed.

Lemma sumf_flat_map {A B} (g : A -> list B) (f : B -> Qc) l :
  sumf f (flat_map g l) = sumf (fun a => sumf f (g a)) l.
Proof. rewrite flat_map_concat_map, sumf_concat, sumf_map. reflexivity. Qed.

Lemma Qcmult_nonneg (a b : Qc) : 0 <= a -> 0 <= b -> 0 <= a * b.
Proof. intros Ha Hb. replace 0 with (0 * b) by ring. apply Qcmult_le_compat_r; assumption. Qed.

Lemma Qc_sq_nonneg (x : Qc) : 0 <= x * x.
Proof.
  destruct (Qclt_le_dec x 0) as [H|H].
  - replace (x * x) with ((- x) * (- x)) by ring.
    assert (0 <= - x). { replace 0 with (- 0) by ring. apply Qcopp_le_compat. apply Qclt_le_weak. exact H. }
    apply Qcmult_nonneg; assumption.
  - apply Qcmult_nonneg; assumption.
Qed.

Lemma sumf_nonneg {A} (f : A -> Qc) l : (forall a, In a l -> 0 <= f a) -> 0 <= sumf f l.
Proof.
  induction l as [|a l IH]; intros H.
  - apply Qcle_refl.
  - rewrite sumf_cons. replace 0 with (0 + 0) by ring. apply Qcplus_le_compat.
    + apply H. left. reflexivity.
    + apply IH. intros b Hb. apply H. right. exact Hb.
Qed.

(* ------------------------------------------------------------------ *)
(* Part A.  Gram matrices of a weighted point set.
   pts : the quadrature points (any type: 1D nodes, tensor nodes, ...);
   w   : the weight of a point (quadrature weight x weight function x |det J|);
   U,V : basis function number i evaluated at a point (or a derivative of it). *)

Section Gram.
  Context {P : Type}.
  Variable pts : list P.
  Variable w : P -> Qc.

  Definition gram (U V : P -> nat -> Qc) (i j : nat) : Qc :=
    sumf (fun x => w x * (U x i * V x j)) pts.

  Lemma gram_sym_l U i j : gram U U i j = gram U U j i.
  Proof. unfold gram. apply sumf_ext. intros. ring. Qed.

  (* sum over a list of dof numbers *)
  Definition bsum (I : list nat) (c : nat -> Qc) : Qc := sumf c I.

  (* x^T G y = sum_pts w (sum_i x_i U_i)(sum_j y_j V_j) *)
  Lemma gram_bilinear_l U V (I J : list nat) (c d : nat -> Qc) :
    bsum I (fun i => bsum J (fun j => c i * gram U V i j * d j)) =
    sumf (fun x => w x * (bsum I (fun i => c i * U x i) * bsum J (fun j => d j * V x j))) pts.
  Proof.
    unfold bsum, gram.
    transitivity (sumf (fun i => sumf (fun x => sumf (fun j => c i * (w x * (U x i * V x j)) * d j) J) pts) I).
    { apply sumf_ext. intros i _. rewrite sumf_swap. apply sumf_ext. intros j _.
      apply sumf_scal_both. }
    rewrite sumf_swap. apply sumf_ext. intros x _.
    rewrite sumf_mul, <- sumf_scal. apply sumf_ext. intros i _.
    rewrite <- sumf_scal. apply sumf_ext. intros j _. ring.
  Qed.

  (* mass_sym_psd: the quadratic form is a weighted sum of squares *)
  Lemma gram_quadratic_l U (I : list nat) (c : nat -> Qc) :
    bsum I (fun i => bsum I (fun j => c i * gram U U i j * c j)) =
    sumf (fun x => w x * (bsum I (fun i => c i * U x i) * bsum I (fun i => c i * U x i))) pts.
  Proof. apply gram_bilinear_l. Qed.

  Lemma gram_psd_l U (I : list nat) (c : nat -> Qc) :
    (forall x, In x pts -> 0 <= w x) ->
    0 <= bsum I (fun i => bsum I (fun j => c i * gram U U i j * c j)).
  Proof.
    intros Hw. rewrite gram_quadratic_l. apply sumf_nonneg. intros x Hx.
    apply Qcmult_nonneg; [apply Hw; exact Hx|apply Qc_sq_nonneg].
  Qed.

  (* mass_sum: partition of unity at the quadrature points => the entries sum to the sum of weights *)
  Lemma gram_sum_l U V (I J : list nat) :
    (forall x, In x pts -> bsum I (U x) = 1) -> (forall x, In x pts -> bsum J (V x) = 1) ->
    bsum I (fun i => bsum J (fun j => gram U V i j)) = sumf w pts.
  Proof.
    intros HU HV.
    transitivity (bsum I (fun i => bsum J (fun j => 1 * gram U V i j * 1))).
    { unfold bsum. apply sumf_ext. intros i _. apply sumf_ext. intros j _. ring. }
    rewrite gram_bilinear_l. apply sumf_ext. intros x Hx.
    transitivity (w x * (bsum I (U x) * bsum J (V x))).
    { unfold bsum. f_equal. f_equal; apply sumf_ext; intros; ring. }
    rewrite HU, HV by exact Hx. ring.
  Qed.

  (* stiff_kernel_const: if the (derivatives of the) trial functions sum to zero at every
     quadrature point, every row of the matrix sums to zero: K * 1 = 0 *)
  Lemma gram_kernel_l U V (J : list nat) i :
    (forall x, In x pts -> bsum J (V x) = 0) -> bsum J (fun j => gram U V i j) = 0.
  Proof.
    intros HV. unfold bsum, gram. rewrite sumf_swap.
    transitivity (sumf (fun _ : P => 0) pts); [|apply sumf_zero].
    apply sumf_ext. intros x Hx.
    transitivity (w x * U x i * sumf (V x) J).
    { rewrite <- sumf_scal. apply sumf_ext. intros. ring. }
    specialize (HV x Hx). unfold bsum in HV. rewrite HV. ring.
  Qed.
End Gram.

(* kron_factorisation: the Gram entry of a tensor-product rule with tensor-product basis
   functions is the product of the 1D Gram entries (generic path with a tensor rule ==
   Kronecker path with the same 1D rules). *)
Lemma tensor2_l {A B} (P1 : list A) (P2 : list B) (w1 u1 v1 : A -> Qc) (w2 u2 v2 : B -> Qc) :
  sumf (fun a => sumf (fun b => (w1 a * w2 b) * ((u1 a * u2 b) * (v1 a * v2 b))) P2) P1
  = sumf (fun a => w1 a * (u1 a * v1 a)) P1 * sumf (fun b => w2 b * (u2 b * v2 b)) P2.
Proof.
  rewrite <- sumf_scal_r. apply sumf_ext. intros a _.
  rewrite <- sumf_scal. apply sumf_ext. intros b _. ring.
Qed.

Lemma tensor3_l {A B C} (P1 : list A) (P2 : list B) (P3 : list C)
  (w1 u1 v1 : A -> Qc) (w2 u2 v2 : B -> Qc) (w3 u3 v3 : C -> Qc) :
  sumf (fun a => sumf (fun b => sumf (fun c =>
     (w1 a * w2 b * w3 c) * ((u1 a * u2 b * u3 c) * (v1 a * v2 b * v3 c))) P3) P2) P1
  = sumf (fun a => w1 a * (u1 a * v1 a)) P1 * sumf (fun b => w2 b * (u2 b * v2 b)) P2
    * sumf (fun c => w3 c * (u3 c * v3 c)) P3.
Proof.
  transitivity (sumf (fun a => (w1 a * (u1 a * v1 a)) *
       (sumf (fun b => w2 b * (u2 b * v2 b)) P2 * sumf (fun c => w3 c * (u3 c * v3 c)) P3)) P1).
  - apply sumf_ext. intros a _. rewrite <- tensor2_l. rewrite <- sumf_scal. apply sumf_ext. intros b _.
    rewrite <- sumf_scal. apply sumf_ext. intros c _. ring.
  - rewrite sumf_scal_r. ring.
Qed.

(* the 2D Laplace integrand grad u . grad v with tensor-product functions:
   K1 (x) M2 + M1 (x) K2 *)
Lemma tensor2_stiffness_l {A B} (P1 : list A) (P2 : list B)
  (w1 u1 v1 du1 dv1 : A -> Qc) (w2 u2 v2 du2 dv2 : B -> Qc) :
  sumf (fun a => sumf (fun b =>
     (w1 a * w2 b) * ((du1 a * u2 b) * (dv1 a * v2 b) + (u1 a * du2 b) * (v1 a * dv2 b))) P2) P1
  = sumf (fun a => w1 a * (du1 a * dv1 a)) P1 * sumf (fun b => w2 b * (u2 b * v2 b)) P2
  + sumf (fun a => w1 a * (u1 a * v1 a)) P1 * sumf (fun b => w2 b * (du2 b * dv2 b)) P2.
Proof.
  rewrite <- !tensor2_l, <- sumf_plus. apply sumf_ext. intros a _.
  rewrite <- sumf_plus. apply sumf_ext. intros b _. ring.
Qed.

Lemma tensor3_stiffness_l {A B C} (P1 : list A) (P2 : list B) (P3 : list C)
  (w1 u1 v1 du1 dv1 : A -> Qc) (w2 u2 v2 du2 dv2 : B -> Qc) (w3 u3 v3 du3 dv3 : C -> Qc) :
  let G1 f g := sumf (fun a => w1 a * (f a * g a)) P1 in
  let G2 f g := sumf (fun b => w2 b * (f b * g b)) P2 in
  let G3 f g := sumf (fun c => w3 c * (f c * g c)) P3 in
  sumf (fun a => sumf (fun b => sumf (fun c =>
     (w1 a * w2 b * w3 c) *
       ((du1 a * u2 b * u3 c) * (dv1 a * v2 b * v3 c)
        + (u1 a * du2 b * u3 c) * (v1 a * dv2 b * v3 c)
        + (u1 a * u2 b * du3 c) * (v1 a * v2 b * dv3 c))) P3) P2) P1
  = G1 du1 dv1 * (G2 u2 v2 * G3 u3 v3)
    + G1 u1 v1 * (G2 du2 dv2 * G3 u3 v3 + G2 u2 v2 * G3 du3 dv3).
Proof.
  intros G1 G2 G3. unfold G1, G2, G3.
  transitivity (
    sumf (fun a => w1 a * (du1 a * dv1 a)) P1 * sumf (fun b => w2 b * (u2 b * v2 b)) P2 * sumf (fun c => w3 c * (u3 c * v3 c)) P3
    + sumf (fun a => w1 a * (u1 a * v1 a)) P1 * sumf (fun b => w2 b * (du2 b * dv2 b)) P2 * sumf (fun c => w3 c * (u3 c * v3 c)) P3
    + sumf (fun a => w1 a * (u1 a * v1 a)) P1 * sumf (fun b => w2 b * (u2 b * v2 b)) P2 * sumf (fun c => w3 c * (du3 c * dv3 c)) P3);
  [|ring].
  rewrite <- !tensor3_l, <- !sumf_plus. apply sumf_ext. intros a _.
  rewrite <- !sumf_plus. apply sumf_ext. intros b _.
  rewrite <- !sumf_plus. apply sumf_ext. intros c _. ring.
Qed.

(* ------------------------------------------------------------------ *)
(* the iterated rule: weights sum to (sum of reference weights)/2 * (b - a), per cell and
   over a whole mesh (telescoping): = |domain| when the reference weights sum to 2 *)

Lemma gauss_cell_weights ref a b :
  sumf snd (gauss_cell ref a b) = half * (b - a) * sumf snd ref.
Proof.
  unfold gauss_cell. rewrite sumf_map. cbn [snd]. rewrite <- sumf_scal. reflexivity.
Qed.

Lemma half_two : half * Q2Qc (2 # 1) = 1.
Proof. apply Qc_is_canon. reflexivity. Qed.

Lemma cells_weights ref : sumf snd ref = Q2Qc (2 # 1) ->
  forall msh, sumf snd (iterated ref msh) = sumf (fun ab => snd ab - fst ab) (cells msh).
Proof.
  intros H2 msh. unfold iterated. rewrite sumf_concat, sumf_map. apply sumf_ext. intros [a b] _.
  rewrite gauss_cell_weights, H2. cbn [fst snd].
  transitivity ((half * Q2Qc (2 # 1)) * (b - a)); [ring|]. rewrite half_two. ring.
Qed.

Lemma cells_telescope : forall msh a, sumf (fun ab => snd ab - fst ab) (cells (a :: msh)) = last (a :: msh) a - a.
Proof.
  induction msh as [|b t IH]; intros a.
  - cbn. ring.
  - change (cells (a :: b :: t)) with ((a, b) :: cells (b :: t)). rewrite sumf_cons, IH. cbn [fst snd].
    replace (last (a :: b :: t) a) with (last (b :: t) b).
    + ring.
    + change (last (a :: b :: t) a) with (last (b :: t) a).
      clear. revert b. induction t as [|c t IH]; intros b; [reflexivity|].
      change (last (b :: c :: t) b) with (last (c :: t) b). change (last (b :: c :: t) a) with (last (c :: t) a).
      destruct t as [|d t']; [reflexivity|].
      change (last (c :: d :: t') b) with (last (d :: t') b). change (last (c :: d :: t') a) with (last (d :: t') a).
      specialize (IH d).
      change (last (c :: d :: t') c) with (last (d :: t') c) in IH.
      clear IH. revert d. induction t' as [|e t'' IH2]; intros d; [reflexivity|].
      change (last (d :: e :: t'') b) with (last (e :: t'') b). change (last (d :: e :: t'') a) with (last (e :: t'') a).
      apply IH2.
Qed.

Lemma iterated_weights_sum_l ref a msh : sumf snd ref = Q2Qc (2 # 1) ->
  sumf snd (iterated ref (a :: msh)) = last (a :: msh) a - a.
Proof. intros H. rewrite cells_weights by exact H. apply cells_telescope. Qed.

(* exactness on monomials (with a defect) extends to polynomials by linearity *)
Fixpoint peval (c : list Qc) (x : Qc) : Qc :=
  match c with [] => 0 | a :: c' => a + x * peval c' x end.
Fixpoint pint (k : nat) (c : list Qc) : Qc :=      (* sum_i c_i * int x^(k+i) *)
  match c with [] => 0 | a :: c' => a * moment_exact k + pint (S k) c' end.
Fixpoint l1norm (c : list Qc) : Qc := match c with [] => 0 | a :: c' => Qcabs a + l1norm c' end.

Lemma quad_poly_defect_l r eps : forall c k,
  (forall i, (k <= i < k + length c)%nat -> Qcabs (rule_moment r i - moment_exact i) <= eps) ->
  Qcabs (sumf (fun xw => snd xw * (qpow (fst xw) k * peval c (fst xw))) r - pint k c) <= eps * l1norm c.
Proof.
  induction c as [|a c IH]; intros k H.
  - cbn [peval pint l1norm].
    replace (sumf (fun xw : Qc * Qc => snd xw * (qpow (fst xw) k * 0)) r) with 0.
    + replace (0 - 0) with 0 by ring. replace (eps * 0) with 0 by ring.
      rewrite Qcabs_pos; apply Qcle_refl.
    + symmetry. transitivity (sumf (fun _ : Qc * Qc => 0) r); [apply sumf_ext; intros; ring|apply sumf_zero].
  - cbn [peval pint l1norm].
    replace (sumf (fun xw => snd xw * (qpow (fst xw) k * (a + fst xw * peval c (fst xw)))) r
             - (a * moment_exact k + pint (S k) c))
      with (a * (rule_moment r k - moment_exact k)
            + (sumf (fun xw => snd xw * (qpow (fst xw) (S k) * peval c (fst xw))) r - pint (S k) c)).
    2:{ unfold rule_moment.
        replace (sumf (fun xw => snd xw * (qpow (fst xw) k * (a + fst xw * peval c (fst xw)))) r)
          with (a * sumf (fun xw => snd xw * qpow (fst xw) k) r
                + sumf (fun xw => snd xw * (qpow (fst xw) (S k) * peval c (fst xw))) r); [ring|].
        rewrite <- sumf_scal, <- sumf_plus. apply sumf_ext. intros. cbn [qpow]. ring. }
    eapply Qcle_trans; [apply Qcabs_triangle|].
    replace (eps * (Qcabs a + l1norm c)) with (Qcabs a * eps + eps * l1norm c) by ring.
    apply Qcplus_le_compat.
    + rewrite Qcabs_Qcmult. rewrite (Qcmult_comm (Qcabs a)), (Qcmult_comm (Qcabs a)).
      apply Qcmult_le_compat_r; [|apply Qcabs_nonneg]. apply H. cbn [length]. lia.
    + apply IH. intros i Hi. apply H. cbn [length]. lia.
Qed.
