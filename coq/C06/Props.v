(* C06 -- property theorems only.  Each is closed by [exact] of a lemma of Proofs.v and
   followed by Print Assumptions.  All are stated for an arbitrary field (F with a
   field_theory), every environment (geometry jets, field values, parameters, basis
   function jets, uninterpreted builtin functions) and every expression tree. *)
From Coq Require Import List String Bool Arith Field.
From Verif.C06 Require Import Model Proofs.
Import ListNotations.

Section Statements.
Variable F : Type.
Variables (f0 f1 : F) (fadd fmul fsub fdiv : F -> F -> F) (fopp finv : F -> F).
Hypothesis Fth : field_theory f0 f1 fadd fmul fsub fopp fdiv finv (@eq F).
Notation eval := (eval F fadd fmul fsub fdiv fopp).

(* constant folding, one node: whenever the rule chain of ScalarOperExpr.fold_constants
   returns (does not raise ZeroDivisionError) the value is unchanged, provided the
   constants are exact (near c v -> c = v: no constant lies strictly inside the 1e-15 window
   of 0, 1, -1). *)
Theorem fold1_sound : forall (near : F -> F -> bool) (fzerob : F -> bool),
  (forall c v, near c v = true -> c = v) ->
  forall en e e',
  fold1 F f0 f1 fadd fmul fsub fdiv fopp near fzerob e = Some e' -> eval en e' = eval en e.
Proof. exact (fold1_sound_l F f0 f1 fadd fmul fsub fdiv fopp finv Fth). Qed.

(* ... and the whole depth-first pass. *)
Theorem fold_constants_sound : forall (near : F -> F -> bool) (fzerob : F -> bool),
  (forall c v, near c v = true -> c = v) ->
  forall en e e',
  fold_all F f0 f1 fadd fmul fsub fdiv fopp near fzerob e = Some e' -> eval en e' = eval en e.
Proof. exact (fold_all_sound_l F f0 f1 fadd fmul fsub fdiv fopp finv Fth). Qed.

(* symbolic differentiation: whenever Dx returns an expression, (value, value of the
   result) is the evaluation of the tree in the dual numbers F[eps]/(eps^2), where the
   leaves carry (jet, shifted jet), constants and parameters (c, 0). *)
Theorem dx_sound : forall kind k par en e e',
  dx F f0 kind k 1 par e = Ok e' ->
  deval F f0 fadd fmul fsub fdiv fopp kind k par en e = (eval en e, eval en e').
Proof. exact (dx_sound_l F f0 fadd fmul fsub fdiv fopp). Qed.

(* the dual-number operations used above are the ring F[eps]/(eps^2): product rule =
   multiplication, and the quotient rule is its inverse wherever the divisor is non-zero *)
Theorem quotient_rule_is_inverse_of_product_rule : forall a b : dual F,
  fst b <> f0 ->
  dopf F fadd fmul fsub fdiv OMul (dopf F fadd fmul fsub fdiv ODiv a b) b = a.
Proof. exact (dual_div_mul_l F f0 f1 fadd fmul fsub fdiv fopp finv Fth). Qed.

Theorem product_rule_ring_laws : forall a b c : dual F,
  dopf F fadd fmul fsub fdiv OMul a b = dopf F fadd fmul fsub fdiv OMul b a /\
  dopf F fadd fmul fsub fdiv OMul (dopf F fadd fmul fsub fdiv OMul a b) c =
    dopf F fadd fmul fsub fdiv OMul a (dopf F fadd fmul fsub fdiv OMul b c) /\
  dopf F fadd fmul fsub fdiv OMul a (dopf F fadd fmul fsub fdiv OAdd b c) =
    dopf F fadd fmul fsub fdiv OAdd (dopf F fadd fmul fsub fdiv OMul a b) (dopf F fadd fmul fsub fdiv OMul a c).
Proof.
  intros a b c. split; [|split].
  - exact (dual_mul_comm_l F f0 f1 fadd fmul fsub fdiv fopp finv Fth a b).
  - exact (dual_mul_assoc_l F f0 f1 fadd fmul fsub fdiv fopp finv Fth a b c).
  - exact (dual_distr_l F f0 f1 fadd fmul fsub fdiv fopp finv Fth a b c).
Qed.

(* common-subexpression extraction: IF equal keys imply equal values (C13's
   same_key_same_code), replacing every node whose key equals the chosen one by the new
   variable (defined as the representative) preserves every value. *)
Theorem cse_sound : forall (same : expr F -> bool) (v : expr F) (K : Type) (key : expr F -> K) (rep : expr F) en,
  (forall a b, key a = key b -> eval en a = eval en b) ->
  (forall e, same e = true -> key e = key rep) ->
  eval en v = eval en rep ->
  forall e, eval en (cse_subst F same v e) = eval en e.
Proof. exact (cse_sound_l F fadd fmul fsub fdiv fopp). Qed.

(* with a key that contains every attribute (the repaired hash_key: the key determines the
   tree) only identical expressions are merged, and the extraction is sound unconditionally *)
Theorem cse_merges_only_identical : forall (feqb : F -> F -> bool),
  (forall a b, feqb a b = true -> a = b) ->
  forall rep e, expr_eqb F feqb e rep = true -> e = rep.
Proof. exact (cse_merges_identical_l F). Qed.

Theorem cse_structural_key_sound : forall (feqb : F -> F -> bool),
  (forall a b, feqb a b = true -> a = b) ->
  forall rep v en, eval en v = eval en rep ->
  forall e, eval en (cse_subst F (fun x => expr_eqb F feqb x rep) v e) = eval en e.
Proof. exact (cse_structural_sound_l F fadd fmul fsub fdiv fopp). Qed.

(* nodes not selected by the key test are left alone *)
Theorem cse_touches_only_selected : forall (same : expr F -> bool) v,
  (forall e, same e = false) -> forall e, cse_subst F same v e = e.
Proof. exact (cse_subst_id_l F). Qed.

(* The key of the code WITHOUT fixes/C13-builtinfunc-hash-key.patch does not contain the
   function name (BuiltinFuncExpr had no hash_key): the hypothesis of cse_sound is false
   for it -- sin(0) and cos(0) have the same key and different values. *)
Theorem cse_funcname_blind_key_refuted :
  exists (a b : expr F) (en : env F), erase_fn F a = erase_fn F b /\ eval en a <> eval en b.
Proof. exact (cse_funcname_blind_refuted_l F f0 f1 fadd fmul fsub fdiv fopp finv Fth). Qed.

(* replace_trivial_vars: a reference to a variable whose defining entry is itself a
   reference has the value of that entry, in every environment that respects the definition *)
Theorem trivial_var_elim_sound : forall en name t Ix D p inner,
  respects F fadd fmul fsub fdiv fopp en name t -> tat F t Ix = Some inner ->
  eval en inner = eval en (VR name Ix D p).
Proof. exact (trivial_var_sound_l F fadd fmul fsub fdiv fopp). Qed.

(* the value of an expression depends only on the variables it mentions *)
Theorem eval_depends_only_on_mentioned_vars : forall (en1 en2 : env F) e,
  e_pd en1 = e_pd en2 -> e_gw en1 = e_gw en2 -> e_dx en1 = e_dx en2 -> e_ds en1 = e_ds en2 ->
  e_fn en1 = e_fn en2 ->
  (forall n, In n (vrefs F e) -> e_vr en1 n = e_vr en2 n) ->
  eval en1 e = eval en2 e.
Proof. exact (eval_ext_l F fadd fmul fsub fdiv fopp). Qed.

(* NOT PROVED: schedule_wf_sound --
     forall sourced ds en, wf_sched F sourced ds = true ->
     forall name t, In (name, t) ds ->
       respects F fadd fmul fsub fdiv fopp (eval_defs F f0 fadd fmul fsub fdiv fopp en ds) name t
   (evaluating the definitions in an order accepted by the checker yields an environment in which
   every variable has the value of its defining expression).  Missing: the induction over the list
   with the row-major index lemma relating [tat t Ix] to [nth (flat_index (tshape t) Ix) (tentries t)].
   Proved instead: one step of the order for a scalar definition, and that later bindings of other
   names do not disturb it.  The checker itself is evaluated (in Coq) on the emitted order of every
   generated form, and def-before-use is checked directly on the implementation's output. *)
Theorem schedule_wf_partial : forall (en : env F) name e D p,
  mem name (vrefs F e) = false ->
  let en' := bind F f0 en name [] [eval en e] in
  e_vr en' name [] D p = eval en' e.
Proof. exact (bind_respects_scalar_l F f0 fadd fmul fsub fdiv fopp). Qed.

Theorem schedule_later_bindings_do_not_interfere : forall (en : env F) name name' shape vals Ix D p,
  String.eqb name name' = false ->
  e_vr (bind F f0 en name' shape vals) name Ix D p = e_vr en name Ix D p.
Proof. exact (bind_other_l F f0). Qed.

(* NOT PROVED (covered by the exact oracle on every generated form and by the regenerated
   obligations coq/gen/C06_ops_*.v only):
   - finalize_sound: the composition of all passes in the order of VForm.finalize, including the
     traversal of shared nodes by mapexprs, measure and normal expansion, insert_input_field_derivs,
     the space-time split and substitute_vec_components;
   - tensor_ops_sound for arbitrary sizes (the regenerated obligations prove det/inv/cross/products/
     traces/transposes for n <= 3 on the implementation's own output). *)

End Statements.

Print Assumptions fold1_sound.
Print Assumptions fold_constants_sound.
Print Assumptions dx_sound.
Print Assumptions quotient_rule_is_inverse_of_product_rule.
Print Assumptions product_rule_ring_laws.
Print Assumptions cse_sound.
Print Assumptions cse_merges_only_identical.
Print Assumptions cse_structural_key_sound.
Print Assumptions cse_touches_only_selected.
Print Assumptions cse_funcname_blind_key_refuted.
Print Assumptions trivial_var_elim_sound.
Print Assumptions eval_depends_only_on_mentioned_vars.
Print Assumptions schedule_wf_partial.
Print Assumptions schedule_later_bindings_do_not_interfere.
