(* C19 -- non-vacuity: concrete inputs meet the hypotheses of the theorems. *)
From Coq Require Import QArith Qcanon ZArith List Arith Bool PrimFloat Lia.
From Verif.lib Require Import Bsp NpCore NpQ NpF.
From Verif.C19 Require Import Model Model2 Proofs Proofs2 Proofs4 Proofs5 Proofs6 Proofs8 Proofs9 Proofs10 Proofs11 FloatGridDefs FloatProofs.
Import ListNotations.
Open Scope Qc_scope.

Definition q (n : Z) (d : positive) : Qc := Q2Qc (n # d).
Definition ex_kv := make_knots 2 (q 0 1) (q 1 1) 4 2.

Example ex_make_knots : map this ex_kv = [0; 0; 0; 1 # 4; 1 # 4; 1 # 2; 1 # 2; 3 # 4; 3 # 4; 1; 1; 1]%Q.
Proof. vm_compute. reflexivity. Qed.
Example ex_hyp : q 0 1 < q 1 1.
Proof. reflexivity. Qed.
Example ex_open : open_kv ex_kv 2 = true /\ kv_valid ex_kv = true.
Proof. split; vm_compute; reflexivity. Qed.
Example ex_mesh : map this (mesh ex_kv) = [0; 1 # 4; 1 # 2; 3 # 4; 1]%Q /\ numspans ex_kv = 4%nat
                  /\ numdofs ex_kv 2 = 9%nat.
Proof. repeat split; vm_compute; reflexivity. Qed.
Example ex_k2m : knots_to_mesh ex_kv = [0; 0; 0; 1; 1; 2; 2; 3; 3; 4; 4; 4]%nat.
Proof. vm_compute. reflexivity. Qed.
Example ex_spans : mesh_span_indices ex_kv = [2; 4; 6; 8]%nat.
Proof. vm_compute. reflexivity. Qed.
Example ex_findspan : findspan ex_kv 2 (q 1 2) = 6%nat /\ findspan ex_kv 2 (q 1 1) = 8%nat.
Proof. split; vm_compute; reflexivity. Qed.
Example ex_msia : nth 4 (mesh_support_idx_all ex_kv 2) (0, 0)%nat = (1, 3)%nat.
Proof. vm_compute. reflexivity. Qed.
Example ex_greville : map this (greville ex_kv 2) = [0; 1 # 8; 1 # 4; 3 # 8; 1 # 2; 5 # 8; 3 # 4; 7 # 8; 1]%Q.
Proof. vm_compute. reflexivity. Qed.
Example ex_refine : map this (refine ex_kv [q 1 3; q 1 4]) =
  [0; 0; 0; 1 # 4; 1 # 4; 1 # 4; 1 # 3; 1 # 2; 1 # 2; 3 # 4; 3 # 4; 1; 1; 1]%Q.
Proof. vm_compute. reflexivity. Qed.
Example ex_refine_uniform : map this (mesh (refine_uniform ex_kv)) = [0; 1 # 8; 1 # 4; 3 # 8; 1 # 2; 5 # 8; 3 # 4; 7 # 8; 1]%Q.
Proof. vm_compute. reflexivity. Qed.
Example ex_eq_far : kv_eq ex_kv 2 (make_knots 2 (q 0 1) (q 1 1) 4 2) 2 = true
                    /\ kv_eq ex_kv 2 (make_knots 2 (q 0 1) (q 2 1) 4 2) 2 = false.
Proof. split; vm_compute; reflexivity. Qed.
Example ex_derivative : map this (derivative_coeffs ex_kv 2 (map (fun z => q z 1) [1; 2; 4; 8; 16; 32; 64; 128; 256]%Z))
                        = [8; 16; 32; 64; 128; 256; 512; 1024]%Q.
Proof. vm_compute. reflexivity. Qed.

(* the bounded float theorem is about a non-empty grid that contains [0,1] and [0.1,0.7] *)
Example ex_grid : In (0, 1)%Q grid_all /\ In (1 # 10, 7 # 10)%Q grid_all /\ length grid_all = 16%nat.
Proof.
  split; [|split; [|reflexivity]].
  - change (0, 1)%Q with (nth 0 grid_all (0, 0)%Q). apply nth_In. rewrite grid_all_length. lia.
  - change (1 # 10, 7 # 10)%Q with (nth 3 grid_all (0, 0)%Q). apply nth_In. rewrite grid_all_length. lia.
Qed.
Example ex_f_of_q : PrimFloat.eqb (f_of_q (1 # 10)) 0x1.999999999999ap-4%float = true
                    /\ PrimFloat.eqb (f_of_q (-37 # 10)) (-0x1.d99999999999ap+1)%float = true.
Proof. split; vm_compute; reflexivity. Qed.
Example ex_float : length (mesh_f (make_knots_f 2 0 1 49 1)) = 50%nat
                   /\ length (mesh_f (make_knots_old_f 2 0 1 49 1)) = 51%nat.
Proof. split; vm_compute; reflexivity. Qed.

(* hypotheses of greville_in_support / refine_uniform_halves are met by ex_kv *)
Example ex_grev_hyp : (1 <= 2)%nat /\ kv_valid ex_kv = true /\ (4 < numdofs ex_kv 2)%nat /\ ex_kv <> [].
Proof.
  split; [lia|]. split; [vm_compute; reflexivity|]. split; [vm_compute; lia|discriminate].
Qed.
Example ex_halves : map this (Proofs2.interleave (mesh ex_kv)) = [0; 1 # 8; 1 # 4; 3 # 8; 1 # 2; 5 # 8; 3 # 4; 7 # 8; 1]%Q.
Proof. vm_compute. reflexivity. Qed.

(* derivative_spline: ex_kv meets kv_ok; the two sides computed on a concrete input *)
Example ex_deriv_eval :
  let c := map (fun z => q z 1) [1; 2; 4; 8; 16; 32; 64; 128; 256]%Z in
  length c = numdofs ex_kv 2 /\
  spline_ev (derivative_kv ex_kv) 1 (derivative_coeffs ex_kv 2 c) (q 3 8) = spline_dev ex_kv 2 c (q 3 8) /\
  this (spline_dev ex_kv 2 c (q 3 8)) = 48%Q.
Proof. repeat split; vm_compute; reflexivity. Qed.

(* make_knots_open_kv / make_knots_basis_properties: mult = 2 <= max 2 1, u = 3/8 in [0,1] *)
Example ex_open_hyp : (2 <= Nat.max 2 1)%nat /\ q 0 1 <= q 3 8 /\ q 3 8 <= q 1 1.
Proof. split; [cbn; lia|split; discriminate]. Qed.
Example ex_basis : this (Nref ex_kv 2 3 (q 3 8)) = (1 # 2)%Q /\ single_ev ex_kv 2 3 (q 3 8) = Nref ex_kv 2 3 (q 3 8).
Proof. split; vm_compute; reflexivity. Qed.
(* greville_unisolvent_partial: an interior index exists (1 <= 4, 4 + 1 < 9) *)
Example ex_sw : (1 <= 4)%nat /\ (4 + 1 < numdofs ex_kv 2)%nat /\ kn ex_kv 4 < nth 4 (greville ex_kv 2) 0.
Proof. split; [lia|split; [vm_compute; lia|reflexivity]]. Qed.
(* greville_p0 *)
Definition ex_kv0 := make_knots 0 (q 0 1) (q 1 1) 4 1.
Example ex_p0 : kv_valid ex_kv0 = true /\ numdofs ex_kv0 0 = 4%nat /\
                map this (greville ex_kv0 0) = [1 # 8; 3 # 8; 5 # 8; 7 # 8]%Q.
Proof. repeat split; vm_compute; reflexivity. Qed.

(* N_pos_inside_support / greville_diag_pos on ex_kv: function 3 at its Greville point 3/8 *)
Example ex_diag : this (nth 3 (greville ex_kv 2) 0) = (3 # 8)%Q /\ kn ex_kv 3 < q 3 8 /\ q 3 8 < kn ex_kv (3 + 2 + 1)
                  /\ this (Nref ex_kv 2 3 (q 3 8)) = (1 # 2)%Q.
Proof. repeat split; vm_compute; reflexivity. Qed.
(* N_right_end: the last function (index 8) of ex_kv at u = 1 *)
Example ex_right_end : kn ex_kv 8 < kn ex_kv 9 /\ qeqb (kn ex_kv 9) (kn ex_kv (length ex_kv - 1)) = true /\ this (Nref ex_kv 2 8 (q 1 1)) = 1%Q.
Proof. repeat split; vm_compute; reflexivity. Qed.

(* k2m / span cells / mesh-support pairs on ex_kv = [0,0,0,1/4,1/4,1/2,1/2,3/4,3/4,1,1,1] *)
Example ex_k2m_iso : map (k2m ex_kv) (mesh_span_indices ex_kv) = seq 0 (numspans ex_kv)
                     /\ k2m ex_kv 0 = 0%nat /\ k2m ex_kv (length ex_kv - 1) = 4%nat /\ k2m ex_kv 5 = S (k2m ex_kv 4).
Proof. repeat split; vm_compute; reflexivity. Qed.
Example ex_span_cell : (2 < numspans ex_kv)%nat /\ nth 2 (mesh_span_indices ex_kv) 0%nat = 6%nat
                       /\ this (nth 2 (mesh ex_kv) 0) = (1 # 2)%Q /\ this (kn ex_kv 6) = (1 # 2)%Q.
Proof. split; [vm_compute; lia|repeat split; vm_compute; reflexivity]. Qed.
Example ex_msi_ordered : mesh_support_idx ex_kv 2 3 = (1, 2)%nat /\ kn ex_kv 3 < kn ex_kv (3 + 2 + 1)
                         /\ mesh_support_idx ex_kv 2 0 = (0, 1)%nat.
Proof. repeat split; vm_compute; reflexivity. Qed.
(* span search, array form and first-active indices *)
Example ex_findspans : findspans ex_kv 2 [q 0 1; q 3 8; q 1 2; q 1 1] = [2; 4; 6; 8]%nat
                       /\ first_active_all ex_kv 2 [q 0 1; q 3 8; q 1 2; q 1 1] = [0; 2; 4; 6]%Z
                       /\ first_active_at_z ex_kv 2 (q 3 8) = 2%Z /\ numdofs ex_kv 2 = 9%nat.
Proof. repeat split; vm_compute; reflexivity. Qed.
Example ex_unique_hyp : (S 4 < length ex_kv)%nat /\ kn ex_kv 4 <= q 3 8 /\ q 3 8 < kn ex_kv 5 /\ findspan ex_kv 2 (q 3 8) = 4%nat.
Proof. split; [vm_compute; lia|]. split; [discriminate|]. split; vm_compute; reflexivity. Qed.
Example ex_meshsize : this (meshsize_avg ex_kv) = (1 # 4)%Q /\ this (fst (support_all ex_kv)) = 0%Q /\ this (snd (support_all ex_kv)) = 1%Q.
Proof. repeat split; vm_compute; reflexivity. Qed.
(* refine_nested: the double knot 1/4 plus one inserted 1/4 gives multiplicity 3 *)
Example ex_refine_count : count_occ Qc_eq_dec (refine ex_kv [q 1 3; q 1 4]) (q 1 4) = 3%nat
                          /\ numdofs (refine ex_kv [q 1 3; q 1 4]) 2 = 11%nat.
Proof. split; vm_compute; reflexivity. Qed.

(* derivative_wellformed on ex_kv (degree 2, 9 coefficients): knots kv[1:-1], 8 coefficients, degree 1 *)
Example ex_deriv_wf : length (derivative_kv ex_kv) = 10%nat /\ numdofs (derivative_kv ex_kv) 1 = 8%nat
  /\ length (derivative_coeffs ex_kv 2 (map (fun z => q z 1) [1; 2; 4; 8; 16; 32; 64; 128; 256]%Z)) = 8%nat
  /\ kv_valid (derivative_kv ex_kv) = true.
Proof. repeat split; vm_compute; reflexivity. Qed.

(* support_cells: B-spline 3 of ex_kv has knots 3..6 = 1/4,1/4,1/2,1/2; the only non-empty span among
   3..5 is span 4, which is mesh cell 1 = lo .. hi-1 *)
Example ex_support_cells : filter (Proofs11.nonempty_span ex_kv) (seq 3 (2 + 1)) = [4]%nat
                           /\ mesh_support_idx ex_kv 2 3 = (1, 2)%nat /\ k2m ex_kv 4 = 1%nat.
Proof. repeat split; vm_compute; reflexivity. Qed.
