(* C06 -- executable model of pyiga/vform.py expression trees, their value, and the
   per-node rewriting rules of VForm.finalize.  Definitions only (no proofs).

   Self-contained: C01 and C08 import [expr], [texpr], [eval], [eval_defs] from here.
   Everything is parameterised by a carrier F with field operations (Section);
   [QcInst] at the end instantiates it with Qc for execution under vm_compute. *)
From Coq Require Import List String Bool Arith ZArith Lia QArith Qcanon.
Import ListNotations.
Close Scope Qc_scope. Close Scope Q_scope. Open Scope nat_scope.

(* ------------------------------------------------------------------------- *)
(* expression trees (vform.py:741-1403)                                       *)
(* ------------------------------------------------------------------------- *)

Inductive oper := OAdd | OSub | OMul | ODiv.          (* ScalarOperExpr.oper, vform.py:1151-1163 *)

Section Expr.
Variable F : Type.

(* scalar expressions *)
Inductive expr : Type :=
| Const (c : F)                                                      (* ConstExpr          933-949  *)
| PD (name : string) (comp : option nat) (D : list nat) (phys : bool) (* PartialDerivExpr 1271-1322 *)
| VR (name : string) (Ix : list nat) (D : list nat) (par : bool)       (* VarRefExpr        984-1106 *)
| GW (axis : nat)                                                    (* GaussWeightExpr   1375-1385 *)
| MDx                                                                (* VolumeMeasureExpr 1387-1394 *)
| MDs                                                                (* SurfaceMeasureExpr 1396-1403 *)
| Neg (x : expr)                                                     (* NegExpr           1116-1123 *)
| Fn (f : string) (x : expr)                                         (* BuiltinFuncExpr   1125-1133 *)
| Op (o : oper) (x y : expr).                                        (* ScalarOperExpr    1151-1221 *)

(* vector / matrix expressions: they only occur as roots of variable definitions
   and of vector-valued integrands; their children are tensors again, the literal
   classes have scalar children. *)
Inductive texpr : Type :=
| TS (e : expr)
| TLV (es : list expr)                        (* LiteralVectorExpr 951-963 *)
| TLM (r c : nat) (es : list expr)            (* LiteralMatrixExpr 965-982, row major *)
| TOp (o : oper) (a b : texpr)                (* TensorOperExpr   1230-1248 *)
| TCross (a b : texpr)                        (* VectorCrossExpr  1250-1260 *)
| TOuter (a b : texpr)                        (* OuterProdExpr    1262-1269 *)
| TMatVec (a b : texpr)                       (* MatVecExpr       1349-1360 *)
| TMatMat (a b : texpr).                      (* MatMatExpr       1362-1373 *)

(* field operations *)
Variables (f0 f1 : F) (fadd fmul fsub fdiv : F -> F -> F) (fopp : F -> F).

Definition opf (o : oper) : F -> F -> F :=           (* _oper_to_func, 1223-1228 *)
  match o with OAdd => fadd | OSub => fsub | OMul => fmul | ODiv => fdiv end.

(* ------------------------------------------------------------------------- *)
(* environments and the value of an expression                                *)
(* ------------------------------------------------------------------------- *)

Record env : Type := mkEnv {
  e_pd : string -> option nat -> list nat -> bool -> F;   (* basis function jets *)
  e_vr : string -> list nat -> list nat -> bool -> F;     (* entries (and derivatives) of variables *)
  e_gw : nat -> F;
  e_dx : F;
  e_ds : F;
  e_fn : string -> F -> F                                 (* builtin functions: uninterpreted *)
}.

Fixpoint eval (en : env) (e : expr) : F :=
  match e with
  | Const c => c
  | PD n c D p => e_pd en n c D p
  | VR n Ix D p => e_vr en n Ix D p
  | GW k => e_gw en k
  | MDx => e_dx en
  | MDs => e_ds en
  | Neg x => fopp (eval en x)
  | Fn f x => e_fn en f (eval en x)
  | Op o x y => opf o (eval en x) (eval en y)
  end.

(* ------------------------------------------------------------------------- *)
(* indexing of tensor expressions: the .at() methods and Expr.__getitem__ with   *)
(* scalar indices                                                               *)
(* ------------------------------------------------------------------------- *)

Fixpoint tshape (t : texpr) : list nat :=
  match t with
  | TS _ => []
  | TLV es => [List.length es]
  | TLM r c _ => [r; c]
  | TOp _ a _ => tshape a
  | TCross a _ => tshape a
  | TOuter a b => [hd 0 (tshape a); hd 0 (tshape b)]
  | TMatVec a _ => [hd 0 (tshape a)]
  | TMatMat a b => [hd 0 (tshape a); hd 0 (tl (tshape b))]
  end.

(* reduce(operator.add, terms) without initial element: left nested *)
Definition reduce_add (l : list expr) : option expr :=
  match l with
  | [] => None
  | x :: r => Some (fold_left (fun acc t => Op OAdd acc t) r x)
  end.

Fixpoint omap {A B} (f : A -> option B) (l : list A) : option (list B) :=
  match l with
  | [] => Some []
  | x :: r => match f x, omap f r with Some y, Some ys => Some (y :: ys) | _, _ => None end
  end.

Fixpoint tat (t : texpr) (Ix : list nat) : option expr :=
  match t, Ix with
  | TS e, [] => Some e
  | TLV es, [i] => nth_error es i                                             (* 961-962 *)
  | TLM r c es, [i; j] => if (i <? r) && (j <? c) then nth_error es (i * c + j) else None   (* 980-981 *)
  | TOp o a b, _ =>                                                           (* 1240-1245 *)
      match tat a Ix, tat b Ix with Some x, Some y => Some (Op o x y) | _, _ => None end
  | TCross a b, [i] =>                                                        (* 1256-1260 *)
      let p i1 i2 := match tat a [i1], tat b [i2], tat a [i2], tat b [i1] with
                     | Some x1, Some y2, Some x2, Some y1 => Some (Op OSub (Op OMul x1 y2) (Op OMul x2 y1))
                     | _, _, _, _ => None end in
      match i with 0 => p 1 2 | 1 => p 2 0 | 2 => p 0 1 | _ => None end
  | TOuter a b, [i; j] =>                                                     (* 1268-1269 *)
      match tat a [i], tat b [j] with Some x, Some y => Some (Op OMul x y) | _, _ => None end
  | TMatVec a b, [i] =>                                                       (* 1358-1360 *)
      match omap (fun j => match tat a [i; j], tat b [j] with
                           | Some x, Some y => Some (Op OMul x y) | _, _ => None end)
                 (seq 0 (hd 0 (tshape b))) with
      | Some ts => reduce_add ts | None => None end
  | TMatMat a b, [i; j] =>                                                    (* 1371-1373 *)
      match omap (fun k => match tat a [i; k], tat b [k; j] with
                           | Some x, Some y => Some (Op OMul x y) | _, _ => None end)
                 (seq 0 (hd 0 (tl (tshape a)))) with
      | Some ts => reduce_add ts | None => None end
  | _, _ => None
  end.

(* _to_literal_vec_mat, 1495-1505 (applied to non-variable, non-literal tensors) *)
Definition to_literal (t : texpr) : option texpr :=
  match t with
  | TS _ | TLV _ | TLM _ _ _ => None
  | _ =>
    match tshape t with
    | [n] => match omap (fun i => tat t [i]) (seq 0 n) with Some es => Some (TLV es) | None => None end
    | [r; c] =>
        match omap (fun ij => tat t [fst ij; snd ij])
                   (flat_map (fun i => map (fun j => (i, j)) (seq 0 c)) (seq 0 r)) with
        | Some es => Some (TLM r c es) | None => None end
    | _ => None
    end
  end.

(* all scalar entries of a tensor in row-major order (None when an index fails) *)
Definition tentries (t : texpr) : option (list expr) :=
  match tshape t with
  | [] => match tat t [] with Some e => Some [e] | None => None end
  | [n] => omap (fun i => tat t [i]) (seq 0 n)
  | [r; c] => omap (fun ij => tat t [fst ij; snd ij])
                   (flat_map (fun i => map (fun j => (i, j)) (seq 0 c)) (seq 0 r))
  | _ => None
  end.

(* ------------------------------------------------------------------------- *)
(* fold_constants (vform.py:1165-1206) -- one node; None = ZeroDivisionError     *)
(* ------------------------------------------------------------------------- *)

(* [near c v] models ConstExpr.is_constant (941-942): |c - v| < 1e-15;
   [fzerob] is the exact test Python's float division uses. *)
Variable near : F -> F -> bool.
Variable fzerob : F -> bool.

Definition is_constant (e : expr) (v : F) : bool :=
  match e with Const c => near c v | _ => false end.
Definition is_zero (e : expr) : bool := is_constant e f0.
Definition fm1 : F := fopp f1.

Definition fold1 (e : expr) : option expr :=
  match e with
  | Op o x y =>
    match x, y with
    | Const a, Const b =>                                    (* 1167-1169 *)
        match o with
        | ODiv => if fzerob b then None else Some (Const (fdiv a b))
        | _ => Some (Const (opf o a b))
        end
    | _, _ =>
      match o with
      | OAdd =>                                              (* 1172-1178 *)
          if is_zero x then Some y
          else if is_zero y then Some x
          else match y with Neg y' => Some (Op OSub x y') | _ => Some e end
      | OSub =>                                              (* 1179-1185 *)
          if is_zero x then Some (Neg y)
          else if is_zero y then Some x
          else match y with Neg y' => Some (Op OAdd x y') | _ => Some e end
      | OMul =>                                              (* 1186-1196 *)
          if is_zero x || is_zero y then Some (Const f0)
          else if is_constant x f1 then Some y
          else if is_constant x fm1 then Some (Neg y)
          else if is_constant y f1 then Some x
          else if is_constant y fm1 then Some (Neg x)
          else Some e
      | ODiv =>                                              (* 1197-1205 *)
          if is_zero x then Some (Const f0)
          else if is_constant y f1 then Some x
          else if is_constant y fm1 then Some (Neg x)
          else if is_zero y then None
          else Some e
      end
    end
  | _ => Some e                                              (* Expr.fold_constants, 895-896 *)
  end.

(* the pass: depth first, children before the node (mapexprs, 1432-1457) *)
Fixpoint fold_all (e : expr) : option expr :=
  match e with
  | Neg x => match fold_all x with Some x' => Some (Neg x') | None => None end
  | Fn f x => match fold_all x with Some x' => Some (Fn f x') | None => None end
  | Op o x y =>
      match fold_all x, fold_all y with
      | Some x', Some y' => fold1 (Op o x' y')
      | _, _ => None
      end
  | _ => Some e
  end.

(* ------------------------------------------------------------------------- *)
(* Dx (1518-1529) and the _dx_impl rules                                        *)
(* ------------------------------------------------------------------------- *)

Inductive vkind := KInput | KParam | KExpr | KOther.
Inductive res := Ok (e : expr) | Raise | Unmodelled.

Fixpoint bump (D : list nat) (k times : nat) : list nat :=
  match D, k with
  | [], _ => []
  | d :: r, 0 => (d + times) :: r
  | d :: r, S k' => d :: bump r k' times
  end.

Definition sumD (D : list nat) : nat := fold_right Nat.add 0 D.

Definition res2 (f : expr -> expr -> expr) (a b : res) : res :=
  match a, b with
  | Ok x, Ok y => Ok (f x y)
  | Raise, _ => Raise
  | _, Raise => Raise
  | _, _ => Unmodelled
  end.

Fixpoint dx (kind : string -> vkind) (k times : nat) (par : bool) (e : expr) : res :=
  match e with
  | Const c => Ok (if times =? 0 then e else Const f0)                     (* 945-946 *)
  | PD n c D ph =>                                                        (* 1313-1319 *)
      if negb (Bool.eqb par (negb ph)) && negb (sumD D =? 0) then Raise
      else Ok (PD n c (bump D k times) (negb par))
  | VR n Ix D p =>                                                         (* 1082-1101 *)
      if negb (Bool.eqb par p || (sumD D =? 0)) then Raise
      else if times =? 0 then Ok e
      else match kind n with
           | KInput => Ok (VR n Ix (bump D k times) par)
           | KParam => Ok (Const f0)
           | KExpr => Unmodelled         (* Dx of the underlying expression: needs the definitions *)
           | KOther => Raise
           end
  | Op OAdd x y => res2 (Op OAdd) (dx kind k times par x) (dx kind k times par y)     (* 1209-1210 *)
  | Op OSub x y => res2 (Op OSub) (dx kind k times par x) (dx kind k times par y)     (* 1211-1212 *)
  | Op OMul x y =>                                                        (* 1213-1215 *)
      if negb (times =? 1) then Raise
      else res2 (fun dx_ dy_ => Op OAdd (Op OMul dx_ y) (Op OMul x dy_))
                (dx kind k times par x) (dx kind k times par y)
  | Op ODiv x y =>                                                        (* 1216-1219 *)
      if negb (times =? 1) then Raise
      else res2 (fun dx_ dy_ => Op ODiv (Op OSub (Op OMul dx_ y) (Op OMul x dy_)) (Op OMul y y))
                (dx kind k times par x) (dx kind k times par y)
  | _ => Raise                                     (* no _dx_impl: TypeError, 1528-1529 *)
  end.

(* ------------------------------------------------------------------------- *)
(* index helpers                                                               *)
(* ------------------------------------------------------------------------- *)

(* sym_index_to_seq, vform.py:28-34 *)
Definition sym_index_to_seq (n i j : nat) : nat :=
  let i' := Nat.min i j in
  let j' := Nat.max i j in
  fold_right Nat.add 0 (map (fun k => n - k) (seq 0 i')) + (j' - i').

(* _D_to_indices, vform.py:18-26 *)
Fixpoint D_to_indices_from (k : nat) (D : list nat) : list nat :=
  match D with
  | [] => []
  | d :: r => repeat k d ++ D_to_indices_from (S k) r
  end.
Definition D_to_indices (D : list nat) : list nat := D_to_indices_from 0 D.

(* ------------------------------------------------------------------------- *)
(* variable definitions, the emitted order, and the value of a forest          *)
(* ------------------------------------------------------------------------- *)

Definition def : Type := (string * texpr)%type.

Fixpoint list_eqb (a b : list nat) : bool :=
  match a, b with
  | [], [] => true
  | x :: a', y :: b' => (x =? y) && list_eqb a' b'
  | _, _ => false
  end.

Definition flat_index (shape Ix : list nat) : nat :=
  fold_left (fun acc p => acc * fst p + snd p) (combine shape Ix) 0.

(* bind a computed variable: references to it (without derivatives) read the stored values *)
Definition bind (en : env) (name : string) (shape : list nat) (vals : list F) : env :=
  mkEnv (e_pd en)
        (fun n Ix D p => if String.eqb n name then nth (flat_index shape Ix) vals f0 else e_vr en n Ix D p)
        (e_gw en) (e_dx en) (e_ds en) (e_fn en).

(* evaluate the definitions in the given order; a definition whose indexing fails is skipped
   (the schedule checker below rejects such forests) *)
Fixpoint eval_defs (en : env) (ds : list def) : env :=
  match ds with
  | [] => en
  | (name, t) :: r =>
      match tentries t with
      | Some es => eval_defs (bind en name (tshape t) (map (eval en) es)) r
      | None => eval_defs en r
      end
  end.

Definition eval_forest (en : env) (ds : list def) (t : texpr) : option (list F) :=
  match tentries t with
  | Some es => Some (map (eval (eval_defs en ds)) es)
  | None => None
  end.

(* variables referenced by an expression *)
Fixpoint vrefs (e : expr) : list string :=
  match e with
  | VR n _ _ _ => [n]
  | Neg x | Fn _ x => vrefs x
  | Op _ x y => vrefs x ++ vrefs y
  | _ => []
  end.

Fixpoint uses_bfun (e : expr) : bool :=
  match e with
  | PD _ _ _ _ => true
  | Neg x | Fn _ x => uses_bfun x
  | Op _ x y => uses_bfun x || uses_bfun y
  | _ => false
  end.

Definition mem (s : string) (l : list string) : bool := existsb (String.eqb s) l.

(* schedule checker: [sourced] are the variables that have no defining expression
   (inputs, parameters); every definition may only refer to sourced variables and to
   variables defined EARLIER in the list, and no name is defined twice. *)
Fixpoint wf_sched (known : list string) (ds : list def) : bool :=
  match ds with
  | [] => true
  | (name, t) :: r =>
      match tentries t with
      | Some es => forallb (fun e => forallb (fun v => mem v known) (vrefs e)) es
                   && negb (mem name known) && wf_sched (name :: known) r
      | None => false
      end
  end.

Definition wf_forest (sourced : list string) (ds : list def) (roots : list texpr) : bool :=
  wf_sched sourced ds &&
  forallb (fun t => match tentries t with
                    | Some es => forallb (fun e => forallb (fun v => mem v (sourced ++ map fst ds)) (vrefs e)) es
                    | None => false end) roots.

(* ------------------------------------------------------------------------- *)
(* common-subexpression extraction (659-697) and trivial variables (699-703)   *)
(* ------------------------------------------------------------------------- *)

(* one round of `self.transform(lambda e: var if hashes[e] == h else None)` on a scalar tree:
   [same e] decides "hashes[e] == h"; children are visited first, so the test sees the
   transformed node -- but a node whose key equals h is replaced whatever its children became *)
Fixpoint cse_subst (same : expr -> bool) (v : expr) (e : expr) : expr :=
  if same e then v else
  match e with
  | Neg x => Neg (cse_subst same v x)
  | Fn f x => Fn f (cse_subst same v x)
  | Op o x y => Op o (cse_subst same v x) (cse_subst same v y)
  | _ => e
  end.


(* ------------------------------------------------------------------------- *)
(* operator expansions: minor, det, inv (vform.py:1664-1696), inner (1623-1636) *)
(* ------------------------------------------------------------------------- *)

Definition drop_nth {A : Type} (k : nat) (l : list A) : list A := firstn k l ++ skipn (S k) l.

(* B = [[A[ii,jj] for jj != j] for ii != i], 1665-1667 *)
Definition mat_minor (A : list (list expr)) (i j : nat) : list (list expr) :=
  map (drop_nth j) (drop_nth i A).

(* (-1)**k as a ConstExpr *)
Definition sign_const (k : nat) : expr := Const (if Nat.even k then f1 else fopp f1).

(* det, 1670-1682: Laplace expansion along the first row; the recursion depth is the size *)
Fixpoint e_det (fuel : nat) (A : list (list expr)) : option expr :=
  match fuel with
  | 0 => None
  | S fuel' =>
    match A with
    | [] => Some (Const f1)
    | [row] => nth_error row 0
    | row0 :: _ =>
        match omap (fun j => match nth_error row0 j, e_det fuel' (mat_minor A 0 j) with
                             | Some a, Some m => Some (Op OMul (sign_const j) (Op OMul a m))
                             | _, _ => None end)
                   (seq 0 (List.length A)) with
        | Some ts => reduce_add ts
        | None => None
        end
    end
  end.

(* inv, 1684-1696: invdet * cofacs with cofacs[j][i] = (-1)**(i+j) * minor(A, i, j);
   the scalar is broadcast to a literal matrix (OperExpr, 1144-1145) *)
Definition e_inv (A : list (list expr)) : option texpr :=
  let n := List.length A in
  match n, e_det (S n) A with
  | 0, _ => None
  | _, None => None
  | _, Some d =>
    let invdet := Op ODiv (Const f1) d in
    if n =? 1 then Some (TLM 1 1 [invdet])
    else
      match omap (fun ji => match e_det n (mat_minor A (snd ji) (fst ji)) with
                            | Some m => Some (Op OMul (sign_const (snd ji + fst ji)) m)
                            | None => None end)
                 (flat_map (fun j => map (fun i => (j, i)) (seq 0 n)) (seq 0 n)) with
      | Some cof => Some (TOp OMul (TLM n n (repeat invdet (n * n))) (TLM n n cof))
      | None => None
      end
  end.

Definition inv_entry (A : list (list expr)) (a b : nat) : expr :=
  match e_inv A with
  | Some t => match tat t [a; b] with Some e => e | None => Const f0 end
  | None => Const f0
  end.

(* inner of two vectors given by their entries: reduce(add, x[i]*y[i]) *)
Definition e_inner (xs ys : list expr) : option expr :=
  reduce_add (map (fun p => Op OMul (fst p) (snd p)) (combine xs ys)).

(* ------------------------------------------------------------------------- *)
(* substitute_vec_components / replace_vector_bfuns (vform.py:409-460)          *)
(* ------------------------------------------------------------------------- *)

(* replace component [keep] of the vector basis function [name] by the scalar basis function,
   every other component by 0 *)
Fixpoint subst_bf (name : string) (keep : nat) (e : expr) : expr :=
  match e with
  | PD n (Some c) D p =>
      if String.eqb n name then (if c =? keep then PD n None D p else Const f0) else e
  | Neg x => Neg (subst_bf name keep x)
  | Fn f x => Fn f (subst_bf name keep x)
  | Op o x y => Op o (subst_bf name keep x) (subst_bf name keep y)
  | _ => e
  end.

(* entry (i, j) of the component matrix for arity 2 (445-455): first v <- i, then u <- j *)
Definition subst_vec2 (bu bv : string) (i j : nat) (e : expr) : expr :=
  subst_bf bu j (subst_bf bv i e).

(* the environment "u = phi e_keep": component keep carries the jets of the scalar function *)
Definition env_unit (en : env) (name : string) (keep : nat) : env :=
  mkEnv (fun n c D p => match c with
                        | Some k => if String.eqb n name
                                    then (if k =? keep then e_pd en n None D p else f0)
                                    else e_pd en n c D p
                        | None => e_pd en n c D p end)
        (e_vr en) (e_gw en) (e_dx en) (e_ds en) (e_fn en).

(* ------------------------------------------------------------------------- *)
(* replace_physical_derivs for basis functions (vform.py:554-624)               *)
(* ------------------------------------------------------------------------- *)

Definition zerosD (d : nat) : list nat := repeat 0 d.
Definition unitD (d k : nat) : list nat := bump (zerosD d) k 1.
Definition digit (k : nat) : string := String (Ascii.ascii_of_nat (48 + k)) EmptyString.
Definition digits (D : list nat) : string := fold_right (fun k s => append (digit k) s) EmptyString D.

(* references to the predefined variable JacInv (make_var_expr: D = 0, parametric = False) *)
Definition jacinv (d a b : nat) : expr := VR "JacInv"%string [a; b] (zerosD d) false.

(* indices_to_D, 368-373 *)
Definition indices_to_D (d : nat) (indices : list nat) : list nat :=
  fold_left (fun D i => bump D i 1) indices (zerosD d).

(* pderiv_as_var, 375-381: name and definition of the variable for a parametric derivative *)
Definition pdname (name : string) (D : list nat) : string :=
  append "_d"%string (append name (append "_"%string (digits D))).

(* _geo_hess_trf, 609-624 *)
Definition ghname (a i j : nat) : string :=
  append "_geo_hess_trf_"%string (append (digit a) (append "_"%string (append (digit i) (append "_"%string (digit j))))).

Definition geo_hess_trf_def (d a i j : nat) : expr :=
  Neg (fold_left (fun acc t => Op OAdd acc t)
        (flat_map (fun m => flat_map (fun e => map (fun u =>
           Op OMul (Op OMul (Op OMul (VR "geo_a"%string [m] (bump (unitD d e) u 1) true) (jacinv d a m))
                            (jacinv d e i)) (jacinv d u j))
           (seq 0 d)) (seq 0 d)) (seq 0 d))
        (Const f0)).

Inductive rpd_res := RSame | RNew (e : expr) (ds : list def) | RFail.

Definition osome (o : option expr) (ds : list def) : rpd_res :=
  match o with Some e => RNew e ds | None => RFail end.

Definition rpd_bf (spacetime : bool) (d : nat) (name : string) (comp : option nat) (D : list nat) (phys : bool) : rpd_res :=
  if sumD D =? 0 then (if phys then RNew (PD name comp D false) [] else RSame)      (* 555-556, 1307-1311 *)
  else if negb phys then RSame                                                        (* 565-566 *)
  else if spacetime then                                                              (* 574-586 *)
    let T := d - 1 in
    let Dx_ := firstn T D in
    if sumD Dx_ =? 0 then RNew (VR (pdname name D) [] (zerosD d) false) [(pdname name D, TS (PD name comp D false))]
    else if sumD Dx_ =? 1 then
      match D_to_indices Dx_ with
      | [k] =>
          let Di i := indices_to_D d (i :: repeat T (nth T D 0)) in
          osome (e_inner (map (fun i => jacinv d i k) (seq 0 T))
                         (map (fun i => VR (pdname name (Di i)) [] (zerosD d) false) (seq 0 T)))
                (map (fun i => (pdname name (Di i), TS (PD name comp (Di i) false))) (seq 0 T))
      | _ => RFail
      end
    else RFail
  else
    match D_to_indices D with
    | [k] =>                                                                          (* 589-592 *)
        osome (e_inner (map (fun l => jacinv d l k) (seq 0 d))
                       (map (fun l => PD name comp (unitD d l) false) (seq 0 d))) []
    | [i; j] =>                                                                       (* 593-605 *)
        let Hp a b := PD name comp (bump (unitD d a) b 1) false in
        let y a := reduce_add (map (fun b => Op OMul (Hp a b) (jacinv d b j)) (seq 0 d)) in
        match omap y (seq 0 d) with
        | Some ys =>
            match e_inner (map (fun a => jacinv d a i) (seq 0 d)) ys with
            | Some H0 =>
                RNew (fold_left (fun H k => Op OAdd H (Op OMul (PD name comp (unitD d k) false)
                                                              (VR (ghname k i j) [] (zerosD d) false)))
                                (seq 0 d) H0)
                     (map (fun k => (ghname k i j, TS (geo_hess_trf_def d k i j))) (seq 0 d))
            | None => RFail
            end
        | None => RFail
        end
    | _ => RFail
    end.


(* ------------------------------------------------------------------------- *)
(* VForm.transform on a tree (mapexprs, 1432-1457): children first, then the     *)
(* node function; None = the node function raised                               *)
(* ------------------------------------------------------------------------- *)
Fixpoint transform (f : expr -> option expr) (e : expr) : option expr :=
  match e with
  | Neg x => match transform f x with Some x' => f (Neg x') | None => None end
  | Fn g x => match transform f x with Some x' => f (Fn g x') | None => None end
  | Op o x y =>
      match transform f x, transform f y with
      | Some x', Some y' => f (Op o x' y')
      | _, _ => None
      end
  | _ => f e
  end.

(* the passes of finalize applied one after the other (705-731) *)
Fixpoint run_passes (fs : list (expr -> option expr)) (e : expr) : option expr :=
  match fs with
  | [] => Some e
  | f :: r => match transform f e with Some e' => run_passes r e' | None => None end
  end.

(* replace_physical_derivs as a node function (the helper definitions are returned separately
   by rpd_bf) *)
Definition rpd_node (spacetime : bool) (d : nat) (e : expr) : option expr :=
  match e with
  | PD n c D p => match rpd_bf spacetime d n c D p with
                  | RSame => Some e | RNew e' _ => Some e' | RFail => None end
  | _ => Some e
  end.

(* structural equality of expressions given a decidable equality on constants *)
Variable feqb : F -> F -> bool.

Definition oper_eqb (a b : oper) : bool :=
  match a, b with OAdd, OAdd | OSub, OSub | OMul, OMul | ODiv, ODiv => true | _, _ => false end.
Definition onat_eqb (a b : option nat) : bool :=
  match a, b with None, None => true | Some x, Some y => x =? y | _, _ => false end.

Fixpoint expr_eqb (a b : expr) : bool :=
  match a, b with
  | Const x, Const y => feqb x y
  | PD n c D p, PD n' c' D' p' => String.eqb n n' && onat_eqb c c' && list_eqb D D' && Bool.eqb p p'
  | VR n Ix D p, VR n' Ix' D' p' => String.eqb n n' && list_eqb Ix Ix' && list_eqb D D' && Bool.eqb p p'
  | GW k, GW k' => k =? k'
  | MDx, MDx => true
  | MDs, MDs => true
  | Neg x, Neg y => expr_eqb x y
  | Fn f x, Fn g y => String.eqb f g && expr_eqb x y
  | Op o x y, Op o' x' y' => oper_eqb o o' && expr_eqb x x' && expr_eqb y y'
  | _, _ => false
  end.

(* the key the CURRENT code uses for CSE and for VForm.hash: BuiltinFuncExpr has no hash_key,
   so the function name is not part of it (vform.py:882-887, 1125-1133).  [erase_fn] maps an
   expression to a canonical representative of its key class. *)
Fixpoint erase_fn (e : expr) : expr :=
  match e with
  | Neg x => Neg (erase_fn x)
  | Fn _ x => Fn ""%string (erase_fn x)
  | Op o x y => Op o (erase_fn x) (erase_fn y)
  | _ => e
  end.

Fixpoint texpr_eqb_lists (a b : list expr) : bool :=
  match a, b with
  | [], [] => true
  | x :: a', y :: b' => expr_eqb x y && texpr_eqb_lists a' b'
  | _, _ => false
  end.

End Expr.

Arguments Const {F}. Arguments PD {F}. Arguments VR {F}. Arguments GW {F}.
Arguments MDx {F}. Arguments MDs {F}. Arguments Neg {F}. Arguments Fn {F}. Arguments Op {F}.
Arguments TS {F}. Arguments TLV {F}. Arguments TLM {F}. Arguments TOp {F}. Arguments TCross {F}.
Arguments TOuter {F}. Arguments TMatVec {F}. Arguments TMatMat {F}.
Arguments Ok {F}. Arguments Raise {F}. Arguments Unmodelled {F}.
Arguments RSame {F}. Arguments RNew {F}. Arguments RFail {F}.
Arguments mkEnv {F}. Arguments e_pd {F}. Arguments e_vr {F}. Arguments e_gw {F}.
Arguments e_dx {F}. Arguments e_ds {F}. Arguments e_fn {F}.

(* ------------------------------------------------------------------------- *)
(* finite environments (used by the generated files)                           *)
(* ------------------------------------------------------------------------- *)

Section FiniteEnv.
Variable F : Type.
Variable f0 : F.

Definition lkey : Type := (string * list nat)%type.
Definition lkey_eqb (a b : lkey) : bool := String.eqb (fst a) (fst b) && list_eqb (snd a) (snd b).

Fixpoint lookup (k : lkey) (l : list (lkey * F)) : F :=
  match l with
  | [] => f0
  | (k', v) :: r => if lkey_eqb k k' then v else lookup k r
  end.

Definition pd_key (n : string) (c : option nat) (D : list nat) (p : bool) : lkey :=
  (n, (match c with None => 0 | Some x => S x end) :: (if p then 1 else 0) :: D).
Definition vr_key (n : string) (Ix D : list nat) (p : bool) : lkey :=
  (n, (if p then 1 else 0) :: List.length Ix :: Ix ++ D).

(* pds/vrs: association lists; gws: gw_k = nth k gws; fns: the builtins *)
Definition env_of (pds vrs : list (lkey * F)) (gws : list F) (vdx vds : F) (fn : string -> F -> F) : env F :=
  mkEnv (fun n c D p => lookup (pd_key n c D p) pds)
        (fun n Ix D p => lookup (vr_key n Ix D p) vrs)
        (fun k => nth k gws f0) vdx vds fn.
End FiniteEnv.

(* ------------------------------------------------------------------------- *)
(* the Qc instance                                                             *)
(* ------------------------------------------------------------------------- *)

Module QcInst.
  Open Scope Qc_scope.
  Definition qexpr := expr Qc.
  Definition qtexpr := texpr Qc.
  Definition qenv := env Qc.
  Definition qeval : qenv -> qexpr -> Qc := eval Qc Qcplus Qcmult Qcminus Qcdiv Qcopp.
  Definition qzerob (x : Qc) : bool := Qeq_bool x 0.
  Definition qeqb (x y : Qc) : bool := Qeq_bool x y.
  Definition qabs (x : Qc) : Qc := if Qle_bool 0 x then x else Qcopp x.
  (* |c - v| < 1e-15, exactly *)
  Definition qnear (c v : Qc) : bool :=
    negb (Qle_bool (1 # 1000000000000000) (qabs (c - v))).
  Definition qfold1 : qexpr -> option qexpr :=
    fold1 Qc 0 1 Qcplus Qcmult Qcminus Qcdiv Qcopp qnear qzerob.
  Definition qfold_all : qexpr -> option qexpr :=
    fold_all Qc 0 1 Qcplus Qcmult Qcminus Qcdiv Qcopp qnear qzerob.
  Definition qdx := dx Qc 0.
  Definition qtat : qtexpr -> list nat -> option qexpr := tat Qc.
  Definition qto_literal : qtexpr -> option qtexpr := to_literal Qc.
  Definition qexpr_eqb : qexpr -> qexpr -> bool := expr_eqb Qc qeqb.
  Definition qeval_defs := eval_defs Qc 0 Qcplus Qcmult Qcminus Qcdiv Qcopp.
  Definition qeval_forest := eval_forest Qc 0 Qcplus Qcmult Qcminus Qcdiv Qcopp.
  Definition qenv_of := env_of Qc 0.
  Definition qe_det := e_det Qc 1 Qcopp.
  Definition qe_inv := e_inv Qc 1 Qcopp.
  Definition qsubst_bf := subst_bf Qc 0.
  Definition qsubst_vec2 := subst_vec2 Qc 0.
  Definition qrpd_bf := rpd_bf Qc 0.
  (* the interpretation of builtins used by the correspondence runs:
     abs = rational absolute value, k-th other builtin x -> (x^2 + k)/(k + 2) *)
  Definition qfn_k (k : Z) (x : Qc) : Qc := (x * x + Q2Qc (k # 1)) / Q2Qc ((k + 2) # 1).
  Definition qfn (f : string) (x : Qc) : Qc :=
    if String.eqb f "abs"%string then qabs x
    else if String.eqb f "sqrt"%string then qfn_k 1 x
    else if String.eqb f "exp"%string then qfn_k 2 x
    else if String.eqb f "log"%string then qfn_k 3 x
    else if String.eqb f "sin"%string then qfn_k 4 x
    else if String.eqb f "cos"%string then qfn_k 5 x
    else if String.eqb f "tan"%string then qfn_k 6 x
    else 0.
End QcInst.
