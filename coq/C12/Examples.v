(* C12 -- non-vacuity: concrete inputs meet the hypotheses of the theorems of Props.v,
   and the order-condition checker accepts/rejects what it should. *)
From Coq Require Import QArith Qabs ZArith List Bool Lia Ring_theory ZArithRing.
From Verif.C12 Require Import Model Proofs.
Import ListNotations.
Open Scope nat_scope.

(* ---- the ring Z, M = 2*, F z = 3 - z, a (bad) solver that does one fixed-point sweep ---- *)
Definition zM (z : Z) : Z := (2 * z)%Z.
Definition zF (z : Z) : Z := (3 - z)%Z.
Definition zMinv (v : Z) : Z := (v / 2)%Z.            (* only used on even arguments below *)
Definition zsolve (c rhs x0 : Z) : Z * Z := let y := (rhs + c * zF x0)%Z in (y, zF y).
Definition zisz (a : Z) : bool := Z.eqb a 0.

Lemma zisz_spec : forall a, zisz a = true -> a = 0%Z.
Proof. intros a H. apply Z.eqb_eq. exact H. Qed.
Lemma zsolve_Fz : forall c rhs x0, snd (zsolve c rhs x0) = zF (fst (zsolve c rhs x0)).
Proof. reflexivity. Qed.

(* a 3-stage tableau with explicit first stage (integer coefficients; tau = 2) *)
Definition zA : list (list Z) := [[0;0;0]; [1;1;0]; [1;-1;2]]%Z.
Definition zb : list Z := [1;-1;2]%Z.
Definition zbh : list Z := [2;0;1]%Z.

Example ex_dirk_runs :
  exists xn xe Fxn ys Fy rs,
    dirk_step Z 0%Z Z.add Z.mul Z.sub zisz zM zF zMinv zsolve 5%Z 2%Z None zA zb (Some zbh) true
    = Some (xn, xe, Fxn, (ys, Fy, rs)) /\ length ys = 3 /\ exists r, In r rs /\ r <> 0%Z.
Proof.
  vm_compute. do 6 eexists. split; [reflexivity|]. split; [reflexivity|].
  eexists. split; [right; left; reflexivity|]. discriminate.
Qed.

(* the hypotheses of dirk_stage_equations / dirk_stiffly_accurate_shortcut hold here, and its
   conclusion is a non-trivial statement about the numbers computed above *)
Example ex_dirk_stage_equations :
  forall xn xe Fxn ys Fy rs,
    dirk_step Z 0%Z Z.add Z.mul Z.sub zisz zM zF zMinv zsolve 5%Z 2%Z None zA zb (Some zbh) true
    = Some (xn, xe, Fxn, (ys, Fy, rs)) ->
    zM xn = (zM 5 + 2 * lin Z 0%Z Z.add Z.mul zb (map zF ys) + last rs 0)%Z /\ Fxn = Some (zF xn).
Proof.
  intros. eapply (dirk_sa_l Z 0%Z 1%Z Z.add Z.mul Z.sub Z.opp Zth zisz zM zF zMinv zsolve 5%Z 2%Z None
                   zisz_spec zsolve_Fz); try eassumption.
  - discriminate.
  - discriminate.
  - reflexivity.
Qed.

(* exact solves: F = const 1, M = id *)
Definition cF (_ : Z) : Z := 1%Z.
Definition csolve (c rhs x0 : Z) : Z * Z := ((rhs + c)%Z, 1%Z).
Example ex_dirk_const_rhs :
  match dirk_step Z 0%Z Z.add Z.mul Z.sub zisz (fun z => z) cF (fun z => z) csolve 7%Z 2%Z None
                  zA zb None false with
  | Some (xn, _, _, (_, _, rs)) => xn = (7 + 2 * ((1 - 1 + 2) * 1))%Z /\ rs = [0;0;0]%Z
  | None => False
  end.
Proof. vm_compute. split; reflexivity. Qed.

(* ---- Rosenbrock over Z: M = 3*, J = identity, tau*gamma = 2, so C = 3 - 2 = 1 and Cinv = id ---- *)
Definition rG : list (list Z) := [[1;0;0]; [2;1;0]; [-1;3;1]]%Z.
Definition rA : list (list Z) := [[0;0;0]; [1;0;0]; [2;1;0]]%Z.
Lemma rCinv_ok : forall v : Z, (3 * v - 2 * 1 * v = v)%Z.
Proof. intros; ring. Qed.
Example ex_ros_runs :
  let '(xn, xe, ks) := ros_step Z 0%Z Z.add Z.mul zF 1%Z 2%Z (fun v => v) (fun v => v) rA rG zb (Some zbh) in
  length ks = 3 /\ (3 * nth 2 ks 0 = zF (1 + 2 * lin Z 0 Z.add Z.mul [2;1;0] (firstn 2 ks))
                                     + 2 * lin Z 0 Z.add Z.mul [-1;3;1] (firstn 3 ks))%Z.
Proof. vm_compute. split; reflexivity. Qed.

(* ---- newton over Q: F x = x^2 - 2, J(x) = 2 if x < 2 else 4 (frozen every 2 iterations) ---- *)
Open Scope Q_scope.
Definition nF (x : Q) : Q := Qred (x * x - 2).
Definition nJ (p : Q) : Q := if Qle_bool 2 p then 4 else 2.
Definition nsolve (p r : Q) : Q := Qred (r / nJ p).
Definition nsub (a b : Q) : Q := Qred (a - b).

Example ex_newton_converges :
  exists y res, newton Q nF nsolve nsub Qabs (1#10) (1#1000) 2 20 3 = Some (y, res)
                /\ Qabs (nF y) < 1#10 /\ ~ y == 3.
Proof. vm_compute. do 2 eexists. split; [reflexivity|]. split; [reflexivity|]. discriminate. Qed.

Example ex_newton_raises : newton Q nF nsolve nsub Qabs (1#1000000) 0 2 2 3 = None.
Proof. vm_compute. reflexivity. Qed.

(* ---- drivers ---- *)
Example ex_const_times : const_times 1 (1#4) ((2 - 1) / (1#4)) (fun _ => false) = [1; 1 + 1 * (1#4); 1 + 2 * (1#4); 1 + 3 * (1#4); 1 + 4 * (1#4)].
Proof. vm_compute. reflexivity. Qed.

Example ex_const_hyps : 0 < (1#4) /\ (2 - 1) / (1#4) == (2 - 1) / (1#4) /\ 1 <= 2 /\ const_num_iter ((2 - 1) / (1#4)) = 4%nat.
Proof. repeat split; try reflexivity; discriminate. Qed.

Example ex_const_partial : const_times 1 (1#4) 4 (fun i => Nat.eqb i 2) = [1; 1 + 1 * (1#4); 1 + 2 * (1#4)].
Proof. vm_compute. reflexivity. Qed.

(* accepted, rejected (r > 1), Newton failure, accepted with the factor clipped to 5, ... *)
Definition ex_events : list event :=
  [Stepped (1#2) (6#5); Stepped 3 (1#10); NewtonFail; Stepped (1#1000) 40; Stepped 1 (9#10); Stepped 0 1000].

Example ex_adaptive_runs :
  exists ts, adaptive_times 0 (1#8) (1#4) ex_events = Some ts /\ length ts = 5%nat /\ (1#4) <= last ts 0.
Proof. vm_compute. eexists. split; [reflexivity|]. split; [reflexivity|]. discriminate. Qed.

Example ex_adaptive_taus : (length (adaptive_taus (1#4) (adaptive_init 0 (1#8)) ex_events) = 6)%nat.
Proof. vm_compute. reflexivity. Qed.

Example ex_adaptive_not_enough_events : adaptive_times 0 (1#8) 1 [Stepped 3 (1#10); NewtonFail] = None.
Proof. vm_compute. reflexivity. Qed.

(* ---- order conditions: exact tables ---- *)
(* implicit midpoint has order 2 exactly, not 3 *)
Example ex_midpoint_order2 : failing 0 [[1#2]] [[1#2]] [1] 2 = [] /\ failing 0 [[1#2]] [[1#2]] [1] 3 <> [].
Proof. vm_compute. split; [reflexivity|discriminate]. Qed.

(* the 3-stage Gauss-like check: Crank-Nicolson (trapezoidal rule) has order 2 exactly *)
Example ex_cn_order2 : failing 0 [[0;0];[1#2;1#2]] [[0;0];[1#2;1#2]] [1#2;1#2] 2 = [].
Proof. vm_compute. reflexivity. Qed.

(* the classical RK4 tableau satisfies all eight conditions up to order 4 exactly *)
Definition rk4A : list (list Q) := [[0;0;0;0];[1#2;0;0;0];[0;1#2;0;0];[0;0;1;0]].
Example ex_rk4_order4 : failing 0 rk4A rk4A [1#6;1#3;1#3;1#6] 4 = [] /\ conds_upto 4 = [0;1;2;3;4;5;6;7]%nat.
Proof. vm_compute. split; reflexivity. Qed.

(* weights that sum to 1.02 are rejected already by the consistency condition, with a
   tolerance of 1e-10 (the situation of a mistyped coefficient) *)
Example ex_inconsistent_rejected :
  failing (1#10000000000) [[0;0];[1#2;1#2]] [[0;0];[1#2;1#2]] [1#2;(52#100)] 1 = [0%nat].
Proof. vm_compute. reflexivity. Qed.

(* a one-digit change in the 10th decimal of a weight is rejected at the tolerance used for
   16-digit tables (64 eps) *)
Example ex_small_typo_rejected :
  failing (64 # 4503599627370496) [[0;0];[1#2;1#2]] [[0;0];[1#2;1#2]] [1#2;(5000000001#10000000000)] 2 <> [].
Proof. vm_compute. discriminate. Qed.
