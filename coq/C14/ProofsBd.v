(* C14 -- the dofs paired by join_boundaries exist: every raveled index produced by
   slice_indices / boundary_dofs lies below the number of dofs of its patch, so that the
   hypotheses of glob_gapfree about the declared identifications are met by histories of
   join_boundaries calls on valid faces. *)
From Coq Require Import List Arith Bool Lia.
From Verif.lib Require Import Slice.
From Verif.C14 Require Import Model Spec Proofs.
Import ListNotations.

(* a multi-index inside a shape *)
Fixpoint inside (shape idx : list nat) : Prop :=
  match shape, idx with
  | [], [] => True
  | n :: shape', i :: idx' => i < n /\ inside shape' idx'
  | _, _ => False
  end.

Lemma fold_mul_acc : forall l a, fold_left Nat.mul l a = a * fold_left Nat.mul l 1.
Proof.
  induction l as [|x l IH]; intros a; cbn [fold_left]; [lia|].
  rewrite (IH (a * x)). rewrite (IH (1 * x)). lia.
Qed.

Lemma prod_list_cons n l : prod_list (n :: l) = n * prod_list l.
Proof. unfold prod_list. cbn [fold_left]. rewrite (fold_mul_acc l (1 * n)). lia. Qed.

Lemma ravel_aux_bound : forall shape idx acc,
  inside shape idx -> ravel_aux acc shape idx < (acc + 1) * prod_list shape.
Proof.
  induction shape as [|n shape IH]; intros idx acc H; destruct idx as [|i idx]; simpl in H; try contradiction.
  - simpl. unfold prod_list; simpl. lia.
  - destruct H as [Hi Hr]. simpl. rewrite prod_list_cons.
    specialize (IH idx (acc * n + i) Hr). nia.
Qed.

Lemma ravel_bound shape idx : inside shape idx -> ravel shape idx < prod_list shape.
Proof. intros H. unfold ravel. pose proof (ravel_aux_bound shape idx 0 H). lia. Qed.

(* every element of the Cartesian product of per-axis ranges is inside the shape when each
   range stays below its axis length *)
Fixpoint ranges_ok (shape : list nat) (ls : list (list nat)) : Prop :=
  match shape, ls with
  | [], [] => True
  | n :: shape', l :: ls' => (forall x, In x l -> x < n) /\ ranges_ok shape' ls'
  | _, _ => False
  end.

Lemma product_inside : forall shape ls idx, ranges_ok shape ls -> In idx (product ls) -> inside shape idx.
Proof.
  induction shape as [|n shape IH]; intros ls idx H Hin; destruct ls as [|l ls]; simpl in H; try contradiction.
  - simpl in Hin. destruct Hin as [<-|[]]. exact I.
  - destruct H as [Hl Hr]. simpl in Hin. apply in_flat_map in Hin. destruct Hin as [x [Hx Hm]].
    apply in_map_iff in Hm. destruct Hm as [rest [<- Hrest]]. simpl. split; [apply Hl; exact Hx|].
    eapply IH; eassumption.
Qed.

Lemma axdofs_ranges_ok : forall shape k ax idx flip,
  (forall n, nth_error shape (ax - k) = Some n -> k <= ax -> idx < n) ->
  ranges_ok shape (axdofs_aux k ax idx shape flip).
Proof.
  induction shape as [|n shape IH]; intros k ax idx flip H; simpl; [exact I|].
  split.
  - intros x Hx. destruct (Nat.eqb_spec k ax) as [E|NE].
    + destruct Hx as [<-|[]]. apply H; [subst; rewrite Nat.sub_diag; reflexivity|lia].
    + destruct (match flip with [] => false | f :: _ => f end).
      * apply in_rev in Hx. apply in_seq in Hx. lia.
      * apply in_seq in Hx. lia.
  - apply IH. intros m Hm Hk. apply H; [|lia].
    replace (ax - k) with (S (ax - S k)) by lia. simpl. exact Hm.
Qed.

(* boundary_dofs of a valid face lists existing dofs only *)
Lemma boundary_dofs_valid shape ax side flip i :
  ax < length shape -> 0 < nth ax shape 0 ->
  In i (boundary_dofs shape ax side flip) -> i < prod_list shape.
Proof.
  intros Hax Hpos Hin. unfold boundary_dofs, slice_indices in Hin.
  apply in_map_iff in Hin. destruct Hin as [idx [<- Hidx]].
  apply ravel_bound. unfold slice_multi in Hidx.
  eapply product_inside; [|exact Hidx].
  apply axdofs_ranges_ok. intros n Hn _. rewrite Nat.sub_0_r in Hn.
  assert (nth ax shape 0 = n) by (apply nth_error_nth; exact Hn). subst n.
  destruct (Nat.eqb side 0); lia.
Qed.

(* a well-formed join_boundaries call: existing patches, valid faces with at least one dof,
   two different patches *)
Definition bjoin_ok (shapes : list (list nat)) (j : bjoin) : Prop :=
  bj_p1 j < length shapes /\ bj_p2 j < length shapes /\ bj_p1 j <> bj_p2 j /\
  bj_ax1 j < length (nth (bj_p1 j) shapes []) /\ 0 < nth (bj_ax1 j) (nth (bj_p1 j) shapes []) 0 /\
  bj_ax2 j < length (nth (bj_p2 j) shapes []) /\ 0 < nth (bj_ax2 j) (nth (bj_p2 j) shapes []) 0.

Lemma in_combine_pairs (p1 p2 : nat) (d1 d2 : list nat) (e : dof * dof) :
  In e (combine (map (pair p1) d1) (map (pair p2) d2)) ->
  exists i1 i2, e = ((p1, i1), (p2, i2)) /\ In i1 d1 /\ In i2 d2.
Proof.
  revert d2; induction d1 as [|a d1 IH]; intros d2 H; destruct d2 as [|b d2]; simpl in H; try contradiction.
  destruct H as [<-|H].
  - exists a, b; repeat split; left; reflexivity.
  - destruct (IH d2 H) as [i1 [i2 [E [H1 H2]]]]. exists i1, i2; repeat split; auto; right; assumption.
Qed.

Lemma nth_map_prod shapes p : p < length shapes ->
  nth p (map prod_list shapes) 0 = prod_list (nth p shapes []).
Proof.
  intros Hp. rewrite (nth_indep _ 0 (prod_list [])) by (rewrite map_length; exact Hp).
  apply (map_nth prod_list).
Qed.

Lemma bjoin_pairs_ok shapes j e :
  bjoin_ok shapes j -> In e (bjoin_pairs shapes j) ->
  fst e <> snd e /\ valid (map prod_list shapes) (fst e) /\ valid (map prod_list shapes) (snd e).
Proof.
  intros [H1 [H2 [Hne [Ha1 [Hp1 [Ha2 Hp2]]]]]] Hin. unfold bjoin_pairs in Hin.
  apply in_combine_pairs in Hin. destruct Hin as [i1 [i2 [-> [Hi1 Hi2]]]]. simpl.
  split; [intros E; inversion E; contradiction|].
  split; unfold valid; simpl; rewrite map_length; (split; [assumption|]).
  - rewrite nth_map_prod by assumption. eapply boundary_dofs_valid; eassumption.
  - rewrite nth_map_prod by assumption. eapply boundary_dofs_valid; eassumption.
Qed.

(* histories of well-formed join_boundaries calls meet the hypotheses of glob_gapfree *)
Lemma all_pairs_distinct shapes js : Forall (bjoin_ok shapes) js -> distinct_pairs (all_pairs shapes js).
Proof.
  intros H e He. unfold all_pairs in He. apply in_flat_map in He. destruct He as [j [Hj Hin]].
  rewrite Forall_forall in H. exact (proj1 (bjoin_pairs_ok shapes j e (H j Hj) Hin)).
Qed.

Lemma all_pairs_valid shapes js x : Forall (bjoin_ok shapes) js ->
  mentions (all_pairs shapes js) x -> valid (map prod_list shapes) x.
Proof.
  intros H [e [He Hx]]. unfold all_pairs in He. apply in_flat_map in He. destruct He as [j [Hj Hin]].
  rewrite Forall_forall in H. destruct (bjoin_pairs_ok shapes j e (H j Hj) Hin) as [_ [V1 V2]].
  destruct Hx as [->| ->]; assumption.
Qed.

Lemma glob_gapfree_boundaries_l shapes js g :
  Forall (bjoin_ok shapes) js ->
  g < numdofs (run shapes js) (map prod_list shapes) ->
  exists x, valid (map prod_list shapes) x /\ glob (run shapes js) (map prod_list shapes) x = g.
Proof.
  intros H Hg. rewrite run_as_pairs in *.
  apply (glob_surjective (all_pairs shapes js) (map prod_list shapes) g).
  - apply all_pairs_distinct; exact H.
  - intros x Hx. eapply all_pairs_valid; eassumption.
  - exact Hg.
Qed.

Lemma glob_in_range_boundaries_l shapes js x :
  valid (map prod_list shapes) x ->
  glob (run shapes js) (map prod_list shapes) x < numdofs (run shapes js) (map prod_list shapes).
Proof. intros Hx. rewrite run_as_pairs. apply glob_range_l; exact Hx. Qed.
