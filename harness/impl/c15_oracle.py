"""Independent oracle for C15: the dense Kronecker definition, in plain Python.

Imports neither pyiga nor the Coq model.  Used by harness/props/c15.py (on recorded
outputs) and by the exhaustive sweeps in harness/impl/c15_driver.py (in the driver
process, on the implementation's live outputs)."""
import itertools


def prod(l):
    r = 1
    for v in l:
        r *= v
    return r


def ravel(idx, dims):
    r = 0
    for i, n in zip(idx, dims):
        assert 0 <= i < n
        r = r * n + i
    return r


def unravel(i, dims):
    out = []
    for n in reversed(dims):
        out.append(i % n)
        i //= n
    return out[::-1]


def kron_positions(bs, bidx):
    """Positions of the Kronecker product of the level patterns, in the order of the
    compact data layout (C order over one axis per level)."""
    rd = [b[0] for b in bs]
    cd = [b[1] for b in bs]
    out = []
    for sel in itertools.product(*bidx):
        out.append((ravel([e[0] for e in sel], rd), ravel([e[1] for e in sel], cd)))
    return out


def dense_level(b, pattern, values=None):
    A = [[0] * b[1] for _ in range(b[0])]
    for k, (i, j) in enumerate(pattern):
        A[i][j] += 1 if values is None else values[k]
    return A


def kron_dense(As):
    """Dense Kronecker product of a list of dense matrices (lists of lists)."""
    R = [[1]]
    for A in As:
        m, n = len(A), (len(A[0]) if A else 0)
        R = [[R[i][j] * A[k][l] for j in range(len(R[0])) for l in range(n)]
             for i in range(len(R)) for k in range(m)]
    return R


def kron_nonzero_set(bs, bidx):
    """Positionwise definition: (I,J) with (I_k,J_k) in pattern k for every level,
    computed from the dense 0/1 Kronecker product (independent of kron_positions)."""
    K = kron_dense([dense_level(b, p) for b, p in zip(bs, bidx)])
    return sorted((i, j) for i, row in enumerate(K) for j, v in enumerate(row) if v != 0)


def dense_from_data(bs, bidx, data):
    """The matrix an MLMatrix with this compact data tensor denotes."""
    M, N = prod(b[0] for b in bs), prod(b[1] for b in bs)
    A = {}
    for pos, v in zip(kron_positions(bs, bidx), data):
        A[pos] = A.get(pos, 0) + v
    return M, N, A


def triples(A):
    return sorted([i, j, v] for (i, j), v in A.items() if v != 0)


def matvec(M, A, x):
    y = [0] * M
    for (i, j), v in A.items():
        y[i] += v * x[j]
    return y


def check_ml(c, r, light=False):
    """The property evaluated on the implementation's outputs r for case c.
    Returns a list of (slug, text)."""
    bad = []
    bs, bidx = c['bs'], c['bidx']
    L = len(bs)
    M, N = prod(b[0] for b in bs), prod(b[1] for b in bs)
    pos = kron_positions(bs, bidx)

    def err(x):
        return isinstance(x, dict) and 'error' in x

    def pairs(x):
        return list(zip(x[0], x[1]))

    if r.get('shape') != [M, N]:
        bad.append(('shape', 'shape %s, expected %s' % (r.get('shape'), [M, N])))
    # the reported positions are those of the Kronecker product, in data-layout order
    if err(r['nz']):
        bad.append(('nonzero-raises', 'nonzero() raised %s' % r['nz']))
    else:
        got = pairs(r['nz'])
        if got != pos:
            k = next((k for k, (a, b) in enumerate(zip(got, pos)) if a != b), min(len(got), len(pos)))
            bad.append(('nonzero-L%s' % ('nd' if L >= 4 else L),
                        'nonzero() differs from the Kronecker pattern at entry %d: got %s expected %s (len %d vs %d)' % (
                            k, got[k] if k < len(got) else None, pos[k] if k < len(pos) else None, len(got), len(pos))))
            return bad      # everything else (lower triangle, asmatrix, ...) is derived from these positions
        if not light and sorted(set(got)) != kron_nonzero_set(bs, bidx) and len(set(map(tuple, pos))) == len(pos):
            if M * N <= 4096:
                bad.append(('nonzero-set', 'nonzero() is not the non-zero set of the dense Kronecker product'))
    # lower triangle
    exp_lt = [p for p in pos if p[1] <= p[0]]
    if err(r['nz_lt']) or pairs(r['nz_lt']) != exp_lt:
        bad.append(('lower-tri-L%s' % ('nd' if L >= 4 else L), 'nonzero(lower_tri=True) is not the J<=I sub-list of the pattern'))
    # transposition
    if err(r['nz_T']) or pairs(r['nz_T']) != [(j, i) for (i, j) in pos]:
        bad.append(('transpose', 'transpose().nonzero() is not the swapped pattern'))
    # per-row query: for each requested row, exactly the entries of that row
    rows = c['rows']
    if any(not (0 <= q < M) for q in rows):
        if not (err(r['rows']) and r['rows']['error'] == 'ValueError'):
            bad.append(('rows-out-of-range', 'row index outside the matrix was not refused'))
    elif err(r['rows']):
        bad.append(('rows-raises', 'nonzeros_for_rows raised %s' % r['rows']))
    else:
        I, J, K = r['rows']
        byrow = {}
        for (i, j) in pos:
            byrow.setdefault(i, []).append(j)
        ok = len(I) == len(J) == len(K)
        p = 0
        for k, q in enumerate(rows):
            n = len(byrow.get(q, []))
            seg = list(zip(I[p:p + n], J[p:p + n], K[p:p + n]))
            if [s[0] for s in seg] != [q] * n or [s[2] for s in seg] != [k] * n or sorted(s[1] for s in seg) != sorted(byrow.get(q, [])):
                ok = False
            p += n
        if p != len(I):
            ok = False
        if not ok:
            bad.append(('rows', 'nonzeros_for_rows(%s) is not exactly the entries of those rows' % rows[:8]))
    cols = c['cols']
    if any(not (0 <= q < N) for q in cols):
        if not (err(r['cols']) and r['cols']['error'] == 'ValueError'):
            bad.append(('cols-out-of-range', 'column index outside the matrix was not refused'))
    elif err(r['cols']):
        bad.append(('cols-raises', 'nonzeros_for_columns raised %s' % r['cols']))
    else:
        got = sorted(pairs(r['cols']))
        exp = sorted((i, j) for q in cols for (i, j) in pos if j == q)
        if got != exp:
            bad.append(('cols', 'nonzeros_for_columns(%s) is not exactly the entries of those columns' % cols[:8]))
    if light:
        return bad
    # the matrix denoted by the data tensor
    M_, N_, A = dense_from_data(bs, bidx, c['data'])
    if c.get('factors') is not None and len(set(pos)) == len(pos):
        # rank-one data: the matrix is the Kronecker product of the level matrices
        K = kron_dense([dense_level(b, p, f) for b, p, f in zip(bs, bidx, c['factors'])])
        A2 = {(i, j): v for i, row in enumerate(K) for j, v in enumerate(row) if v != 0}
        if triples(A2) != triples(A):
            raise AssertionError('oracle self-check failed: data layout vs np.kron')
    for key in ('asm', 'asm_coo'):
        if err(r[key]) or r[key]['shape'] != [M, N] or r[key]['triples'] != triples(A):
            bad.append(('asmatrix', '%s: asmatrix() is not the matrix denoted by the data tensor' % key))
            break
    if not (isinstance(r['dot'], dict) and r['dot'].get('error') == 'Skipped'):
        if err(r['dot']) or r['dot'] != matvec(M, A, c['x']):
            bad.append(('matvec-' + ('square' if M == N else 'rect') + '-L%s' % ('nd' if L >= 4 or L == 1 else L),
                        'dot(x) differs from the dense product: got %s expected %s' % (str(r['dot'])[:80], matvec(M, A, c['x'])[:12])))
    # level reordering permutes the Kronecker factors
    axes = c['axes']
    rd, cd = [b[0] for b in bs], [b[1] for b in bs]
    Ar = {}
    for (i, j), v in A.items():
        Ii, Jj = unravel(i, rd), unravel(j, cd)
        Ar[(ravel([Ii[a] for a in axes], [rd[a] for a in axes]), ravel([Jj[a] for a in axes], [cd[a] for a in axes]))] = v
    if err(r['reo']) or r['reo']['triples'] != triples(Ar) or r['reo']['shape'] != [M, N]:
        bad.append(('reorder', 'reorder(%s).asmatrix() is not the matrix with permuted Kronecker factors' % (axes,)))
    exp_reonz = kron_positions([bs[a] for a in axes], [bidx[a] for a in axes])
    if L >= 2 or True:
        if err(r['reo_nz']) or pairs(r['reo_nz']) != exp_reonz:
            bad.append(('reorder-structure', 'MLStructure.reorder(%s).nonzero() is not the permuted pattern' % (axes,)))
    # construction from a matrix picks the entries at the pattern positions
    if c.get('matrix') is not None:
        exp = [c['matrix'][i * N + j] for (i, j) in pos]
        # (scipy's fancy indexing of a sparse matrix with EMPTY index arrays does not return an
        #  empty result; that corner of the matrix= constructor is outside the property)
        for key in ('dfm', 'dfm_sparse') if pos else ('dfm',):
            if r[key] != exp:
                bad.append(('from-matrix', 'MLMatrix(matrix=A).data is not A at the pattern positions (%s)' % key))
                break
    # transpose index per level: position of the mirrored entry, an involution
    for k, (p, t) in enumerate(zip(bidx, r['tidx'])):
        pset = [tuple(e) for e in p]
        sym = all((e[1], e[0]) in pset for e in pset)
        if not sym:
            if not (err(t) and t['error'] == 'KeyError'):
                bad.append(('transpose-idx-unsym', 'get_transpose_idx_for_bidx on a non-symmetric pattern did not raise KeyError'))
        elif len(set(pset)) == len(pset):
            if err(t) or any(pset[t[q]] != (pset[q][1], pset[q][0]) for q in range(len(pset))) or any(t[t[q]] != q for q in range(len(pset))):
                bad.append(('transpose-idx', 'get_transpose_idx_for_bidx is not the mirror involution on level %d' % k))
    if r.get('joinslice') is not True:
        bad.append(('join-slice', 'slice(0,k).join(slice(k,L)) does not reproduce the structure: %s' % (r.get('joinslice'),)))
    if r.get('nnz') != len(c['data']):
        bad.append(('nnz', 'nnz %s != size of the data tensor %d' % (r.get('nnz'), len(c['data']))))
    return bad


def sparsity_truth(kv1, p1, kv2, p2):
    """pairs (i,j): function i of kv2 and function j of kv1 overlap in positive length"""
    s1 = [(kv1[j], kv1[j + p1 + 1]) for j in range(len(kv1) - p1 - 1)]
    s2 = [(kv2[i], kv2[i + p2 + 1]) for i in range(len(kv2) - p2 - 1)]
    return [[i, j] for i in range(len(s2)) for j in range(len(s1))
            if min(s1[j][1], s2[i][1]) > max(s1[j][0], s2[i][0])]


# ---------------------------------------------------------------------------
# enumeration of all 0/1 patterns of small blocks (shared by driver and harness)
# ---------------------------------------------------------------------------

def sweep_total(blocks):
    return prod(2 ** (m * n) for m, n in blocks)


def sweep_bidx(blocks, idx):
    rem = idx
    bidx = []
    for (m, n) in blocks:
        b = m * n
        bits = rem % (2 ** b)
        rem //= 2 ** b
        bidx.append([[q // n, q % n] for q in range(b) if (bits >> q) & 1])
    return bidx


def sweep_case(blocks, idx):
    """all rows and all columns are queried, in an unsorted duplicate-free order"""
    M, N = prod(b[0] for b in blocks), prod(b[1] for b in blocks)
    return {'kind': 'ml', 'bs': [list(b) for b in blocks], 'bidx': sweep_bidx(blocks, idx),
            'rows': [(r * 5 + 3) % M for r in range(M)] if M % 5 else list(range(M - 1, -1, -1)),
            'cols': list(range(N - 1, -1, -1))}


def sweep_kronp_case(blocks, idx):
    """factor matrices with distinct non-zero values at the pattern positions; all rows, unsorted"""
    As = []
    for (m, n), p in zip(blocks, sweep_bidx(blocks, idx)):
        A = [[0] * n for _ in range(m)]
        for (i, j) in p:
            A[i][j] = i * n + j + 1
        As.append(A)
    M = prod(b[0] for b in blocks)
    return {'kind': 'kronp', 'As': As, 'rows': [(r * 5 + 3) % M for r in range(M)] if M % 5 else list(range(M - 1, -1, -1))}


def check_kronp(c, r):
    """kron_partial = selected rows of the dense Kronecker product; from_kronecker = its pattern"""
    bad = []

    def err(x):
        return isinstance(x, dict) and 'error' in x
    if err(r):
        return [('kron-partial-raises', 'kron_partial could not be evaluated: %s' % (r,))]
    K = kron_dense(c['As'])
    M, N = len(K), len(K[0]) if K else 0
    rows = c['rows']
    if c['restrict']:
        exp = sorted([q, j, K[rw][j]] for q, rw in enumerate(rows) for j in range(N) if K[rw][j] != 0)
        shp = [len(rows), N]
    else:
        exp = sorted([rw, j, K[rw][j]] for rw in rows for j in range(N) if K[rw][j] != 0)
        shp = [M, N]
    for key in ('out', 'out_csc'):
        if err(r[key]) or r[key]['triples'] != exp or r[key]['shape'] != shp:
            bad.append(('kron-partial' + (':restrict' if c['restrict'] else ''),
                        'kron_partial(rows=%s, restrict=%s) is not the selected rows of the Kronecker product: %s' % (
                            rows, c['restrict'], str(r[key])[:120])))
            break
    exp_nz = sorted((i, j) for i in range(M) for j in range(N) if K[i][j] != 0)
    if err(r['from_kronecker_nz']) or sorted(zip(*r['from_kronecker_nz'])) != exp_nz:
        bad.append(('from-kronecker', 'MLStructure.from_kronecker(As).nonzero() is not the pattern of kron(As)'))
    return bad
