(* C04 -- admissibility for disparity 1 (default marking): no active function of level k is non-zero on
   an active cell of level > k + 1, on every reachable state of a valid hierarchy whose knot
   multiplicities are all >= 1.  Induction over the calls with the cell-level invariants CC / I2, using the
   closedness of the marking closure and the nestedness of support extensions across levels. *)
From Coq Require Import List Arith Bool Lia.
From Verif.lib Require Import FinSet.
From Verif.C04 Require Import Model Proofs ProofsFun ProofsMesh ProofsQuery ProofsClosure Children ProofsChildren ProofsParents.
Import ListNotations.

(* c' lies in the support of a level-k function that does not vanish on the level-k ancestor of the
   level-j cell c  (= membership in cell_support_extension(j, [c], k), see in_cse_iff) *)
Definition inCSE (st : hspace) (j : nat) (c : mi) (k : nat) (c' : mi) : Prop :=
  exists f, In f (tp_functions (msh st k)) /\ In (anc (j - k) c) (support1 (msh st k) f) /\ In c' (support1 (msh st k) f).

Definition CC (st : hspace) : Prop :=
  forall j c k c', In c (A st j) -> j < numlevels st -> k + 1 < j -> inCSE st j c k c' -> In c' (D st k).
Definition I2 (st : hspace) : Prop :=
  forall j c c', In c (A st j) -> 1 <= j -> j < numlevels st -> inCSE st j c (j - 1) c' ->
    In c' (A st (j - 1)) \/ In c' (D st (j - 1)).
Definition closed1 (st : hspace) (m : list set) : Prop :=
  forall l c0 c', 1 <= l -> l < numlevels st -> In c0 (mk m l) -> inCSE st l c0 (l - 1) c' ->
    In c' (A st (l - 1)) -> In c' (mk m (l - 1)).

Section Step.
  Variable axes : list axis.
  Hypothesis HA : Forall axis_ok axes.
  Hypothesis HP : Forall axis_pos axes.
  Let base := tpmesh_of axes.
  Let H : hier_ok base := hier_ok_valid axes HA.

  Lemma msh_lv : forall st k, good2 base st -> k < numlevels st ->
    msh st k = tpmesh_of (Nat.iter k (map ax_refine) axes).
  Proof. intros st k G Hk. rewrite (g2_msh _ _ G k Hk). apply iter_refine_tpmesh_of. Qed.

  Lemma inCSE_parent : forall st j c k c', k + 1 <= j ->
    (inCSE st j c k c' <-> inCSE st (j - 1) (parent1 c) k c').
  Proof.
    intros st j c k c' Hk. unfold inCSE.
    replace (anc (j - k) c) with (anc (j - 1 - k) (parent1 c)); [tauto|].
    rewrite anc_parent. f_equal. lia.
  Qed.

  (* nestedness of support extensions across levels *)
  Lemma support_extension_nested : forall st l c c', good2 base st -> 1 <= l -> l < numlevels st ->
    inCSE st l c l c' -> inCSE st l c (l - 1) (parent1 c').
  Proof.
    intros st l c c' G Hl1 HlL [g [HG [Hc Hc']]]. rewrite Nat.sub_diag in Hc. simpl in Hc.
    destruct l as [|l]; [lia|]. replace (S l - 1) with l by lia.
    rewrite (msh_lv st (S l) G HlL) in HG, Hc, Hc'.
    change (Nat.iter (S l) (map ax_refine) axes) with (map ax_refine (Nat.iter l (map ax_refine) axes)) in HG, Hc, Hc'.
    set (ax_l := Nat.iter l (map ax_refine) axes) in *.
    assert (HAl : Forall axis_ok ax_l) by (apply axes_ok_iter; auto).
    assert (HPl : Forall axis_pos ax_l) by (apply axes_pos_iter; auto).
    change (tpmesh_of (map ax_refine ax_l)) with (tp_refine (tpmesh_of ax_l)) in HG, Hc, Hc'.
    destruct (parent_exists_l ax_l g HAl HPl HG) as [f [HF Hch]].
    destruct (children_inside_parent_support_l ax_l f g HAl HF Hch) as [_ Hin].
    exists f. rewrite (msh_lv st l G ltac:(lia)). fold ax_l.
    split; [exact HF|]. split.
    - replace (S l - l) with 1 by lia. change (anc 1 c) with (parent1 c). apply Hin. exact Hc.
    - apply Hin. exact Hc'.
  Qed.

  Section Refined.
    Variable st : hspace.
    Variable m : list set.
    Hypothesis G : good2 base st.
    Hypothesis V : marks_valid st m.
    Hypothesis HCC : CC st.
    Hypothesis HI2 : I2 st.
    Hypothesis HCL : closed1 st m.

    Let I : cells_inv st := g_cells _ (g2_good _ _ G).
    Let st' := refined st m.
    Let I' : cells_inv st' := cells_inv_refined st m I V.

    Lemma Omono : forall k c, In c (A st k) \/ In c (D st k) -> In c (A st' k) \/ In c (D st' k).
    Proof.
      intros k c Hc. unfold st'. rewrite (refined_A st m V (ci_pos _ I)), (refined_D st m V).
      destruct (In_dec_mi c (mk m k)); tauto.
    Qed.

    Lemma Dmono : forall k c, In c (D st k) \/ In c (mk m k) -> In c (D st' k).
    Proof. intros k c Hc. unfold st'. rewrite (refined_D st m V). exact Hc. Qed.

    (* the support extension one level below a marked cell ends up deactivated *)
    Lemma below_marked : forall l cp c', 1 <= l -> l < numlevels st -> In cp (mk m l) ->
      inCSE st l cp (l - 1) c' -> In c' (D st' (l - 1)).
    Proof.
      intros l cp c' Hl1 HlL Hcp Hin. pose proof V as [Va _].
      destruct (HI2 l cp c' (Va l cp Hcp) Hl1 HlL Hin) as [Ha|Hd].
      - apply Dmono. right. apply (HCL l cp c'); auto.
      - apply Dmono. left. exact Hd.
    Qed.

    Lemma CC_refined : CC st'.
    Proof.
      intros j c k c' Hc Hj Hk Hin. unfold st' in Hj. rewrite numlevels_refined in Hj.
      change (inCSE st j c k c') in Hin.
      unfold st' in Hc. rewrite (refined_A st m V (ci_pos _ I)) in Hc. destruct Hc as [[Hold|[Hj0 Hp]] _].
      - apply Dmono. left. apply (HCC j c k c'); auto.
      - pose proof V as [Va _]. apply (inCSE_parent st j c k c') in Hin; [|lia].
        destruct (Nat.eq_dec (k + 2) j) as [E|E].
        + replace k with (j - 1 - 1) by lia. apply (below_marked (j - 1) (parent1 c) c'); try lia; auto.
          replace (j - 1 - 1) with k by lia. exact Hin.
        + apply Dmono. left. apply (HCC (j - 1) (parent1 c) k c'); auto; lia.
    Qed.

    Lemma I2_refined : I2 st'.
    Proof.
      intros j c c' Hc Hj1 Hj Hin. unfold st' in Hj. rewrite numlevels_refined in Hj.
      change (inCSE st j c (j - 1) c') in Hin.
      unfold st' in Hc. rewrite (refined_A st m V (ci_pos _ I)) in Hc. destruct Hc as [[Hold|[Hj0 Hp]] _].
      - apply Omono. apply (HI2 j c c'); auto.
      - pose proof V as [Va _]. apply (inCSE_parent st j c (j - 1) c') in Hin; [|lia].
        set (cp := parent1 c) in *.
        destruct (Nat.eq_dec j 1) as [->|Hne].
        + (* level 0: every cell of a support lies in Omega_0 *)
          simpl in Hin. destruct Hin as [f [HF [_ Hc']]].
          apply Omono. apply (ci_root _ I).
          apply (mo_incells _ (good2_meshes_fine _ _ H G 0 ltac:(lia)) f c'); auto.
        + assert (Hn : inCSE st (j - 1) cp (j - 1 - 1) (parent1 c')).
          { apply support_extension_nested; auto; lia. }
          assert (Hd : In (parent1 c') (D st' (j - 1 - 1))).
          { apply (below_marked (j - 1) cp (parent1 c')); auto; lia. }
          replace (j - 1) with (S (j - 1 - 1)) by lia. apply (ci_nest _ I'). exact Hd.
    Qed.
  End Refined.
End Step.

(* ------------------------------------------------------------------------- *)
(* along a history                                                             *)

Section History.
  Variable axes : list axis.
  Hypothesis HA : Forall axis_ok axes.
  Hypothesis HP : Forall axis_pos axes.
  Let base := tpmesh_of axes.
  Let H : hier_ok base := hier_ok_valid axes HA.

  Lemma in_cse_iff : forall st j c k c', good2 base st -> k <= j -> j < numlevels st ->
    In c (A st j) \/ In c (D st j) ->
    (In c' (cell_support_extension st j [c] k) <-> inCSE st j c k c').
  Proof.
    intros st j c k c' G Hk Hj Hc.
    rewrite (cell_support_extension_spec base st j [c] k c' G H Hk Hj).
    - unfold inCSE. split.
      + intros [f [HF [[c0 [[<-|[]] Hin]] Hc']]]. exists f. auto.
      + intros [f [HF [Hin Hc']]]. exists f. split; auto. split; auto. exists c. split; [left; auto | exact Hin].
    - intros c0 [<-|[]]. rewrite (g2_len _ _ G j c Hj Hc). apply (good2_dim _ _ j G Hj).
  Qed.

  Lemma cse_many : forall st l cells c0 k c', good2 base st -> k <= l -> l < numlevels st ->
    (forall c, In c cells -> In c (A st l)) -> In c0 cells ->
    inCSE st l c0 k c' -> In c' (cell_support_extension st l cells k).
  Proof.
    intros st l cells c0 k c' G Hk Hl Hcs Hc0 [f [HF [Hin Hc']]].
    apply (cell_support_extension_spec base st l cells k c' G H Hk Hl).
    - intros c Hc. rewrite (g2_len _ _ G l c Hl (or_introl (Hcs c Hc))). apply (good2_dim _ _ l G Hl).
    - exists f. split; auto. split; auto. exists c0. auto.
  Qed.

  (* empty levels do not matter *)
  Lemma inCSE_add_level : forall st j c k c', k < length (hs_meshes st) ->
    (inCSE (add_level st) j c k c' <-> inCSE st j c k c').
  Proof. intros st j c k c' Hk. unfold inCSE. rewrite (msh_add_level_old st k Hk). tauto. Qed.

  Lemma CC_I2_add_level : forall st, good2 base st -> CC st /\ I2 st -> CC (add_level st) /\ I2 (add_level st).
  Proof.
    intros st G [HCC HI2]. pose proof (g_meshes _ (g2_good _ _ G)) as M. unfold meshes_ok in M.
    split.
    - intros j c k c' Hc Hj Hk Hin. unfold A, D in *. rewrite lvl_add_level in *.
      rewrite numlevels_add_level in Hj.
      destruct (Nat.eq_dec j (numlevels st)) as [->|Hne]; [rewrite lvl_overflow in Hc by lia; destruct Hc|].
      apply (inCSE_add_level st j c k c') in Hin; [|lia].
      apply (HCC j c k c'); auto. lia.
    - intros j c c' Hc Hj1 Hj Hin. unfold A, D in *. rewrite !lvl_add_level in *.
      rewrite numlevels_add_level in Hj.
      destruct (Nat.eq_dec j (numlevels st)) as [->|Hne]; [rewrite lvl_overflow in Hc by lia; destruct Hc|].
      apply (inCSE_add_level st j c (j - 1) c') in Hin; [|lia].
      apply (HI2 j c c'); auto. lia.
  Qed.

  Lemma CC_I2_ensure : forall st L, good2 base st -> CC st /\ I2 st ->
    CC (ensure_levels st L) /\ I2 (ensure_levels st L).
  Proof.
    intros st L G HI. unfold ensure_levels.
    assert (X : forall n, good2 base (Nat.iter n add_level st) /\ (CC (Nat.iter n add_level st) /\ I2 (Nat.iter n add_level st))).
    { induction n as [|n [IH1 IH2]]; simpl; [auto|]. split; [apply good2_add_level; auto | apply CC_I2_add_level; auto]. }
    apply X.
  Qed.

  Record inv1 (st : hspace) : Prop := {
    i1_good : good2 base st; i1_cc : CC st; i1_i2 : I2 st; i1_disp : hs_disparity st = Some 1 }.

  Lemma inv1_hs_refine : forall st raw st' m, inv1 st -> raw_valid st raw ->
    hs_refine st raw false = Ok (st', m) -> inv1 st'.
  Proof.
    intros st raw st' m [G HCC HI2 Hdisp] Hv E.
    destruct (hs_refine_spec _ _ _ _ _ (g2_good _ _ G) Hv E) as [mx [Emx [-> [V _]]]].
    destruct (hs_refine_closed st raw false _ m 1 Hdisp (le_n 1) E) as [mx' [Emx' Hcl]].
    rewrite Emx in Emx'. injection Emx' as <-. simpl in Hcl.
    set (st1 := ensure_levels st (mx + 2)) in *.
    assert (G1 : good2 base st1) by (apply good2_ensure; auto).
    destruct (CC_I2_ensure st (mx + 2) G (conj HCC HI2)) as [HCC1 HI21]. fold st1 in HCC1, HI21.
    assert (HCL : closed1 st1 m).
    { intros l c0 c' Hl1 HlL Hc0 Hin Ha. replace (l - 1) with (l - 1) by lia.
      apply (Hcl l c' HlL). unfold cell_neighborhood.
      assert (El : (l <? 1) = false) by (apply Nat.ltb_ge; lia). rewrite El.
      apply inter_In. split; [exact Ha|].
      pose proof V as [Va _].
      apply (cse_many st1 l (mk m l) c0 (l - 1) c' G1 ltac:(lia) HlL (Va l) Hc0 Hin). }
    constructor.
    - apply good2_refined; auto.
    - apply (CC_refined axes st1 m G1 V HCC1 HI21 HCL).
    - apply (I2_refined axes HA HP st1 m G1 V HI21 HCL).
    - unfold refined. simpl. unfold st1. rewrite disparity_ensure. exact Hdisp.
  Qed.

  (* default marking: refine(marked) without truncate=True; refine_region always marks by default *)
  Definition op_default (o : op) : Prop := match o with Refine _ t => t = false | RefineRegion _ _ => True end.

  Lemma inv1_ensure : forall st L, inv1 st -> inv1 (ensure_levels st L).
  Proof.
    intros st L [G HCC HI2 Hdisp]. destruct (CC_I2_ensure st L G (conj HCC HI2)).
    constructor; auto. apply good2_ensure; auto. rewrite disparity_ensure. exact Hdisp.
  Qed.

  Lemma inv1_step : forall st o, inv1 st -> op_valid st o -> op_default o -> inv1 (fst (step st o)).
  Proof.
    intros st [raw trunc|lv sel] Hi V Hdef; simpl in *.
    - subst trunc. destruct (hs_refine st raw false) as [[st' m]| |] eqn:E; simpl; auto.
      eapply inv1_hs_refine; eauto.
    - unfold hs_refine_region. set (st1 := ensure_levels st (lv + 2)).
      assert (Hi1 : inv1 st1) by (apply inv1_ensure; auto).
      destruct (hs_refine st1 _ false) as [[st' m]| |] eqn:E; simpl; auto.
      eapply inv1_hs_refine; [exact Hi1 | | exact E].
      intros k c. simpl. destruct (lv =? k) eqn:Ek; [|intros []].
      apply Nat.eqb_eq in Ek; subst k. rewrite filter_In. tauto.
  Qed.

  Lemma inv1_run : forall ops st, inv1 st -> ops_valid st ops -> Forall op_default ops -> inv1 (run st ops).
  Proof.
    induction ops as [|o ops IH]; intros st Hi V Hdef; simpl; auto.
    destruct V as [V1 V2]. inversion Hdef; subst. apply IH; auto. apply inv1_step; auto.
  Qed.

  Lemma inv1_init : inv1 (hs_init axes (Some 1)).
  Proof.
    constructor.
    - apply good2_init; auto. intros d E. injection E as <-. lia.
    - intros j c k c' Hc Hj Hk. unfold numlevels, hs_init in Hj. simpl in Hj. lia.
    - intros j c c' Hc Hj1 Hj. unfold numlevels, hs_init in Hj. simpl in Hj. lia.
    - reflexivity.
  Qed.

  (* the cell condition, hence admissibility, on every reachable state for disparity 1 *)
  Lemma cell_condition_d1 : forall ops,
    ops_valid (hs_init axes (Some 1)) ops -> Forall op_default ops ->
    cell_condition axes (Some 1) ops 1.
  Proof.
    intros ops V Hdef j c k c' Hc Hj Hk Hin.
    destruct (inv1_run ops _ inv1_init V Hdef) as [G HCC _ _].
    apply (HCC j c k c'); auto.
    apply (in_cse_iff _ j c k c' G ltac:(lia) Hj (or_introl Hc)). exact Hin.
  Qed.

  Lemma disparity_admissible_d1_l : forall ops,
    ops_valid (hs_init axes (Some 1)) ops -> Forall op_default ops ->
    admissible axes (Some 1) ops 1.
  Proof.
    intros ops V Hdef. apply admissible_from_cell_condition_l; auto.
    - intros d E. injection E as <-. lia.
    - apply cell_condition_d1; auto.
  Qed.
End History.
