(* C20 -- non-vacuity of Props2.v (vm_compute tests on concrete histories; orc_ref: Header => Crash). *)
From Coq Require Import List Arith.
From Verif.C20 Require Import Model Verify VProofs.
Import ListNotations.

(* the open finding of protocol New, replayed on Ver: build, cut the finished .so to its header, request again:
   Ver rebuilds (outcome code 0), the entry and its stamp are complete afterwards, no build directory is left *)
Example damaged_so_is_rebuilt :
  vpredict orc_ref 1 [VERun 0; VEDmg RSo (Some Header); VERun 0] =
  [([0], [0; 1;0;0;0;1], [3;6;2;10;11;12;13;14;20;21;22;23;24;30;31;32;33;34;40;41;42;43;44;60;61;62;63;64;50;53;51;52]);
   ([],  [0; 3;0;0;0;1], []);
   ([0], [0; 1;0;0;0;1], [3;6;2;10;11;12;13;14;20;21;22;23;24;30;31;32;33;34;40;41;42;43;44;60;61;62;63;64;50;53;51;52])].
Proof. vm_compute. reflexivity. Qed.
(* ... whereas New dies there (Model.predict, same history) *)
Example damaged_so_kills_New :
  map (fun x => fst (fst x)) (predict New orc_ref 1 [ERun 0; EDmg So (Some Header); ERun 0]) = [[0]; []; [2]].
Proof. vm_compute. reflexivity. Qed.

(* a cache hit: the second request goes mkdir, verify, import *)
Example second_request_hits :
  map snd (vpredict orc_ref 1 [VERun 0; VERun 0]) =
  [[3;6;2;10;11;12;13;14;20;21;22;23;24;30;31;32;33;34;40;41;42;43;44;60;61;62;63;64;50;53;51;52]; [3;6;1]].
Proof. vm_compute. reflexivity. Qed.

(* every class of damage of the stamp, and its deletion: rebuilt *)
Example damaged_stamp_is_rebuilt :
  map (fun k => map (fun x => fst (fst x)) (vpredict orc_ref 1 [VERun 0; VEDmg ROk k; VERun 0]))
      [None; Some Empty; Some Header; Some Half; Some AllButLast; Some Garbage] =
  repeat [[0]; []; [0]] 6.
Proof. vm_compute. reflexivity. Qed.

(* killed between the two publishing renames: new .so without stamp; the next request rebuilds *)
Example kill_between_renames :
  map (fun x => fst x) (vpredict orc_ref 1 [VEKill 0 VReplaceOk; VERun 0]) =
  [([3], [1; 1;0;0;0;0]); ([0], [1; 1;0;0;0;1])].
Proof. vm_compute. reflexivity. Qed.

(* two publishers: .so of 1, stamp of 0 (so_0 so_1 ok_1 ok_0): the pair does not verify; process 2 rebuilds and
   gets the right assembler; hypotheses of ver_completed_never_overwritten are met along the way *)
Definition tr_cross : list label :=
  [Spawn 0 0; Spawn 1 0] ++ repeat (Step 0) 28 ++ repeat (Step 1) 28 ++ [Step 0; Step 1; Step 1; Step 0].
Example stamp_mismatch_rebuilds :
  vfiles (vrun orc_ref tr_cross vinit) (VFinal RSo 0) = VComplete (0, 1) /\
  vfiles (vrun orc_ref tr_cross vinit) (VFinal ROk 0) = VComplete (0, 0) /\
  voutcome_of (vsolo orc_ref VFUEL (vstep orc_ref (vrun orc_ref tr_cross vinit) (Spawn 2 0)) 2) 2 = Some (Ok 0) /\
  vfiles (vsolo orc_ref VFUEL (vstep orc_ref (vrun orc_ref tr_cross vinit) (Spawn 2 0)) 2) (VFinal ROk 0) = VComplete (0, 2).
Proof. vm_compute. auto. Qed.

(* the invariant's hypotheses are inhabited by a directory full of damage: every entry of form 0 in a crash class *)
Example every_directory_instance :
  let st := vdamage_all (vdamage_all (vrun orc_ref (Spawn 0 0 :: repeat (Step 0) 34) vinit) RSo (Some Header)) ROk (Some Garbage) in
  vfiles st (VFinal RSo 0) = VPartial Header (0, 0) /\ orc_ref Header = Crash /\
  voutcome_of (vsolo orc_ref VFUEL (vstep orc_ref st (Spawn 1 0)) 1) 1 = Some (Ok 0).
Proof. vm_compute. auto. Qed.
