(* C19 -- knots_to_mesh is the order isomorphism between knot values and mesh indices:
   monotone, steps by exactly one across every non-empty span, 0 at the first knot and numspans
   at the last; hence the m-th entry of mesh_span_indices is the knot span of mesh cell m and
   mesh_support_idx is an ordered pair of mesh indices.  For every knot vector. *)
From Coq Require Import QArith Qcanon ZArith List Arith Bool Lia Lqa.
From Verif.lib Require Import Bsp NpCore NpQ.
From Verif.C02 Require Import Proofs.
From Verif.C19 Require Import Model Proofs Proofs2.
Import ListNotations.
Open Scope Qc_scope.

(* ---- strictly increasing lists ---- *)
Lemma strict_nth_lt m : adjb qltb m = true -> forall i j, (i < j)%nat -> (j < length m)%nat ->
  nth i m 0 < nth j m 0.
Proof.
  induction m as [|a t IH]; intros H i j Hij Hj; [cbn in Hj; lia|].
  destruct j as [|j]; [lia|]. cbn [length] in Hj. destruct i as [|i].
  - cbn [nth]. apply (strict_head_lt a t H). apply nth_In. lia.
  - cbn [nth]. apply IH; [eapply strict_tail; exact H|lia|lia].
Qed.

Lemma strict_nth_idx_lt m i j : adjb qltb m = true -> (i < length m)%nat -> (j < length m)%nat ->
  nth i m 0 < nth j m 0 -> (i < j)%nat.
Proof.
  intros H Hi Hj Hlt. destruct (Nat.lt_trichotomy i j) as [L|[E|L]]; [exact L| |]; exfalso.
  - subst j. exact (lt_irrefl_q _ Hlt).
  - pose proof (strict_nth_lt m H j i L Hi) as G. apply (lt_irrefl_q (nth i m 0)).
    eapply Qclt_trans; eassumption.
Qed.

(* ---- knots_to_mesh ---- *)
Definition k2m (kv : list Qc) (i : nat) : nat := nth i (knots_to_mesh kv) 0%nat.

Lemma k2m_spec kv i : (i < length kv)%nat ->
  (k2m kv i < length (mesh kv))%nat /\ nth (k2m kv i) (mesh kv) 0 = kn kv i.
Proof. apply k2m_mesh_l. Qed.

Lemma k2m_lt kv i j : (i < length kv)%nat -> (j < length kv)%nat -> kn kv i < kn kv j ->
  (k2m kv i < k2m kv j)%nat.
Proof.
  intros Hi Hj Hlt. destruct (k2m_spec kv i Hi) as [A1 A2]. destruct (k2m_spec kv j Hj) as [B1 B2].
  apply (strict_nth_idx_lt (mesh kv)); [apply mesh_strict_l|exact A1|exact B1|]. rewrite A2, B2. exact Hlt.
Qed.

Lemma k2m_monotone_l kv i j : kv_valid kv = true -> (i <= j)%nat -> (j < length kv)%nat ->
  (k2m kv i <= k2m kv j)%nat.
Proof.
  intros Hv Hij Hj. apply sortedb_idx in Hv.
  destruct (Qcle_lt_or_eq _ _ (Hv i j Hij Hj)) as [L|E].
  - apply Nat.lt_le_incl. apply k2m_lt; [lia|exact Hj|exact L].
  - unfold k2m. rewrite (proj2 (k2m_eq_iff kv i j ltac:(lia) Hj) E). lia.
Qed.

Lemma k2m_lt_iff kv i j : kv_valid kv = true -> (i <= j)%nat -> (j < length kv)%nat ->
  ((k2m kv i < k2m kv j)%nat <-> kn kv i < kn kv j).
Proof.
  intros Hv Hij Hj. split; [|apply k2m_lt; [lia|exact Hj]].
  intros Hlt. apply sortedb_idx in Hv.
  destruct (Qcle_lt_or_eq _ _ (Hv i j Hij Hj)) as [L|E]; [exact L|exfalso].
  unfold k2m in Hlt. rewrite (proj2 (k2m_eq_iff kv i j ltac:(lia) Hj) E) in Hlt. lia.
Qed.

(* a mesh value is a knot *)
Lemma mesh_nth_knot kv m : (m < length (mesh kv))%nat -> exists t, (t < length kv)%nat /\ kn kv t = nth m (mesh kv) 0.
Proof.
  intros Hm. assert (Hin : In (nth m (mesh kv) 0) kv) by (apply mesh_In; apply nth_In; exact Hm).
  destruct (In_nth _ _ 0 Hin) as [t [Ht E]]. exists t. split; [exact Ht|exact E].
Qed.

(* across a non-empty span the mesh index advances by exactly one *)
Lemma k2m_step_l kv i : kv_valid kv = true -> (S i < length kv)%nat -> kn kv i < kn kv (S i) ->
  k2m kv (S i) = S (k2m kv i).
Proof.
  intros Hv Hi Hlt. pose proof (sortedb_idx kv Hv) as Hs.
  pose proof (k2m_lt kv i (S i) ltac:(lia) Hi Hlt) as Hk.
  destruct (k2m_spec kv i ltac:(lia)) as [A1 A2]. destruct (k2m_spec kv (S i) Hi) as [B1 B2].
  destruct (Nat.eq_dec (k2m kv (S i)) (S (k2m kv i))) as [E|Hne]; [exact E|exfalso].
  assert (Hgap : (S (k2m kv i) < k2m kv (S i))%nat) by lia.
  pose proof (strict_nth_lt (mesh kv) (mesh_strict_l kv) (k2m kv i) (S (k2m kv i)) ltac:(lia) ltac:(lia)) as Y1.
  pose proof (strict_nth_lt (mesh kv) (mesh_strict_l kv) (S (k2m kv i)) (k2m kv (S i)) Hgap B1) as Y2.
  rewrite A2 in Y1. rewrite B2 in Y2.
  destruct (mesh_nth_knot kv (S (k2m kv i)) ltac:(lia)) as [t [Ht Et]]. rewrite <- Et in Y1, Y2.
  destruct (Nat.le_gt_cases t i) as [L|L].
  - apply (Qclt_not_le _ _ Y1). apply Hs; lia.
  - apply (Qclt_not_le _ _ Y2). apply Hs; lia.
Qed.

Lemma k2m_same_l kv i : (S i < length kv)%nat -> kn kv i = kn kv (S i) -> k2m kv (S i) = k2m kv i.
Proof. intros Hi E. unfold k2m. symmetry. apply k2m_eq_iff; [lia|exact Hi|exact E]. Qed.

Lemma k2m_first_l kv : kv_valid kv = true -> kv <> [] -> k2m kv 0 = 0%nat.
Proof.
  intros Hv Hne. pose proof (sortedb_idx kv Hv) as Hs.
  assert (H0 : (0 < length kv)%nat) by (destruct kv; [congruence|cbn; lia]).
  destruct (k2m_spec kv 0 H0) as [A1 A2].
  destruct (Nat.eq_dec (k2m kv 0) 0) as [E|Hne0]; [exact E|exfalso].
  pose proof (strict_nth_lt (mesh kv) (mesh_strict_l kv) 0 (k2m kv 0) ltac:(lia) A1) as Y. rewrite A2 in Y.
  destruct (mesh_nth_knot kv 0 ltac:(lia)) as [t [Ht Et]]. rewrite <- Et in Y.
  apply (Qclt_not_le _ _ Y). apply Hs; lia.
Qed.

Lemma k2m_last_l kv : kv_valid kv = true -> kv <> [] -> k2m kv (length kv - 1) = numspans kv.
Proof.
  intros Hv Hne. pose proof (sortedb_idx kv Hv) as Hs. unfold numspans.
  assert (H0 : (0 < length kv)%nat) by (destruct kv; [congruence|cbn; lia]).
  destruct (k2m_spec kv (length kv - 1) ltac:(lia)) as [A1 A2].
  destruct (Nat.eq_dec (k2m kv (length kv - 1)) (length (mesh kv) - 1)) as [E|Hne0]; [exact E|exfalso].
  pose proof (strict_nth_lt (mesh kv) (mesh_strict_l kv) (k2m kv (length kv - 1)) (length (mesh kv) - 1)
                ltac:(lia) ltac:(lia)) as Y. rewrite A2 in Y.
  destruct (mesh_nth_knot kv (length (mesh kv) - 1) ltac:(lia)) as [t [Ht Et]]. rewrite <- Et in Y.
  apply (Qclt_not_le _ _ Y). apply Hs; lia.
Qed.

(* ---- the m-th listed span is the knot span of mesh cell m ---- *)
Definition jump (kv : list Qc) (i : nat) : bool :=
  negb (Nat.eqb (nth (S i) (knots_to_mesh kv) 0%nat) (nth i (knots_to_mesh kv) 0%nat)).

Lemma span_prefix_cells kv : kv_valid kv = true -> kv <> [] -> forall k, (k < length kv)%nat ->
  map (k2m kv) (filter (jump kv) (seq 0 k)) = seq 0 (k2m kv k).
Proof.
  intros Hv Hne. pose proof (sortedb_idx kv Hv) as Hs.
  induction k as [|k IH]; intros Hk.
  - rewrite k2m_first_l by assumption. reflexivity.
  - rewrite seq_S, filter_app, map_app, IH by lia. cbn [plus filter].
    unfold jump at 1. fold (k2m kv (S k)). fold (k2m kv k).
    destruct (Nat.eqb_spec (k2m kv (S k)) (k2m kv k)) as [E|Hn]; cbn [negb map].
    + rewrite E, app_nil_r. reflexivity.
    + assert (Hlt : kn kv k < kn kv (S k)).
      { destruct (Qcle_lt_or_eq _ _ (Hs k (S k) ltac:(lia) Hk)) as [L|E]; [exact L|exfalso].
        apply Hn. apply k2m_same_l; assumption. }
      rewrite (k2m_step_l kv k Hv Hk Hlt). rewrite seq_S. reflexivity.
Qed.

Lemma span_indices_cells_l kv : kv_valid kv = true -> kv <> [] ->
  map (k2m kv) (mesh_span_indices kv) = seq 0 (numspans kv).
Proof.
  intros Hv Hne. rewrite mesh_span_indices_unfold, k2m_length.
  assert (H0 : (0 < length kv)%nat) by (destruct kv; [congruence|cbn; lia]).
  change (fun i => negb (Nat.eqb (nth (S i) (knots_to_mesh kv) 0%nat) (nth i (knots_to_mesh kv) 0%nat))) with (jump kv).
  rewrite (span_prefix_cells kv Hv Hne (length kv - 1) ltac:(lia)).
  rewrite k2m_last_l by assumption. reflexivity.
Qed.

(* the m-th listed span i: mesh cell m is exactly [kv[i], kv[i+1]] *)
Lemma span_cell_l kv m : kv_valid kv = true -> kv <> [] -> (m < numspans kv)%nat ->
  let i := nth m (mesh_span_indices kv) 0%nat in
  (S i < length kv)%nat /\ k2m kv i = m /\ k2m kv (S i) = S m /\
  nth m (mesh kv) 0 = kn kv i /\ nth (S m) (mesh kv) 0 = kn kv (S i) /\ kn kv i < kn kv (S i).
Proof.
  intros Hv Hne Hm i.
  assert (Hlen : length (mesh_span_indices kv) = numspans kv) by (apply span_indices_length_l; assumption).
  assert (Hin : In i (mesh_span_indices kv)) by (apply nth_In; lia).
  apply (span_indices_sorted_In kv i Hv) in Hin. destruct Hin as [Hi Hlt].
  assert (Hk : k2m kv i = m).
  { pose proof (span_indices_cells_l kv Hv Hne) as C.
    assert (E : nth m (map (k2m kv) (mesh_span_indices kv)) 0%nat = nth m (seq 0 (numspans kv)) 0%nat) by (rewrite C; reflexivity).
    rewrite seq_nth in E by exact Hm. cbn [plus] in E. rewrite <- E.
    rewrite (nth_indep _ 0%nat (k2m kv 0%nat)) by (rewrite map_length; lia).
    rewrite (map_nth (k2m kv)). reflexivity. }
  assert (Hk1 : k2m kv (S i) = S m) by (rewrite (k2m_step_l kv i Hv Hi Hlt), Hk; reflexivity).
  destruct (k2m_spec kv i ltac:(lia)) as [_ A]. destruct (k2m_spec kv (S i) Hi) as [_ B].
  rewrite Hk in A. rewrite Hk1 in B. repeat split; assumption.
Qed.

(* mesh_support_idx is an ordered pair of mesh indices, strictly ordered iff the support is not degenerate *)
Lemma mesh_support_idx_ordered_l kv p j : kv_valid kv = true -> (j + p + 1 < length kv)%nat ->
  let '(lo, hi) := mesh_support_idx kv p j in
  (lo <= hi)%nat /\ (hi <= numspans kv)%nat /\ ((lo < hi)%nat <-> kn kv j < kn kv (j + p + 1)).
Proof.
  intros Hv Hj. unfold mesh_support_idx, support_idx. cbn [fst snd].
  fold (k2m kv j). fold (k2m kv (j + p + 1)).
  split; [apply k2m_monotone_l; [exact Hv|lia|exact Hj]|]. split.
  - destruct (k2m_spec kv (j + p + 1) Hj) as [A _]. unfold numspans. lia.
  - apply k2m_lt_iff; [exact Hv|lia|exact Hj].
Qed.
