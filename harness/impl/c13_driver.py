"""Implementation driver for C13 (runs inside the scratch copy of /repo).

stdin: JSON {'mode': ..., ...}; last stdout line: JSON.

modes
  forms   : build each form spec (a Python snippet over the public vform API), return
            vf.hash(), sha256 of compile.generate(vf, on_demand=False/True) (each on a
            freshly built form) and the serialised initial expression trees
  codes   : return the generated source text for a few specs (for reports)
  cache   : request sequences through compile.compile_vform with compile_cython_module
            stubbed (module object = marker carrying the source text)
  fresh   : regenerate assemblers.pyx / genericasm.pxi as scripts/generate-assemblers.py
            does, return both texts + the predefined (form, class) pairs the cache is
            seeded with + module names compile_cython_module derives for given sources
  build   : really compile forms (thorough tier) and assemble with them
"""
import hashlib
import json
import os
import struct
import sys

import numpy as np


def errclass(e):
    for c in (TypeError, ValueError, AssertionError, IndexError, KeyError, NotImplementedError,
              ZeroDivisionError, RuntimeError, AttributeError, NameError, SyntaxError):
        if isinstance(e, c):
            return c.__name__
    return 'Other:' + type(e).__name__


def sha(s):
    return hashlib.sha256(s.encode()).hexdigest()[:24]


def csha(src):
    """sha of the canonical form of a generated source (temporaries inlined, computed slots
    named by content, runs sorted): see harness/props/c13_canon.py"""
    from harness.props.c13_canon import canon_code
    return sha(canon_code(src))


class Env:
    def __init__(self):
        import pyiga
        assert os.path.realpath(pyiga.__file__).startswith(os.path.realpath(os.environ['VERIF_IMPL_DIR'])), pyiga.__file__
        from pyiga import bspline, vform, compile
        self.bspline, self.vform, self.compile = bspline, vform, compile
        self.kv = {}

    def kvs(self, dim):
        if dim not in self.kv:
            self.kv[dim] = tuple(self.bspline.make_knots(2, 0.0, 1.0, 3) for _ in range(dim))
        return self.kv[dim]

    def namespace(self, dim):
        vform, bspline = self.vform, self.bspline
        ns = {k: getattr(vform, k) for k in dir(vform) if not k.startswith('_')}
        kvs = self.kvs(dim)
        ns['kvs'] = kvs
        ns['np'] = np

        def PAR(shape=()):
            return np.ones(shape) if shape != () else 1.0

        def FUN(shape=()):
            def f(*x):
                return np.ones(shape) if shape != () else 1.0
            return f

        def GEO(shape=()):
            N = tuple(kv.numdofs for kv in kvs)
            return bspline.BSplineFunc(kvs, np.ones(N + tuple(shape)))
        ns.update(PAR=PAR, FUN=FUN, GEO=GEO)
        return ns

    def build(self, spec):
        ns = self.namespace(spec['dim'])
        exec(spec['code'], ns)
        return ns['V']


# ---------------------------------------------------------------------------
# serialisation of an (unfinalized) VForm for the Coq model
# ---------------------------------------------------------------------------

class TooBig(Exception):
    pass


def ser_atom(env, x):
    vform = env.vform
    if isinstance(x, (bool, np.bool_)):
        return {'i': int(x)}
    if isinstance(x, (int, np.integer)):
        return {'i': int(x)}
    if isinstance(x, float):
        return {'f': struct.unpack('<Q', struct.pack('<d', x))[0]}
    if isinstance(x, str):
        return {'s': x}
    if x is None:
        return {'n': 1}
    if isinstance(x, (tuple, list, range)):
        return {'t': [ser_atom(env, y) for y in x]}
    if isinstance(x, vform.BasisFun):
        return {'t': [ser_atom(env, x.name), ser_atom(env, x.numcomp), ser_atom(env, x.component), ser_atom(env, x.space)],
                'bf': 1}
    if isinstance(x, vform.AsmVar):
        return {'s': x.name, 'var': 1}
    return {'unknown': type(x).__name__}


def ser_node(env, e, budget):
    budget[0] -= 1
    if budget[0] < 0:
        raise TooBig()
    a = {}
    for k, v in vars(e).items():
        if k in ('shape', 'children'):
            continue
        a[k] = ser_atom(env, v)
    return {'c': type(e).__name__, 'sh': [int(s) for s in e.shape], 'a': a,
            'ch': [ser_node(env, c, budget) for c in e.children]}


def ser_form(env, vf):
    vform = env.vform
    budget = [6000]
    derived_ok = []
    if not (len(vf.inputs) >= 1 and vf.inputs[0].name == 'geo' and tuple(vf.inputs[0].shape) == (vf.geo_dim,)):
        derived_ok.append('geo_dim is not inputs[0].shape[0]')
    if [id(p) for p in vf.params] != [id(v.src) for v in vf.vars.values() if isinstance(v.src, vform.Parameter)]:
        derived_ok.append('params is not the list of Parameter sources of vars')
    if list(vf.spacedims) != list(range(vf.dim - 1 if vf.spacetime else vf.dim)):
        derived_ok.append('spacedims')
    for e in vf.all_exprs(type=vform.VarRefExpr):
        if vf.vars.get(e.var.name) is not e.var:
            derived_ok.append('VarRefExpr refers to a variable that is not vars[name]')
            break
    for name, v in vf.vars.items():
        if v.name != name:
            derived_ok.append('vars key differs from the variable name')
    out = {'dim': int(vf.dim), 'arity': int(vf.arity), 'vec': int(vf.vec), 'spacetime': bool(vf.spacetime),
           'is_boundary': bool(vf.is_boundary), 'geo_dim': int(vf.geo_dim), 'derived_bad': derived_ok}
    out['bfs'] = [{'name': b.name, 'numcomp': b.numcomp, 'component': b.component, 'space': int(b.space)} for b in vf.basis_funs]
    out['inputs'] = [{'name': i.name, 'shape': [int(s) for s in i.shape], 'physical': bool(i.physical), 'updatable': bool(i.updatable)}
                     for i in vf.inputs]
    vs = []
    for v in vf.vars.values():
        if v.expr is not None:
            src = {'expr': ser_node(env, v.expr, budget)}
        elif isinstance(v.src, vform.InputField):
            i = v.src
            src = {'input': {'name': i.name, 'shape': [int(s) for s in i.shape], 'physical': bool(i.physical), 'updatable': bool(i.updatable)}}
        elif isinstance(v.src, vform.Parameter):
            src = {'param': {'name': v.src.name, 'shape': [int(s) for s in v.src.shape]}}
        else:
            src = {'other': repr(v.src)}
        vs.append({'name': v.name, 'src': src, 'shape': [int(s) for s in v.shape], 'symmetric': bool(v.symmetric),
                   'deriv': v.deriv})
    out['vars'] = vs
    out['exprs'] = [ser_node(env, e, budget) for e in vf.exprs]
    out['nodes'] = 6000 - budget[0]
    return out


# ---------------------------------------------------------------------------

def mode_forms(env, payload):
    res = []
    for spec in payload['specs']:
        r = {'id': spec['id']}
        try:
            vf = env.build(spec)
            r['hash'] = str(vf.hash())
            try:
                r['tree'] = ser_form(env, vf)
            except TooBig:
                r['tree'] = None
            r['status'] = 'Ok'
        except Exception as e:  # noqa
            r['status'] = errclass(e)
            r['msg'] = str(e)[:160]
            res.append(r)
            continue
        r['code'] = {}
        r['raw'] = {}
        for od in (False, True):
            try:
                vf2 = env.build(spec)
                src = env.compile.generate(vf2, on_demand=od)
                r['code']['1' if od else '0'] = csha(src)
                r['raw']['1' if od else '0'] = sha(src)
                # the generator must not change the key of the form it was given
                if str(vf2.hash()) != r['hash']:
                    r['code']['hash_unstable'] = True
            except Exception as e:  # noqa
                r['code']['1' if od else '0'] = 'ERR:' + errclass(e)
        res.append(r)
    return {'results': res}


def mode_confirm(env, payload):
    """canonical shas of `n` independent generations of each (spec, on_demand)"""
    out = {}
    for spec in payload['specs']:
        for od in (False, True):
            got = set()
            for _ in range(payload.get('n', 10)):
                try:
                    got.add(csha(env.compile.generate(env.build(spec), on_demand=od)))
                except Exception as e:  # noqa
                    got.add('ERR:' + errclass(e))
            out['%s:%d' % (spec['id'], od)] = sorted(got)
    return {'sets': out}


def mode_codes(env, payload):
    out = {}
    for spec in payload['specs']:
        for od in (False, True):
            try:
                out['%s:%d' % (spec['id'], od)] = env.compile.generate(env.build(spec), on_demand=od)
            except Exception as e:  # noqa
                out['%s:%d' % (spec['id'], od)] = 'ERR:' + errclass(e)
    return {'codes': out}


class MarkerAsm:
    def __init__(self, src):
        self.src = src


class MarkerMod:
    def __init__(self, src):
        self.CustomAssembler = MarkerAsm(src)


def mode_cache(env, payload):
    compile = env.compile
    cache = compile.__dict__['__vform_asm_cache']
    seed = dict(cache)
    from pyiga import assemblers
    shipped = {getattr(assemblers, n): n for n in dir(assemblers) if isinstance(getattr(assemblers, n), type)}
    ngen = [0]
    real_generate = compile.generate

    def counting_generate(vf, *a, **kw):
        ngen[0] += 1
        return real_generate(vf, *a, **kw)
    compile.generate = counting_generate
    compile.compile_cython_module = lambda src, verbose=False: MarkerMod(src)
    specs = {s['id']: s for s in payload['specs']}
    out = []
    for seq in payload['sequences']:
        cache.clear()
        cache.update(seed)
        obs = []
        for (sid, od) in seq:
            try:
                vf = env.build(specs[sid])
                n0 = ngen[0]
                asm = compile.compile_vform(vf, on_demand=bool(od))
                miss = ngen[0] > n0
                if isinstance(asm, MarkerAsm):
                    obs.append({'src': csha(asm.src), 'raw': sha(asm.src), 'miss': miss})
                elif asm in shipped:
                    obs.append({'shipped': shipped[asm], 'miss': miss})
                else:
                    obs.append({'other': repr(asm)[:80], 'miss': miss})
            except Exception as e:  # noqa
                obs.append({'err': errclass(e)})
        out.append(obs)
    return {'observed': out, 'seed_size': len(seed)}


def enum_nodes(vf):
    """every expression node of the initial form (kernel expressions, then let-bound variables), in a
    deterministic order"""
    seen, out = set(), []

    def rec(e):
        if id(e) in seen:
            return
        seen.add(id(e))
        out.append(e)
        for c in e.children:
            rec(c)
    for e in vf.exprs:
        rec(e)
    for v in vf.vars.values():
        if v.expr is not None:
            rec(v.expr)
    return out


def alternatives(env, vf, node, attr, pool):
    """values of the same kind as getattr(node, attr) that differ from it: descriptors resolved on a fresh form"""
    import math
    vform = env.vform
    v = getattr(node, attr)
    out = []
    if isinstance(v, (bool, np.bool_)):
        out.append(('lit', (not v)))
    elif isinstance(v, (int, np.integer)):
        out.append(('lit', int(v) + 1))
        if v > 0:
            out.append(('lit', int(v) - 1))
    elif isinstance(v, float):
        out += [('lit', math.nextafter(v, math.inf)), ('lit', v * (1 + 8.7e-7) if v else 1e-300), ('lit', -v if v else 1.0)]
    elif isinstance(v, str):
        out += [('lit', x) for x in pool if x != v][:3]
    elif isinstance(v, tuple) and all(isinstance(x, (int, np.integer)) for x in v):
        for k in range(len(v)):
            out.append(('lit', tuple(int(x) + (1 if j == k else 0) for j, x in enumerate(v))))
            if v[k] > 0:
                out.append(('lit', tuple(int(x) - (1 if j == k else 0) for j, x in enumerate(v))))
        out = out[:3]
    elif isinstance(v, vform.AsmVar):
        for name, w in vf.vars.items():
            if w is not v and tuple(w.shape) == tuple(v.shape) and (w.src is None) == (v.src is None):
                out.append(('var', name))
        out = out[:2]
    elif isinstance(v, vform.BasisFun):
        for k, b in enumerate(vf.basis_funs):
            if b.name != v.name:
                out.append(('bf', k))
        if v.component is not None:
            out.append(('bfcomp', (v.name, v.component + 1)))
    return out


def resolve(env, vf, desc):
    kind, x = desc
    if kind == 'lit':
        return x
    if kind == 'var':
        return vf.vars[x]
    if kind == 'bf':
        return vf.basis_funs[x]
    if kind == 'bfcomp':
        return env.vform.BasisFun(x[0], vf, component=x[1])
    raise ValueError(kind)


def mode_attrmut(env, payload):
    """For every node class / constructor attribute of the translated table: a pair of forms that differ in
    exactly that attribute of one node (set on a freshly built form before it is hashed)."""
    table = payload['table']            # class -> [attr, ...]
    pool = payload.get('pool', {})
    out = []
    for spec in payload['specs']:
        try:
            vf0 = env.build(spec)
            nodes0 = enum_nodes(vf0)
            h0 = vf0.hash()
            try:
                c0 = csha(env.compile.generate(env.build(spec), on_demand=False))
            except Exception as e:  # noqa
                c0 = 'ERR:' + errclass(e)
        except Exception as e:  # noqa
            continue
        byclass = {}
        for k, n in enumerate(nodes0):
            byclass.setdefault(type(n).__name__, []).append(k)
        for cls, attrs in table.items():
            idx = byclass.get(cls, [])
            if not idx:
                continue
            picks = sorted({idx[0], idx[-1]})
            for attr in attrs:
                for k in picks:
                    if not hasattr(nodes0[k], attr):
                        continue
                    for desc in alternatives(env, vf0, nodes0[k], attr, pool.get('%s.%s' % (cls, attr), [])):
                        r = {'id': spec['id'], 'cls': cls, 'attr': attr, 'node': k, 'old': repr(getattr(nodes0[k], attr))[:60] if not hasattr(getattr(nodes0[k], attr), 'name') else getattr(nodes0[k], attr).name,
                             'new': [desc[0], repr(desc[1])], 'base_code': c0}

                        def mutated():
                            vf = env.build(spec)
                            n = enum_nodes(vf)[k]
                            setattr(n, attr, resolve(env, vf, desc))
                            return vf
                        try:
                            r['hash_eq'] = (mutated().hash() == h0)
                            try:
                                r['code'] = csha(env.compile.generate(mutated(), on_demand=False))
                            except Exception as e:  # noqa
                                r['code'] = 'ERR:' + errclass(e)
                            if r['hash_eq'] and r['code'] != c0 and not r['code'].startswith('ERR') and not c0.startswith('ERR'):
                                # confirm with independent generations (generate() is not deterministic text-wise)
                                a, b = set(), set()
                                for _ in range(6):
                                    a.add(csha(env.compile.generate(env.build(spec), on_demand=False)))
                                    b.add(csha(env.compile.generate(mutated(), on_demand=False)))
                                r['confirmed'] = not (a & b)
                        except Exception as e:  # noqa
                            r['err'] = errclass(e) + ': ' + str(e)[:80]
                        out.append(r)
    return {'mutations': out}


def mode_history(env, payload):
    """Histories of add() / hash() / compile_vform() on form objects sharing the in-process cache.
    Oracle for every step: a form built from scratch with the adds accepted so far."""
    compile = env.compile
    cache = compile.__dict__['__vform_asm_cache']
    seed = dict(cache)
    from pyiga import assemblers
    shipped = {getattr(assemblers, n): n for n in dir(assemblers) if isinstance(getattr(assemblers, n), type)}
    ngen = [0]
    real_generate = compile.generate

    def counting_generate(vf, *a, **kw):
        ngen[0] += 1
        return real_generate(vf, *a, **kw)
    compile.generate = counting_generate
    compile.compile_cython_module = lambda src, verbose=False: MarkerMod(src)
    out = []
    for hist in payload['histories']:
        cache.clear()
        cache.update(seed)
        objs = []
        for pre in hist['objects']:
            ns = env.namespace(hist['dim'])
            exec(pre, ns)
            objs.append({'ns': ns, 'pre': pre, 'adds': [], 'base': ser_form(env, ns['V'])})

        def fresh(o):
            ns = env.namespace(hist['dim'])
            exec(o['pre'], ns)
            for code in o['adds']:
                ns['V'].add(eval(code, ns))
            return ns['V']
        obs = []
        for op in hist['ops']:
            o = objs[op[1]]
            V = o['ns']['V']
            r = {}
            try:
                if op[0] == 'add':
                    e = eval(op[2], o['ns'])
                    r['node'] = ser_node(env, e, [4000])
                    try:
                        V.add(e)
                        o['adds'].append(op[2])
                        r['res'] = 'ok'
                    except RuntimeError as ex:
                        r['res'] = 'raise'
                        r['msg'] = str(ex)[:80]
                elif op[0] == 'hash':
                    r['hash'] = str(V.hash())
                    r['fresh'] = str(fresh(o).hash())
                    r['res'] = 'hashed'
                else:
                    od = bool(op[2])
                    try:
                        r['want'] = csha(real_generate(fresh(o), on_demand=od))
                    except Exception as ex:  # noqa
                        r['want'] = 'ERR:' + errclass(ex)
                    r['adds'] = list(o['adds'])
                    n0 = ngen[0]
                    try:
                        asm = compile.compile_vform(V, on_demand=od)
                        r['miss'] = ngen[0] > n0
                        r['res'] = 'class'
                        if isinstance(asm, MarkerAsm):
                            r['src'] = csha(asm.src)
                        elif asm in shipped:
                            r['shipped'] = shipped[asm]
                        else:
                            r['other'] = repr(asm)[:80]
                    except Exception as ex:  # noqa
                        r['res'] = 'raise'
                        r['msg'] = '%s: %s' % (errclass(ex), str(ex)[:80])
            except Exception as ex:  # noqa
                r['res'] = 'err:' + errclass(ex)
                r['msg'] = str(ex)[:120]
            obs.append(r)
        out.append({'observed': obs, 'bases': [o['base'] for o in objs]})
    return {'histories': out}


PREDEF = [('mass_vf', {}, 'MassAssembler'), ('stiffness_vf', {}, 'StiffnessAssembler'),
          ('heat_st_vf', {}, 'HeatAssembler_ST'), ('wave_st_vf', {}, 'WaveAssembler_ST'),
          ('divdiv_vf', {}, 'DivDivAssembler'), ('L2functional_vf', {}, 'L2FunctionalAssembler'),
          ('L2functional_vf', {'physical': True}, 'L2FunctionalAssemblerPhys')]


def mode_fresh(env, payload):
    import importlib.util
    from pyiga.codegen import cython as backend
    from pyiga import assemblers
    root = os.environ['VERIF_IMPL_DIR']
    spec = importlib.util.spec_from_file_location('c13_genasm', os.path.join(root, 'scripts', 'generate-assemblers.py'))
    m = importlib.util.module_from_spec(spec)
    spec.loader.exec_module(m)          # the __main__ part does not run
    regen_asm = backend.preamble() + m.generate(dim=2) + m.generate(dim=3)
    regen_gen = '# file generated by generate-assemblers.py\n' + ''.join(backend.generate_generic(dim=d) for d in (1, 2, 3))
    out = {'regen_asm': regen_asm, 'regen_gen': regen_gen,
           'ship_asm': open(os.path.join(root, 'pyiga', 'assemblers.pyx')).read(),
           'ship_gen': open(os.path.join(root, 'pyiga', 'genericasm.pxi')).read()}
    # the seeded pairs: what compile_vform returns for the predefined forms, and the text
    # the generator produces today for that form under that class name
    pairs = []
    for dim in (2, 3):
        for fn, kw, cls in PREDEF:
            name = cls + '%dD' % dim
            vf = getattr(env.vform, fn)(dim, **kw)
            got = env.compile.compile_vform(vf)
            code = backend.CodeGen()
            backend.AsmGenerator(getattr(env.vform, fn)(dim, **kw), name, code).generate()
            pairs.append({'form': fn, 'kw': kw, 'dim': dim, 'expected': name,
                          'returned': getattr(got, '__name__', repr(got)),
                          'is_shipped_class': got is getattr(assemblers, name, None),
                          'class_text': code.result()})
    out['pairs'] = pairs
    # module names
    names = []
    compile = env.compile
    rec = []
    compile._compile_cython_module_nocache = lambda src, modname, verbose=False: rec.append(modname) or ('module', modname)
    real_import = compile.importlib.import_module

    class FakeImportlib:
        @staticmethod
        def import_module(name, *a, **kw):
            if name.startswith('mod'):
                raise ImportError(name)
            return real_import(name, *a, **kw)
    compile.importlib = FakeImportlib
    for src in payload.get('sources', []):
        del rec[:]
        r1 = compile.compile_cython_module(src)
        r2 = compile.compile_cython_module(src)
        names.append([rec[0] if rec else None, r1[1] if isinstance(r1, tuple) else None, r2[1] if isinstance(r2, tuple) else None])
    out['modnames'] = names
    # numeric hashes of the interpreter the implementation runs in (ties Model.inthash/floathash)
    nh = []
    for x in payload.get('hash_ints', []):
        nh.append(hash(int(x)))
    fh = []
    for b in payload.get('hash_float_bits', []):
        fh.append(hash(struct.unpack('<d', struct.pack('<Q', int(b)))[0]))
    out['int_hashes'] = nh
    out['float_hashes'] = fh
    out['hash_info'] = [sys.hash_info.modulus, sys.hash_info.width]
    return out


def mode_build(env, payload):
    """Really compile the requested forms in this process, in order, and assemble."""
    from pyiga import assemble, geometry
    out = []
    specs = {s['id']: s for s in payload['specs']}
    for (sid, od) in payload['sequence']:
        spec = specs[sid]
        r = {'id': sid}
        try:
            vf = env.build(spec)
            asm_class = env.compile.compile_vform(vf, on_demand=bool(od))
            r['class'] = asm_class.__module__ + '.' + asm_class.__name__
            kvs = env.kvs(spec['dim'])
            geo = geometry.unit_square() if spec['dim'] == 2 else geometry.unit_cube(dim=spec['dim'])
            A = assemble.assemble(asm_class, kvs, geo=geo, symmetric=False, **{k: eval(v, env.namespace(spec['dim'])) for k, v in spec.get('args', {}).items()})
            A = A.toarray() if hasattr(A, 'toarray') else np.asarray(A)
            r['frob'] = float(np.linalg.norm(A))
            r['sum'] = float(A.sum())
            r['entries'] = [float(x) for x in np.asarray(A).ravel()[:40]]
            r['status'] = 'Ok'
        except Exception as e:  # noqa
            r['status'] = errclass(e)
            r['msg'] = str(e)[:300]
        out.append(r)
    return {'results': out}


def main():
    payload = json.load(sys.stdin)
    env = Env()
    mode = payload['mode']
    res = {'forms': mode_forms, 'codes': mode_codes, 'confirm': mode_confirm, 'history': mode_history, 'attrmut': mode_attrmut, 'cache': mode_cache, 'fresh': mode_fresh, 'build': mode_build}[mode](env, payload)
    sys.stdout.write('\n' + json.dumps(res) + '\n')


if __name__ == '__main__':
    main()
