"""Run every check registered in MANIFEST.json (quick or thorough) and validate the evidence files.
   tools/runall.py [quick|thorough] [C01 C02 ...]   (run with python3-vt for jsonschema)"""
import json, os, subprocess, sys, time
V = os.path.dirname(os.path.dirname(os.path.abspath(__file__)))
tier = sys.argv[1] if len(sys.argv) > 1 and sys.argv[1] in ('quick', 'thorough') else 'quick'
only = [a for a in sys.argv[1:] if a.startswith('C')]
m = json.load(open(os.path.join(V, 'MANIFEST.json')))
try:
    import jsonschema
    schema = json.load(open('/root/.vp/EVIDENCE.schema.json'))
except Exception:
    jsonschema = None
rows = []
for c in m['checks']:
    pid = c['property_id']
    if only and pid not in only:
        continue
    cmd = c['quick_cmd'] if tier == 'quick' else c.get('thorough_cmd', c['quick_cmd'])
    ev = c['evidence_file']
    if os.path.exists(ev):
        os.remove(ev)
    t0 = time.time()
    r = subprocess.run(cmd, shell=True, cwd=V, text=True, stdout=subprocess.PIPE, stderr=subprocess.STDOUT,
                       env=dict(os.environ, VERIF_SEED=os.environ.get('VERIF_SEED', '1'), VERIF_TIER=tier))
    dt = time.time() - t0
    viol = [l for l in r.stdout.splitlines() if l.startswith('VIOLATION')]
    known = [l for l in r.stdout.splitlines() if l.startswith('KNOWN-FINDING')]
    evok = 'missing'
    if os.path.exists(ev):
        try:
            e = json.load(open(ev))
            if jsonschema:
                jsonschema.validate(e, schema)
            evok = 'valid obl=%s/%s eval=%s' % (e['coverage'].get('discharged'), e['coverage'].get('obligations'), e['coverage'].get('evaluations'))
        except Exception as ex:
            evok = 'INVALID: %s' % str(ex)[:100]
    rows.append((pid, r.returncode, len(viol), len(known), round(dt), evok))
    print('%s exit=%d violations=%d known=%d %ds evidence=%s' % rows[-1], flush=True)
    if r.returncode != 0:
        open('/tmp/runall_%s.log' % pid, 'w').write(r.stdout)
print('ALARMS:', [r[0] for r in rows if r[1] != 0 or r[2]])
