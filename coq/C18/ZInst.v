(* C18 -- the model instantiated at R := Z for the correspondence run (case files import this). *)
From Coq Require Import List ZArith Bool.
From Verif.C18 Require Import Model.
Import ListNotations.

Definition znonzero (a : Z) : bool := negb (Z.eqb a 0).

Definition zcheck_step := check_step Z 0%Z 1%Z Z.add Z.mul Z.sub Z.opp znonzero Z.eqb.
Definition zcheck_gen := check_gen Z 0%Z Z.eqb.
Definition zcheck_cop := check_cop Z 0%Z 1%Z Z.add Z.mul Z.opp Z.eqb.
Definition zcheck_capply := check_capply Z 0%Z Z.add Z.mul Z.eqb.
Definition zcheck_r1 := check_r1 Z 0%Z Z.add Z.mul Z.eqb.
Definition zcheck_r3 := check_r3 Z 0%Z Z.add Z.mul Z.eqb.
Definition zcheck_trunc := check_trunc Z 0%Z Z.add Z.mul Z.ltb.

(* short constructor names for the generated literals *)
Definition Sc := LScal Z.
Definition Fu (sh : list nat) (d : list Z) := LFull Z (sh, d).
Definition Ca := LCanon Z.
Definition Tu (Us : list (lmat Z)) (sh : list nat) (d : list Z) := LTucker Z Us (sh, d).
Definition Er := LErr Z.
Definition M (r c : nat) (d : list (list Z)) : lmat Z := (r, c, d).

Definition oAdd := OAdd Z.
Definition oSub := OSub Z.
Definition oNeg := ONeg Z.
Definition oToTucker := OToTucker Z.
Definition oToCanon := OToCanon Z.
Definition oAsarray := OAsarray Z.
Definition oJoin1 := OJoin1 Z.
Definition oJoin2 := OJoin2 Z.
Definition oCopy := OCopy Z.
Definition oGetitem := OGetitem Z.
Definition oSqueeze := OSqueeze Z.
Definition oNway := ONway Z.
Definition oTruncate := OTruncate Z.
Definition oPad := OPad Z.
Definition oZerosC := OZerosC Z.
Definition oOnesC := OOnesC Z.
Definition oZerosT := OZerosT Z.
Definition oOnesT := OOnesT Z.

Definition OkA := @Ok (list (list nat * bool)).
Definition ErA := @Err (list (list nat * bool)).
Definition OkF (sh : list nat) (d : list Z) : res (lfull Z) := Ok (sh, d).
Definition ErF := @Err (lfull Z).
