"""Implementation driver for C07: evaluates geometry maps of the real pyiga on every route
and applies the geometry constructors/operations.  stdin: JSON payload, last stdout line: JSON.
All floats travel as float.hex() strings (exact)."""
import json
import os
import sys

import numpy as np


def errclass(e):
    for c in (TypeError, ValueError, AssertionError, IndexError, KeyError, NotImplementedError, ZeroDivisionError):
        if isinstance(e, c):
            return c.__name__
    return 'Other:' + type(e).__name__


def H(a):
    return [float(x).hex() for x in np.asarray(a, dtype=float).ravel()]


def F(hs):
    return [float.fromhex(h) for h in hs]


def arrinfo(a):
    a = np.asarray(a)
    return {'shape': [int(s) for s in a.shape], 'v': H(a)}


def guarded(fn):
    try:
        return {'ok': arrinfo(fn())}
    except Exception as e:  # noqa
        return {'err': errclass(e), 'msg': str(e)[:160]}


def main():
    import pyiga
    assert os.path.realpath(pyiga.__file__).startswith(os.path.realpath(os.environ['VERIF_IMPL_DIR'])), pyiga.__file__
    from pyiga import bspline, geometry

    def mkkvs(spec):
        return tuple(bspline.KnotVector(np.array(F(k['kv'])), int(k['p'])) for k in spec)

    def build(fs):
        kvs = mkkvs(fs['kvs'])
        N = tuple(kv.numdofs for kv in kvs)
        C = np.array(F(fs['C'])).reshape(N + tuple(fs['tail']))
        if fs['kind'] == 'bsp':
            return bspline.BSplineFunc(kvs, C)
        W = np.array(F(fs['W'])).reshape(N)
        return geometry.NurbsFunc(kvs, C, W)

    def snap(f):
        return (tuple((kv.p, kv.kv.tobytes()) for kv in f.kvs), f.coeffs.tobytes(), tuple(f.coeffs.shape),
                repr(tuple(tuple(float(x) for x in s) for s in f.support)))

    def describe(g, grid=None, pts=None):
        """what a constructed object is: class, knot vectors, coefficients, values on a grid"""
        d = {'cls': type(g).__name__, 'sdim': int(g.sdim)}
        try:
            d['dim'] = int(g.dim) if np.isscalar(g.dim) else [int(x) for x in g.dim]
        except Exception:  # noqa
            d['dim'] = None
        try:
            d['output_shape'] = [int(x) for x in g.output_shape()]
        except Exception as e:  # noqa
            d['output_shape'] = 'err:' + errclass(e)
        if hasattr(g, 'kvs'):
            d['kvs'] = [{'p': int(kv.p), 'kv': H(kv.kv)} for kv in g.kvs]
        if hasattr(g, 'coeffs'):
            d['coeffs'] = arrinfo(g.coeffs)
        try:
            d['support'] = [[float(s[0]).hex(), float(s[1]).hex()] for s in g.support]
        except Exception as e:  # noqa
            d['support'] = 'err:' + errclass(e)
        if grid is not None:
            ga = [np.array(F(ax)) for ax in grid]
            d['grid_eval'] = guarded(lambda: g.grid_eval(ga))
            d['grid_jac'] = guarded(lambda: g.grid_jacobian(ga))
        if pts is not None:
            d['call'] = [guarded(lambda x=x: g(*F(x))) for x in pts]
        return d

    def run_eval(f, case):
        r = {}
        grid = [np.array(F(ax)) for ax in case['grid']]
        r['coeffs'] = arrinfo(f.coeffs)
        r['sdim'] = int(f.sdim)
        r['dim'] = int(f.dim) if np.isscalar(f.dim) else [int(x) for x in f.dim]
        r['output_shape'] = [int(x) for x in f.output_shape()]
        r['support'] = [[float(s[0]).hex(), float(s[1]).hex()] for s in f.support]
        r['grid_eval'] = guarded(lambda: f.grid_eval(grid))
        r['grid_jac'] = guarded(lambda: f.grid_jacobian(grid))
        r['grid_hess'] = guarded(lambda: f.grid_hessian(grid))
        # grid axes given as column/row 2-D arrays must be squeezed to the same result
        r['grid_eval_2d'] = guarded(lambda: f.grid_eval([ax[None, :] for ax in grid]))
        pts = [F(x) for x in case['pts']]           # xyz order
        r['call'] = [guarded(lambda x=x: f(*x)) for x in pts]
        # one-point grids (the route __call__ takes) also for Jacobian / Hessian at the scattered points
        r['jac1'] = [guarded(lambda x=x: f.grid_jacobian([np.array([t]) for t in reversed(x)])) for x in pts]
        r['hess1'] = [guarded(lambda x=x: f.grid_hessian([np.array([t]) for t in reversed(x)])) for x in pts]
        shp = tuple(case['pts_shape'])
        P = tuple(np.array([x[d] for x in pts]).reshape(shp) for d in range(f.sdim))
        r['pw_eval'] = guarded(lambda: f.pointwise_eval(P))
        r['pw_jac'] = guarded(lambda: f.pointwise_jacobian(P))
        # grid axes in other containers / memory layouts: the same numbers must give the same arrays
        r['grid_variants'] = []
        if 'ok' in r['grid_eval'] and 'ok' in r['grid_jac']:
            base_e, base_j = f.grid_eval(grid), f.grid_jacobian(grid)
            for vname, mk in (('lists', lambda ax: [float(t) for t in ax]), ('tuple-of-arrays', None),
                              ('strided', lambda ax: np.repeat(ax, 2)[::2]), ('reversed-stride', lambda ax: np.ascontiguousarray(ax[::-1])[::-1])):
                gv = tuple(grid) if mk is None else [mk(ax) for ax in grid]
                try:
                    r['grid_variants'].append({'kind': vname, 'same_eval': bool(np.array_equal(f.grid_eval(gv), base_e)),
                                               'same_jac': bool(np.array_equal(f.grid_jacobian(gv), base_j))})
                except Exception as e:  # noqa
                    r['grid_variants'].append({'kind': vname, 'err': errclass(e), 'msg': str(e)[:120]})
        # the same scattered points as 2-D / 3-D coordinate arrays in several memory layouts and containers:
        # logical element [idx] of every variant is the same point, so the results must be the same arrays
        r['layouts'] = []
        n = len(pts)
        for shp2 in ((2, 3), (2, 3, 2)):
            size = int(np.prod(shp2))
            L = [np.array([pts[k % n][d] for k in range(size)]).reshape(shp2) for d in range(f.sdim)]
            variants = {
                'C': lambda A: np.ascontiguousarray(A),
                'F': lambda A: np.asfortranarray(A),
                'T': lambda A: np.ascontiguousarray(A.T).T,                       # transposed view of a C array
                'strided': lambda A: np.repeat(A, 2, axis=-1)[..., ::2],          # non-contiguous slice
                'reversed': lambda A: np.ascontiguousarray(A[::-1])[::-1],        # negative stride
                'list-of-F': lambda A: np.asfortranarray(A),
            }
            for vname, mk in variants.items():
                Pv = [mk(A) for A in L]
                assert all(np.array_equal(a_, b_) for a_, b_ in zip(Pv, L))
                Pv = Pv if vname == 'list-of-F' else tuple(Pv)
                r['layouts'].append({'shape': list(shp2), 'layout': vname,
                                     'pw_eval': guarded(lambda: f.pointwise_eval(Pv)),
                                     'pw_jac': guarded(lambda: f.pointwise_jacobian(Pv))})
        # array-valued call: f(X, y) with one array coordinate
        if pts:
            xs0 = [x[0] for x in pts]
            r['call_array_x'] = guarded(lambda: f(*([np.array(xs0)] + pts[0][1:])))
        return r

    def run_op(f, op, case):
        name = op['op']
        grid = op.get('grid')
        pts = op.get('pts')
        if name == 'translate':
            a = op['arg']
            g = f.translate(np.array(F(a)) if isinstance(a, list) else float.fromhex(a))
        elif name == 'scale':
            a = op['arg']
            g = f.scale(np.array(F(a)) if isinstance(a, list) else float.fromhex(a))
        elif name == 'apply_matrix':
            g = f.apply_matrix(np.array([F(row) for row in op['arg']]))
        elif name == 'apply_matrix_pc':
            A = np.array(F(op['arg'])).reshape(tuple(op['ash']) + (int(op['rows']), f.coeffs.shape[-1] - (1 if isinstance(f, geometry.NurbsFunc) else 0)))
            g = f.apply_matrix(A.tolist() if op['form'] == 'list' else A)
        elif name == 'rotate_2d':
            g = f.rotate_2d(float.fromhex(op['arg']))
        elif name == 'getitem':
            a = op['arg']
            if 'int' in a:
                I = int(a['int'])
            elif 'slice' in a:
                I = slice(*a['slice'])
            elif 'list' in a:
                I = [int(i) for i in a['list']]
            else:
                I = tuple(int(i) for i in a['tuple'])
            g = f[I]
        elif name == 'as_nurbs':
            g = f.as_nurbs()
        elif name == 'as_vector':
            g = f.as_vector()
        elif name == 'copy':
            g = f.copy()
        elif name == 'boundary':
            spec = op['arg']
            g = f.boundary(spec if isinstance(spec, str) else tuple(spec))
        elif name == 'parse_bdspec':
            spec = op['arg']
            ax, side = bspline._parse_bdspec(spec if isinstance(spec, str) else tuple(spec), int(op['dim']))
            return {'parsed': [int(ax), int(side)]}
        elif name == 'boundary_function':
            # the generic route (used when the support was restricted)
            spec = op['arg']
            g = bspline._BaseGeoFunc.boundary(f, spec if isinstance(spec, str) else tuple(spec))
            d = describe(g, grid, pts)
            d['axis'] = int(g.axis)
            d['fixed'] = float(g.fixed_coord).hex()
            ga = [np.array(F(ax)) for ax in grid]
            d['grid_jac_keep'] = guarded(lambda: g.grid_jacobian(ga, keep_normal=True))
            return d
        elif name == 'restrict_support':
            g = f.copy()
            g.support = tuple(tuple(F(s)) for s in op['arg'])
            d = describe(g, grid, pts)
            b = g.boundary(op['bd'])
            d['boundary_cls'] = type(b).__name__
            d['boundary_fixed'] = float(b.fixed_coord).hex() if hasattr(b, 'fixed_coord') else None
            return d
        elif name == 'restricted_boundary':
            # support restricted along a subset of the axes, then every requested side
            g = f.copy()
            g.support = tuple(tuple(F(s_)) for s_ in op['arg'])
            d = {'cls': type(g).__name__, 'support': [[float(s_[0]).hex(), float(s_[1]).hex()] for s_ in g.support], 'sides': [],
                 'output_shape': [int(x) for x in g.output_shape()]}
            for sd in op['bds']:
                spec = sd['bd'] if isinstance(sd['bd'], str) else tuple(sd['bd'])
                try:
                    b = g.boundary(spec)
                    e = {'status': 'Ok', 'cls': type(b).__name__, 'sdim': int(b.sdim),
                         'support': [[float(s_[0]).hex(), float(s_[1]).hex()] for s_ in b.support],
                         'fixed': float(b.fixed_coord).hex() if hasattr(b, 'fixed_coord') else None}
                    ga = [np.array(F(ax)) for ax in sd['grid']]
                    e['grid_eval'] = guarded(lambda: b.grid_eval(ga))
                    e['bounding_box'] = guarded(lambda: np.array(b.bounding_box())) if sd.get('bbox') else None
                except Exception as ex:  # noqa
                    e = {'status': errclass(ex), 'msg': str(ex)[:160]}
                d['sides'].append(e)
            return d
        elif name == 'cylinderize':
            pos = [float.fromhex(op[k]) for k in ('z0', 'z1') if k in op]
            k2 = {'support': tuple(F(op['support']))} if 'support' in op else {}
            g = f.cylinderize(*pos, **k2)
        elif name in ('outer_sum', 'outer_product', 'tensor_product'):
            other = build(op['other'])
            s_other = snap(other)
            fn = getattr(geometry, name)
            g = fn(f, other) if op['self_is'] == 1 else fn(other, f)
            d = describe(g, grid, pts)
            d['other_unchanged'] = (snap(other) == s_other)
            return d
        elif name == 'composed':
            other = build(op['other'])       # other o f
            s_other = snap(other)
            g = geometry.ComposedFunction(other, f)
            d = describe(g, grid, pts)
            if op.get('bd'):
                b = g.boundary(op['bd'])
                d['bd_cls'] = type(b).__name__
                d['bd'] = describe(b, op['bdgrid'])
            d['other_unchanged'] = (snap(other) == s_other)
            return d
        elif name == 'userfunction':
            # polynomial callables: the same map as a UserFunction
            g = geometry.UserFunction(lambda *x: f(*x), f.support, jac=None)
        else:
            raise ValueError('unknown op ' + name)
        return describe(g, grid, pts)

    def run_ctor(c):
        name = c['ctor']
        a = c.get('args', {})
        fl = lambda k: float.fromhex(a[k])
        # only the arguments present in `args` are passed: everything else takes its documented default
        kw = lambda *names: {k: float.fromhex(a[k]) for k in names if k in a}
        if name in ('circular_arc', 'circular_arc_3pt', 'circular_arc_5pt', 'circular_arc_7pt'):
            g = getattr(geometry, name)(fl('alpha'), **kw('r'))
        elif name in ('semicircle', 'circle', 'disk'):
            g = getattr(geometry, name)(**kw('r'))
        elif name in ('quarter_annulus', 'bspline_quarter_annulus'):
            g = getattr(geometry, name)(**kw('r1', 'r2'))
        elif name == 'line_segment':
            k2 = {}
            if 'support' in a:
                k2['support'] = tuple(F(a['support']))
            if 'intervals' in a:
                k2['intervals'] = int(a['intervals'])
            x0, x1 = F(a['x0']), F(a['x1'])
            if a.get('scalar_ends'):
                x0, x1 = x0[0], x1[0]
            g = geometry.line_segment(x0, x1, **k2)
        elif name == 'identity':
            g = geometry.identity([tuple(F(e)) for e in a['extents']])
        elif name == 'unit_cube':
            g = geometry.unit_cube(**{k: int(a[k]) for k in ('dim', 'num_intervals') if k in a})
        elif name == 'unit_square':
            g = geometry.unit_square(**{k: int(a[k]) for k in ('num_intervals',) if k in a})
        elif name == 'twisted_box':
            g = geometry.twisted_box()
        else:
            raise ValueError('unknown ctor ' + name)
        d = describe(g, c.get('grid'), c.get('pts'))
        if c.get('bd'):
            d['bd'] = {}
            for spec in c['bd']:
                b = g.boundary(spec)
                bg = [ax for ax in c['bdgrid'][spec]]
                d['bd'][spec] = describe(b, bg)
        return d

    # polynomial callables for UserFunction (xyz argument order); jac returns grid_shape x dim x sdim
    USER = {
        'poly2': (lambda x, y: (x * y + 2.0, x - y * y),
                  lambda x, y: np.stack([np.stack(np.broadcast_arrays(y, x), -1),
                                         np.stack(np.broadcast_arrays(1.0 + 0 * x + 0 * y, -2.0 * y + 0 * x), -1)], -2)),
        'xonly': (lambda x, y: x * x - 0.5, None),           # uses only one argument: must be broadcast to the grid
        'poly3': (lambda x, y, z: (x + 2.0 * y * z, y - x * z, z * z + x), None),
    }

    def run_user(c):
        fn, jac = USER[c['user']]
        supp = [tuple(F(s)) for s in c['support']]
        g = geometry.UserFunction(fn, supp, jac=jac)
        d = {'sdim': int(g.sdim), 'dim': int(g.dim) if np.isscalar(g.dim) else list(g.dim), 'output_shape': [int(x) for x in g.output_shape()]}
        grid = [np.array(F(ax)) for ax in c['grid']]
        d['grid_eval'] = guarded(lambda: g.grid_eval(grid))
        d['grid_jac'] = guarded(lambda: g.grid_jacobian(grid)) if jac is not None else None
        pts = [F(x) for x in c['pts']]
        d['call'] = [guarded(lambda x=x: g(*x)) for x in pts]
        P = tuple(np.array([x[k] for x in pts]) for k in range(g.sdim))
        d['pw_eval'] = guarded(lambda: g.pointwise_eval(P))
        b = g.boundary(c['bd'])
        bgrid = [np.array(F(ax)) for ax in c['bdgrid']]
        d['bd_cls'] = type(b).__name__
        d['bd_sdim'] = int(b.sdim)
        d['bd_support'] = [[float(s[0]).hex(), float(s[1]).hex()] for s in b.support]
        d['bd_grid_eval'] = guarded(lambda: b.grid_eval(bgrid))
        d['bd_call'] = [guarded(lambda x=x: b(*F(x))) for x in c['bdpts']]
        d['bd_grid_jac'] = guarded(lambda: b.grid_jacobian(bgrid)) if jac is not None else None
        return d

    payload = json.load(sys.stdin)
    out = []
    for case in payload['cases']:
        res = {}
        try:
            if 'user' in case:
                res = run_user(case)
                res['status'] = 'Ok'
                out.append(res)
                continue
            if 'ctor' in case:
                res = run_ctor(case)
                res['status'] = 'Ok'
                out.append(res)
                continue
            f = build(case['f'])
            before = snap(f)
            res['eval'] = run_eval(f, case)
            res['ops'] = []
            for op in case.get('ops', []):
                try:
                    r = run_op(f, op, case)
                    r['status'] = 'Ok'
                except Exception as e:  # noqa
                    r = {'status': errclass(e), 'msg': str(e)[:200]}
                r['self_unchanged'] = (snap(f) == before)
                res['ops'].append(r)
            # history on one object: after all other evaluations and operations the first evaluation is reproduced bit for bit
            try:
                g0 = [np.array(F(ax)) for ax in case['grid']]
                again = f.grid_eval(g0)
                first = np.array(F(res['eval']['grid_eval']['ok']['v'])).reshape(res['eval']['grid_eval']['ok']['shape']) if 'ok' in res['eval']['grid_eval'] else None
                res['reeval_same'] = None if first is None else bool(np.array_equal(again, first))
            except Exception as e:  # noqa
                res['reeval_same'] = 'err:' + errclass(e)
            res['unchanged'] = (snap(f) == before)
            res['status'] = 'Ok'
        except Exception as e:  # noqa
            res['status'] = errclass(e)
            res['msg'] = str(e)[:200]
        out.append(res)
    print(json.dumps({'results': out}))


if __name__ == '__main__':
    main()
