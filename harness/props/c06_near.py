"""C06 -- the near-special-constant stream.

fold_constants decides which 0 / +1 / -1 rule fires through ConstExpr.is_constant, a comparison with a
tolerance window (`abs(self.value - val) < 1e-15`).  Forms of this stream carry literals CLOSE TO BUT NOT
EQUAL to 0, +1, -1 at many scales (|c - special| in 1.5e-14 .. 9e-3, both signs) as factor, summand,
divisor, under a power and inside vectors/matrices, next to exact 0 / +-1.  Inside 1e-14 nothing is
generated (the unchanged code folds there by design).

Oracle: exact rational value of every integrand before/after every pass, together with the MAGNITUDE of
its terms (|x+-y| <= m(x)+m(y), |xy| <= m(x)m(y), |x/y| <= m(x)/|y| * m(y)/|y|).  Bound:
|after - before| <= 1e-13 * magnitude.  Justification: the only inexact steps of finalize are the float
operations of constant-with-constant folding, each with relative error 2^-53 of a term already counted in
the magnitude; fewer than 100 such steps per form => < 1.2e-14 * magnitude.  A rule that fires for a literal
outside the window changes the value by at least 1.5e-14 * |other operand|... the generator keeps the other
terms O(1), so dropped/rounded coefficients down to ~1e-12 relative are flagged.
"""
from fractions import Fraction

from harness.props import c06_eval as ev

REL = Fraction(1, 10 ** 13)


class VM:
    """value with the magnitude of its terms"""
    __slots__ = ('v', 'm')

    def __init__(self, v, m=None):
        self.v = Fraction(v)
        self.m = abs(self.v) if m is None else m

    @staticmethod
    def of(x):
        return x if isinstance(x, VM) else VM(x)

    def __add__(self, o):
        o = VM.of(o)
        return VM(self.v + o.v, self.m + o.m)
    __radd__ = __add__

    def __sub__(self, o):
        o = VM.of(o)
        return VM(self.v - o.v, self.m + o.m)

    def __rsub__(self, o):
        return VM.of(o) - self

    def __mul__(self, o):
        o = VM.of(o)
        return VM(self.v * o.v, self.m * o.m)
    __rmul__ = __mul__

    def __truediv__(self, o):
        o = VM.of(o)
        if o.v == 0:
            raise ev.Undefined('division by zero')
        return VM(self.v / o.v, self.m / abs(o.v) * (o.m / abs(o.v)))

    def __rtruediv__(self, o):
        return VM.of(o) / self

    def __neg__(self):
        return VM(-self.v, self.m)

    def __abs__(self):
        return VM(abs(self.v), self.m)

    def __eq__(self, o):
        return self.v == VM.of(o).v

    def __ne__(self, o):
        return not self.__eq__(o)

    __hash__ = None


class MagForest(ev.Forest):
    def ev(self, e):
        return VM.of(ev.Forest.ev(self, e))


def _lit(r):
    special = r.choice([0, 1, -1])
    k = r.randint(3, 14)
    m = r.choice([1.5, 2.0, 3.7, 8.854, 5.0, 9.0])
    s = r.choice([1, -1])
    c = special + s * m * 10.0 ** (-k)
    assert abs(c - special) >= 1.4e-14
    return repr(c)


def gen_specs(rng, n):
    r = rng
    specs = []
    for _ in range(n):
        atoms = ['u', 'v', 'f', 'c', 'g[0]', 'g[1]', '(u + f)', '(v * c)', 'Dx(u, 0, parametric=True)']

        def A():
            return r.choice(atoms)

        def L():
            if r.random() < 0.2:
                return r.choice(['0.0', '1.0', '-1.0'])
            return _lit(r)

        def term(depth):
            if depth <= 0:
                return A()
            k = r.randrange(12)
            t = term(depth - 1)
            if k == 0:
                return '(%s * %s)' % (L(), t)
            if k == 1:
                return '(%s * %s)' % (t, L())
            if k == 2:
                return '(%s + %s)' % (t, L())
            if k == 3:
                return '(%s + %s)' % (L(), t)
            if k == 4:
                return '(%s - %s)' % (t, L())
            if k == 5:
                return '(%s - %s)' % (L(), t)
            if k == 6:
                return '(%s / %s)' % (t, _lit(r))
            if k == 7:
                return '(%s / (%s + 3.0))' % (L(), A())
            if k == 8:
                return '((%s * %s) ** 2)' % (L(), t)
            if k == 9:
                return 'inner(as_vector([%s * %s, %s + %s]), as_vector([%s, %s * %s]))' % (L(), A(), t, L(), A(), A(), L())
            if k == 10:
                return 'det(as_matrix([[%s + %s, %s * %s], [%s, %s - %s]]))' % (A(), L(), L(), A(), t, A(), L())
            return '(%s * %s + %s * %s)' % (L(), t, L(), A())

        body = term(r.randint(1, 3))
        code = ('V = VForm(2)\nu, v = V.basisfuns()\nf = V.input("f")\ng = V.input("g", shape=(2,))\n'
                'c = V.parameter("c")\nV.add(%s * u * dx)' % body)
        specs.append({'code': code, 'stream': 'near', 'kind': 'near'})
    return specs


def check(spec, res, nenv, seed):
    """-> list of (signature, text, extra); number of environments compared"""
    problems, nchk = [], 0
    snaps = res.get('snaps') or []
    hdr = res['header']
    for s in range(nenv):
        env = ev.Env(hdr, 'near-%s-%d' % (seed, s))
        prev = prevlabel = None
        try:
            for idx, (label, forest) in enumerate(snaps):
                val = MagForest(forest, env).denote()
                if prev is not None:
                    for k, (pa, va) in enumerate(zip(prev, val)):
                        for j, (a, b) in enumerate(zip(pa, va)):
                            mag = max(a.m, b.m)
                            if abs(a.v - b.v) > REL * mag:
                                sig = label.split(':')[1] if label.startswith('transform') else label
                                problems.append((
                                    'impl:value-changed:near-constant:' + sig,
                                    'pass %s changes the value of integrand %d[%d] from %s to %s (difference %.3e, magnitude of the '
                                    'terms %.3e, allowed 1e-13 * magnitude) for a form with literals near 0/+-1'
                                    % (label, k, j, a.v, b.v, float(abs(a.v - b.v)), float(mag)),
                                    {'pass': label, 'after_previous_pass': prevlabel, 'env_seed': env.seed,
                                     'before': float(a.v), 'after': float(b.v)}))
                                return problems, nchk
                prev, prevlabel = val, label
            nchk += 1
        except (ev.Unsupported, ev.Undefined):
            continue
        except ev.Malformed as ex:
            problems.append(('impl:malformed-forest:near', 'forest not well formed: %s' % ex, {'env_seed': env.seed}))
            break
    return problems, nchk


def has_const_pair(d):
    return isinstance(d, list) and d and d[0] == 'O' and d[2][0] in ('C', 'Cx') and d[3][0] in ('C', 'Cx')
