"""C18 -- encoding of cases as Coq literals for coq/C18/ZInst.v."""
from harness.core import cbool, clist, cnat, cz

BIG = 2 ** 50


class NotExact(Exception):
    """A value is not a small integer: the case cannot be compared exactly."""


def zi(v):
    f = float(v)
    if f != f or f in (float('inf'), float('-inf')) or not f.is_integer() or abs(f) >= BIG:
        raise NotExact(repr(v))
    return cz(int(f))


def c_mat(M):
    return 'M %d %d %s' % (M['r'], M['c'], clist([clist(row, zi) for row in M['d']]))


def c_shape(sh):
    return clist(sh, cnat)


MAXLIT = 700


def c_lit(spec):
    t = spec['t']
    if (t == 'full' and len(spec['d']) > MAXLIT) or (t == 'tucker' and len(spec['X']['d']) > MAXLIT):
        raise NotExact('too large for a literal')
    if t == 'scal':
        return '(Sc %s)' % zi(spec['v'])
    if t == 'full':
        return '(Fu %s %s)' % (c_shape(spec['sh']), clist(spec['d'], zi))
    if t == 'canon':
        return '(Ca %s)' % clist([c_mat(X) for X in spec['Xs']])
    if t == 'tucker':
        return '(Tu %s %s %s)' % (clist([c_mat(U) for U in spec['Us']]), c_shape(spec['X']['sh']),
                                  clist(spec['X']['d'], zi))
    raise NotExact('format ' + t)


def c_err(cls):
    if cls not in ('IndexError', 'ValueError', 'AssertionError', 'TypeError'):
        raise NotExact('error class ' + cls)
    return cls


def c_optz(v):
    return 'None' if v is None else '(Some %s)' % cz(v)


def c_index(I):
    out = []
    for ik in I['items']:
        if 'i' in ik:
            out.append('IInt %s' % cz(ik['i']))
        elif 's' in ik:
            out.append('ISlice %s %s %s' % tuple(c_optz(v) for v in ik['s']))
        else:
            out.append('IList %s' % clist(ik['l'] if 'l' in ik else ik['a'], cz))
    return clist(out)


def c_op(op):
    k = op['op']
    simple = {'add': 'oAdd', 'sub': 'oSub', 'neg': 'oNeg', 'to_tucker': 'oToTucker', 'to_canon': 'oToCanon',
              'asarray': 'oAsarray', 'join1': 'oJoin1', 'join2': 'oJoin2', 'copy': 'oCopy', 'from_terms': 'oCopy'}
    if k in simple:
        return simple[k]
    if k == 'getitem':
        return '(oGetitem %s)' % c_index(op['I'])
    if k == 'squeeze':
        ax = op['axis']
        if ax is None:
            return '(oSqueeze None)'
        if not isinstance(ax, list):
            ax = [ax]
        return '(oSqueeze (Some %s))' % clist(ax, cnat)
    if k == 'nway':
        return '(oNway %s)' % clist(['None' if B is None else '(Some (%s))' % c_mat(B) for B in op['Bs']])
    if k == 'truncate':
        kk = op['k']
        if not isinstance(kk, list):
            kk = [kk] * op['_ndim']
        return '(oTruncate %s)' % clist(kk, cnat)
    if k == 'pad':
        return '(oPad %s)' % clist(['None' if w is None else '(Some (%s, %s))' % (cnat(w[0]), cnat(w[1])) for w in op['w']])
    if k in ('zerosC', 'onesC', 'zerosT', 'onesT'):
        return '(o%s%s %s)' % (k[0].upper(), k[1:], c_shape(op['shape']))
    raise NotExact('op ' + k)


HEADER = '''From Coq Require Import List ZArith Bool.
From Verif.C18 Require Import Model ZInst.
Import ListNotations.
'''


def step_file(cases):
    """cases: list of (op text, [operand texts], expected text)"""
    body = HEADER + 'Definition cases := [\n' + ';\n'.join(
        '(%s, %s, %s)' % (o, clist(args), e) for (o, args, e) in cases) + '].\n'
    return body + 'Eval vm_compute in bad zcheck_step 0 cases.\n'


def generic_file(check, cases):
    body = HEADER + 'Definition cases := [\n' + ';\n'.join(cases) + '].\n'
    return body + 'Eval vm_compute in bad %s 0 cases.\n' % check
