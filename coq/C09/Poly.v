(* C09 -- a small polynomial library over Qc: a polynomial is its coefficient list
   (c_0, c_1, ...), evaluated by Model.peval (Horner).  Operations, their evaluation
   lemmas and length (degree + 1) bounds. *)
From Coq Require Import QArith Qcanon ZArith List Bool Arith Lia.
From Verif.lib Require Import Bsp.
From Verif.C09 Require Import Model.
Import ListNotations.
Open Scope Qc_scope.

Fixpoint padd (a b : list Qc) : list Qc :=
  match a, b with
  | [], _ => b
  | _, [] => a
  | x :: a', y :: b' => (x + y) :: padd a' b'
  end.
Definition pscale (c : Qc) (a : list Qc) : list Qc := map (fun x => c * x) a.
(* multiplication by the variable; the zero polynomial [] stays [] *)
Definition pshift (a : list Qc) : list Qc := match a with [] => [] | _ => 0 :: a end.
Fixpoint pmul (a b : list Qc) : list Qc :=
  match a with
  | [] => []
  | x :: a' => padd (pscale x b) (pshift (pmul a' b))
  end.
(* (a0 + a1 x) * p *)
Definition pmul_lin (a0 a1 : Qc) (p : list Qc) : list Qc := padd (pscale a0 p) (pshift (pscale a1 p)).
(* p(m + h x) *)
Fixpoint pcomp (p : list Qc) (m h : Qc) : list Qc :=
  match p with
  | [] => []
  | c :: p' => padd [c] (pmul_lin m h (pcomp p' m h))
  end.

Lemma peval_nil x : peval [] x = 0.
Proof. reflexivity. Qed.
Lemma peval_cons c p x : peval (c :: p) x = c + x * peval p x.
Proof. reflexivity. Qed.

Lemma peval_padd : forall a b x, peval (padd a b) x = peval a x + peval b x.
Proof.
  induction a as [|c a IH]; intros [|d b] x; cbn [padd]; rewrite ?peval_nil, ?peval_cons; try ring.
  rewrite IH. ring.
Qed.
Lemma peval_pscale c : forall a x, peval (pscale c a) x = c * peval a x.
Proof.
  induction a as [|d a IH]; intros x; cbn [pscale map]; rewrite ?peval_nil, ?peval_cons; [ring|].
  fold (pscale c a). rewrite IH. ring.
Qed.
Lemma peval_pshift a x : peval (pshift a) x = x * peval a x.
Proof. destruct a; cbn [pshift]; rewrite ?peval_nil, ?peval_cons; ring. Qed.
Lemma peval_pmul : forall a b x, peval (pmul a b) x = peval a x * peval b x.
Proof.
  induction a as [|c a IH]; intros b x; cbn [pmul]; rewrite ?peval_nil, ?peval_cons; [ring|].
  rewrite peval_padd, peval_pscale, peval_pshift, IH. ring.
Qed.
Lemma peval_pmul_lin a0 a1 p x : peval (pmul_lin a0 a1 p) x = (a0 + a1 * x) * peval p x.
Proof. unfold pmul_lin. rewrite peval_padd, peval_pshift, !peval_pscale. ring. Qed.
Lemma peval_pcomp : forall p m h x, peval (pcomp p m h) x = peval p (m + h * x).
Proof.
  induction p as [|c p IH]; intros m h x; cbn [pcomp]; [reflexivity|].
  rewrite peval_padd, peval_pmul_lin, IH, !peval_cons, peval_nil. ring.
Qed.

(* lengths *)
Lemma length_padd : forall a b, length (padd a b) = Nat.max (length a) (length b).
Proof.
  induction a as [|c a IH]; intros [|d b]; cbn [padd length]; try lia. rewrite IH. lia.
Qed.
Lemma length_pscale c a : length (pscale c a) = length a.
Proof. apply map_length. Qed.
Lemma length_pshift a : (length (pshift a) <= S (length a))%nat /\ (a = [] -> length (pshift a) = 0%nat).
Proof. destruct a; cbn; split; try lia; intros; try discriminate; reflexivity. Qed.
Lemma length_pmul_lin a0 a1 p : (length (pmul_lin a0 a1 p) <= S (length p))%nat /\ (p = [] -> pmul_lin a0 a1 p = []).
Proof.
  unfold pmul_lin. split.
  - rewrite length_padd, length_pscale. destruct (length_pshift (pscale a1 p)) as [H _]. rewrite length_pscale in H. lia.
  - intros ->. reflexivity.
Qed.
Lemma length_pmul : forall a b, (length (pmul a b) <= length a + length b - 1)%nat.
Proof.
  induction a as [|c a IH]; intros b; cbn [pmul length]; [lia|].
  rewrite length_padd, length_pscale. specialize (IH b).
  destruct (length_pshift (pmul a b)) as [H1 H2].
  destruct (pmul a b) as [|y r] eqn:E.
  - rewrite (H2 eq_refl). lia.
  - cbn [length] in *. destruct a as [|c' a']; [cbn in E; discriminate|]. cbn [length] in *. lia.
Qed.
Lemma length_pcomp : forall p m h, (length (pcomp p m h) <= length p)%nat.
Proof.
  induction p as [|c p IH]; intros m h; cbn [pcomp length]; [lia|].
  rewrite length_padd. cbn [length]. specialize (IH m h).
  destruct (length_pmul_lin m h (pcomp p m h)) as [H1 H2].
  destruct (pcomp p m h) as [|y r] eqn:E.
  - rewrite (H2 eq_refl). cbn. lia.
  - cbn [length] in *. lia.
Qed.
