(* C03 -- lemmas, part 9: multi_kron_sparse of the 1-D prolongators (Model.multi_kron, the matrix kronP of
   represent_fine) has the entries kron_entry (the product of the 1-D entries) at the raveled multi-indices. *)
From Coq Require Import List Arith Bool Lia NArith Ring.
From Verif.C03 Require Import Model Proofs Proofs2 Proofs3 Proofs5 Proofs6 Proofs8.
Import ListNotations.

Lemma ravel_acc_lin : forall s t acc, length s = length t ->
  ravel_acc s t acc = (acc * N.of_nat (nprod s) + ravel_acc s t 0)%N.
Proof.
  induction s as [|n s IH]; intros t acc H; destruct t as [|i t]; simpl in H; try discriminate.
  - simpl. lia.
  - simpl ravel_acc. rewrite (IH t (acc * N.of_nat n + N.of_nat i)%N) by lia.
    rewrite (IH t (0 * N.of_nat n + N.of_nat i)%N) by lia.
    unfold nprod. simpl fold_right. fold (nprod s). rewrite Nnat.Nat2N.inj_mul. lia.
Qed.

Lemma ravel_cons : forall n s i t, length s = length t ->
  ravel (n :: s) (i :: t) = (N.of_nat i * N.of_nat (nprod s) + ravel s t)%N.
Proof.
  intros n s i t H. unfold ravel. simpl ravel_acc. rewrite (ravel_acc_lin s t _ H). lia.
Qed.

Lemma ravel_lt : forall s t, Forall2 (fun n x => x < n) s t -> (ravel s t < N.of_nat (nprod s))%N.
Proof.
  intros s t H. induction H as [|n i s t Hi H IH].
  - unfold ravel, nprod. simpl. lia.
  - rewrite ravel_cons by (eapply Forall2_length_eq; eauto).
    unfold nprod. simpl fold_right. fold (nprod s). rewrite Nnat.Nat2N.inj_mul. nia.
Qed.
