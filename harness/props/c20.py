"""C20 -- The on-disk compile cache survives crashes and concurrent compilation.

Stage 1: coq/C20 (transition-system model of compile.py's cache protocol; the protocol as it is at
         /repo HEAD is refuted with explicit schedules, the repaired protocol of
         fixes/C20-atomic-cache-publish.patch is proved by an inductive invariant over all schedules).
Stage 2: real processes against fresh cache directories.  A fault history is a list of events
           run n | kill n stage | dmg role class | sched forms schedule
         executed on the implementation (drivers are stepped / killed at the model's program counters
         through harness-side wrappers, files are damaged from outside) and by the model
         (Model.predict New, vm_compute).  Compared exactly per event: outcome class of every process,
         the abstract directory contents afterwards, and the sequence of stages a request goes through.
Stage 3: the property itself evaluated on the implementation (independent of the model): every
         request in every history returns an assembler whose matrix equals the one of the package's
         ahead-of-time assemblers; the enumeration of crash points is the search.

Float bound: the compiled form's matrix is compared with 2*Mass resp. Stiffness+Mass of
pyiga.assemblers on a 5x5 quadratic space: every entry is a sum of <= 9 elements x 9 quadrature
points of products of O(1) factors, evaluated with -ffast-math reassociation in both; a forward bound
is 81 * 8 eps * sum|terms| < 2e-13 * max|ref| * 81; we use 1e-10 * max|ref|.
"""
import json
import os
import shutil
import signal
import struct
import subprocess
import tempfile
import threading
import time
from concurrent.futures import ThreadPoolExecutor

from harness.core import PY, VERIF, clist, log, parse_coq_list_of_nat

PROPS = 'C20/Props.v'
DRIVER = os.path.join(VERIF, 'harness/impl/c20_driver.py')
REL_TOL = 1e-10
JOBS = int(os.environ.get('VERIF_C20_JOBS', '4'))     # fault histories executed at the same time
ROLES = ['pyx', 'c', 'o', 'so']
ROLE_COQ = {'pyx': 'Pyx', 'c': 'Cfile', 'o': 'Obj', 'so': 'So'}
VROLE_COQ = {'pyx': 'RPyx', 'c': 'RCfile', 'o': 'RObj', 'so': 'RSo', 'ok': 'ROk'}
NCOL = 5        # observed per form: .so, .pyx, .c, .o, stamp (.ok; protocol Ver only, dropped for the model New)
CLASSES = ['Empty', 'Header', 'Half', 'AllButLast', 'Garbage']
CLASS_CODE = {'Empty': 2, 'Header': 3, 'Half': 4, 'AllButLast': 5, 'Garbage': 6}
OC_NAME = {0: 'ok', 1: 'exception', 2: 'interpreter-death', 3: 'killed', 4: 'wrong-assembler', 5: 'no-result'}
STAGE_CODE = {'mkdir': 3, 'import': 1, 'mkdtemp': 2, 'replace': 50, 'cleanup': 51, 'reimport': 52,
              'verify': 6, 'replaceok': 53}
for _i, _r in enumerate(ROLES):
    for _k in range(5):
        STAGE_CODE['%s%d' % (_r, _k)] = 10 * (_i + 1) + _k
for _k in range(5):
    STAGE_CODE['ok%d' % _k] = 60 + _k


def size_for_class(k, size):   # same convention as the driver
    if k == 1:
        return 0
    if k == 2:
        return 4096 if size > 32768 else size // 8
    if k == 3:
        return size // 2
    return max(size - 1, 0)


def coq_pc(stage):
    if isinstance(stage, str):
        return {'mkdir': 'PMkdir', 'import': 'PImport', 'mkdtemp': 'PMkdtemp', 'replace': 'PReplace', 'cleanup': 'PCleanup',
                'reimport': 'PReimport'}[stage]
    return '(PWrite %s W%d)' % (ROLE_COQ[stage[0]], stage[1])


def coq_vpc(stage):
    if isinstance(stage, str):
        return {'mkdir': 'VMkdir', 'verify': 'VVerify', 'import': 'VImport', 'mkdtemp': 'VMkdtemp', 'replace': 'VReplaceSo',
                'replaceok': 'VReplaceOk', 'cleanup': 'VCleanup', 'reimport': 'VReimport'}[stage]
    return '(VWrite %s W%d)' % (VROLE_COQ[stage[0]], stage[1])


def coq_vevent(e):
    t = e[0]
    if t == 'run':
        return 'VERun %d' % e[1]
    if t == 'kill':
        return 'VEKill %d %s' % (e[1], coq_vpc(e[2]))
    if t == 'dmg':
        return 'VEDmg %s %s' % (VROLE_COQ[e[1]], 'None' if e[2] is None else '(Some %s)' % e[2])
    if t == 'sched':
        return 'VESched %s %s' % (clist(e[1]), clist(['(%d, %s)' % (i, coq_vpc(s)) for i, s in e[2]]))
    raise ValueError(e)


def coq_event(e):
    t = e[0]
    if t == 'run':
        return 'ERun %d' % e[1]
    if t == 'kill':
        return 'EKill %d %s' % (e[1], coq_pc(e[2]))
    if t == 'dmg':
        return 'EDmg %s %s' % (ROLE_COQ[e[1]], 'None' if e[2] is None else '(Some %s)' % e[2])
    if t == 'sched':
        return 'ESched %s %s' % (clist(e[1]), clist(['(%d, %s)' % (i, coq_pc(s)) for i, s in e[2]]))
    raise ValueError(e)


# ---------------------------------------------------------------------------
# one cache directory with its journal of known partial files
# ---------------------------------------------------------------------------

class Cache:
    def __init__(self, lab, root):
        self.lab = lab
        self.root = root                      # XDG_CACHE_HOME
        self.journal = root + '.journal'
        self.partial = {}                     # relpath -> (code, size)
        os.makedirs(root, exist_ok=True)

    @property
    def moddir(self):
        return os.path.join(self.root, 'pyiga', 'modules')

    def clone(self, root):
        c = Cache(self.lab, root)
        shutil.rmtree(root, ignore_errors=True)
        shutil.copytree(self.root, root, symlinks=True)
        self.read_journal()
        c.partial = dict(self.partial)
        return c

    def read_journal(self):
        if os.path.exists(self.journal):
            for line in open(self.journal):
                j = json.loads(line)
                rel = os.path.relpath(j['file'], self.root)
                self.partial[rel] = (j['k'] + 1, j['size'])      # phase 1..4 -> code 2..5
            os.remove(self.journal)

    def files(self):
        """[(relpath, role, form or None, in_tmp)] of every regular file below MODDIR"""
        out = []
        md = self.moddir
        if not os.path.isdir(md):
            return out
        for d, _dirs, fs in os.walk(md):
            for f in fs:
                p = os.path.join(d, f)
                rel = os.path.relpath(p, self.root)
                top = os.path.relpath(p, md).split(os.sep)[0]
                role = ('pyx' if f.endswith('.pyx') else 'c' if f.endswith('.c') else 'o' if f.endswith('.o')
                        else 'so' if f.endswith('.so') else 'ok' if f.endswith('.ok') else None)
                form = None
                for i, n in enumerate(self.lab.names):
                    if f.startswith(n):
                        form = i
                out.append((rel, role, form, top.endswith('.build')))
        return out

    def code(self, rel):
        p = os.path.join(self.root, rel)
        try:
            size = os.path.getsize(p)
        except OSError:
            return 0
        j = self.partial.get(rel)
        if j and j[1] == size:
            return j[0]
        if size == 0:
            return 2
        return 1

    def observe(self):
        self.read_journal()
        fl = self.files()
        tmpdirs = set()
        per = [[0] * NCOL for _ in self.lab.names]
        for rel, role, form, in_tmp in fl:
            if in_tmp:
                tmpdirs.add(os.path.relpath(os.path.join(self.root, rel), self.moddir).split(os.sep)[0])
            elif role and form is not None:
                per[form][{'so': 0, 'pyx': 1, 'c': 2, 'o': 3, 'ok': 4}[role]] = self.code(rel)
        return [len(tmpdirs)] + [x for p in per for x in p]

    def damage(self, role, cls, rng):
        """damage every file of that role from outside (an already damaged file is left as it is)"""
        self.read_journal()
        for rel, r, _form, _tmp in self.files():
            if r != role:
                continue
            p = os.path.join(self.root, rel)
            if cls is None:
                os.remove(p)
                self.partial.pop(rel, None)
                continue
            if self.code(rel) != 1:
                continue
            size = os.path.getsize(p)
            if cls == 'Garbage':
                with open(p, 'wb') as f:
                    f.write(self.lab.garbage)
            else:
                os.truncate(p, size_for_class(CLASSES.index(cls) + 1, size))
            self.partial[rel] = (CLASS_CODE[cls], os.path.getsize(p))


class Proc:
    """one driver process in its own session"""

    def __init__(self, lab, cache, payload, ctl=None):
        self.lab = lab
        self.ctl = ctl
        self.seq = 0
        if ctl:
            os.makedirs(ctl, exist_ok=True)
            payload = dict(payload, ctl=ctl)
        env = lab.ctx.impl.env(xdg=cache.root, extra={'C20_JOURNAL': cache.journal})
        self.errf = tempfile.TemporaryFile(dir=lab.base)
        self.p = subprocess.Popen([PY, DRIVER], stdin=subprocess.PIPE, stdout=subprocess.PIPE, stderr=self.errf,
                                  env=env, cwd=lab.ctx.impl.dir, start_new_session=True, text=True)
        self.p.stdin.write(json.dumps(payload))
        self.p.stdin.close()
        self.out = []
        self.reader = threading.Thread(target=self._read, daemon=True)
        self.reader.start()
        self.form = payload.get('form')
        lab.nproc += 1

    def _read(self):
        for line in self.p.stdout:
            self.out.append(line)

    def advance(self, target, timeout=900):
        """let the process run until it is about to execute `target` (None: to its end);
        returns the ack (dict) or None if the process ended first"""
        self.seq += 1
        tmp = os.path.join(self.ctl, 'cmd.tmp')
        with open(tmp, 'w') as f:
            json.dump({'seq': self.seq, 'target': target}, f)
        os.replace(tmp, os.path.join(self.ctl, 'cmd'))
        t0 = time.time()
        ack = os.path.join(self.ctl, 'ack')
        while time.time() - t0 < timeout:
            if self.p.poll() is not None:
                return None
            try:
                a = json.load(open(ack))
                if a['seq'] == self.seq:
                    return a
            except (OSError, ValueError):
                pass
            time.sleep(0.02)
        self.kill()
        return None

    def kill(self):
        try:
            os.killpg(self.p.pid, signal.SIGKILL)
        except OSError:
            pass

    def wait(self, timeout=900):
        try:
            rc = self.p.wait(timeout=timeout)
        except subprocess.TimeoutExpired:
            self.kill()
            rc = self.p.wait()
            return {'rc': rc, 'code': 5, 'res': {'status': 'timeout'}}
        self.reader.join(10)
        if rc < 0:  # whatever the killed process left running in its session (orphaned gcc/ld)
            try:
                os.killpg(self.p.pid, signal.SIGKILL)
            except OSError:
                pass
        res = None
        for line in reversed(self.out):
            line = line.strip()
            if line.startswith('{'):
                try:
                    res = json.loads(line)
                    break
                except ValueError:
                    pass
        self.errf.seek(0)
        err = self.errf.read().decode(errors='replace')[-600:]
        self.errf.close()
        if rc == -signal.SIGKILL:
            code = 3
        elif rc < 0 or rc >= 128:
            code = 2
        elif res is None:
            code = 1
            res = {'status': 'exception', 'exc': 'driver-exit-%d' % rc, 'msg': err}
        elif res.get('status') == 'ok':
            good = (res.get('maxdiff') is not None and res['shape'] == [25, 25]
                    and res['maxdiff'] <= REL_TOL * res['maxabs_ref'])
            code = 0 if good else 4
            if res.get('maxdiff') is not None and res['maxabs_ref'] > 0:
                self.lab.maxdev = max(self.lab.maxdev, res['maxdiff'] / res['maxabs_ref'])
        else:
            code = 1
        return {'rc': rc, 'code': code, 'res': res or {}}


class Lab:
    def __init__(self, ctx, base):
        self.ctx = ctx
        self.base = base
        self.n = 0
        self.nproc = 0
        self.maxdev = 0.0
        self.lock = threading.Lock()
        self.garbage = bytes(ctx.rng.getrandbits(8) for _ in range(5000))
        r = self.oneshot({'mode': 'names'}, os.path.join(base, 'names'))
        self.names = r['names']

    def fresh(self, tag):
        with self.lock:
            self.n += 1
            k = self.n
        return os.path.join(self.base, '%s-%d' % (tag, k))

    def oneshot(self, payload, xdg):
        env = self.ctx.impl.env(xdg=xdg)
        p = subprocess.run([PY, DRIVER], input=json.dumps(payload), text=True, stdout=subprocess.PIPE,
                           stderr=subprocess.DEVNULL, env=env, cwd=self.ctx.impl.dir, timeout=600)
        for line in reversed(p.stdout.splitlines()):
            if line.strip().startswith('{'):
                return dict(json.loads(line), rc=p.returncode)
        return {'rc': p.returncode, 'status': 'dead'}

    # -- events ---------------------------------------------------------------
    def do_run(self, cache, form):
        r = Proc(self, cache, {'mode': 'request', 'form': form}).wait()
        trace = [STAGE_CODE[s] for s in r['res']['trace']] if 'trace' in r['res'] else [777]
        return [r['code']], trace, [r]

    def do_kill(self, cache, form, stage):
        r = Proc(self, cache, {'mode': 'request', 'form': form, 'kill': stage}).wait()
        return [r['code']], [], [r]

    def do_sched(self, cache, forms, sched):
        procs = [Proc(self, cache, {'mode': 'request', 'form': f}, ctl=self.fresh('ctl')) for f in forms]
        for i, stage in sched:
            procs[i].advance(stage)
        res = []
        for p in procs:
            p.advance(None)
            res.append(p.wait())
        return [r['code'] for r in res], [], res

    def run_history(self, h):
        """h: {'name', 'events', optional 'start': (Cache, [result of the events already done])}"""
        events = h['events']
        if 'start' in h:
            cache, done = h['start']
            cache = cache.clone(self.fresh('h'))
            obs = list(done)
        else:
            cache = Cache(self, self.fresh('h'))
            obs = []
        details = []
        try:
            for e in events[len(obs):]:
                if e[0] == 'run':
                    ocs, trace, det = self.do_run(cache, e[1])
                elif e[0] == 'kill':
                    ocs, trace, det = self.do_kill(cache, e[1], e[2])
                elif e[0] == 'dmg':
                    cache.damage(e[1], e[2], self.ctx.rng)
                    ocs, trace, det = [], [], []
                else:
                    ocs, trace, det = self.do_sched(cache, e[1], e[2])
                obs.append((ocs, cache.observe(), trace))
                details.append([{'rc': d['rc'], 'outcome': OC_NAME[d['code']],
                                 'exc': d['res'].get('exc'), 'msg': d['res'].get('msg')} for d in det])
        finally:
            shutil.rmtree(cache.root, ignore_errors=True)
        return {'name': h['name'], 'events': events, 'obs': obs, 'details': details}


# ---------------------------------------------------------------------------
# ELF completeness (race monitor): ld writes the section header table last
# ---------------------------------------------------------------------------

def elf_complete(path):
    """True/False, or None if the file is absent"""
    try:
        with open(path, 'rb') as f:
            hdr = f.read(64)
            size = os.fstat(f.fileno()).st_size
    except OSError:
        return None
    if len(hdr) < 64 or hdr[:4] != b'\x7fELF' or hdr[4] != 2:
        return False
    e_shoff = struct.unpack_from('<Q', hdr, 0x28)[0]
    e_shentsize, e_shnum = struct.unpack_from('<HH', hdr, 0x3A)
    return size >= e_shoff + e_shentsize * e_shnum and e_shoff > 0


class Monitor(threading.Thread):
    """polls the final .so names while processes race: once an entry is complete it has to stay complete"""

    def __init__(self, cache):
        super().__init__(daemon=True)
        self.cache = cache
        self.stop = False
        self.seen_complete = {}
        self.bad = []
        self.polls = 0

    def run(self):
        md = self.cache.moddir
        while not self.stop:
            try:
                names = [f for f in os.listdir(md) if f.endswith('.so')]
            except OSError:
                names = []
            for f in list(self.seen_complete) + names:
                c = elf_complete(os.path.join(md, f))
                self.polls += 1
                if c is True:
                    self.seen_complete[f] = True
                elif f in self.seen_complete and len(self.bad) < 5:
                    self.bad.append((f, 'absent' if c is None else 'incomplete', time.time()))
                elif c is False and len(self.bad) < 5:
                    self.bad.append((f, 'incomplete-before-complete', time.time()))
            time.sleep(0.005)


# ---------------------------------------------------------------------------

HEADER = '''From Coq Require Import List Arith Bool.
From Verif.C20 Require Import Model.
Import ListNotations.
Definition orc : oracle := fun k => match k with %s end.
Fixpoint leqb (a b : list nat) : bool :=
  match a, b with [], [] => true | x :: a', y :: b' => Nat.eqb x y && leqb a' b' | _, _ => false end.
Definition O := (list nat * list nat * list nat)%%type.
Definition oeqb (full : bool) (a b : O) : bool :=
  let '(o1, f1, t1) := a in let '(o2, f2, t2) := b in
  leqb o1 o2 && leqb f1 f2 && (negb full || leqb t2 [777] || leqb t1 t2).   (* 777: the process died, no trace *)
Fixpoint loeqb (full : bool) (a b : list O) : bool :=
  match a, b with [], [] => true | x :: a', y :: b' => oeqb full x y && loeqb full a' b' | _, _ => false end.
Definition agrees (pr : proto) (full : bool) (c : list event * list O) : bool :=
  loeqb full (predict pr orc 2 (fst c)) (snd c).
Fixpoint bad (pr : proto) (full : bool) (k : nat) (cs : list (list event * list O)) : list nat :=
  match cs with [] => [] | c :: cs' => if agrees pr full c then bad pr full (S k) cs' else k :: bad pr full (S k) cs' end.
'''


def coq_case(h, ver=False):
    ev = clist([(coq_vevent if ver else coq_event)(e) for e in h['events']])
    # the model New has no stamp column
    col = (lambda f: f) if ver else (lambda f: [x for i, x in enumerate(f) if i == 0 or (i - 1) % NCOL != NCOL - 1])
    ob = clist(['(%s, %s, %s)' % (clist(o), clist(col(f)), clist(t)) for (o, f, t) in h['obs']])
    return '(%s, %s)' % (ev, ob)


HEADER_V = HEADER.replace('From Verif.C20 Require Import Model.', 'From Verif.C20 Require Import Model Verify.') \
    .replace('list event', 'list vevent').replace('predict pr orc 2 (fst c)', 'vpredict orc 2 (fst c)')


def cold_race(lab, spec):
    base = lab.fresh('cold')
    os.makedirs(base)
    try:
        res = lab.oneshot(dict(spec, mode='coldrace', base=base), os.path.join(base, 'xdg'))
    finally:
        shutil.rmtree(base, ignore_errors=True)
    return spec, res


def property_on_impl(h, crash_classes):
    """The property, evaluated on what the real processes did.  Returns None or (kind, text)."""
    complete_since = {}
    for k, (e, (ocs, fs, _t)) in enumerate(zip(h['events'], h['obs'])):
        if e[0] in ('run', 'sched'):
            for j, c in enumerate(ocs):
                if c != 0:
                    return (OC_NAME[c], 'event %d (%s): process %d ended with %s instead of the assembler of its form'
                            % (k, e, j, OC_NAME[c]))
        if e[0] == 'kill' and ocs and ocs[0] in (1, 2, 4):
            return (OC_NAME[ocs[0]], 'event %d (%s): the process ended with %s before reaching the kill point'
                    % (k, e, OC_NAME[ocs[0]]))
        for n in range((len(fs) - 1) // NCOL):
            so = fs[1 + NCOL * n]
            if e[0] == 'dmg' and e[1] == 'so':
                complete_since.pop(n, None)
            elif so == 1:
                complete_since.setdefault(n, k)
            elif n in complete_since:
                return ('entry-overwritten', 'event %d (%s): the entry of form %d, complete since event %d, is now in '
                        'state %d' % (k, e, n, complete_since[n], so))
    return None


def run(ctx):
    thorough = ctx.tier == 'thorough'
    ctx.obligations_stage(PROPS, extra_targets=['C20/Examples.vo'])
    ctx.obligations_stage('C20/Props2.v', extra_targets=['C20/Examples2.vo'])
    ctx.assumptions += [
        'model: hand transcription of compile_cython_module/_compile_cython_module_nocache (pyiga/compile.py) as '
        'atomic steps import / mkdtemp / write{pyx,c,o,so} x 5 phases / replace / cleanup / reimport (coq/C20/Model.v)',
        'idealised: digest injective, rename(2) atomic, mkdtemp names unique, a completely written .so loads; dlopen '
        'on damaged files is an oracle measured on this machine in every run (coverage.oracle)',
        'crash points are realised by letting the real stage finish and truncating its output to the size class '
        '(snapshot of the cache directory = SIGKILL of the whole process group there); a few real SIGKILLs in addition',
        'tie: per event exact comparison of outcome classes, abstract directory contents (state of the final .so, '
        'presence/state of .pyx/.c/.o under final names, number of left-over private build directories) and stage trace',
    ]
    ctx.impl.build()
    base = tempfile.mkdtemp(prefix='C20-%d-' % os.getpid(), dir='/var/tmp')
    try:
        return _run(ctx, thorough, base)
    finally:
        shutil.rmtree(base, ignore_errors=True)


def _run(ctx, thorough, base):
    rng = ctx.rng
    lab = Lab(ctx, base)
    t0 = time.time()
    # ---- 1. one build of form 0, stepped from stage to stage; a snapshot at each crash point ----------
    allstages = (['import', 'mkdtemp'] + [[r, k] for r in ROLES for k in range(5)] + ['replace', 'cleanup', 'reimport'])
    if thorough:
        stops = allstages[1:]
    else:
        stops = [['pyx', 1], ['c', 3], ['o', 2], ['so', 1], ['so', 2], ['so', 3], ['so', 4],
                 'replace', 'cleanup', 'reimport']
    seed, r0, seed_obs, snaps, todo = None, None, None, [], list(stops)
    while todo:
        cache = Cache(lab, lab.fresh('seed'))
        stepper = Proc(lab, cache, {'mode': 'request', 'form': 0}, ctl=lab.fresh('ctl'))
        while todo:
            st = todo.pop(0)
            ack = stepper.advance(st)
            if ack is None:
                break          # this implementation never gets there: the rest is stepped in another build
            snap = cache.clone(lab.fresh('snap'))
            snaps.append((st, snap, ([3], snap.observe(), [])))
        stepper.advance(None)
        r = stepper.wait()
        if seed is None:
            seed, r0 = cache, r
            seed_obs = ([r0['code']], seed.observe(), [STAGE_CODE[x] for x in r0['res'].get('trace', [])])
    reached = [s for s, _, _ in snaps]
    # which protocol is this tree?  fixes/C20-verify-so-before-import.patch reads a stamp before it imports a
    # cached entry (stage 'verify' in the trace of the request): its model is coq/C20/Verify.v (Props2.v);
    # otherwise Model.v's New (Props.v), for which dmg-so-Header is the open finding (crash_class_kills).
    ver = 'verify' in r0['res'].get('trace', [])
    log('[C20] protocol of this tree: %s' % ('Ver (stamp verified before import)' if ver else 'New'))
    log('[C20] stepped build: %d/%d crash points reached, outcome %s, %.0fs' % (
        len(snaps), len(stops), OC_NAME[r0['code']], time.time() - t0))
    histories = []
    for st, snap, ob in snaps:
        nm = 'kill-%s' % (st if isinstance(st, str) else '%s%d' % tuple(st))
        histories.append({'name': nm, 'events': [('kill', 0, st), ('run', 0)] + ([('run', 0)] if thorough else []),
                          'start': (snap, [ob])})
    for st in stops:
        if st not in reached:
            # the implementation never gets to this stage: what the model sees as a crash there is a completed request
            nm = 'kill-%s' % (st if isinstance(st, str) else '%s%d' % tuple(st))
            histories.append({'name': nm, 'events': [('kill', 0, st), ('run', 0)], 'start': (seed, [seed_obs])})
    # ---- 2. oracle: what does importing a damaged .so do on this machine ------------------------------
    oracle = {}
    if r0['code'] == 0:
        def probe(cls):
            c = seed.clone(lab.fresh('probe'))
            c.damage('so', cls, rng)
            r = lab.oneshot({'mode': 'probe', 'modname': lab.names[0]}, c.root)
            shutil.rmtree(c.root, ignore_errors=True)
            if r.get('status') == 'loaded':
                return 'Loads'
            if r.get('status') == 'importerror':
                return 'ImpErr'
            return 'Crash'
        with ThreadPoolExecutor(JOBS) as ex:
            oracle = dict(zip(CLASSES, ex.map(probe, CLASSES)))
    else:
        oracle = {'Empty': 'ImpErr', 'Header': 'Crash', 'Half': 'Loads', 'AllButLast': 'Loads', 'Garbage': 'ImpErr'}
    log('[C20] dlopen oracle on this machine: %s' % oracle)
    crash_classes = [c for c in CLASSES if oracle[c] == 'Crash']
    # ---- 3. damage from outside, on a copy of the completed cache --------------------------------------
    start = (seed, [seed_obs])
    first = ('run', 0)

    def dmg_hist(name, evs):
        histories.append({'name': name, 'events': [first] + evs, 'start': start})
    for cls in CLASSES:
        # every size class is part of the property's quantifier, also the one where dlopen kills the
        # interpreter before Python can react (a completed .so cut inside its mapped pages): it is evaluated
        # like the others and reported under its own signature impl:interpreter-death:dmg-so-<class>
        # (known_findings.json lists dmg-so-Header: by final_entries_complete no interrupted or concurrent
        # build of the repaired protocol leaves such a file under a final name).
        if cls in ('Empty', 'Header', 'AllButLast') or thorough:
            dmg_hist('dmg-so-%s' % cls, [('dmg', 'so', cls), ('run', 0)])
    dmg_hist('dmg-pyx-c-o', [('dmg', 'pyx', 'Garbage'), ('dmg', 'c', 'Empty'), ('dmg', 'o', None), ('run', 0)])
    if ver:
        # the stamp in every class / deleted; .so and stamp together; a hit after the rebuild
        for cls in (CLASSES + [None]) if thorough else ['AllButLast', 'Garbage', None]:
            dmg_hist('dmg-ok-%s' % cls, [('dmg', 'ok', cls), ('run', 0)])
        dmg_hist('dmg-so-Header+ok-Half', [('dmg', 'so', 'Header'), ('dmg', 'ok', 'Half'), ('run', 0), ('run', 0)])
        histories.append({'name': 'kill-replaceok', 'events': [('kill', 0, 'replaceok'), ('run', 0), ('run', 0)]})
    if thorough:
        dmg_hist('dmg-so-deleted', [('dmg', 'so', None), ('run', 0), ('run', 0)])
        for role in ('pyx', 'c', 'o'):
            for cls in CLASSES + [None]:
                dmg_hist('dmg-%s-%s+so-deleted' % (role, cls), [('dmg', role, cls), ('dmg', 'so', None), ('run', 0)])
        # faults in sequence across restarts
        for _ in range(6):
            evs = []
            for _j in range(2):
                role = rng.choice(ROLES)
                cls = rng.choice([c for c in CLASSES if not (role == 'so' and c in crash_classes)] + [None])
                evs += [('dmg', role, cls), ('run', 0)]
            dmg_hist('dmg-seq', evs)
        for st in (['so', 1], ['c', 2], 'replace'):
            histories.append({'name': 'kill-twice', 'events': [('kill', 0, ['pyx', 1]), ('kill', 0, st), ('run', 0), ('run', 1)]})
    # ---- 4. real SIGKILLs at a stage (the driver kills its own process group) ---------------------------
    histories.append({'name': 'sigkill-c3', 'events': [('kill', 0, ['c', 3]), ('run', 0)]})
    if thorough:
        histories.append({'name': 'sigkill-so2', 'events': [('kill', 0, ['so', 2]), ('run', 0)]})
        histories.append({'name': 'sigkill-cleanup', 'events': [('kill', 1, 'cleanup'), ('run', 1), ('run', 0)]})
    # ---- 5. controlled schedules of two processes on the same form ---------------------------------------
    scheds = [[(0, ['so', 2])]]
    if thorough:
        scheds += [[(0, 'replace'), (1, 'replace')], [(1, ['pyx', 0]), (0, ['pyx', 1])],
                   [(1, 'mkdtemp'), (0, 'reimport')], [(0, ['so', 2]), (1, ['so', 3]), (0, 'cleanup')]]
    for sc in scheds:
        histories.append({'name': 'sched-' + '-'.join('%d@%s' % (i, s if isinstance(s, str) else '%s%d' % tuple(s))
                                                      for i, s in sc),
                          'events': [('sched', [0, 0], sc)]})
    log('[C20] %d fault histories' % len(histories))
    # ---- 6. free-running races and SIGKILLs at random times (run concurrently with the histories) -----------
    race_specs = [[0, 0, 1, 1]]
    if thorough:
        race_specs += [[0, 0], [1, 1, 1, 1, 1, 1, 1, 1], [0, 1] * 8]
    race_offs = [[rng.random() * 3.0 for _ in forms] for forms in race_specs]
    seed_so = [os.path.join(seed.root, rel) for rel, role, form, tmp in seed.files() if role == 'so' and not tmp]
    monitor_valid = bool(seed_so) and all(elf_complete(p) is True for p in seed_so)

    def race(arg):
        forms, offs = arg
        cache = Cache(lab, lab.fresh('race'))
        os.makedirs(cache.moddir, exist_ok=True)
        mon = Monitor(cache)
        mon.start()
        procs = [None] * len(forms)
        tstart = time.time()
        for i in sorted(range(len(forms)), key=lambda i: offs[i]):
            time.sleep(max(0.0, offs[i] - (time.time() - tstart)))
            procs[i] = Proc(lab, cache, {'mode': 'request', 'form': forms[i]})
        res = [p.wait() for p in procs]
        mon.stop = True
        mon.join(5)
        ob = ([r['code'] for r in res], cache.observe(), [])
        after = [lab.do_run(cache, f)[0][0] for f in sorted(set(forms))]
        shutil.rmtree(cache.root, ignore_errors=True)
        return {'forms': forms, 'offsets': offs, 'obs': ob, 'after': after,
                'monitor_bad': mon.bad if monitor_valid else [], 'polls': mon.polls if monitor_valid else 0,
                'details': [{'rc': r['rc'], 'outcome': OC_NAME[r['code']], 'exc': r['res'].get('exc'),
                             'msg': r['res'].get('msg')} for r in res]}

    def random_kill(delay):
        cache = Cache(lab, lab.fresh('rk'))
        p = Proc(lab, cache, {'mode': 'request', 'form': 0})
        time.sleep(delay)
        p.kill()
        p.wait()
        after = lab.do_run(cache, 0)[0][0]
        ob = cache.observe()
        shutil.rmtree(cache.root, ignore_errors=True)
        return {'delay': delay, 'after': after, 'fs': ob}
    nkills = 6 if thorough else 0
    build_s = max(8.0, time.time() - t0)
    delays = [2.0 + rng.random() * min(build_s, 60.0) for _ in range(nkills)]
    with ThreadPoolExecutor(JOBS) as ex:
        f_h = [ex.submit(lab.run_history, h) for h in histories]
        f_k = [ex.submit(random_kill, d) for d in delays]
        results = [f.result() for f in f_h]
        kills = [f.result() for f in f_k]
    log('[C20] histories done, %.0fs' % (time.time() - t0))
    # the races get the machine for themselves
    races = [race(a) for a in zip(race_specs, race_offs)]
    log('[C20] races done, %.0fs' % (time.time() - t0))
    # ---- 7. cold start: the first requests of N processes, released together, hit a cache directory that
    #         does not exist yet (fresh machine, or right after scripts/clear-cache.py which removes MODDIR).
    #         Only directory set-up + lookup + import are raced (many short rounds); the build is a stub.
    cold_specs = []
    for nproc in ([2, 4, 8, 16] if not thorough else [2, 3, 4, 8, 12, 16, 16]):
        nsame = rng.randint(1, nproc)          # processes 0..nsame-1 ask for the same form, the rest differ
        cold_specs.append({'nproc': nproc, 'rounds': 150 if thorough else (40 if nproc <= 4 else 20),
                           'depth': rng.choice([1, 2, 3]),
                           'forms': [0 if i < nsame else i for i in range(nproc)]})
    colds = [cold_race(lab, spec) for spec in cold_specs]
    log('[C20] cold-start races done, %.0fs' % (time.time() - t0))

    if os.environ.get('C20_DEBUG'):
        json.dump({'results': results, 'races': races, 'kills': kills, 'oracle': oracle}, open(os.environ['C20_DEBUG'], 'w'), default=str)
    # ---- stage 3: the property on the implementation -------------------------------------------------------
    nfail = 0
    for h in results:
        ctx.count((h['name'], h['events']), nontrivial=any(e[0] != 'run' for e in h['events']))
        badp = property_on_impl(h, crash_classes)
        if badp:
            nfail += 1
            ctx.report('impl:%s:%s' % (badp[0], h['name']), 'fault history %s: %s' % (h['name'], badp[1]),
                       {'events': h['events'], 'observed': h['obs'], 'details': h['details'],
                        'how': 'fresh XDG_CACHE_HOME; kill = SIGKILL of the process group when about to execute the '
                               'stage ([role, k>=1]: output of the stage truncated to size class k); dmg = every file '
                               'of the role truncated/deleted/overwritten; run = compile.compile_vform(form) in a fresh '
                               'process + assemble (harness/impl/c20_driver.py)'})
    for rc in races:
        ctx.count(('race', rc['forms'], rc['offsets']))
        badc = [c for c in rc['obs'][0] + rc['after'] if c != 0]
        if badc or rc['monitor_bad']:
            nfail += 1
            kind = OC_NAME[badc[0]] if badc else 'entry-overwritten'
            ctx.report('impl:%s:race-%d' % (kind, len(rc['forms'])),
                       'race of %d processes on forms %s: outcomes %s, later requests %s, monitor %s' % (
                           len(rc['forms']), rc['forms'], [OC_NAME[c] for c in rc['obs'][0]],
                           [OC_NAME[c] for c in rc['after']], rc['monitor_bad']), rc)
    for k in kills:
        ctx.count(('random-kill', k['delay']))
        if k['after'] != 0:
            nfail += 1
            ctx.report('impl:%s:random-sigkill' % OC_NAME[k['after']],
                       'SIGKILL of the compiling process group after %.2fs: the next request ended with %s' % (
                           k['delay'], OC_NAME[k['after']]), k)
    for spec, res in colds:
        ctx.count(('cold', spec['nproc'], spec['depth'], spec['forms']), n=spec['rounds'])
        if res.get('nfail') or res.get('died') or res.get('reports') != spec['nproc']:
            nfail += 1
            first = (res.get('failures') or [[None, None, 'worker(s) %s died / did not report' % res.get('died')]])[0]
            kind = 'exception' if res.get('nfail') else 'interpreter-death'
            ctx.report('impl:%s:cold-start-race' % kind,
                       'cold start: %d processes released together issue their first request against a cache '
                       'directory whose last %d path component(s) do not exist yet; %s request(s) in %d rounds did '
                       'not obtain their module, first: process %s round %s: %s' % (
                           spec['nproc'], spec['depth'], res.get('nfail'), spec['rounds'], first[0], first[1], first[2]),
                       {'kind': 'coldrace', 'spec': spec, 'result': res,
                        'how': 'driver mode coldrace (harness/impl/c20_driver.py): forked workers + barrier, '
                               'compile.compile_cython_module(src) with only _compile_cython_module_nocache stubbed'})
    ctx.cov['traces_validated_against_impl'] = len(results) + len(races) + len(kills) + len(colds)
    ctx.cov['property_failures_on_impl'] = nfail

    # ---- stage 2: the tie: model prediction == observation, per event --------------------------------------
    cases = [h for h in results]
    for rc in races:
        cases.append({'name': 'race', 'events': [('sched', rc['forms'], [])], 'obs': [rc['obs']]})
    orc_txt = ' | '.join('%s => %s' % (c, oracle[c]) for c in CLASSES)
    HDR = HEADER_V if ver else HEADER
    defs = HDR % orc_txt + 'Definition cases := [\n' + ';\n'.join(coq_case(h, ver) for h in cases) + '].\n'
    # self-test of the differ: the first case with one outcome flipped has to be reported
    mut = dict(cases[0])
    mut['obs'] = [([(o[0] + 1) % 5 if o else 1] if k == len(cases[0]['obs']) - 1 else o, f, t)
                  for k, (o, f, t) in enumerate(cases[0]['obs'])]
    selft = HDR % orc_txt + 'Definition cases := [%s].\nEval vm_compute in bad New true 0 cases.\n' % coq_case(mut, ver)
    tag = '%d' % os.getpid()          # concurrent runs of this check do not share generated files
    out = ctx.coq_eval_many([('C20_cases_' + tag, defs + 'Eval vm_compute in bad New true 0 cases.\n'),
                             ('C20_selftest_' + tag, selft)])
    ctx.obligations += 2
    (n1, ok1, o1), (n2, ok2, o2) = out
    log('[C20] model predictions compared, %.0fs' % (time.time() - t0))
    bad_new = parse_coq_list_of_nat(o1) if ok1 else None
    st = parse_coq_list_of_nat(o2) if ok2 else None
    if st != [0]:
        ctx.broken.append('differ self-test: a flipped outcome was not reported (%s)' % (o2[-300:],))
    else:
        ctx.discharged += 1
    if bad_new is None:
        ctx.broken.append('case file C20_cases_%s did not evaluate: %s' % (tag, o1[-600:]))
        bad_new = []
    else:
        ctx.discharged += 1
    bad_old = None
    if bad_new and not ver:
        # diagnosis only: does the implementation behave as the model of the unrepaired protocol?
        ok3, o3 = ctx.coq_eval('C20_cases_old_' + tag, defs + 'Eval vm_compute in bad Old false 0 cases.\n')
        bad_old = parse_coq_list_of_nat(o3) if ok3 else None
    import glob
    for f in (glob.glob(os.path.join(VERIF, 'coq', 'gen', 'C20_*_%s.*' % tag))
              + glob.glob(os.path.join(VERIF, 'coq', 'gen', '.C20_*_%s.*' % tag))):
        os.remove(f)
    ctx.cov['disagreements_checked'] = len(bad_new)
    matches_old = bad_old == []
    for b in sorted(bad_new, key=lambda b: 0 if ('details' in cases[b] and property_on_impl(cases[b], crash_classes)) else 1)[:2]:
        h = cases[b]
        badp = property_on_impl(h, crash_classes) if 'details' in h else None
        ctx.broken.append('correspondence C20 model(New)<->impl differs on history %s' % h['name'])
        ctx.report('tie:%s' % h['name'],
                   'the processes did not do what the model of the repaired protocol predicts for history %s%s%s' % (
                       h['name'], ': ' + badp[1] if badp else ' (no request failed in this history: the protocol differs)',
                       '; the implementation agrees with the model of the UNREPAIRED protocol on all %d histories '
                       '(recovery_refuted, race_safety_refuted apply)' % len(cases) if matches_old else ''),
                   {'events': h['events'], 'observed': h['obs'], 'details': h.get('details'), 'oracle': oracle},
                   found_input=bool(badp))
    ctx.cov['rule'] = ('fault histories (crash point x size class snapshots of one stepped build, external damage of '
                       'each role x class, real SIGKILLs, stepped 2-process schedules, free races); non-trivial = has a '
                       'fault or a second process; distinct by event list')
    ctx.cov['input_distribution'] = {
        'crash_points': len(snaps), 'crash_points_requested': len(stops), 'histories': len(results),
        'races': [len(r['forms']) for r in races], 'random_sigkills': len(kills), 'processes_started': lab.nproc,
        'cold_start_races': [{'nproc': sp['nproc'], 'rounds': sp['rounds'], 'depth': sp['depth']} for sp, _ in colds],
        'monitor_polls': sum(r['polls'] for r in races)}
    ctx.cov['oracle'] = oracle
    ctx.cov['protocol_model'] = 'Ver (coq/C20/Verify.v, Props2.v)' if ver else 'New (coq/C20/Model.v, Props.v)'
    ctx.cov['impl_matches_old_protocol_model'] = matches_old
    ctx.cov['rounding_bound'] = 'max|A-ref| <= %g * max|ref|' % REL_TOL
    ctx.cov['largest_observed_deviation_rel'] = lab.maxdev
    ctx.cov['exhaustive'] = False
    for h in results[:2]:
        ctx.sample({'name': h['name'], 'events': h['events'], 'observed': h['obs']})
    if races:
        ctx.sample({'race': races[0]['forms'], 'offsets': races[0]['offsets'], 'observed': races[0]['obs']})
    return ctx.finish()


def replay(ctx, data):
    """./check C20 --replay evidence/replay/C20-n.json : runs that fault history again"""
    ctx.impl.build()
    base = tempfile.mkdtemp(prefix='C20-%d-' % os.getpid(), dir='/var/tmp')
    try:
        lab = Lab(ctx, base)
        if data['replay'].get('kind') == 'coldrace':
            spec, res = cold_race(lab, data['replay']['spec'])
            log('[C20] replay: %s' % (res,))
            if res.get('nfail') or res.get('died') or res.get('reports') != spec['nproc']:
                ctx.report(data.get('signature', 'impl:replay'), 'replayed cold-start race: %s' % (res.get('failures') or res)[:1],
                           {'kind': 'coldrace', 'spec': spec, 'result': res})
            return ctx.finish()
        ev = [tuple(e) for e in data['replay']['events']]
        h = lab.run_history({'name': 'replay', 'events': ev})
        log('[C20] replay: observed %s' % (h['obs'],))
        badp = property_on_impl(h, [])
        if badp:
            ctx.report(data.get('signature', 'impl:replay'), 'replayed history: ' + badp[1],
                       {'events': ev, 'observed': h['obs'], 'details': h['details']})
        return ctx.finish()
    finally:
        shutil.rmtree(base, ignore_errors=True)


META = {
    'technique': 'Rocq transition-system model of the cache protocol; inductive invariant over all interleavings '
                 'and crash points for the repaired protocol, explicit refuting schedules for the in-place protocol; '
                 'exact per-event correspondence with real processes (stepped, killed, damaged, raced)',
    'level_text': 'Theorems (Coq, unbounded: any number of processes, forms, interleavings, kills between any two '
                  'atomic steps, every dlopen oracle): for the protocol of fixes/C20-atomic-cache-publish.patch the '
                  'invariant "every entry under a final name is absent or the finished .so of the form its name '
                  'denotes" is inductive (invariant_inductive, final_entries_complete); a fresh request after any '
                  'history returns the right assembler within 26 steps (recovery); every finished, un-killed process '
                  'has the right assembler (race_safety, killed_only_by_kill, race_liveness); a completed entry is '
                  'never replaced by other content (completed_never_overwritten, no_inplace_writes). For compile.py '
                  'as it stands each conjunct is refuted by a schedule (recovery_refuted, race_safety_refuted, '
                  'race_exception_refuted, completed_overwritten_refuted; cold_start_refuted for check-then-create '
                  'of MODDIR, cache_dir_exists for the idempotent mkdir). Faults.v/Local.v: recovery after every '
                  'history of sessions alternating with external damage of any role x size class and clear-cache.py '
                  '(fault_preserves_invariant, recovery_after_faults, race_safety_after_faults, '
                  'recovery_every_directory), a request never touches other forms\' entries (request_is_local) and '
                  'the complete case analysis fresh_request_outcome: returned / rebuilt / dies only on a crash-class '
                  'prefix of its own entry (crash_class_kills, clear_during_build_refuted as sharpness). 24 theorems. '
                  'The model is tied to /repo by executing '
                  'fault histories on real processes and comparing outcome class, directory contents and stage trace '
                  'per event with Model.predict.',
    'level_note': 'Partial: atomicity of rename(2), uniqueness of mkdtemp names, injectivity of the SHAKE digest and '
                  'the behaviour of dlopen on damaged files are assumptions of the model (the last one measured per '
                  'run); crash points inside a write are emulated by truncating the finished output. A completed .so '
                  'cut inside its mapped pages from OUTSIDE still kills the interpreter (SIGBUS in dlopen): open '
                  'finding impl:interpreter-death:dmg-so-Header; the theorems show no interrupted or concurrent '
                  'build can produce that state after the repair.',
}
