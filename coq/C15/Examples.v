(* C15 -- non-vacuity and concrete instances. *)
From Coq Require Import ZArith List Bool Lia Sorted.
From Verif.C15 Require Import Model Spec Proofs Proofs2 Proofs3 Proofs4 Proofs5.
Import ListNotations.
Open Scope Z_scope.

(* the input of DESIGN.md section 5: four levels, level 1 has its first non-zero in column 1 *)
Definition ex_bs : list (Z * Z) := [(2, 2); (2, 2); (1, 1); (1, 1)].
Definition ex_bidx : list pat := [[(0, 0); (1, 1)]; [(0, 1); (1, 0)]; [(0, 0)]; [(0, 0)]].

Example ex_nd_repaired : ml_nonzero_nd ex_bidx ex_bs false = [(0, 1); (1, 0); (2, 3); (3, 2)].
Proof. vm_compute. reflexivity. Qed.

Example ex_nd_is_kron : ml_nonzero_nd ex_bidx ex_bs false = kron_pattern ex_bs ex_bidx.
Proof. vm_compute. reflexivity. Qed.

(* the routine as it stood before fixes/C15-nonzero-nd-block-j-init.patch (block_j
   initialised from level 0) reports (0,0) instead of (0,1): it violates the property *)
Example ex_nd_level0_init_refuted :
  ml_nonzero_nd_level0 ex_bidx ex_bs false <> kron_pattern ex_bs ex_bidx.
Proof. vm_compute. discriminate. Qed.

(* rectangular blocks (2x3) (x) (2x2): 4 rows, 6 columns *)
Definition ex_rbs : list (Z * Z) := [(2, 3); (2, 2)].
Definition ex_rbidx : list pat := [compute_dense_ij 2 3; compute_dense_ij 2 2].
Definition ex_rdata : list Z := map Z.of_nat (seq 0 24).

Example ex_matvec_rect : matvec ex_rbs ex_rbidx ex_rdata [1; 1; 1; 1; 1; 1] = Some [27; 39; 99; 111].
Proof. vm_compute. reflexivity. Qed.

(* allocation by len(x) (before fixes/C15-matvec-rectangular.patch): wrong length *)
Example ex_matvec_lenx_wrong_length :
  matvec_lenx ex_rbs ex_rbidx ex_rdata [1; 1; 1; 1; 1; 1] = Some [27; 39; 99; 111; 0; 0].
Proof. vm_compute. reflexivity. Qed.
(* ... and an out-of-range write when there are more rows than columns *)
Example ex_matvec_lenx_overflow :
  matvec_lenx (transpose_bs ex_rbs) (transpose_bidx ex_rbidx) ex_rdata [1; 1; 1; 1] = None.
Proof. vm_compute. reflexivity. Qed.

(* hypotheses of the bijection theorems are satisfiable *)
Example ex_dims_pos : dims_pos [3; 4; 5].
Proof. repeat constructor. Qed.
Example ex_valid_mi : valid_mi [2; 0; 4] [3; 4; 5].
Proof. repeat constructor; lia. Qed.
Example ex_to_seq : to_seq [2; 0; 4] [3; 4; 5] = 44 /\ from_seq 44 [3; 4; 5] = [2; 0; 4].
Proof. vm_compute. auto. Qed.

(* hypotheses of kron_pattern_is_kronecker / rows_spec / cols_spec / matvec_spec hold for the
   example structures *)
Example ex_wf : wf_structure ex_bs ex_bidx.
Proof. unfold wf_structure, ex_bs, ex_bidx, pat_in_block. repeat constructor; simpl; lia. Qed.
Example ex_wf_rect : wf_structure ex_rbs ex_rbidx.
Proof. unfold wf_structure, ex_rbs, ex_rbidx, pat_in_block. vm_compute. repeat constructor; discriminate. Qed.
Example ex_dims_pos_rect : dims_pos (rowdims ex_rbs) /\ dims_pos (coldims ex_rbs).
Proof. split; repeat constructor. Qed.

(* a three-level rectangular structure with shuffled entries and first non-zeros off column 0 *)
Definition ex3_bs : list (Z * Z) := [(3, 2); (2, 2); (1, 2)].
Definition ex3_bidx : list pat := [[(2, 1); (0, 1)]; [(1, 0); (0, 1)]; [(0, 1)]].
Example ex3_nonzero : nonzero ex3_bs ex3_bidx false = Some [(5, 5); (4, 7); (1, 5); (0, 7)].
Proof. vm_compute. reflexivity. Qed.
Example ex3_lower : nonzero ex3_bs ex3_bidx true = Some [(5, 5)].
Proof. vm_compute. reflexivity. Qed.
Example ex3_rows : nonzeros_for_rows ex3_bs ex3_bidx [4; 0; 3] = Some [(4, 7, 0); (0, 7, 1)].
Proof. vm_compute. reflexivity. Qed.
Example ex3_rows_refused : nonzeros_for_rows ex3_bs ex3_bidx [6] = None.
Proof. vm_compute. reflexivity. Qed.
Example ex3_cols : nonzeros_for_columns ex3_bs ex3_bidx [7; 5] = Some [(4, 7); (0, 7); (5, 5); (1, 5)].
Proof. vm_compute. reflexivity. Qed.
Example ex3_kron_nonzero : kron_nonzero ex3_bs ex3_bidx 4 7.
Proof.
  unfold kron_nonzero. split; [vm_compute; split; [discriminate|reflexivity]|].
  split; [vm_compute; split; [discriminate|reflexivity]|].
  vm_compute. repeat constructor; simpl; tauto.
Qed.

(* multilevel index *)
Example ex_valid_ml : valid_ml [5; 3] [(3, 2); (2, 2)].
Proof. repeat constructor; simpl; lia. Qed.
Example ex_reindex : reindex_to_multilevel 5 3 [(3, 2); (2, 2)] = [5; 3]
  /\ reindex_from_multilevel [5; 3] [(3, 2); (2, 2)] = (5, 3).
Proof. vm_compute. auto. Qed.

(* compute_sparsity_ij on nested meshes (knot values scaled by 4): p=2 on {0,2,4} against its
   uniform refinement; rows = functions of the second knot vector *)
Example ex_sparsity_nested :
  compute_sparsity_ij (supports [0; 0; 0; 2; 4; 4; 4] 2) (supports [0; 0; 0; 1; 2; 3; 4; 4; 4] 2)
  = [(0,0);(0,1);(0,2); (1,0);(1,1);(1,2); (2,0);(2,1);(2,2);(2,3); (3,0);(3,1);(3,2);(3,3);
     (4,1);(4,2);(4,3); (5,1);(5,2);(5,3)].
Proof. vm_compute. reflexivity. Qed.

(* asmatrix / reorder / kron_partial instances *)
Example ex3_asmatrix : asmatrix ex3_bs ex3_bidx [1; -2; 3; 2] = [((0, 7), 2); ((1, 5), 3); ((4, 7), -2); ((5, 5), 1)].
Proof. vm_compute. reflexivity. Qed.
Example ex_kron_partial :
  kron_partial [[[0; 2; 0]; [3; 0; 1]; [0; 7; 0]]; [[2; 9; 0; 0]; [0; 2; 9; 0]; [0; 0; 2; 9]]] [4] true
  = Some [((0, 1), 6); ((0, 2), 27); ((0, 9), 2); ((0, 10), 9)].
Proof. vm_compute. reflexivity. Qed.

(* the hypotheses of sparsity_ij_spec hold for the supports of a knot vector with a repeated knot *)
Definition ex_kv : list Z := [0; 0; 0; 1; 2; 2; 3; 4; 4; 4].
Example ex_supports_sorted :
  StronglySorted Z.le (map fst (supports ex_kv 2)) /\ StronglySorted Z.le (map snd (supports ex_kv 2))
  /\ Forall nonempty_supp (supports ex_kv 2).
Proof.
  vm_compute. repeat split; repeat constructor; discriminate.
Qed.

(* one level: lower_tri is the J<=I sub-list of the level pattern *)
Example ex1_lower : nonzero [(3, 3)] [[(0, 1); (1, 0); (2, 2); (1, 2)]] true = Some [(1, 0); (2, 2)].
Proof. vm_compute. reflexivity. Qed.

(* a history: query, assign, query -- the hypotheses of history_last_assignment are met *)
Example ex_history :
  set_ok ex3_bidx [5; 6; 7; 8] = true /\
  hist_run ex3_bs ex3_bidx [1; -2; 3; 2] [OpQuery; OpSet [9; 9; 9]; OpQuery; OpSet [5; 6; 7; 8]; OpQuery] = [5; 6; 7; 8] /\
  asmatrix ex3_bs ex3_bidx [5; 6; 7; 8] <> asmatrix ex3_bs ex3_bidx [1; -2; 3; 2].
Proof. vm_compute. repeat split; discriminate. Qed.

(* hypotheses of the final-round theorems are satisfiable *)
Example ex_knot_vector : knot_vector ex_kv 2.
Proof.
  split. - vm_compute. repeat constructor; discriminate.
  - intros i Hi. simpl in Hi. do 7 (destruct i as [|i]; [vm_compute; reflexivity|]). lia.
Qed.
Example ex_transpose_idx : NoDup [(0, 1); (1, 0); (2, 2); (1, 2); (2, 1)] /\
  transpose_idx [(0, 1); (1, 0); (2, 2); (1, 2); (2, 1)] = Some [1; 0; 2; 4; 3] /\
  transpose_idx [(0, 1); (2, 2)] = None.
Proof.
  split; [|vm_compute; auto].
  repeat constructor; simpl; intros H; repeat (destruct H as [H|H]; [discriminate|]); auto.
Qed.
Definition ex_As : list (list (list Z)) := [[[0; 2; 0]; [3; 0; 1]; [0; 7; 0]]; [[2; 9; 0; 0]; [0; 2; 9; 0]; [0; 0; 2; 9]]].
Example ex_rect : Forall rect ex_As.
Proof. repeat constructor; simpl; lia. Qed.
Example ex_kron_rec : kron_rec ex_As 4 9 = 2 /\ kron_rec ex_As 4 0 = 0 /\
  kron_partial ex_As [4; 1] false = Some [((1, 5), 4); ((1, 6), 18); ((4, 1), 6); ((4, 2), 27); ((4, 9), 2); ((4, 10), 9)].
Proof. vm_compute. auto. Qed.

(* reorder_spec: its hypotheses hold for the three-level example and axes (2,0,1); the datum
   data[K] for K = (1,0,0) (value -2... position 2 of the layout) moves to the permuted digits *)
Example ex_reorder_hyps :
  Forall (@NoDup (Z * Z)) ex3_bidx /\ cvalid ex3_bidx [1; 0; 0]%nat /\
  Forall (fun a => (a < length ex3_bidx)%nat) [2; 0; 1]%nat /\
  (forall j, (j < length ex3_bidx)%nat -> In j [2; 0; 1]%nat).
Proof.
  split; [|split; [|split]].
  - repeat constructor; simpl; intros H; repeat (destruct H as [H|H]; [discriminate|]); auto.
  - simpl. lia.
  - repeat constructor.
  - intros j Hj. simpl in *. destruct j as [|[|[|j]]]; auto; lia.
Qed.
Example ex_reorder_instance :
  let sel := sel_of (0, 0) ex3_bidx [1; 0; 0]%nat in
  sel = [(0, 1); (1, 0); (0, 1)] /\ pos_of ex3_bidx [1; 0; 0]%nat = 2%nat /\
  entry_of ex3_bs sel = (1, 5) /\
  entry_of (reorder_bs ex3_bs [2; 0; 1]%nat) (pick (0, 0) sel [2; 0; 1]%nat) = (1, 6) /\
  dense_entry (reorder_asmatrix ex3_bs ex3_bidx [1; -2; 3; 2] [2; 0; 1]%nat) 1 6 = 3.
Proof. vm_compute. repeat split; reflexivity. Qed.

Example ex_kron_partial_restrict :
  kron_partial ex_As [4; 1; 4] true
  = Some [((0, 1), 6); ((0, 2), 27); ((0, 9), 2); ((0, 10), 9); ((1, 5), 4); ((1, 6), 18);
          ((2, 1), 6); ((2, 2), 27); ((2, 9), 2); ((2, 10), 9)].
Proof. vm_compute. reflexivity. Qed.
