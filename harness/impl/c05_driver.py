"""Implementation driver for C05: knot insertion / prolongation matrices and the
transfer matrices + evaluation routes of hierarchical spaces, on the real code."""
import json
import sys

import numpy as np
import scipy.sparse


def errclass(e):
    for c in (TypeError, ValueError, AssertionError, IndexError, KeyError, NotImplementedError, RuntimeError):
        if isinstance(e, c):
            return c.__name__
    return 'Other:' + type(e).__name__


def fl(h):
    return float.fromhex(h)


def dense_hex(M):
    A = M.toarray() if scipy.sparse.issparse(M) else np.asarray(M)
    return [[float(x).hex() for x in row] for row in A]


def trip(M):
    M = scipy.sparse.coo_matrix(M)
    return {'shape': [int(M.shape[0]), int(M.shape[1])],
            'ijv': [[int(i), int(j), float(v)] for i, j, v in zip(M.row, M.col, M.data) if v != 0.0]}


def main():
    import os
    import pyiga
    assert os.path.realpath(pyiga.__file__).startswith(os.path.realpath(os.environ['VERIF_IMPL_DIR'])), pyiga.__file__
    from pyiga import bspline

    payload = json.load(sys.stdin)
    if payload.get('hier'):
        from pyiga import hierarchical
    out = {'ki': [], 'prol': [], 'hier': []}

    for c in payload.get('ki', []):
        r = {}
        try:
            kv = bspline.KnotVector(np.array([fl(h) for h in c['kv']]), c['p'])
            u = fl(c['u'])
            P = bspline.knot_insertion(kv, u)
            r = {'status': 'Ok', 'k': int(kv.findspan(u)), 'shape': list(P.shape), 'P': dense_hex(P),
                 'sparse': bool(scipy.sparse.issparse(P))}
        except Exception as e:
            r = {'status': errclass(e), 'msg': str(e)[:200]}
        out['ki'].append(r)

    for c in payload.get('prol', []):
        try:
            kv1 = bspline.KnotVector(np.array([fl(h) for h in c['kv1']]), c['p'])
            kv2 = bspline.KnotVector(np.array([fl(h) for h in c['kv2']]), c['p'])
            P = bspline.prolongation(kv1, kv2)
            r = {'status': 'Ok', 'shape': list(P.shape), 'P': dense_hex(P)}
            if c.get('refine'):
                # the route HMesh.add_level takes: kv.refine() and the prolongation to it
                kvr = kv1.refine()
                r['refined'] = [float(x).hex() for x in kvr.kv]
                r['Pref'] = dense_hex(bspline.prolongation(kv1, kvr))
        except Exception as e:
            r = {'status': errclass(e), 'msg': str(e)[:200]}
        out['prol'].append(r)

    def struct(hs):
        L = hs.numlevels
        return {'L': L, 'dim': hs.dim,
                'kvs': [[[float(x) for x in kv.kv] for kv in hs.knotvectors(l)] for l in range(L)],
                'p': [int(kv.p) for kv in hs.knotvectors(0)],
                'act': [sorted([int(a) for a in t] for t in hs.actfun[l]) for l in range(L)],
                'deact': [sorted([int(a) for a in t] for t in hs.deactfun[l]) for l in range(L)],
                'acells': [sorted([int(a) for a in t] for t in hs.hmesh.active[l]) for l in range(L)],
                'dcells': [sorted([int(a) for a in t] for t in hs.hmesh.deactivated[l]) for l in range(L)],
                'truncate': bool(hs.truncate),
                'disparity': None if hs.disparity == np.inf else int(hs.disparity),
                'numdofs': int(hs.numdofs)}

    def apply_steps(hs, steps, used):
        for (lv, box) in steps:
            if lv >= hs.numlevels:
                used.append(None)
                continue
            cells = set()
            for c in hs.active_cells(lv):
                ext = hs.cell_extents(lv, c)
                if all(b[0] <= 0.5 * (lo + hi) < b[1] for (lo, hi), b in zip(ext, box)):
                    cells.add(tuple(c))
            if not cells:
                used.append(None)
                continue
            actual = hs.refine({lv: cells})
            used.append({'lv': lv, 'marked': sorted(list(c) for c in cells),
                         'refined': {str(k): sorted(list(c) for c in v) for k, v in actual.items() if v}})

    def guarded(res, key, f):
        try:
            res[key] = f()
        except Exception as e:
            import traceback
            res[key] = {'error': errclass(e), 'msg': (str(e) or traceback.format_exc())[-300:]}

    for c in payload.get('hier', []):
        res = {}
        try:
            kvs = tuple(bspline.KnotVector(np.array([fl(h) for h in kvh]), p) for kvh, p in zip(c['kvs'], c['p']))
            disp = np.inf if c['disparity'] is None else c['disparity']
            hs = hierarchical.HSpace(kvs, truncate=c['truncate'], disparity=disp)
            used = []
            apply_steps(hs, [tuple(s) for s in c['steps']], used)
            fine = hs.copy()
            used_f = []
            apply_steps(fine, [tuple(s) for s in c['fine_steps']], used_f)
            res['status'] = 'Ok'
            res['used'] = used
            res['used_fine'] = used_f
            res['hs'] = struct(hs)
            res['fine'] = struct(fine)
        except Exception as e:
            import traceback
            res = {'status': errclass(e), 'msg': (str(e) or traceback.format_exc())[-300:]}
            out['hier'].append(res)
            continue
        L = hs.numlevels
        guarded(res, 'vh_hb', lambda: [trip(P) for P in hs.virtual_hierarchy_prolongators(truncate=False)])
        guarded(res, 'vh_thb', lambda: [trip(P) for P in hs.virtual_hierarchy_prolongators(truncate=True)])
        guarded(res, 'vh_default', lambda: [trip(P) for P in hs.virtual_hierarchy_prolongators()])
        for tr in (False, True):
            guarded(res, 'rf_%d' % tr, lambda: [trip(hs.represent_fine(lv=lv, truncate=tr)) for lv in range(L)])
        guarded(res, 'rf_default', lambda: trip(hs.represent_fine()))
        rows = np.unique(np.array([r % hs.mesh(L - 1).numbf for r in c['rf_rows']], dtype=int))
        res['rf_rows_used'] = [int(r) for r in rows]
        guarded(res, 'rf_rows', lambda: trip(hs.represent_fine(rows=rows, restrict=False, truncate=c['truncate'])))
        guarded(res, 'rf_rows_restrict', lambda: trip(hs.represent_fine(rows=rows, restrict=True, truncate=c['truncate'])))
        guarded(res, 'pt', lambda: trip(hs.prolongate_to(fine)))
        # chain with warm index caches: fine (already the target of a prolongate_to, so its cached
        # canonical-index tables are filled) is copied WITH its caches and refined further
        if c.get('chain_steps'):
            def chain():
                fine2 = fine.copy()
                used2 = []
                apply_steps(fine2, [tuple(s) for s in c['chain_steps']], used2)
                o = {'used': used2, 'hs': struct(fine2)}
                o['pt12'] = trip(fine.prolongate_to(fine2))
                o['pt02'] = trip(hs.prolongate_to(fine2))
                o['rf'] = trip(fine2.represent_fine(truncate=False))
                # the same refinement in place on an object whose caches are warm
                fine3 = fine
                old = fine.copy()
                apply_steps(fine3, [tuple(s) for s in c['chain_steps']], [])
                o['pt_inplace'] = trip(old.prolongate_to(fine3))
                return o
            guarded(res, 'chain', chain)
        guarded(res, 'thb_to_hb', lambda: trip(hs.thb_to_hb()))
        guarded(res, 'hb_to_thb', lambda: trip(hs.hb_to_thb()))
        # evaluation routes
        u = np.array([float(x) for x in c['coeffs'][:hs.numdofs]] + [1.0] * max(0, hs.numdofs - len(c['coeffs'])))
        res['u'] = [float(x) for x in u]
        grid = tuple(np.array([fl(h) for h in ax]) for ax in c['grid'])
        for tr in (False, True):
            def ev():
                f = hierarchical.HSplineFunc(hs, u, truncate=tr)
                o = {'grid_eval': np.asarray(f.grid_eval(grid), dtype=float).ravel().tolist(),
                     'grid_jacobian': np.asarray(f.grid_jacobian(grid), dtype=float).ravel().tolist(),
                     'grid_hessian': np.asarray(f.grid_hessian(grid), dtype=float).ravel().tolist(),
                     'hs_grid_eval': np.asarray(hs.grid_eval(u, grid, truncate=tr), dtype=float).ravel().tolist()}
                pts = []
                for pt in c['points']:
                    x = [fl(h) for h in pt]          # in axis order (z, y, x)
                    pts.append(float(np.asarray(f(*reversed(x))).ravel()[0]))
                o['call'] = pts
                return o
            guarded(res, 'eval_%d' % tr, ev)
        f0 = hierarchical.HSplineFunc(hs, u)
        res['default_truncate'] = bool(f0.truncate)
        # boundary restriction
        bds = []
        if hs.dim >= 2:
            for bd in c['bdspecs']:
                b = {'bdspec': bd}
                def mk():
                    bhs, mapping = hs.boundary(tuple(bd))
                    return {'hs': struct(bhs), 'map': [int(i) for i in mapping]}
                guarded(b, 'res', mk)
                bds.append(b)
        res['bd'] = bds
        out['hier'].append(res)

    print(json.dumps(out))


if __name__ == '__main__':
    main()
