(* C12 -- property theorems only.  Each is closed by [exact] of a lemma of Proofs.v and
   followed by Print Assumptions.

   Reading guide.  R is any commutative ring (Leibniz equality); the intended instance is the
   coordinate ring K^n with componentwise operations and the scalars (tau, a_ij, b_i) embedded
   as constant vectors, so that every vector operation of solvers.py is a ring operation.
   M, F, Minv, solve (Newton on one stage system), Jx (v |-> J(x) v) and Cinv are arbitrary
   functions; what is assumed of them is written as a premise of each theorem.
   [lin c v] is sum_j c_j v_j over the common length of c and v.

   The conjunct "each shipped tableau satisfies the order conditions of its documented order"
   is not in this file: it is re-proved on every run, by vm_compute, on the tables translated
   from the current solvers.py (coq/gen/C12_tab_<method>.v, see translate/tableaux.py), with
   the rounding allowance max(64 eps, 8*10^-d) * sum|terms|. *)
From Coq Require Import QArith List Ring_theory.
From Verif.C12 Require Import Model Proofs.
Import ListNotations.
Open Scope nat_scope.

(* --- dirk_step: the stages satisfy the stage equations of the tableau, for every number of
   stages, every tableau (explicit first stage allowed), M, F, step size and solver:
     M y_i = M x + tau sum_{j<=i} a_ij F(y_j) + r_i ,   Fy_i = F(y_i),
   where r_i is the Newton residual of stage i (next theorem). *)
Theorem dirk_stage_equations :
  forall (R : Type) (rO rI : R) (radd rmul rsub : R -> R -> R) (ropp : R -> R),
  ring_theory rO rI radd rmul rsub ropp eq ->
  forall (isz : R -> bool) (M F Minv : R -> R) (solve : R -> R -> R -> R * R) (x tau : R) (Fx : option R),
  (forall a, isz a = true -> a = rO) ->
  (forall c rhs x0, snd (solve c rhs x0) = F (fst (solve c rhs x0))) ->
  (forall f, Fx = Some f -> f = F x) ->
  forall (A : list (list R)) (b : list R) (bhat : option (list R)) (is_sa : bool)
         (xn : R) (xe Fxn : option R) (ys Fy rs : list R),
  dirk_step R rO radd rmul rsub isz M F Minv solve x tau Fx A b bhat is_sa = Some (xn, xe, Fxn, (ys, Fy, rs)) ->
  length ys = length A /\ length rs = length A /\ Fy = map F ys /\
  forall i, i < length A ->
    M (nth i ys rO) =
    radd (radd (M x) (rmul tau (lin R rO radd rmul (nth i A []) (firstn (S i) (map F ys))))) (nth i rs rO).
Proof. exact dirk_stage_equations_l. Qed.
Print Assumptions dirk_stage_equations.

(* r_i is exactly the value at the returned y_i of the function handed to Newton in stage i
   (so |r_i| < Newton's target by newton_result); the explicit stage has y_0 = x, r_0 = 0. *)
Theorem dirk_residual_is_newton_residual :
  forall (R : Type) (rO rI : R) (radd rmul rsub : R -> R -> R) (ropp : R -> R),
  ring_theory rO rI radd rmul rsub ropp eq ->
  forall (isz : R -> bool) (M F Minv : R -> R) (solve : R -> R -> R -> R * R) (x tau : R) (Fx : option R),
  (forall a, isz a = true -> a = rO) ->
  (forall c rhs x0, snd (solve c rhs x0) = F (fst (solve c rhs x0))) ->
  (forall f, Fx = Some f -> f = F x) ->
  forall (A : list (list R)) (b : list R) (bhat : option (list R)) (is_sa : bool)
         (xn : R) (xe Fxn : option R) (ys Fy rs : list R),
  dirk_step R rO radd rmul rsub isz M F Minv solve x tau Fx A b bhat is_sa = Some (xn, xe, Fxn, (ys, Fy, rs)) ->
  forall i, i < length A ->
    let a_ii := nth i (nth i A []) rO in
    let rhs := radd (M x) (rmul tau (lin R rO radd rmul (nth i A []) (firstn i (map F ys)))) in
    (isz a_ii = true /\ i = 0 /\ nth i ys rO = x /\ nth i rs rO = rO)
    \/ (isz a_ii = false
        /\ nth i rs rO = newton_F R rmul rsub M F (rmul tau a_ii) rhs (nth i ys rO)
        /\ exists x0, fst (solve (rmul tau a_ii) rhs x0) = nth i ys rO).
Proof. exact dirk_residual_provenance_l. Qed.
Print Assumptions dirk_residual_is_newton_residual.

(* the update without the stiffly-accurate shortcut:  M x_new = M x + tau sum b_i F(y_i) *)
Theorem dirk_update_equation :
  forall (R : Type) (rO rI : R) (radd rmul rsub : R -> R -> R) (ropp : R -> R),
  ring_theory rO rI radd rmul rsub ropp eq ->
  forall (isz : R -> bool) (M F Minv : R -> R) (solve : R -> R -> R -> R * R) (x tau : R) (Fx : option R),
  (forall a, isz a = true -> a = rO) ->
  (forall c rhs x0, snd (solve c rhs x0) = F (fst (solve c rhs x0))) ->
  (forall f, Fx = Some f -> f = F x) ->
  (forall v, M (Minv v) = v) ->
  forall (A : list (list R)) (b : list R) (bhat : option (list R)) (xn : R) (xe Fxn : option R) (ys Fy rs : list R),
  dirk_step R rO radd rmul rsub isz M F Minv solve x tau Fx A b bhat false = Some (xn, xe, Fxn, (ys, Fy, rs)) ->
  M xn = radd (M x) (rmul tau (lin R rO radd rmul b (map F ys))) /\ Fxn = None.
Proof. exact dirk_update_l. Qed.
Print Assumptions dirk_update_equation.

(* the embedded estimate:  M x_est = M x + tau sum bhat_i F(y_i) *)
Theorem dirk_embedded_equation :
  forall (R : Type) (rO rI : R) (radd rmul rsub : R -> R -> R) (ropp : R -> R),
  ring_theory rO rI radd rmul rsub ropp eq ->
  forall (isz : R -> bool) (M F Minv : R -> R) (solve : R -> R -> R -> R * R) (x tau : R) (Fx : option R),
  (forall a, isz a = true -> a = rO) ->
  (forall c rhs x0, snd (solve c rhs x0) = F (fst (solve c rhs x0))) ->
  (forall f, Fx = Some f -> f = F x) ->
  (forall v, M (Minv v) = v) ->
  forall (A : list (list R)) (b bh : list R) (is_sa : bool) (xn : R) (xe Fxn : option R) (ys Fy rs : list R),
  dirk_step R rO radd rmul rsub isz M F Minv solve x tau Fx A b (Some bh) is_sa = Some (xn, xe, Fxn, (ys, Fy, rs)) ->
  exists xh, xe = Some xh /\ M xh = radd (M x) (rmul tau (lin R rO radd rmul bh (map F ys))).
Proof. exact dirk_embedded_l. Qed.
Print Assumptions dirk_embedded_equation.

(* the stiffly-accurate shortcut x_new = y_s: when b is the last row of A it satisfies the
   same update equation up to the last Newton residual, and the value handed to the next
   step as Fx is F(x_new) (so the premise on Fx is re-established for the next step). *)
Theorem dirk_stiffly_accurate_shortcut :
  forall (R : Type) (rO rI : R) (radd rmul rsub : R -> R -> R) (ropp : R -> R),
  ring_theory rO rI radd rmul rsub ropp eq ->
  forall (isz : R -> bool) (M F Minv : R -> R) (solve : R -> R -> R -> R * R) (x tau : R) (Fx : option R),
  (forall a, isz a = true -> a = rO) ->
  (forall c rhs x0, snd (solve c rhs x0) = F (fst (solve c rhs x0))) ->
  (forall f, Fx = Some f -> f = F x) ->
  forall (A : list (list R)) (b : list R) (bhat : option (list R)) (xn : R) (xe Fxn : option R) (ys Fy rs : list R),
  A <> [] -> b = last A [] ->
  dirk_step R rO radd rmul rsub isz M F Minv solve x tau Fx A b bhat true = Some (xn, xe, Fxn, (ys, Fy, rs)) ->
  M xn = radd (radd (M x) (rmul tau (lin R rO radd rmul b (map F ys)))) (last rs rO) /\ Fxn = Some (F xn).
Proof. exact dirk_sa_l. Qed.
Print Assumptions dirk_stiffly_accurate_shortcut.

(* y' = M^-1 c: one step adds tau (sum b) M^-1 c, i.e. it is exact iff sum b = 1 *)
Theorem dirk_const_rhs_exact_iff_consistent :
  forall (R : Type) (rO rI : R) (radd rmul rsub : R -> R -> R) (ropp : R -> R),
  ring_theory rO rI radd rmul rsub ropp eq ->
  forall (isz : R -> bool) (M F Minv : R -> R) (solve : R -> R -> R -> R * R) (x tau : R) (Fx : option R),
  (forall a, isz a = true -> a = rO) ->
  (forall c rhs x0, snd (solve c rhs x0) = F (fst (solve c rhs x0))) ->
  (forall f, Fx = Some f -> f = F x) ->
  (forall v, M (Minv v) = v) ->
  forall (c : R) (A : list (list R)) (b : list R) (bhat : option (list R)) (xn : R) (xe Fxn : option R) (ys Fy rs : list R),
  (forall z, F z = c) -> length b = length A ->
  dirk_step R rO radd rmul rsub isz M F Minv solve x tau Fx A b bhat false = Some (xn, xe, Fxn, (ys, Fy, rs)) ->
  M xn = radd (M x) (rmul tau (rmul (fold_right radd rO b) c)).
Proof. exact dirk_const_rhs_l. Qed.
Print Assumptions dirk_const_rhs_exact_iff_consistent.

(* --- rosenbrock_step, as the code computes it:
     M k_i = F(x + tau sum_{j<i} a_ij k_j) + tau J w_i + tau gamma J k_i,
     w_i = sum_{j<i} gamma_ij k_j (absent for i = 0),  x_new = x + tau sum b_i k_i, x_est likewise *)
Theorem rosenbrock_stage_equations :
  forall (R : Type) (rO rI : R) (radd rmul rsub : R -> R -> R) (ropp : R -> R),
  ring_theory rO rI radd rmul rsub ropp eq ->
  forall (M F : R -> R) (x tau : R) (Jx Cinv : R -> R) (gam : R),
  (forall v, rsub (M (Cinv v)) (rmul (rmul tau gam) (Jx (Cinv v))) = v) ->
  forall (A G : list (list R)) (b : list R) (bhat : option (list R)) (xn : R) (xe : option R) (ks : list R),
  length A = length G ->
  ros_step R rO radd rmul F x tau Jx Cinv A G b bhat = (xn, xe, ks) ->
  length ks = length A /\
  (forall i, i < length A ->
     M (nth i ks rO) =
     radd (radd (F (radd x (rmul tau (lin R rO radd rmul (nth i A []) (firstn i ks)))))
                (rmul tau (match i with 0 => rO | S _ => Jx (lin R rO radd rmul (nth i G []) (firstn i ks)) end)))
          (rmul (rmul tau gam) (Jx (nth i ks rO)))) /\
  xn = radd x (rmul tau (lin R rO radd rmul b ks)) /\
  match bhat with
  | Some bh => xe = Some (radd x (rmul tau (lin R rO radd rmul bh ks)))
  | None => xe = None
  end.
Proof. exact ros_stage_equations_l. Qed.
Print Assumptions rosenbrock_stage_equations.

(* with a linear Jacobian product and Gamma[i,i] = gamma (the assumption written in the code)
   this is the textbook form  M k_i = F(y_i) + tau J sum_{j<=i} gamma_ij k_j *)
Theorem rosenbrock_stage_equations_combined :
  forall (R : Type) (rO rI : R) (radd rmul rsub : R -> R -> R) (ropp : R -> R),
  ring_theory rO rI radd rmul rsub ropp eq ->
  forall (M F : R -> R) (x tau : R) (Jx Cinv : R -> R) (gam : R),
  (forall v, rsub (M (Cinv v)) (rmul (rmul tau gam) (Jx (Cinv v))) = v) ->
  (forall u v, Jx (radd u (rmul gam v)) = radd (Jx u) (rmul gam (Jx v))) ->
  Jx rO = rO ->
  forall (A G : list (list R)) (b : list R) (bhat : option (list R)) (xn : R) (xe : option R) (ks : list R),
  length A = length G ->
  (forall i, i < length G -> nth i (nth i G []) rO = gam) ->
  ros_step R rO radd rmul F x tau Jx Cinv A G b bhat = (xn, xe, ks) ->
  forall i, i < length A ->
    M (nth i ks rO) =
    radd (F (radd x (rmul tau (lin R rO radd rmul (nth i A []) (firstn i ks)))))
         (rmul tau (Jx (lin R rO radd rmul (nth i G []) (firstn (S i) ks)))).
Proof. exact ros_combined_l. Qed.
Print Assumptions rosenbrock_stage_equations_combined.

(* y' = M^-1 c (J = 0): every stage has M k_i = c, x_new = x + tau sum b_i k_i *)
Theorem rosenbrock_const_rhs :
  forall (R : Type) (rO rI : R) (radd rmul rsub : R -> R -> R) (ropp : R -> R),
  ring_theory rO rI radd rmul rsub ropp eq ->
  forall (M F : R -> R) (x tau : R) (Jx Cinv : R -> R) (gam : R),
  (forall v, rsub (M (Cinv v)) (rmul (rmul tau gam) (Jx (Cinv v))) = v) ->
  forall (c : R) (A G : list (list R)) (b : list R) (bhat : option (list R)) (xn : R) (xe : option R) (ks : list R),
  length A = length G -> length b = length A ->
  ros_step R rO radd rmul F x tau Jx Cinv A G b bhat = (xn, xe, ks) ->
  (forall z, Jx z = rO) -> (forall z, F z = c) ->
  (forall i, i < length ks -> M (nth i ks rO) = c) /\ xn = radd x (rmul tau (lin R rO radd rmul b ks)).
Proof. exact ros_const_rhs_l. Qed.
Print Assumptions rosenbrock_const_rhs.

(* --- newton: a returned point is the last point at which the residual was evaluated, its
   residual norm is below max(atol, rtol*|F(x0)|), and it is one of the maxiter iterates *)
Theorem newton_result :
  forall (V : Type) (Fn : V -> V) (Jsolve vsub : V -> V -> V) (norm : V -> Q) (atol rtol : Q)
         (freeze maxiter : nat) (x0 y res : V),
  newton V Fn Jsolve vsub norm atol rtol freeze maxiter x0 = Some (y, res) ->
  res = Fn y /\ (norm (Fn y) < newton_target V Fn norm atol rtol x0)%Q /\
  In y (newton_iterates V Fn Jsolve vsub freeze maxiter 0 x0 x0).
Proof. exact newton_result_l. Qed.
Print Assumptions newton_result.

(* ... otherwise it raises, and then none of the maxiter iterates met the tolerance *)
Theorem newton_raises_otherwise :
  forall (V : Type) (Fn : V -> V) (Jsolve vsub : V -> V -> V) (norm : V -> Q) (atol rtol : Q)
         (freeze maxiter : nat) (x0 : V),
  newton V Fn Jsolve vsub norm atol rtol freeze maxiter x0 = None ->
  length (newton_iterates V Fn Jsolve vsub freeze maxiter 0 x0 x0) = maxiter /\
  forall y, In y (newton_iterates V Fn Jsolve vsub freeze maxiter 0 x0 x0) ->
            (newton_target V Fn norm atol rtol x0 <= norm (Fn y))%Q.
Proof. exact newton_raises_l. Qed.
Print Assumptions newton_raises_otherwise.

Theorem newton_target_is_max :
  forall (V : Type) (Fn : V -> V) (norm : V -> Q) (atol rtol : Q) (x0 : V),
  (atol <= newton_target V Fn norm atol rtol x0)%Q /\
  (rtol * norm (Fn x0) <= newton_target V Fn norm atol rtol x0)%Q.
Proof. exact newton_target_ge. Qed.
Print Assumptions newton_target_is_max.

(* --- constant-step driver: one time per state, times t0 + k tau, k = 0..ceil((t_end-t0)/tau) *)
Theorem constant_driver_times :
  forall t0 tau quot,
  length (const_times t0 tau quot (fun _ => false)) = S (const_num_iter quot) /\
  forall k, k <= const_num_iter quot ->
    (nth k (const_times t0 tau quot (fun _ => false)) 0%Q == t0 + inject_Z (Z.of_nat k) * tau)%Q.
Proof. exact constant_driver_times_l. Qed.
Print Assumptions constant_driver_times.

(* a Newton failure returns a non-empty prefix of those times (partial results) *)
Theorem constant_driver_partial :
  forall t0 tau quot fails,
  exists m, 1 <= m <= S (const_num_iter quot) /\
    const_times t0 tau quot fails = firstn m (const_times t0 tau quot (fun _ => false)).
Proof. exact const_times_prefix_l. Qed.
Print Assumptions constant_driver_partial.

(* in exact arithmetic the last time reaches t_end and the one before it does not *)
Theorem constant_driver_reaches_end :
  forall t0 tau t_end quot,
  (0 < tau)%Q -> (quot == (t_end - t0) / tau)%Q -> (t0 <= t_end)%Q ->
  let n := const_num_iter quot in
  (t_end <= t0 + inject_Z (Z.of_nat n) * tau)%Q /\
  (1 <= n -> (t0 + inject_Z (Z.of_nat (n - 1)) * tau < t_end)%Q).
Proof. exact const_reaches_end_l. Qed.
Print Assumptions constant_driver_reaches_end.

(* --- adaptive driver, for every sequence of stepper outcomes (error ratios, Newton failures)
   and every value of the real power step_factor * r^(-1/q): if the loop terminates, the times
   are strictly increasing, start at t0 and the last one is >= t_end *)
Theorem adaptive_driver_times :
  forall t0 tau0 t_end evs ts,
  (0 < tau0)%Q -> adaptive_times t0 tau0 t_end evs = Some ts ->
  increasing ts /\ hd 0%Q ts = t0 /\ (t_end <= last ts 0)%Q.
Proof. exact adaptive_times_l. Qed.
Print Assumptions adaptive_driver_times.

(* only steps that pass the scaled error test r <= 1 are accepted (with a positive step),
   one returned time per accepted step, and the times are the partial sums of those steps *)
Theorem adaptive_driver_accepts_only_passing :
  forall t0 tau0 t_end evs st,
  (0 < tau0)%Q -> adaptive_loop t_end (adaptive_init t0 tau0) evs = Some st ->
  Forall (fun p => (snd p <= 1)%Q /\ (0 < fst p)%Q) (a_log st) /\
  length (a_times st) = S (length (a_log st)) /\
  rev (a_times st) = psums t0 (rev (map fst (a_log st))).
Proof. exact adaptive_accept_full_l. Qed.
Print Assumptions adaptive_driver_accepts_only_passing.

(* consecutive step sizes handed to the stepper differ by a factor within [0.2, 5] *)
Theorem adaptive_driver_step_factor_bounds :
  forall evs t_end st k,
  S k < length (adaptive_taus t_end st evs) ->
  exists f, (nth (S k) (adaptive_taus t_end st evs) 0%Q == nth k (adaptive_taus t_end st evs) 0%Q * f)%Q
            /\ ((1#5) <= f)%Q /\ (f <= 5)%Q.
Proof. exact adaptive_taus_factor_l. Qed.
Print Assumptions adaptive_driver_step_factor_bounds.

(* NOT PROVED -- clause-by-clause account of the property text (properties.jsonl, C12) after the
   last round.  Theorems are in this file and in Props2.v.

   1. "one step of each DIRK and Rosenbrock integrator satisfies the stage equations of its
      coefficient tableau (to the Newton tolerance for nonlinear problems)"
      THEOREMS: dirk_stage_equations, dirk_residual_is_newton_residual, dirk_update_equation,
      dirk_embedded_equation, dirk_stiffly_accurate_shortcut, rosenbrock_stage_equations[_combined];
      through the drivers: constant_driver_states, adaptive_driver_states (Props2.v: every call gets
      the current state and Fx = None or F(state)).
      WITHOUT THEOREM: (a) that the stage solver of the model IS newton applied to newton_F -- the
      two are separate models; the link "solve returns (y, F(y)) with |newton_F(y)| < target" is
      the premise solve_Fz plus newton_result, composed on paper, and checked on the implementation
      by recording every Newton call of every stage (stage residual oracle);  (b) the premise
      b = last row of A of the shortcut is what np.allclose tests only up to 1e-8 relative: for a
      user tableau with b within that distance of, but different from, the last row the shortcut
      is taken and the update equation holds only up to tau*|b - A_s|*|F|; not bounded by a theorem;
      (c) floating point: all theorems are over an exact ring; rounding is bounded in the tie.
   2. "each shipped tableau satisfies the algebraic order conditions for the order it is documented
      to have, for main and embedded weights"
      BOUNDED ONLY: vm_compute on the 12 translated tables on every run (coq/gen/C12_tab_*.v), up to
      the allowance max(64 eps, 8*10^-d) sum|terms| for the truncated literals, orders <= 4.  No
      theorem that the order conditions imply the order of convergence (the B-series argument), and
      dirk34 is refuted (open finding, generated refutation obligation).
   3. "so that y' = const is integrated exactly"
      THEOREMS: dirk_const_rhs_exact_iff_consistent, dirk_const_rhs_exact (both code paths),
      rosenbrock_const_rhs, rosenbrock_const_rhs_update, rosenbrock_const_rhs_exact, and over a whole
      constant-step run constant_driver_states (last conjunct).  Premise: exact stage solves
      (Newton residuals zero); with Newton's tolerance the statement holds up to the residuals
      (dirk_stage_equations), not stated as a separate theorem.
   4. "Constant-step drivers return times t0+k*tau with one state per time"
      THEOREMS: constant_driver_times, constant_driver_partial, constant_driver_reaches_end,
      constant_driver_states.  WITHOUT THEOREM: num_iter is ceil of the FLOAT quotient (may add one
      step); the tie passes the float quotient to the model.
   5. "adaptive drivers return strictly increasing times that reach the end time, accept only steps
      passing the scaled error test and change the step by factors within the safety bounds"
      THEOREMS: adaptive_driver_times, adaptive_driver_accepts_only_passing,
      adaptive_driver_step_factor_bounds (for every outcome sequence), adaptive_driver_states (the
      stepper-driven loop refines the outcome-list model).
      WITHOUT THEOREM: adaptive_driver_terminates -- that the while loop terminates.  It needs a
      lower bound on the accepted step sizes, which depends on the error estimator of the concrete
      problem (r <= 1 must eventually hold when tau shrinks); the code has no iteration cap, so
      termination is not a property of the driver alone.  All adaptive theorems are stated for runs
      that return.  Also without theorem: the value of r (norm of the scaled difference) and of
      step_factor * r**(-1/q) are inputs of the model (a real power), and "strictly increasing" is
      over Q: in floating point t + tau = t is possible for tau < ulp(t) (not excluded by the code).
   6. "Newton's method returns only points whose residual meets its tolerance and otherwise raises"
      THEOREMS: newton_result, newton_raises_otherwise, newton_target_is_max.  Nothing open for the
      model; NaN residuals (comparison false, runs to maxiter and raises) are outside Q. *)
