(* C19 -- bounded binary64 statement, part 4 of 4 (computed): for the intervals
   [1e-06,1e-05], [123456.7,654321.9], [0.0,1e-06], [-1000000.0,1000000.0] (nearest doubles) and every n = 1..2000 the break points of the repaired
   make_knots pass NpF.bp_ok. *)
From Coq Require Import PrimFloat List Arith Bool.
From Verif.lib Require Import NpCore NpF.
Import ListNotations.
Open Scope float_scope.

Definition grid4 : list (float * float) :=
  [(0x1.0c6f7a0b5ed8dp-20, 0x1.4f8b588e368f1p-17);
   (0x1.e240b33333333p+16, 0x1.3f7e3cccccccdp+19);
   (0x0.0p+0, 0x1.0c6f7a0b5ed8dp-20);
   ((-0x1.e848000000000p+19), 0x1.e848000000000p+19)].

Lemma grid4_ok : grid_check 2000 grid4 = true.
Proof. vm_compute. reflexivity. Qed.
