(* C11 -- raveled_to_virtual_canonical_indices on well-formed states: the position search
   (_position_index, list.index from the last hit) succeeds for the four smoothing strategies and
   for dirichlet_dofs, and every dof of a virtual level has exactly one position.  The hypotheses
   (level sets sorted, active and deactivated functions disjoint) hold on every reachable state by
   C04's all_sorted_run / activity_characterisation (Required, not copied). *)
From Coq Require Import List Arith Bool Lia Sorted.
From Verif.lib Require Import FinSet.
From Verif.C04 Require Import Model Boundary Children Proofs ProofsFun.
From Verif.C04 Require Props.
From Verif.C11 Require Import SmoothSets SmoothSets2.
Import ListNotations.

(* ordered sublist *)
Inductive subl : list mi -> list mi -> Prop :=
| subl_nil : forall l, subl [] l
| subl_skip : forall y s l, subl s l -> subl s (y :: l)
| subl_take : forall x s l, subl s l -> subl (x :: s) (x :: l).

Lemma subl_refl : forall l, subl l l.
Proof. induction l; [apply subl_nil|apply subl_take; auto]. Qed.

Lemma subl_tail : forall x s l, subl (x :: s) l -> subl s l.
Proof.
  intros x s l H. remember (x :: s) as xs eqn:E. revert x s E.
  induction H; intros x0 s0 E; try discriminate.
  - apply subl_skip. eapply IHsubl; eauto.
  - inversion E; subst. apply subl_skip. assumption.
Qed.

Lemma subl_filter : forall f l, subl (filter f l) l.
Proof. induction l; simpl; [apply subl_nil|]. destruct (f a); [apply subl_take|apply subl_skip]; auto. Qed.

Lemma subl_trans : forall a b c, subl a b -> subl b c -> subl a c.
Proof.
  intros a b c H1 H2. revert a H1. induction H2; intros a H1.
  - inversion H1; subst. apply subl_nil.
  - apply subl_skip. apply IHsubl. exact H1.
  - inversion H1; subst.
    + apply subl_nil.
    + apply subl_skip. apply IHsubl. assumption.
    + apply subl_take. apply IHsubl. assumption.
Qed.

Lemma subl_app : forall a b c d, subl a b -> subl c d -> subl (a ++ c) (b ++ d).
Proof.
  intros a b c d H. induction H; simpl; intros Hc.
  - induction l; simpl; [exact Hc|apply subl_skip; auto].
  - apply subl_skip. auto.
  - apply subl_take. auto.
Qed.

Lemma subl_app_l : forall a b d, subl a b -> subl a (b ++ d).
Proof. intros. rewrite <- (app_nil_r a). apply subl_app; [assumption|apply subl_nil]. Qed.

Lemma subl_In : forall s l x, subl s l -> In x s -> In x l.
Proof. induction 1; simpl; intros; [contradiction|right; auto|destruct H0; [left|right]; auto]. Qed.

(* a sorted list whose elements all belong to a sorted list is an ordered sublist of it *)
Lemma sorted_subset_subl : forall t s, sorted s -> sorted t -> (forall x, In x s -> In x t) -> subl s t.
Proof.
  induction t as [|y t IH]; intros s Ss St Hsub.
  - destruct s; [apply subl_nil|]. exfalso. apply (Hsub m). left. reflexivity.
  - destruct s as [|x s]; [apply subl_nil|].
    assert (St' : sorted t) by (inversion St; assumption).
    assert (Ss' : sorted s) by (inversion Ss; assumption).
    assert (Yt : forall z, In z t -> mi_lt y z).
    { apply sorted_strong in St. inversion St; subst. rewrite Forall_forall in H2. exact H2. }
    assert (Xs : forall z, In z s -> mi_lt x z).
    { apply sorted_strong in Ss. inversion Ss; subst. rewrite Forall_forall in H2. exact H2. }
    destruct (Hsub x (or_introl eq_refl)) as [E|Hx].
    + subst y. apply subl_take. apply IH; auto.
      intros z Hz. destruct (Hsub z (or_intror Hz)) as [E|Hzt]; [|exact Hzt].
      subst z. exfalso. apply (mi_lt_irrefl x). apply Xs. exact Hz.
    + apply subl_skip. apply IH; auto.
      intros z [E|Hz]; [subst; exact Hx|].
      destruct (Hsub z (or_intror Hz)) as [E|Hzt]; [|exact Hzt].
      subst z. exfalso. apply (mi_lt_irrefl y).
      apply mi_lt_trans with x; [apply Yt; exact Hx|apply Xs; exact Hz].
Qed.

(* ---- the search succeeds on ordered sublists ---- *)
Lemma index_from_found : forall x s l pos, subl (x :: s) l ->
  exists l1 l2, index_from x l pos = Some (pos + length l1) /\ l = l1 ++ x :: l2 /\ subl s (x :: l2).
Proof.
  intros x s l pos H. remember (x :: s) as xs eqn:E. revert x s E pos.
  induction H; intros x0 s0 E pos; try discriminate.
  - simpl. destruct (mi_eqb x0 y) eqn:Q.
    + apply mi_eqb_eq in Q. subst y. exists [], l. simpl. split; [f_equal; lia|]. split; [reflexivity|].
      apply subl_skip. eapply subl_tail. rewrite <- E. exact H.
    + destruct (IHsubl x0 s0 E (S pos)) as (l1 & l2 & H1 & H2 & H3).
      exists (y :: l1), l2. simpl. split; [rewrite H1; f_equal; lia|]. split; [rewrite H2; reflexivity|exact H3].
  - inversion E; subst. simpl. rewrite (proj2 (mi_eqb_eq x0 x0) eq_refl).
    exists [], l. simpl. split; [f_equal; lia|]. split; [reflexivity|]. apply subl_skip. exact H.
Qed.

Lemma skipn_app_exact : forall (A : Type) (l1 l2 : list A), skipn (length l1) (l1 ++ l2) = l2.
Proof. induction l1; simpl; auto. Qed.

Lemma skipn_add : forall (A : Type) a b (l : list A), skipn (a + b) l = skipn b (skipn a l).
Proof. induction a; intros b [|x l]; simpl; auto. destruct b; reflexivity. Qed.

Lemma position_index_succeeds : forall sub sup k, subl sub (skipn k sup) ->
  exists r, position_index sup k sub = Some r.
Proof.
  induction sub as [|x sub IH]; intros sup k H; simpl; [eexists; reflexivity|].
  destruct (index_from_found x sub (skipn k sup) k H) as (l1 & l2 & H1 & H2 & H3).
  rewrite H1.
  assert (E : skipn (k + length l1) sup = x :: l2).
  { rewrite skipn_add, H2. apply skipn_app_exact. }
  destruct (IH sup (k + length l1)) as [r Hr]; [rewrite E; exact H3|].
  rewrite Hr. eexists. reflexivity.
Qed.

Lemma canonical_aux_succeeds : forall st lv indices ls n0,
  (forall l, subl (indices l) (global_indices st lv l)) ->
  exists S, canonical_aux st lv indices ls n0 = Some S.
Proof.
  induction ls as [|l ls IH]; intros n0 H; simpl; [eexists; reflexivity|].
  destruct (position_index_succeeds (indices l) (global_indices st lv l) 0 (H l)) as [r Hr].
  rewrite Hr. destruct (IH (n0 + length (global_indices st lv l)) H) as [rest Hrest]. rewrite Hrest.
  eexists. reflexivity.
Qed.

(* ---- the index families are ordered sublists of the level's dof list ---- *)
Section Families.
  Variable st : hspace.
  Variable bds : list bdspec.
  Variable lv : nat.
  Hypothesis srt : all_sorted st.

  Lemma new_subl : forall l, subl (new_indices st bds lv l) (global_indices st lv l).
  Proof.
    intros l. unfold new_indices, global_indices. destruct (Nat.eqb_spec l lv).
    - subst. rewrite Nat.ltb_irrefl. apply subl_app; apply subl_filter.
    - apply subl_nil.
  Qed.

  Lemma dirichlet_subl : forall l, subl (list_dirichlet st bds lv l) (global_indices st lv l).
  Proof.
    intros l. unfold list_dirichlet, global_indices. destruct (l <? lv).
    - apply subl_filter.
    - destruct (l =? lv); [apply subl_app; apply subl_filter|apply subl_nil].
  Qed.

  (* a coarse-level part diff (inter X act) dir with X sorted *)
  Lemma coarse_subl : forall X dir l, sorted X ->
    subl (diff (inter X (lv_actfun (lvl st l))) dir) (lv_actfun (lvl st l)).
  Proof.
    intros X dir l SX. apply sorted_subset_subl.
    - apply diff_sorted. apply inter_sorted. exact SX.
    - apply (ls_af _ (srt l)).
    - intros x Hx. apply diff_In in Hx. destruct Hx as [Hx _]. apply inter_In in Hx. tauto.
  Qed.

  Lemma fold_union_sorted : forall (A : Type) (g : A -> set) cs acc,
    sorted acc -> (forall c, sorted (g c)) -> sorted (fold_left (fun a c => union a (g c)) cs acc).
  Proof. induction cs; intros acc Ha Hg; simpl; auto. apply IHcs; auto. apply union_sorted; auto. Qed.

  Lemma family_subl : forall (F : nat -> list mi) (fam : nat -> list mi) disp,
    (forall l, fam l = if (l <? lv) && in_window disp lv l then F l else new_indices st bds lv l) ->
    (forall l, (l < lv)%nat -> subl (F l) (lv_actfun (lvl st l))) ->
    forall l, subl (fam l) (global_indices st lv l).
  Proof.
    intros F fam disp Hf HF l. rewrite Hf.
    destruct (Nat.ltb_spec l lv); simpl.
    - destruct (in_window disp lv l).
      + unfold global_indices. apply Nat.ltb_lt in H. rewrite H. apply HF. apply Nat.ltb_lt. exact H.
      + unfold new_indices. destruct (Nat.eqb_spec l lv); [lia|apply subl_nil].
    - apply new_subl.
  Qed.

  Lemma cell_supp_subl : forall disp l, subl (cell_supp_indices st bds true disp lv l) (global_indices st lv l).
  Proof.
    intros disp. apply (family_subl (fun l =>
      diff (inter (supported_in (msh st l) (cell_grandparent (lv - l) (support (msh st lv) (lv_actfun (lvl st lv)))))
                  (lv_actfun (lvl st l))) (index_dirichlet st bds lv l)) _ disp).
    - intros l. reflexivity.
    - intros l _. apply coarse_subl. unfold supported_in. apply fold_union_sorted; [constructor|].
      intros c. apply of_list_sorted.
  Qed.

  Lemma func_supp_subl : forall disp l, subl (func_supp_indices st bds disp lv l) (global_indices st lv l).
  Proof.
    intros disp. apply (family_subl (fun l =>
      diff (inter (of_list (function_grandparents st (lv - l) lv (lv_actfun (lvl st lv)))) (lv_actfun (lvl st l)))
           (index_dirichlet st bds lv l)) _ disp).
    - intros l. reflexivity.
    - intros l _. apply coarse_subl. apply of_list_sorted.
  Qed.

  Lemma trunc_subl : forall disp l, subl (trunc_indices st bds disp lv l) (global_indices st lv l).
  Proof.
    intros disp. apply (family_subl (fun l =>
      diff (filter (trunc_selected st l (lv - l - 1)) (lv_actfun (lvl st l))) (index_dirichlet st bds lv l)) _ disp).
    - intros l. reflexivity.
    - intros l _. eapply subl_trans; apply subl_filter.
  Qed.

  Lemma position_search_succeeds_l :
    (exists S, smooth_new st bds lv = Some S) /\ (exists S, smooth_trunc st bds lv = Some S) /\
    (exists S, smooth_func_supp st bds lv = Some S) /\ (exists S, smooth_cell_supp st bds lv = Some S) /\
    (exists D, dirichlet_dofs st bds lv = Some D).
  Proof.
    unfold smooth_new, smooth_trunc, smooth_func_supp, smooth_cell_supp, dirichlet_dofs, virtual_canonical.
    repeat split; apply canonical_aux_succeeds.
    - apply new_subl.
    - apply trunc_subl.
    - apply func_supp_subl.
    - apply cell_supp_subl.
    - apply dirichlet_subl.
  Qed.
End Families.

(* ---- every dof has exactly one position ---- *)
Lemma NoDup_app_intro : forall (A : Type) (a b : list A),
  NoDup a -> NoDup b -> (forall x, In x a -> ~ In x b) -> NoDup (a ++ b).
Proof.
  induction a; intros b Ha Hb Hd; simpl; [exact Hb|].
  inversion Ha; subst. constructor.
  - intro Hin. apply in_app_or in Hin. destruct Hin; [contradiction|]. apply (Hd a); [left; reflexivity|assumption].
  - apply IHa; auto. intros x Hx. apply Hd. right. exact Hx.
Qed.

Lemma NoDup_map_pair : forall (l : nat) (g : list mi), NoDup g -> NoDup (map (pair l) g).
Proof.
  induction g; intros H; simpl; constructor; inversion H; subst; auto.
  intro Hin. apply in_map_iff in Hin. destruct Hin as (y & E & Hy). inversion E; subst. contradiction.
Qed.

Section Unique.
  Variable st : hspace.
  Variable lv : nat.
  Hypothesis srt : all_sorted st.
  Hypothesis disj : forall x, In x (lv_actfun (lvl st lv)) -> ~ In x (lv_deactfun (lvl st lv)).

  Lemma global_NoDup : forall l, NoDup (global_indices st lv l).
  Proof.
    intros l. unfold global_indices. destruct (l <? lv).
    - apply sorted_NoDup. apply (ls_af _ (srt l)).
    - destruct (Nat.eqb_spec l lv); [|constructor]. subst.
      apply NoDup_app_intro; [apply sorted_NoDup, (ls_af _ (srt lv))|apply sorted_NoDup, (ls_df _ (srt lv))|exact disj].
  Qed.

  Lemma flat_levels_In : forall ls l x, In (l, x) (flat_levels st lv ls) -> In l ls.
  Proof.
    intros ls l x H. unfold flat_levels in H. apply in_concat in H. destruct H as (s & Hs & Hx).
    apply in_map_iff in Hs. destruct Hs as (l' & <- & Hl'). apply in_map_iff in Hx.
    destruct Hx as (y & E & _). inversion E; subst. exact Hl'.
  Qed.

  Lemma flat_levels_NoDup : forall ls, NoDup ls -> NoDup (flat_levels st lv ls).
  Proof.
    induction ls as [|l ls IH]; intros H; [constructor|]. inversion H; subst.
    unfold flat_levels. simpl. apply NoDup_app_intro.
    - apply NoDup_map_pair. apply global_NoDup.
    - apply IH. assumption.
    - intros [l' x] Ha Hb. apply in_map_iff in Ha. destruct Ha as (y & E & _). inversion E; subst.
      apply flat_levels_In in Hb. contradiction.
  Qed.

  Lemma vflat_NoDup : NoDup (vflat st lv).
  Proof. unfold vflat. apply flat_levels_NoDup. apply seq_NoDup. Qed.

  Lemma position_unique_l : forall p q d,
    nth_error (vflat st lv) p = Some d -> nth_error (vflat st lv) q = Some d -> p = q.
  Proof.
    intros p q d Hp Hq. apply (proj1 (NoDup_nth_error (vflat st lv)) vflat_NoDup).
    - apply nth_error_Some. congruence.
    - congruence.
  Qed.
End Unique.

(* ---- reachable states ---- *)
Lemma reachable_positions_l : forall axes disp ops bds lv,
  Forall ProofsMesh.axis_ok axes -> (forall d, disp = Some d -> 1 <= d) ->
  ops_valid (hs_init axes disp) ops ->
  let st := run (hs_init axes disp) ops in
  ((exists S, smooth_new st bds lv = Some S) /\ (exists S, smooth_trunc st bds lv = Some S) /\
   (exists S, smooth_func_supp st bds lv = Some S) /\ (exists S, smooth_cell_supp st bds lv = Some S) /\
   (exists D, dirichlet_dofs st bds lv = Some D)) /\
  NoDup (vflat st lv) /\
  (forall p q d, nth_error (vflat st lv) p = Some d -> nth_error (vflat st lv) q = Some d -> p = q).
Proof.
  intros axes disp ops bds lv Hax Hd Hv st.
  assert (srt : all_sorted st) by (apply all_sorted_run, all_sorted_init).
  assert (disj : forall x, In x (lv_actfun (lvl st lv)) -> ~ In x (lv_deactfun (lvl st lv))).
  { intros x Ha Hdf. destruct (Nat.lt_ge_cases lv (numlevels st)) as [Hl|Hl].
    - destruct (ProofsMesh.activity_characterisation_full axes disp ops Hax Hd Hv) as [FA FD]. fold st in FA, FD.
      apply (FA lv x Hl) in Ha. apply (FD lv x Hl) in Hdf. tauto.
    - unfold lvl in Ha. rewrite nth_overflow in Ha by exact Hl. simpl in Ha. contradiction. }
  split; [apply position_search_succeeds_l; exact srt|].
  split; [apply vflat_NoDup; assumption|].
  apply position_unique_l; assumption.
Qed.
