(* C16 -- property theorems only.  Each is closed by [exact] of a lemma of Proofs.v and
   followed by Print Assumptions.  All statements hold in every commutative ring
   (R, 0, 1, +, *, -, opp) -- in particular Z (used by the correspondence run), Q and the reals.

   Conjuncts of the property that are NOT theorems here (they rest on the exact
   correspondence run and the dense oracle only) are listed at the end. *)
From Coq Require Import List Arith Bool Ring.
From Verif.C16 Require Import Model Proofs.
Import ListNotations.

Section Props.
Variable R : Type.
Variables (rO rI : R) (radd rmul rsub : R -> R -> R) (ropp : R -> R).
Variable Rth : ring_theory rO rI radd rmul rsub ropp eq.

(* apply_tprod (tensor.py:97-128): for every number of operands, every storage kind
   (ndarray: tensordot; sparse/LinearOperator: _modek_tensordot_sparse), None placeholders,
   rectangular operands and any number of trailing axes, the loop computes
   Y[a_1..a_n, t] = sum_{j_1..j_n} prod_k B_k[a_k, j_k] X[j_1..j_n, t]   (tprod_spec),
   and the result has shape (rows of the operands / unchanged for None) ++ trailing. *)
Theorem apply_tprod_spec : forall ops (X : arr R) sS sT,
  ashape R X = sS ++ sT -> conf R ops sS ->
  ashape R (apply_tprod R rO radd rmul ops X) = out_shape R ops sS ++ sT /\
  forall a t, inr a (out_shape R ops sS) -> inr t sT ->
    aat R (apply_tprod R rO radd rmul ops X) (a ++ t) = tprod_spec R rO radd rmul ops (aat R X) (a ++ t).
Proof. exact (apply_tprod_spec_l R rO radd rmul). Qed.

(* NOT PROVED: kron_dense_spec -- forall ops and x of shape (N,), (N,1), (N,m):
     _apply_kronecker_dense ops x = np.kron(A_1,..,A_n) . x   (flat row/column indices).
   Missing: the two reshapes around the core (ravel/unravel of np.kron's row and column index).
   Proved: the core of _apply_kronecker_dense (kronecker.py:68) on the reshaped argument is the
   Kronecker action in multi-index form, for any number of rectangular operands of any kind and
   a trailing right-hand-side axis. *)
Theorem kron_dense_spec_partial : forall (ops : list (operand R)) (X : arr R) sT,
  ashape R X = map (fun o => mcols R (omat R o)) ops ++ sT ->
  ashape R (apply_tprod R rO radd rmul (map Some ops) X) = map (fun o => mrows R (omat R o)) ops ++ sT /\
  forall a t, inr a (map (fun o => mrows R (omat R o)) ops) -> inr t sT ->
    aat R (apply_tprod R rO radd rmul (map Some ops) X) (a ++ t) =
    tprod_spec R rO radd rmul (map Some ops) (aat R X) (a ++ t).
Proof. exact (kron_dense_core_l R rO radd rmul). Qed.

(* _modek_tensordot_sparse (tensor.py:48-64): roll axis k to the front, matricize, apply,
   reshape back = contraction of axis k with the operator, new axis first *)
Theorem modek_sparse_spec : forall B k (X : arr R) a rest,
  inr rest (remove_at k (ashape R X)) ->
  aat R (modek_tensordot_sparse R rO radd rmul B k X) (a :: rest) =
  sumn R rO radd (mcols R B) (fun j => rmul (ment R B a j) (aat R X (insert_at k j rest))).
Proof. exact (modek_sparse_at R rO radd rmul). Qed.

(* BaseBlockOperator._matvec/_matmat column (operators.py:96-108): accumulating
   y[ran_out] += op . x[ran_in] over any list of placed blocks (any overlaps, any order)
   is multiplication with the sum of the placed blocks *)
Theorem block_spec : forall M N bl x r,
  (forall b, In b bl -> pci R b + mcols R (pb R b) <= N) ->
  base_block_matvec R rO radd rmul bl x r = mv R rO radd rmul (blocks_dense R rO radd M N bl) x r.
Proof. exact (base_block_spec_l R rO rI radd rmul rsub ropp Rth). Qed.

(* BaseBlockOperator._transpose (operators.py:109-112) denotes the transposed matrix *)
Theorem block_transpose : forall M N bl r c,
  ment R (blocks_dense R rO radd N M (map (placed_T R) bl)) c r = ment R (mT R (blocks_dense R rO radd M N bl)) c r.
Proof. exact (block_transpose_l R rO radd). Qed.

(* BlockDiagonalOperator (operators.py:121-135): _sizes_to_ranges + BaseBlockOperator act like
   scipy.linalg.block_diag of the operands (bd_ent), for any number of rectangular blocks ... *)
Theorem blockdiag_spec : forall ops x r,
  base_block_matvec R rO radd rmul (block_diagonal R ops) x r = mv R rO radd rmul (blockdiag_dense R rO ops) x r.
Proof. exact (blockdiag_spec_l R rO rI radd rmul rsub ropp Rth). Qed.

(* ... and its .T like the transposed block_diag matrix *)
Theorem blockdiag_transpose : forall ops x r,
  base_block_matvec R rO radd rmul (map (placed_T R) (block_diagonal R ops)) x r =
  mv R rO radd rmul (mT R (blockdiag_dense R rO ops)) x r.
Proof. exact (blockdiag_transpose_l R rO rI radd rmul rsub ropp Rth). Qed.

(* DiagonalOperator, IdentityOperator, NullOperator (operators.py:15-57) *)
Theorem diag_spec : forall n d x i, i < n ->
  diagonal_matvec R rmul d x i = mv R rO radd rmul (diag_dense R rO n d) x i.
Proof. exact (diag_spec_l R rO rI radd rmul rsub ropp Rth). Qed.

Theorem diag_symmetric : forall n d i j, ment R (mT R (diag_dense R rO n d)) i j = ment R (diag_dense R rO n d) i j.
Proof. exact (diag_symmetric_l R rO). Qed.

Theorem identity_spec : forall n x i, i < n -> identity_matvec R x i = mv R rO radd rmul (eye R rO rI n) x i.
Proof. exact (identity_spec_l R rO rI radd rmul rsub ropp Rth). Qed.

Theorem null_spec : forall r c x i, null_matvec R rO x i = mv R rO radd rmul (zeros R rO r c) x i.
Proof. exact (null_spec_l R rO rI radd rmul rsub ropp Rth). Qed.

(* SubspaceOperator._matvec (operators.py:206-218), both values of _is_transpose:
   y = sum_j P_j (B_j (P_j^T x)) is multiplication with sum_j P_j B_j P_j^T (resp. B_j^T),
   for every family of prolongations (overlapping, rectangular, any entries) *)
Theorem subspace_spec : forall n tr PB x r,
  (forall pb, In pb PB -> mrows R (fst pb) = n) ->
  subspace_matvec R rO radd rmul tr PB x r = mv R rO radd rmul (subspace_dense R rO radd rmul n tr PB) x r.
Proof. exact (subspace_spec_l R rO rI radd rmul rsub ropp Rth). Qed.

(* ... and the operator with the flag set denotes the transposed matrix (square B_j) *)
Theorem subspace_transpose : forall n PB r c,
  (forall pb, In pb PB -> mcols R (snd pb) = mcols R (fst pb) /\ mrows R (snd pb) = mcols R (fst pb)) ->
  ment R (subspace_dense R rO radd rmul n true PB) r c = ment R (mT R (subspace_dense R rO radd rmul n false PB)) r c.
Proof. exact (subspace_transpose_l R rO rI radd rmul rsub ropp Rth). Qed.

(* CSRRowSlice / CSRRowSubset (utils.py:116-179): the rows r0..r1-1 (resp. the listed rows, in
   the listed order, repetitions allowed) of the matrix the CSR structure denotes, also for
   unsorted and duplicate column indices *)
Theorem rowslice_spec : forall A r0 r1 x i, csr_wf R A ->
  (forall r, r < r1 -> nth (S r) (c_indptr R A) 0 <= length (c_indices R A)) ->
  i < r1 - r0 ->
  csr_rowslice R rO radd rmul A r0 r1 x i = mv R rO radd rmul (csr_dense R rO radd A) x (r0 + i).
Proof. exact (rowslice_spec_l R rO rI radd rmul rsub ropp Rth). Qed.

Theorem rowsubset_spec : forall A rows x i, csr_wf R A ->
  (forall r, In r rows -> nth (S r) (c_indptr R A) 0 <= length (c_indices R A)) ->
  i < length rows ->
  csr_rowsubset R rO radd rmul A rows x i = mv R rO radd rmul (csr_dense R rO radd A) x (nth i rows 0).
Proof. exact (rowsubset_spec_l R rO rI radd rmul rsub ropp Rth). Qed.

End Props.

Print Assumptions apply_tprod_spec.
Print Assumptions kron_dense_spec_partial.
Print Assumptions modek_sparse_spec.
Print Assumptions block_spec.
Print Assumptions block_transpose.
Print Assumptions blockdiag_spec.
Print Assumptions blockdiag_transpose.
Print Assumptions diag_spec.
Print Assumptions diag_symmetric.
Print Assumptions identity_spec.
Print Assumptions null_spec.
Print Assumptions subspace_spec.
Print Assumptions subspace_transpose.
Print Assumptions rowslice_spec.
Print Assumptions rowsubset_spec.

(* NOT PROVED (no theorem; covered by the exact correspondence run and the dense oracle only):

   kron_dense_spec: see kron_dense_spec_partial above.
   kron_linops_spec: forall square ops and x of shape (N,), (N,1), (N,m),
     _apply_kronecker_linops ops x = (A_1 (x) ... (x) A_n) . x.  Missing: the invariant of the
     column-major sweeps (after the sweep for factor i the flat buffer holds the digits
     (a_{i-1},..,a_0,a'_{n-1},..,a'_i,k), fastest first).
   kron_transpose: follows from kron_dense_spec/kron_linops_spec applied to the transposed operands.
   grid_block_spec: BlockOperator's layout (ranges from the first block row/column, null blocks skipped)
     equals np.block of the grid; block_spec covers the accumulation for any placement.
   modek_tprod_spec (rollaxis(-1,k) / moveaxis(0,k) put the new axis back in position k).
   kron_solver_inverts, fastdiag_inverts: mixed-product property on tprod_spec + the factor solvers'
     / eigh's contracts. *)
