(* C12 -- property theorems, third file: the adaptive step-size controller and Newton's test on
   NON-FINITE values (Model3.v).  Each theorem is closed by [exact] of a lemma of Proofs3.v and
   followed by Print Assumptions.

   A trial step of an adaptive method may return NaN/inf (right-hand side outside its domain, e.g.
   h' = -k sqrt(h) with a far too large tau0; overflow).  Then the error ratio r and the raw factor
   step_factor * r**(-1/q) are NaN/inf.  [xq] = finite rational | +inf | -inf | NaN; the
   comparisons [xlt], [xle], [xeq] are False on NaN; [pymax]/[pymin] transcribe Python's BUILTIN
   max/min ("the first argument unless the second is strictly greater/smaller"), which is what
   solvers.py:526 calls.  The theorems hold for EVERY outcome list, NaN/inf outcomes included. *)
From Coq Require Import QArith List.
From Verif.C12 Require Import Model Proofs Model3 Proofs3.
Import ListNotations.
Open Scope nat_scope.

(* C1. fac = min(5.0, max(0.2, fac)) is a finite number in [0.2, 5] for EVERY raw factor, NaN and
   +-inf included *)
Theorem controller_clamp_total_bounds :
  forall p : xq, exists f : Q, xclip p = XFin f /\ ((1#5) <= f)%Q /\ (f <= 5)%Q.
Proof. exact xclip_bounds_l. Qed.
Print Assumptions controller_clamp_total_bounds.

(* C2. ... namely 0.2 for NaN (max(0.2, nan) = 0.2) and for -inf, 5 for +inf *)
Theorem controller_clamp_nonfinite :
  xclip XNaN = XFin (1#5) /\ xclip XPInf = XFin 5 /\ xclip XNInf = XFin (1#5).
Proof. exact xclip_nonfinite_l. Qed.
Print Assumptions controller_clamp_nonfinite.

(* C3. on finite raw factors it is the clamp of Model.v *)
Theorem controller_clamp_finite_agrees :
  forall q : Q, (xfac (XFin q) == clip_fac q)%Q.
Proof. exact xfac_finite_l. Qed.
Print Assumptions controller_clamp_finite_agrees.

(* C4. the accept test `if r == 0: r = 1e-15; if r <= 1:` passes exactly for finite ratios that are
   0 or <= 1 (and for -inf, which a norm never is): NaN and +inf never pass *)
Theorem controller_accepts_iff :
  forall r : xq,
  xaccepts r = true <-> ((exists q, r = XFin q /\ (q == 0 \/ q <= 1)%Q) \/ r = XNInf).
Proof. exact xaccepts_iff_l. Qed.
Print Assumptions controller_accepts_iff.

(* C5. a trial step with NaN or +inf error ratio is rejected: time, times and log unchanged, the
   step multiplied by the clamped factor; with a NaN raw factor: by 0.2 *)
Theorem nonfinite_ratio_is_rejected :
  forall (st : astate) (r praw : xq),
  r = XNaN \/ r = XPInf ->
  xastep st (XStepped r praw) =
  {| a_t := a_t st; a_tau := (a_tau st * xfac praw)%Q; a_times := a_times st; a_log := a_log st |}.
Proof. exact nonfinite_rejected_l. Qed.
Print Assumptions nonfinite_ratio_is_rejected.

Theorem nan_step_shrinks_by_fifth :
  forall st : astate,
  xastep st (XStepped XNaN XNaN) =
  {| a_t := a_t st; a_tau := (a_tau st * (1#5))%Q; a_times := a_times st; a_log := a_log st |}.
Proof. exact nan_step_l. Qed.
Print Assumptions nan_step_shrinks_by_fifth.

(* C6. the controller on extended outcomes takes exactly the steps of the outcome-list model of
   Model.v on the finite shadows of the outcomes *)
Theorem extended_controller_refines_finite :
  forall (evs : list xevent) (t0 tau0 t_end : Q) (st : astate),
  xadaptive_loop t_end st evs = adaptive_loop t_end st (map lower evs) /\
  xadaptive_taus t_end st evs = adaptive_taus t_end st (map lower evs) /\
  xadaptive_times t0 tau0 t_end evs = adaptive_times t0 tau0 t_end (map lower evs).
Proof. exact xrefines_l. Qed.
Print Assumptions extended_controller_refines_finite.

(* C7. for every outcome list incl. NaN/inf outcomes: if the loop returns, the times strictly
   increase from t0 and the last one is >= t_end *)
Theorem adaptive_driver_times_nonfinite :
  forall t0 tau0 t_end (evs : list xevent) ts,
  (0 < tau0)%Q -> xadaptive_times t0 tau0 t_end evs = Some ts ->
  increasing ts /\ hd 0%Q ts = t0 /\ (t_end <= last ts 0)%Q.
Proof. exact xadaptive_times_l. Qed.
Print Assumptions adaptive_driver_times_nonfinite.

(* C8. ... consecutive step sizes handed to the stepper differ by a factor within [0.2, 5] *)
Theorem adaptive_driver_step_factor_bounds_nonfinite :
  forall (evs : list xevent) t_end st k,
  S k < length (xadaptive_taus t_end st evs) ->
  exists f, (nth (S k) (xadaptive_taus t_end st evs) 0%Q == nth k (xadaptive_taus t_end st evs) 0%Q * f)%Q
            /\ ((1#5) <= f)%Q /\ (f <= 5)%Q.
Proof. exact xadaptive_taus_factor_l. Qed.
Print Assumptions adaptive_driver_step_factor_bounds_nonfinite.

(* C9. ... every step size handed to the stepper is a (finite) positive number *)
Theorem adaptive_driver_taus_positive_nonfinite :
  forall t0 tau0 t_end (evs : list xevent),
  (0 < tau0)%Q -> Forall (fun tau => (0 < tau)%Q) (xadaptive_taus t_end (adaptive_init t0 tau0) evs).
Proof. exact xadaptive_taus_positive_l. Qed.
Print Assumptions adaptive_driver_taus_positive_nonfinite.

(* C10. ... only steps that pass the error test are accepted, one time per accepted step, the times
   are the partial sums of the accepted steps, and the number of times is 1 + the number of
   attempts whose ratio passed [xaccepts] (so by C4 no NaN/inf attempt contributes a time) *)
Theorem adaptive_driver_accepts_only_passing_nonfinite :
  forall t0 tau0 t_end (evs : list xevent) st,
  (0 < tau0)%Q -> xadaptive_loop t_end (adaptive_init t0 tau0) evs = Some st ->
  Forall (fun p => (snd p <= 1)%Q /\ (0 < fst p)%Q) (a_log st) /\
  length (a_times st) = S (length (a_log st)) /\
  rev (a_times st) = psums t0 (rev (map fst (a_log st))).
Proof. exact xadaptive_accept_full_l. Qed.
Print Assumptions adaptive_driver_accepts_only_passing_nonfinite.

Theorem adaptive_driver_one_time_per_accepted_attempt :
  forall t0 tau0 t_end (evs : list xevent) ts,
  xadaptive_times t0 tau0 t_end evs = Some ts ->
  length ts = S (count_true (xadaptive_accepts t_end (adaptive_init t0 tau0) evs)).
Proof. exact xaccepts_count_l. Qed.
Print Assumptions adaptive_driver_one_time_per_accepted_attempt.

(* C11. newton with a residual norm that may be NaN/inf (`if np.linalg.norm(res) < target`): a
   returned point has a FINITE residual norm strictly below the target -- a NaN residual is never
   returned -- and the target max(atol, rtol*nan) is atol *)
Theorem newton_result_nonfinite :
  forall (V : Type) (Fn : V -> V) (Jsolve vsub : V -> V -> V) (xnorm : V -> xq) (scale : xq -> xq)
         (atol : Q) (freeze maxiter : nat) (x0 y r : V),
  xnewton V Fn Jsolve vsub xnorm scale atol freeze maxiter x0 = Some (y, r) ->
  r = Fn y /\
  xlt (xnorm (Fn y)) (xnewton_target V Fn xnorm scale atol x0) = true /\
  xnorm (Fn y) <> XNaN /\ xnorm (Fn y) <> XPInf.
Proof. exact xnewton_result_l. Qed.
Print Assumptions newton_result_nonfinite.

Theorem newton_target_of_nan_is_atol :
  forall (V : Type) (Fn : V -> V) (xnorm : V -> xq) (scale : xq -> xq) (atol : Q) (x0 : V),
  scale (xnorm (Fn x0)) = XNaN -> xnewton_target V Fn xnorm scale atol x0 = XFin atol.
Proof. exact xnewton_target_nan_l. Qed.
Print Assumptions newton_target_of_nan_is_atol.

(* ... and if all residual norms are NaN it raises after maxiter iterations *)
Theorem newton_all_nan_raises :
  forall (V : Type) (Fn : V -> V) (Jsolve vsub : V -> V -> V) (xnorm : V -> xq) (freeze fuel num_it : nat)
         (target : xq) (x res jp : V),
  (forall v, xnorm v = XNaN) ->
  xnewton_loop V Fn Jsolve vsub xnorm freeze fuel num_it target x res jp = None.
Proof. exact xnewton_loop_all_nan. Qed.
Print Assumptions newton_all_nan_raises.
