(* C13 -- executable model of pyiga's two compilation caches.
   Definitions only; proofs are in Proofs.v.

   Sources mirrored (paths relative to /repo):
     pyiga/vform.py:882-887    Expr.hash_key / Expr.hash
     pyiga/vform.py:99-110     AsmVar.hash
     pyiga/vform.py:130-131    BasisFun.hash
     pyiga/vform.py:148-149    InputField.hash
     pyiga/vform.py:159-160    Parameter.hash   (called [param] here)
     pyiga/vform.py:254-268    VForm.hash
     pyiga/compile.py:99-132   __vform_asm_cache, compile_vform
     pyiga/compile.py:58-73    compile_cython_module (module name = digest of the source)
   and CPython's numeric hash (Objects/longobject.c long_hash, Python/pyhash.c
   _Py_HashDouble) for the leaves, because [hash((..., self.value, ...))] is what
   the keys are made of.

   The per-class tables (which attributes an expression class has, which of them its
   hash_key returns and how) are NOT written here: they are regenerated from vform.py
   on every run by translate/exprclasses.py (coq/gen/C13_ExprKeys.v) and the
   theorems below are parametric in the table.  *)
From Coq Require Import List ZArith Bool String Lia.
Import ListNotations.
Open Scope Z_scope.

(* ------------------------------------------------------------------ *)
(* Python values that occur as attributes of expression nodes *)

Inductive atom :=
| AInt (z : Z)        (* int; bool is an int: True == 1, hash(True) == 1 *)
| AFloat (bits : Z)   (* a binary64 given by its bit pattern (so 0.0 and -0.0 differ, as their repr does) *)
| AStr (s : string)
| ANone
| ATup (l : list atom).

(* Hash values.  Numbers are hashed exactly as CPython does; str / type / tuple
   hashing is idealised as injective (free constructors), as is repr() of a float
   followed by str hashing (HRepr).  Accidental 64-bit collisions are outside the model. *)
Inductive hval :=
| HNum (z : Z)
| HStr (s : string)
| HNone
| HType (s : string)
| HRepr (a : atom)
| HTup (l : list hval).

Definition P61 : Z := 2 ^ 61 - 1.          (* _PyHASH_MODULUS *)

(* long_hash: sign * (|n| mod P), and -1 is replaced by -2 *)
Definition fix_m1 (h : Z) : Z := if h =? -1 then -2 else h.
Definition inthash (z : Z) : Z :=
  let h := Z.abs z mod P61 in fix_m1 (if z <? 0 then - h else h).

(* _Py_HashDouble for a finite double: with v = (-1)^s * m * 2^e (m, e integers)
   the result is sign * (m * 2^(e mod 61) mod P) because 2^61 = 1 (mod P); -1 -> -2.
   inf -> +-314159; nan is not modelled (hash by identity since 3.10) and returns 0. *)
Definition floathash (bits : Z) : Z :=
  let s := bits / 2 ^ 63 in
  let ex := (bits / 2 ^ 52) mod 2048 in
  let man := bits mod 2 ^ 52 in
  if ex =? 2047 then (if man =? 0 then (if s =? 0 then 314159 else -314159) else 0)
  else
    let m := if ex =? 0 then man else man + 2 ^ 52 in
    let e := if ex =? 0 then -1074 else ex - 1075 in
    let h := ((m mod P61) * 2 ^ (e mod 61)) mod P61 in
    fix_m1 (if s =? 0 then h else - h).

Fixpoint pyhash (a : atom) : hval :=
  match a with
  | AInt z => HNum (inthash z)
  | AFloat b => HNum (floathash b)
  | AStr s => HStr s
  | ANone => HNone
  | ATup l => HTup (map pyhash l)
  end.

(* How an attribute enters hash_key: as the value itself (hashed by the enclosing
   tuple hash), or through repr()/float.hex() (a string). *)
(* EOther: some other rendering of the attribute (e.g. '%g' % value) about which nothing is known *)
Inductive enc := EHash | ERepr | EOther.

Definition encode (e : enc) (a : atom) : hval :=
  match e with EHash => pyhash a | ERepr => HRepr a | EOther => HNone end.

(* Domains of attributes (what the constructors coerce to). *)
Inductive ty := TNat | TBool | TStr | TFloat | TNatTup | TOptNat | TBfun.

Definition is_nat (a : atom) : bool :=
  match a with AInt z => (0 <=? z) && (z <? P61) | _ => false end.
Definition is_optnat (a : atom) : bool :=
  match a with ANone => true | _ => is_nat a end.

Definition has_ty (t : ty) (a : atom) : bool :=
  match t, a with
  | TNat, _ => is_nat a
  | TBool, AInt z => (z =? 0) || (z =? 1)
  | TStr, AStr _ => true
  | TFloat, AFloat b => (0 <=? b) && (b <? 2 ^ 64)
  | TNatTup, ATup l => forallb is_nat l
  | TOptNat, _ => is_optnat a
  | TBfun, ATup [AStr _; nc; comp; sp] => is_optnat nc && is_optnat comp && is_nat sp
  | _, _ => false
  end.

(* atoms on which the tuple hash is injective in the idealised model *)
Fixpoint hash_safe (a : atom) : bool :=
  match a with
  | AInt z => (- P61 <? z) && (z <? P61) && negb (z =? -1)
  | AFloat _ => false
  | AStr _ => true
  | ANone => true
  | ATup l => forallb hash_safe l
  end.

(* ------------------------------------------------------------------ *)
(* Expression trees and the per-class tables *)

Definition attrs := list (string * atom).

Fixpoint lookup (n : string) (l : attrs) : atom :=
  match l with
  | [] => ANone
  | (k, v) :: l' => if String.eqb n k then v else lookup n l'
  end.

Inductive node := Node (cls : string) (shape : atom) (a : attrs) (children : list node).

(* one class: the tuple hash_key() returns (attribute, encoding) in order, and the
   constructor attributes that influence generated code with their domains *)
Record cspec := mk_cspec { keyl : list (string * enc); seml : list (string * ty) }.
Definition table := list (string * cspec).

Fixpoint tlookup (T : table) (c : string) : cspec :=
  match T with
  | [] => mk_cspec [] []
  | (k, s) :: T' => if String.eqb c k then s else tlookup T' c
  end.

Definition key_attrs (cs : cspec) (a : attrs) : list hval :=
  map (fun ne => encode (snd ne) (lookup (fst ne) a)) (keyl cs).

(* Expr.hash: hash((type(self), self.shape) + self.hash_key() + child_hashes)  (vform.py:886-887) *)
Fixpoint key (T : table) (n : node) : hval :=
  match n with
  | Node c sh a ch =>
      HTup (HType c :: pyhash sh :: key_attrs (tlookup T c) a ++ map (key T) ch)
  end.

(* what the code generator can see of a node: class, shape, code-relevant attributes, children *)
Definition sem_attrs (cs : cspec) (a : attrs) : attrs :=
  map (fun nt => (fst nt, lookup (fst nt) a)) (seml cs).

Fixpoint strip (T : table) (n : node) : node :=
  match n with
  | Node c sh a ch => Node c sh (sem_attrs (tlookup T c) a) (map (strip T) ch)
  end.

Fixpoint well_typed (T : table) (n : node) : bool :=
  match n with
  | Node c sh a ch =>
      has_ty TNatTup sh
      && forallb (fun nt => has_ty (snd nt) (lookup (fst nt) a)) (seml (tlookup T c))
      && forallb (well_typed T) ch
  end.

(* the obligations on a table (evaluated by vm_compute on the regenerated table) *)
Fixpoint assoc_enc (n : string) (l : list (string * enc)) : option enc :=
  match l with
  | [] => None
  | (k, e) :: l' => if String.eqb n k then Some e else assoc_enc n l'
  end.

(* every code-relevant attribute is keyed, and floats are keyed through repr *)
Definition field_ok (cs : cspec) (nt : string * ty) : bool :=
  match assoc_enc (fst nt) (keyl cs) with
  | None => false
  | Some EHash => match snd nt with TFloat => false | _ => true end
  | Some ERepr => true
  | Some EOther => false
  end.
Definition class_ok (cs : cspec) : bool := forallb (field_ok cs) (seml cs).
Definition covers (T : table) : bool := forallb (fun kc => class_ok (snd kc)) T.
(* for a class that is not in the table tlookup gives the empty spec, which is ok *)

(* ------------------------------------------------------------------ *)
(* Records hashed without a type tag (vform.py:130-131, 148-149, 159-160, 99-110) *)

Record bfun := mk_bfun { bf_name : string; bf_numcomp : option Z; bf_component : option Z; bf_space : Z }.
Record inputf := mk_inputf { in_name : string; in_shape : list Z; in_physical : bool; in_updatable : bool }.
Record param := mk_param { pa_name : string; pa_shape : list Z }.
Inductive vsrc := SExpr (n : node) | SInput (i : inputf) | SParam (p : param).
Record avar := mk_avar { v_name : string; v_src : vsrc; v_shape : list Z; v_symmetric : bool; v_deriv : option Z }.

Definition hnum (z : Z) : hval := HNum (inthash z).
Definition hbool (b : bool) : hval := hnum (if b then 1 else 0).
Definition hopt (o : option Z) : hval := match o with None => HNone | Some z => hnum z end.
Definition hshape (l : list Z) : hval := HTup (map hnum l).

(* hash((self.name, self.numcomp, self.component, self.space)) *)
Definition bf_key (b : bfun) : hval :=
  HTup [HStr (bf_name b); hopt (bf_numcomp b); hopt (bf_component b); hnum (bf_space b)].
(* hash((self.name, self.shape, self.physical, self.updatable)) *)
Definition in_key (i : inputf) : hval :=
  HTup [HStr (in_name i); hshape (in_shape i); hbool (in_physical i); hbool (in_updatable i)].
(* hash((self.name, self.shape)) *)
Definition pa_key (p : param) : hval := HTup [HStr (pa_name p); hshape (pa_shape p)].

Definition src_key (T : table) (s : vsrc) : hval :=
  match s with SExpr n => key T n | SInput i => in_key i | SParam p => pa_key p end.
(* hash((self.name, src_hash, self.shape, self.symmetric, self.deriv)) *)
Definition var_key (T : table) (v : avar) : hval :=
  HTup [HStr (v_name v); src_key T (v_src v); hshape (v_shape v); hbool (v_symmetric v); hopt (v_deriv v)].

(* VForm.  geo_dim, spacedims, timedim, params, Geo are functions of the fields below
   (translate/exprclasses_derived.json; the driver re-checks the derivations on every form). *)
Record form := mk_form {
  f_dim : Z; f_arity : Z; f_vec : Z; f_spacetime : bool; f_boundary : bool;
  f_bfs : list bfun; f_inputs : list inputf; f_vars : list avar; f_exprs : list node }.

(* VForm.hash (vform.py:263-267) WITH the repair fixes/C13-vform-hash-boundary.patch:
   hash((dim, arity, vec, spacetime, is_boundary) + bf hashes + input hashes + var hashes + expr hashes) *)
Definition form_key (T : table) (f : form) : hval :=
  HTup ([hnum (f_dim f); hnum (f_arity f); hnum (f_vec f); hbool (f_spacetime f); hbool (f_boundary f)]
        ++ map bf_key (f_bfs f) ++ map in_key (f_inputs f)
        ++ map (var_key T) (f_vars f) ++ map (key T) (f_exprs f)).

Definition strip_src (T : table) (s : vsrc) : vsrc :=
  match s with SExpr n => SExpr (strip T n) | _ => s end.
Definition strip_var (T : table) (v : avar) : avar :=
  mk_avar (v_name v) (strip_src T (v_src v)) (v_shape v) (v_symmetric v) (v_deriv v).
Definition strip_form (T : table) (f : form) : form :=
  mk_form (f_dim f) (f_arity f) (f_vec f) (f_spacetime f) (f_boundary f)
          (f_bfs f) (f_inputs f) (map (strip_var T) (f_vars f)) (map (strip T) (f_exprs f)).

Definition natZ (z : Z) : bool := (0 <=? z) && (z <? P61).
Definition optnatZ (o : option Z) : bool := match o with None => true | Some z => natZ z end.
Definition wf_bf (b : bfun) : bool := optnatZ (bf_numcomp b) && optnatZ (bf_component b) && natZ (bf_space b).
Definition wf_in (i : inputf) : bool := forallb natZ (in_shape i).
Definition wf_pa (p : param) : bool := forallb natZ (pa_shape p).
Definition wf_src (T : table) (s : vsrc) : bool :=
  match s with SExpr n => well_typed T n | SInput i => wf_in i | SParam p => wf_pa p end.
Definition wf_var (T : table) (v : avar) : bool :=
  wf_src T (v_src v) && forallb natZ (v_shape v) && optnatZ (v_deriv v).
Definition wf_form (T : table) (f : form) : bool :=
  natZ (f_dim f) && natZ (f_arity f) && natZ (f_vec f)
  && forallb wf_bf (f_bfs f) && forallb wf_in (f_inputs f)
  && forallb (wf_var T) (f_vars f) && forallb (well_typed T) (f_exprs f).

(* ------------------------------------------------------------------ *)
(* decidable equality of hash values, for the correspondence run *)

Fixpoint atom_eqb (a b : atom) : bool :=
  match a, b with
  | AInt x, AInt y => x =? y
  | AFloat x, AFloat y => x =? y
  | AStr x, AStr y => String.eqb x y
  | ANone, ANone => true
  | ATup l, ATup m =>
      (fix go (l m : list atom) : bool :=
         match l, m with
         | [], [] => true
         | x :: l', y :: m' => atom_eqb x y && go l' m'
         | _, _ => false
         end) l m
  | _, _ => false
  end.

Fixpoint hval_eqb (a b : hval) : bool :=
  match a, b with
  | HNum x, HNum y => x =? y
  | HStr x, HStr y => String.eqb x y
  | HNone, HNone => true
  | HType x, HType y => String.eqb x y
  | HRepr x, HRepr y => atom_eqb x y
  | HTup l, HTup m =>
      (fix go (l m : list hval) : bool :=
         match l, m with
         | [], [] => true
         | x :: l', y :: m' => hval_eqb x y && go l' m'
         | _, _ => false
         end) l m
  | _, _ => false
  end.

(* ------------------------------------------------------------------ *)
(* The caches as state machines.  One generic memo table serves both levels:
   level 1 (compile.py:99-132): key = (vf.hash(), (on_demand,)), build = generate + compile;
   level 2 (compile.py:58-73):  key = 'mod' + shake_128(src).hexdigest(8), build = cythonize + gcc + import. *)
Section Memo.
  Variables (K R C : Type).
  Variable keq : K -> K -> bool.
  Variable keyof : R -> K.
  Variable build : R -> C.

  Definition memo := list (K * C).

  Fixpoint mlookup (k : K) (st : memo) : option C :=
    match st with
    | [] => None
    | (k', c) :: st' => if keq k k' then Some c else mlookup k st'
    end.

  (* compile_vform / compile_cython_module: return the cached object if there is one,
     otherwise build, store and return *)
  Definition request (st : memo) (r : R) : memo * C :=
    match mlookup (keyof r) st with
    | Some c => (st, c)
    | None => let c := build r in ((keyof r, c) :: st, c)
    end.

  Fixpoint serve (st : memo) (rs : list R) : memo * list C :=
    match rs with
    | [] => (st, [])
    | r :: rs' => let (st1, c) := request st r in
                  let (st2, cs) := serve st1 rs' in (st2, c :: cs)
    end.

  (* __add_to_vform_asm_cache: dict assignment (a later entry with an equal key shadows) *)
  Definition preseed (seed : list (R * C)) : memo :=
    fold_left (fun st rc => (keyof (fst rc), snd rc) :: st) seed [].

  (* hit/miss trace, compared with the implementation *)
  Fixpoint trace (st : memo) (rs : list R) : list bool :=
    match rs with
    | [] => []
    | r :: rs' => match mlookup (keyof r) st with
                  | Some _ => true :: trace st rs'
                  | None => false :: trace ((keyof r, build r) :: st) rs'
                  end
    end.
End Memo.

(* level 1 (compile.py:118-121): cache_key = (vf.hash(), (on_demand,)) *)
Definition keq1 (a b : hval * bool) : bool := hval_eqb (fst a) (fst b) && Bool.eqb (snd a) (snd b).
Definition keyof1 (T : table) (r : form * bool) : hval * bool := (form_key T (fst r), snd r).

(* ------------------------------------------------------------------ *)
(* Form OBJECTS: VForm.hash() memoises its value in self.__hash (vform.py:260-268) and
   VForm.add() refuses to extend the form once the guard fires (vform.py:397-400).
   Histories of add() / hash() / compile_vform() on several objects sharing the cache. *)
Inductive guard := GHash | GFinal | GNone.   (* `self.__hash is not None` | `self.__is_finalized` | no guard *)
Record obj := mk_obj { o_form : form; o_memo : option hval; o_final : bool }.

Definition blocked (g : guard) (o : obj) : bool :=
  match g with
  | GHash => match o_memo o with Some _ => true | None => false end
  | GFinal => o_final o
  | GNone => false
  end.

Definition add_expr (f : form) (e : node) : form :=
  mk_form (f_dim f) (f_arity f) (f_vec f) (f_spacetime f) (f_boundary f)
          (f_bfs f) (f_inputs f) (f_vars f) (f_exprs f ++ [e]).

(* VForm.hash(): compute once, then return the stored value *)
Definition obj_hash (T : table) (o : obj) : obj * hval :=
  match o_memo o with
  | Some k => (o, k)
  | None => let k := form_key T (o_form o) in (mk_obj (o_form o) (Some k) (o_final o), k)
  end.

Inductive op := OAdd (i : nat) (e : node) | OHash (i : nat) | OCompile (i : nat) (od : bool).
Inductive outcome (C : Type) := RAdded | RRaised | RHashed (k : hval) | RClass (hit : bool) (c : C).
Arguments RAdded {C}. Arguments RRaised {C}. Arguments RHashed {C} k. Arguments RClass {C} hit c.

Definition upd {A} (i : nat) (x : A) (l : list A) : list A := firstn i l ++ x :: skipn (S i) l.

Section History.
  Variable g : guard.
  Variable T : table.
  Variable C : Type.
  Variable gen : bool -> form -> C.       (* generate + compile of the CURRENT content of the object *)
  Definition hstate := (memo (hval * bool) C * list obj)%type.

  Definition hstep (st : hstate) (o : op) : hstate * outcome C :=
    let (cache, objs) := st in
    match o with
    | OAdd i e =>
        match nth_error objs i with
        | None => (st, RRaised)
        | Some ob =>
            if blocked g ob then (st, RRaised)
            else ((cache, upd i (mk_obj (add_expr (o_form ob) e) (o_memo ob) (o_final ob)) objs), RAdded)
        end
    | OHash i =>
        match nth_error objs i with
        | None => (st, RRaised)
        | Some ob => let (ob', k) := obj_hash T ob in ((cache, upd i ob' objs), RHashed k)
        end
    | OCompile i od =>
        match nth_error objs i with
        | None => (st, RRaised)
        | Some ob =>
            let (ob', k) := obj_hash T ob in
            match mlookup _ _ keq1 (k, od) cache with
            | Some c => ((cache, upd i ob' objs), RClass true c)
            | None =>
                (* generate() -> finalize(): raises when the form has been finalized before *)
                if o_final ob' then ((cache, upd i ob' objs), RRaised)
                else let c := gen od (strip_form T (o_form ob')) in
                     ((((k, od), c) :: cache, upd i (mk_obj (o_form ob') (o_memo ob') true) objs), RClass false c)
            end
        end
    end.

  Fixpoint hrun (st : hstate) (ops : list op) : list (outcome C) :=
    match ops with
    | [] => []
    | o :: ops' => let (st', r) := hstep st o in r :: hrun st' ops'
    end.

  (* the property along a history: a class handed out for object i is the one generated from
     the content object i has at that moment *)
  Definition good_outcome (st : hstate) (o : op) (r : outcome C) : Prop :=
    match o, r with
    | OCompile i od, RClass _ c =>
        exists ob, nth_error (snd st) i = Some ob /\ c = gen od (strip_form T (o_form ob))
    | _, _ => True
    end.

  Fixpoint hrun_good (st : hstate) (ops : list op) : Prop :=
    match ops with
    | [] => True
    | o :: ops' => let (st', r) := hstep st o in good_outcome st o r /\ hrun_good st' ops'
    end.
End History.

(* compile.py:68: modname = 'mod' + hashlib.shake_128(src.encode()).hexdigest(8) *)
Definition modname (digest : string -> string) (src : string) : string := ("mod" ++ digest src)%string.

(* ------------------------------------------------------------------ *)
(* Freshness certificate: a run of straight-line statements of the shipped file against
   the run the generator produces today.  A statement is its interned text [sid] with the
   variables it writes and reads. *)
Record stmt := mk_stmt { sid : nat; defs : list nat; uses : list nat }.

Definition memb (x : nat) (l : list nat) : bool := existsb (Nat.eqb x) l.
Definition disjoint (a b : list nat) : bool := forallb (fun x => negb (memb x b)) a.
Fixpoint list_eqb (a b : list nat) : bool :=
  match a, b with
  | [], [] => true
  | x :: a', y :: b' => Nat.eqb x y && list_eqb a' b'
  | _, _ => false
  end.
Definition stmt_eqb (s t : stmt) : bool :=
  Nat.eqb (sid s) (sid t) && list_eqb (defs s) (defs t) && list_eqb (uses s) (uses t).

(* s and t may be exchanged: neither writes what the other reads or writes *)
Definition indep (s t : stmt) : bool :=
  disjoint (defs s) (defs t) && disjoint (defs s) (uses t) && disjoint (defs t) (uses s).

(* take t out of a, provided everything in front of it is independent of t *)
Fixpoint pull (t : stmt) (a : list stmt) : option (list stmt) :=
  match a with
  | [] => None
  | s :: a' =>
      if stmt_eqb s t then Some a'
      else if indep s t then option_map (cons s) (pull t a') else None
  end.

Fixpoint reorder_ok (a b : list stmt) : bool :=
  match b with
  | [] => match a with [] => true | _ => false end
  | t :: b' => match pull t a with Some a' => reorder_ok a' b' | None => false end
  end.

(* semantics of a run, for an arbitrary meaning of the statements *)
Section Exec.
  Variable V : Type.
  Variable rhs : nat -> nat -> list V -> V.   (* statement id -> written variable -> values read -> value *)
  Definition env := nat -> V.
  Definition exec1 (s : stmt) (e : env) : env :=
    fun x => if memb x (defs s) then rhs (sid s) x (map e (uses s)) else e x.
  Definition exec (l : list stmt) (e : env) : env := fold_left (fun e s => exec1 s e) l e.
End Exec.
