(* C18 -- proofs, fourth part: TensorGenerator.__getitem__ for every index expression (the C-order
   position does not change when unit axes are dropped) and TuckerTensor.__getitem__ in full. *)
From Coq Require Import List Arith Bool ZArith Lia Ring.
From Verif.C18 Require Import Model Proofs Proofs2.
Import ListNotations.

(* an axis indexed by an int selects exactly one position *)
Lemma norm_axis_flag n ik rs b : norm_axis n ik = Ok (rs, b) -> b = true -> length rs = 1.
Proof.
  destruct ik as [i|a s t|l]; simpl; intros H Hb.
  - destruct (wrap n i); [|discriminate]. inversion H; subst. reflexivity.
  - destruct (slice_range n a s t); simpl in H; [|discriminate]. inversion H; subst. discriminate.
  - destruct (wrap_all n l); simpl in H; [|discriminate]. inversion H; subst. discriminate.
Qed.

Lemma norm_axes_flags : forall shape II ax, norm_axes shape II = Ok ax ->
  Forall (fun a => snd a = true -> length (fst a) = 1) ax.
Proof.
  induction shape as [|n shape IH]; intros II ax H; cbn [norm_axes] in H.
  - inversion H; subst. constructor.
  - destruct II as [|ik II'].
    + destruct (norm_axis n (ISlice None None None)) as [a|] eqn:E1; simpl in H; [|discriminate].
      destruct (norm_axes shape []) as [r|] eqn:E2; simpl in H; [|discriminate].
      inversion H; subst. constructor; [|eapply IH; eauto].
      destruct a as [rs b]. simpl. intros Hb. eapply norm_axis_flag; eauto.
    + destruct (norm_axis n ik) as [a|] eqn:E1; simpl in H; [|discriminate].
      destruct (norm_axes shape II') as [r|] eqn:E2; simpl in H; [|discriminate].
      inversion H; subst. constructor; [|eapply IH; eauto].
      destruct a as [rs b]. simpl. intros Hb. eapply norm_axis_flag; eauto.
Qed.

(* dropping unit axes (np.squeeze) does not change the C-order position *)
Lemma ravel_keepb : forall (shape : list nat) flags idx acc,
  length shape = length flags ->
  (forall k, nth k flags false = true -> nth k shape 0 = 1) ->
  length idx = length (filter negb flags) ->
  ravel_aux acc (keepb shape flags) idx = ravel_aux acc shape (unsqb flags idx).
Proof.
  induction shape as [|n shape IH]; intros [|[|] fl] idx acc HL H1 HI; simpl in *; try discriminate; try reflexivity.
  - assert (n = 1) by (apply (H1 0); reflexivity). subst n.
    replace (acc * 1 + 0) with acc by lia.
    apply IH; [lia| |exact HI]. intros k Hk. apply (H1 (S k)). exact Hk.
  - destruct idx as [|i idx]; [discriminate|]. simpl.
    apply IH; [lia| |simpl in HI; lia]. intros k Hk. apply (H1 (S k)). exact Hk.
Qed.

Lemma all_lt_unsqb : forall (shape : list nat) flags idx,
  length shape = length flags ->
  (forall k, nth k flags false = true -> nth k shape 0 = 1) ->
  length idx = length (filter negb flags) ->
  all_lt idx (keepb shape flags) = true -> all_lt (unsqb flags idx) shape = true.
Proof.
  induction shape as [|n shape IH]; intros [|[|] fl] idx HL H1 HI HA; simpl in *; try discriminate; try reflexivity.
  - assert (n = 1) by (apply (H1 0); reflexivity). subst n. simpl.
    apply IH; [lia| |exact HI|exact HA]. intros k Hk. apply (H1 (S k)). exact Hk.
  - destruct idx as [|i idx]; [discriminate|]. simpl in *.
    apply andb_true_iff in HA. destruct HA as [Hi HA]. rewrite Hi. simpl.
    apply IH; [lia| |lia|exact HA]. intros k Hk. apply (H1 (S k)). exact Hk.
Qed.

Lemma unsqb_length : forall flags idx, length (unsqb flags idx) = length flags.
Proof.
  induction flags as [|[|] fl IH]; intros idx; simpl; [reflexivity|rewrite IH; reflexivity|].
  destruct idx; simpl; rewrite IH; reflexivity.
Qed.

(* TensorGenerator.__getitem__ for EVERY accepted index expression: the returned array has the shape
   of the axes not indexed by an int and holds, at C-order position ravel(shape, idx), exactly the
   wrapped entry at the selected positions *)
Lemma generator_getitem_full (R : Type) (shape : list nat) (f : list nat -> R) II ax sh data idx d :
  normalize_indices II shape = Ok ax ->
  Model.gen_getitem R shape f II = Ok (sh, data) ->
  length idx = length (filter negb (map snd ax)) -> all_lt idx sh = true ->
  sh = keepb (sel_shape ax) (map snd ax) /\
  nth (ravel sh idx) data d = f (sel_idx (sel_ranges ax) (unsqb (map snd ax) idx)).
Proof.
  intros HN HG HL Hlt.
  assert (Hfl : Forall (fun a => snd a = true -> length (fst a) = 1) ax).
  { unfold normalize_indices in HN. destruct (length shape <? length II); [discriminate|].
    eapply norm_axes_flags; eauto. }
  unfold Model.gen_getitem in HG. rewrite HN in HG. cbn [bind] in HG.
  inversion HG; subst sh data; clear HG.
  assert (Hss : length (sel_shape ax) = length ax) by (unfold sel_shape; apply map_length).
  assert (EK : pick (sel_shape ax) (remaining (length ax) (sel_singletons 0 ax)) 0
               = keepb (sel_shape ax) (map snd ax)).
  { rewrite <- Hss. rewrite <- (keep_is_pick 0 (sel_shape ax) (sel_singletons 0 ax)).
    apply keep_flags; [exact Hss|auto]. }
  rewrite EK in *. split; [reflexivity|].
  assert (H1 : forall k, nth k (map snd ax) false = true -> nth k (sel_shape ax) 0 = 1).
  { clear - Hfl. induction Hfl as [|a ax Ha Hfl IH]; intros [|k] Hk; simpl in *; try discriminate.
    - apply Ha. exact Hk.
    - apply IH. exact Hk. }
  assert (Esh : sel_shape ax = map (@length nat) (sel_ranges ax)).
  { unfold sel_shape, sel_ranges. rewrite map_map. reflexivity. }
  unfold ravel.
  rewrite (ravel_keepb (sel_shape ax) (map snd ax) idx 0) by (rewrite ?map_length; auto).
  assert (Hlt' : all_lt (unsqb (map snd ax) idx) (sel_shape ax) = true).
  { apply all_lt_unsqb; rewrite ?map_length; auto. }
  assert (Hlen : length (unsqb (map snd ax) idx) = length (sel_ranges ax)).
  { rewrite unsqb_length. unfold sel_ranges. rewrite !map_length. reflexivity. }
  rewrite Esh in *.
  assert (Hr : ravel_aux 0 (map (@length nat) (sel_ranges ax)) (unsqb (map snd ax) idx)
               < length (product (sel_ranges ax))).
  { rewrite product_length. apply ravel_aux_bound; [rewrite map_length; exact Hlen|exact Hlt']. }
  rewrite (nth_indep _ d (f [])) by (rewrite map_length; exact Hr).
  rewrite (map_nth f). f_equal. apply (nth_product (sel_ranges ax)); assumption.
Qed.

Section RingProofs4.
Variable R : Type.
Variables (rO rI : R) (radd rmul rsub : R -> R -> R) (ropp : R -> R).
Variable Rth : ring_theory rO rI radd rmul rsub ropp (@eq R).
Add Ring Rring4 : Rth.

Local Notation mat := (Model.mat R).
Local Notation full := (Model.full R).
Local Notation me := (Model.me R).
Local Notation mc := (Model.mc R).
Local Notation tprod := (Model.tprod R rO radd rmul).
Local Notation tentry := (Model.tentry R rO radd rmul).
Local Notation sumn_ext := (Proofs.sumn_ext R rO radd).
Local Notation tprod_ext := (Proofs.tprod_ext R rO radd rmul).
Local Notation rows := (fun (Xs : list mat) (rss : list (list nat)) =>
  map (fun p => Model.mat_rows R (fst p) (snd p)) (combine Xs rss)).

(* row selection U_k[I_k] of every factor (first half of TuckerTensor.__getitem__, tensor.py:1025) *)
Lemma tucker_rows_spec (Us : list mat) : forall rss (f : list nat -> R) idx,
  length rss = length Us -> length idx = length Us ->
  tprod (map Some (rows Us rss)) f idx = tprod (map Some Us) f (sel_idx rss idx).
Proof.
  unfold sel_idx.
  induction Us as [|U Us IH]; intros [|rs rss] f [|i idx] HL HI; simpl in *; try discriminate; [reflexivity|].
  apply sumn_ext. intros j _. f_equal. apply IH; lia.
Qed.

Lemma rows_core_ok (Us : list mat) X rss : length rss = length Us ->
  Proofs.core_ok R Us X -> Proofs.core_ok R (rows Us rss) X.
Proof.
  unfold Proofs.core_ok. intros HL H. rewrite H. clear H. revert rss HL.
  induction Us as [|U Us IH]; intros [|rs rss] HL; simpl in *; try discriminate; [reflexivity|].
  f_equal. apply IH. lia.
Qed.

Local Notation getitem := (Model.getitem R rO rI radd rmul).
Local Notation entry := (Model.entry R rO rI radd rmul).
Local Notation tucker_squeeze_spec := (Proofs2.tucker_squeeze_spec R rO rI radd rmul rsub ropp Rth).

(* TuckerTensor.__getitem__ in full, for every accepted index expression *)
Lemma tucker_getitem_spec (Us : list mat) X II ax t' idx' :
  Proofs.core_ok R Us X -> Us <> [] ->
  normalize_indices II (Model.tshape R Us) = Ok ax ->
  getitem (Model.TTucker R Us X) II = Ok t' ->
  length idx' = length (filter negb (map snd ax)) ->
  entry t' idx' = tentry Us X (sel_idx (sel_ranges ax) (unsqb (map snd ax) idx')).
Proof.
  intros HC Hne HN HG HL.
  destruct (normalize_indices_ok _ _ _ HN) as [_ [Hax _]].
  unfold Model.tshape in Hax. rewrite map_length in Hax.
  unfold Model.getitem in HG. cbn [Model.shape_of] in HG. rewrite HN in HG. cbn [bind] in HG.
  set (RU := rows Us (sel_ranges ax)) in *.
  assert (Hsel : length (sel_ranges ax) = length Us) by (unfold sel_ranges; rewrite map_length; lia).
  assert (HRl : length RU = length ax).
  { unfold RU. rewrite map_length, combine_length. lia. }
  assert (HRc : Proofs.core_ok R RU X) by (apply rows_core_ok; assumption).
  assert (Hfl : forall (A : Type) (Ys : list A), length Ys = length ax ->
                keep 0 Ys (sel_singletons 0 ax) = keepb Ys (map snd ax)).
  { intros A Ys HY. apply keep_flags; auto. }
  assert (Hun : forall idx, unsqueeze (length ax) (sel_singletons 0 ax) idx = unsqb (map snd ax) idx).
  { intros idx. unfold unsqueeze. apply unsq_flags. auto. }
  assert (Hcnt : (length (filter negb (map snd ax)) + length (filter (fun b => b) (map snd ax)) = length ax)%nat).
  { clear. induction ax as [|[r [|]] ax IH]; simpl; lia. }
  unfold Model.squeeze_axes in HG. cbn [Model.shape_of] in HG.
  destruct (negb (forallb _ (sel_singletons 0 ax))); [discriminate|].
  destruct (sel_singletons 0 ax) as [|s0 srest] eqn:ES.
  - inversion HG; subst t'. unfold Model.entry; simpl. unfold Model.tentry.
    assert (Z0 : filter (fun b => b) (map snd ax) = []).
    { pose proof (sel_length ax 0) as P. rewrite ES in P. simpl in P.
      destruct (filter (fun b => b) (map snd ax)); [reflexivity|discriminate]. }
    assert (Hi : length idx' = length ax) by (rewrite Z0 in Hcnt; simpl in Hcnt; lia).
    rewrite unsqb_all_false by (rewrite ?map_length; try exact Z0; lia).
    apply tucker_rows_spec; [exact Hsel|lia].
  - rewrite <- ES in *. clear s0 srest ES.
    assert (Hd : length (Model.tshape R RU) = length ax) by (unfold Model.tshape; rewrite map_length; exact HRl).
    rewrite Hd in HG.
    destruct (Nat.eqb_spec (length (sel_singletons 0 ax)) (length ax)) as [Eall|Enot].
    + inversion HG; subst t'. unfold Model.entry; simpl. unfold Model.zeros_idx, Model.tentry.
      rewrite sel_length in Eall.
      rewrite unsqb_all_true by (rewrite map_length; exact Eall). rewrite map_length.
      apply tucker_rows_spec; [exact Hsel|rewrite repeat_length; lia].
    + pose proof (tucker_squeeze_spec RU X (sel_singletons 0 ax) idx' HRc) as P.
      destruct (Model.tucker_squeeze_some R rO radd rmul RU X (sel_singletons 0 ax)) as [Us' X'] eqn:ET.
      inversion HG; subst t'. unfold Model.entry; simpl.
      rewrite P.
      * rewrite HRl, Hun. unfold Model.tentry. apply tucker_rows_spec; [exact Hsel|].
        rewrite unsqb_length, map_length. lia.
      * rewrite (Hfl _ RU HRl).
        pose proof (keepb_length RU (map snd ax)) as Q. rewrite map_length in Q. specialize (Q HRl). lia.
Qed.

End RingProofs4.
